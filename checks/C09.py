"""C09 — loaders fail cleanly on malformed or truncated files.

Theorems of coq/C09 (reader logic on arbitrary byte strings) + correspondence of the real loaders, run in child
processes under AddressSanitizer, against the extracted reader models on: every byte prefix of valid files written by
the library itself, token-level corruptions, malformed byte streams, CSV files and grid exchange files.
For the classes that have a model (Db, DbGrid, Table, Polygons, PolyElem, PolyLine2D, Faults, Rule, AnamHermite, the Neigh family,
Vario, Model, the CSV reader; AnamDiscreteDD / IR, AnamEmpirical, DbLine, MeshETurbo once their guards fixes/C09_19..22 are in) the outcome class
{fail, ok(object dump)} must equal the model's (the code as it is now); a file on which the implementation behaves as the reader
model BEFORE a fix is reported under the key of the old failure (regression); for every class a signal, a sanitizer report, an escaped
exception, a time-out, an allocation out of proportion with the file, or a returned object that cannot be printed / saved / reloaded
is a violation with the file as replay. The BMP reader has a model of its header / palette / pixel logic (coq/C09/Readers5.v); the text grid formats have none (generic rules).
"""
import sys, os, re, base64, tempfile, shutil, subprocess, time, resource
from concurrent.futures import ThreadPoolExecutor
sys.path.insert(0, os.path.dirname(__file__))
from common import *

CLS = {1: 'Db', 2: 'DbGrid', 3: 'Table', 4: 'Polygons', 5: 'Vario', 6: 'Model', 7: 'NeighMoving', 8: 'NeighUnique',
       9: 'NeighBench', 10: 'AnamHermite', 11: 'PolyLine2D', 12: 'MeshETurbo', 13: 'Rule', 14: 'Faults', 15: 'NeighImage',
       16: 'NeighCell', 17: 'AnamEmpirical', 18: 'AnamDiscreteDD', 19: 'AnamDiscreteIR', 20: 'DbLine', 21: 'PolyElem',
       30: 'CSV', 31: 'CSV:noheader', 32: 'CSV:skip1+rank', 33: 'CSV:semicolon', 34: 'CSV:maxima',
       40: 'GridZycor', 41: 'GridIfpEn', 42: 'GridF2G', 43: 'GridBmp'}
ENTRY = {30: 'Db::createFromCSV', 31: 'Db::createFromCSV', 32: 'Db::createFromCSV', 33: 'Db::createFromCSV', 34: 'Db::createFromCSV',
         40: 'db_grid_read_zycor', 41: 'db_grid_read_ifpen', 42: 'db_grid_read_f2g', 43: 'db_grid_read_bmp'}
TAGS = {1: b'Db', 2: b'DbGrid', 3: b'Table', 4: b'Polygon', 5: b'Vario', 6: b'Model', 7: b'NeighMoving', 8: b'NeighUnique',
        9: b'NeighBench', 10: b'AnamHermite', 11: b'PolyLine2D', 12: b'MeshETurbo', 13: b'Rule', 14: b'Faults', 15: b'NeighImage',
        16: b'NeighCell', 17: b'AnamEmpirical', 18: b'AnamDiscreteDD', 19: b'AnamDiscreteIR', 20: b'DbLine', 21: b'PolyElem'}
MODELLED = {1, 2, 3, 4, 11, 14, 21, 5, 6, 7, 8, 9, 10, 13, 15, 16, 30, 31, 32, 33, 34, 43}
# readers whose model (coq/C09/Readers4.v) is the reader WITH the guards of the proposed fixes/C09_19 .. C09_22: the class joins
# MODELLED when the implementation shows the guard on the probe file (it fails cleanly instead of throwing), else the generic
# rules apply to it (and report the unguarded count under its known key)
PENDING = {17: b'AnamEmpirical\n0 0 0 0 0 0 0 0 0 0\n-3\n0\n', 18: b'AnamDiscreteDD\n-3\n-3\n-3\n', 19: b'AnamDiscreteIR\n-3\n-3\n-3\n',
           20: b'DbLine\n2\n-3\n', 12: b'MeshETurbo\n-3\n-3\n-3\n'}
FULL_PREFIX = {1, 2, 3, 4, 11, 14, 21}     # quick tier: every byte prefix for these, line ends + a sample for the others
ONE_SIDED = {6}     # Model: the construction of covariances / drifts is an oracle of the model (it answers yes): an ok of the model may be a failure downstream
CAP = 256 << 20          # one allocation request above this is refused in the child (harness + ASan option) and in the model
BIGFUEL = 300000         # fuel of the second model run (the theorems use |f|+1)
ALLOC_A, ALLOC_B = 256, 1 << 20     # observed largest request must stay below ALLOC_A * |file| + ALLOC_B
ASAN = ('detect_leaks=0:abort_on_error=0:exitcode=86:allocator_may_return_null=1:alloc_dealloc_mismatch=0:'
        'max_allocation_size_mb=256:handle_abort=1:print_summary=1:malloc_context_size=4')

def entry(cls): return ENTRY.get(cls, CLS[cls] + '::createFromNF')

# model sites -> (function, kind of defect)
SITE = {100: 'Db::createFromCSV', 101: 'Db::createFromCSV', 110: 'db_grid_read_bmp', 62: 'AnamDiscrete::_deserialize', 64: 'AnamDiscrete::_deserialize', 65: 'AnamEmpirical::_deserialize',
        63: 'DbLine::_deserialize', 74: 'MeshETurbo::_deserialize', 50: 'value-loop', 51: 'Rule::_deserialize', 52: 'Rule::_deserialize', 61: 'AnamHermite::_deserialize', 71: 'ANeigh::_deserialize', 72: 'NeighMoving::_deserialize', 73: 'NeighImage::_deserialize',
        81: 'Vario::_deserialize', 82: 'Vario::_deserialize', 83: 'Vario::_deserialize', 84: 'Vario::_deserialize', 91: 'Model::_deserialize', 92: 'Model::_deserialize', 93: 'Model::_deserialize', 94: 'Model::_deserialize',
        1: '_recordRead', 11: '_recordReadVec<String>(locators)', 12: '_recordReadVec<String>(names)', 13: 'Db::_deserialize',
        14: '_recordReadVecInPlace', 15: 'Db::resetDims', 16: 'Db::setLocatorByUID', 17: 'Db::_loadData', 18: 'correctNewNameForDuplicates',
        21: 'DbGrid::_deserialize', 22: 'DbGrid::_deserialize', 23: 'DbGrid::_deserialize:Rotation', 31: 'Table::_deserialize', 32: 'Table::_deserialize',
        41: 'PolyLine2D::_deserialize', 42: '_recordReadVec<double>', 43: 'Polygons::_deserialize', 44: 'Faults::_deserialize'}
def model_key(o):
    """canonical key of a bad outcome predicted by the model of the code as it is now"""
    code = o[0]
    fn = SITE.get(o[-1], 'site%d' % o[-1])
    if code == 2 and o[2] == 16: return 'Db::_deserialize:locator-rank-used-as-size'
    if code == 2 and o[2] == 101: return 'Db::createFromCSV:locator-rank-used-as-size'
    if code == 3 and o[1] == 52: return 'Rule::_deserialize:crash-on-corrupted-field'
    if code == 3: return fn + ':store-out-of-bounds'
    if code == 2 and o[1] in (3, 4): return fn + ':crash-on-corrupted-field'
    if code == 2: return fn + ':count-from-file-unchecked'
    if code == 4: return fn + ':count-loop-without-input'
    return None

# classes whose failure comes from a reader they share: one key per root cause
FAMILY_COUNT = {7: 'ANeigh', 8: 'ANeigh', 9: 'ANeigh', 15: 'ANeigh', 16: 'ANeigh', 18: 'AnamDiscrete', 19: 'AnamDiscrete'}
FAMILY_SAVE = {11: 'PolyLine2D', 14: 'PolyLine2D', 21: 'PolyLine2D'}

# ----------------------------------------------------------------------------- children
def run_children(ctx, exe, tmpdir, cases, batch=48, workers=None):
    """cases: list of (cls, bytes). Returns list of impl outcomes (dict), one per case, crashes included."""
    workers = workers or min(NPROC, 16)
    env = dict(os.environ, ASAN_OPTIONS=ASAN)
    results = [None] * len(cases)
    def work(bi):
        idxs = list(range(bi, min(bi + batch, len(cases))))
        todo = idxs
        n = 0
        while todo:
            n += 1
            cf = os.path.join(tmpdir, 'b%d_%d.sx' % (bi, n)); of = cf + '.out'; ef = cf + '.err'
            with open(cf, 'w') as f:
                for i in todo: f.write(sx_str([1, cases[i][0], list(cases[i][1])]) + '\n')
            open(of, 'w').close()
            rc = None
            with open(ef, 'w') as fe:
                try:
                    r = subprocess.run([exe, cf, of, tmpdir], stdout=subprocess.DEVNULL, stderr=fe, env=env, timeout=20 + 6 * len(todo))
                    rc = r.returncode
                except subprocess.TimeoutExpired:
                    rc = 'wall-timeout'
            lines = [l for l in open(of).read().split('\n') if l.strip()]
            for k, l in enumerate(lines):
                if k < len(todo): results[todo[k]] = parse_impl(l)
            done = len(lines)
            if done >= len(todo):
                break
            if done > 0 and lines[done - 1].startswith('(-3'):
                todo = todo[done:]          # the child ended itself after a time-out: the next case has not run yet
            else:
                # the case todo[done] ended the child without a result line
                err = open(ef, errors='replace').read()
                results[todo[done]] = crash_outcome(rc, err)
                todo = todo[done + 1:]
            for p in (cf, of, ef):
                try: os.remove(p)
                except OSError: pass
        return bi
    with ThreadPoolExecutor(max_workers=workers) as ex:
        list(ex.map(work, range(0, len(cases), batch)))
    return results

def parse_impl(line):
    r = sx_parse(line)
    if r[0] == -3: return {'kind': 'timeout'}
    if r[0] == -997: return {'kind': 'harness-error'}
    status, kind, dump, flags, maxreq, tot = r
    if status == 0: return {'kind': 'fail', 'maxreq': maxreq}
    if status == 2: return {'kind': 'throw', 'what': {1: 'bad_alloc', 2: 'length_error', 3: 'exception', 4: 'unknown-exception'}.get(kind, '?'), 'code': kind, 'maxreq': maxreq}
    return {'kind': 'ok', 'dump': dump, 'flags': flags, 'maxreq': maxreq}

def crash_outcome(rc, err):
    if rc == 'wall-timeout': return {'kind': 'timeout'}
    m = re.search(r'ERROR: AddressSanitizer: ([A-Za-z0-9_-]+)', err)
    what = m.group(1) if m else ('signal-%s' % (-rc) if isinstance(rc, int) and rc < 0 else 'exit-%s' % rc)
    if 'Assertion' in err and what == 'ABRT': what = 'assertion'
    if 'terminate called' in err: what = 'terminate'
    # first frame inside the library sources
    where = ''
    for fm in re.finditer(r'#\d+ 0x[0-9a-f]+ in (.+?) (/[^\s:]+):(\d+)', err):
        fn, path = fm.group(1), fm.group(2)
        if ('/src/' in path or '/include/' in path) and not path.startswith('/usr/') and '/harness/' not in path:
            fn = re.sub(r'\(.*', '', fn); fn = re.sub(r'<.*', '', fn).split(' ')[-1]
            where = fn; break
    summ = re.search(r'SUMMARY: AddressSanitizer: (.*)', err)
    return {'kind': 'crash', 'what': what, 'where': where, 'summary': (summ.group(1)[:300] if summ else err[-400:])}

# ----------------------------------------------------------------------------- comparison
def num_close(a, b):
    """a: impl dyadic or (); b: model (num den) or ()"""
    x = undy(a) if a != [] else None
    y = unq(b) if b != [] else None
    if y is not None and Fraction(10) ** 30 < y < Fraction(13, 10) * Fraction(10) ** 30: y = None    # TEST reads as NA
    if x is None or y is None: return x is None and y is None
    return abs(x - y) <= Fraction(1, 10 ** 12) * (1 + abs(y))
def nums_close(a, b): return len(a) == len(b) and all(num_close(x, y) for x, y in zip(a, b))

def dump_equal(cls, di, dm):
    try:
        if cls == 1 or 30 <= cls <= 34:
            return di[0] == dm[0] and di[1] == dm[1] and di[2] == dm[2] and di[3] == dm[3] and di[4] == dm[4] and nums_close(di[5], dm[5])
        if cls == 2:
            gi, gm = di[0], dm[0]
            return (gi[0] == gm[0] and gi[1] == gm[1] and nums_close(gi[2], gm[2]) and nums_close(gi[3], gm[3]) and nums_close(gi[4], gm[4])
                    and dump_equal(1, di[1], dm[1]))
        if cls == 3: return di[0] == dm[0] and di[1] == dm[1] and nums_close(di[2], dm[2])
        if cls == 4: return len(di) == len(dm) and all(dump_equal(21, a, b) for a, b in zip(di, dm))
        if cls == 21: return num_close(di[0], dm[0]) and num_close(di[1], dm[1]) and nums_close(di[2], dm[2]) and nums_close(di[3], dm[3])
        if cls == 11: return nums_close(di[0], dm[0]) and nums_close(di[1], dm[1])
        if cls == 14: return len(di) == len(dm) and all(dump_equal(11, a, b) for a, b in zip(di, dm))
        if cls == 13: return di[0] == dm[0] and num_close(di[1], dm[1])
        if cls == 10: return di[0] == dm[0] and num_close(di[2], dm[2])     # the coefficients returned by getPsiHns depend on r (point -> block): not compared
        if cls in (8, 16, 7, 6, 15): return list(di) == list(dm)
        if cls == 43:
            # impl: dump of the DbGrid; model: (nx0 nx1 dx0 dx1 (values)), -1 = a value the model does not predict
            g, db = di
            vals = dm[4]
            nech = dm[0] * dm[1]
            img = db[5][-nech:]          # DbGrid::reset adds the rank and the two coordinates: the image is the last of the 4 columns
            return (g[0] == 2 and list(g[1]) == [dm[0], dm[1]] and nums_close(g[3], [dm[2], dm[3]]) and db[0] == 4 and db[1] == nech
                    and len(db[5]) == 4 * nech and len(vals) == nech and all(v < 0 or (a != [] and undy(a) == v) for a, v in zip(img, vals)))
        if cls == 12: return di[0] == dm[0] and list(di[1]) == list(dm[1]) and di[2] == dm[2] and di[3] == dm[3]
        if cls == 9: return di[0] == dm[0] and num_close(di[1], dm[1])
        if cls == 5: return di[0] == dm[0] and di[1] == dm[1] and di[2] == dm[2] and di[3] == dm[3] and di[4] == dm[4]
        if cls in (18, 19):
            return (di[0] == dm[0] and di[1] == dm[1] and nums_close(di[2], dm[2]) and nums_close(di[3], dm[3])
                    and all(num_close(a, b) for a, b in zip(di[4:], dm[4:])) and len(di) == len(dm))
        if cls == 17: return di[0] == dm[0] and num_close(di[1], dm[1]) and nums_close(di[2], dm[2]) and nums_close(di[3], dm[3])
        if cls == 20: return [list(x) for x in di[0]] == [list(x) for x in dm[0]] and dump_equal(1, di[1], dm[1])
    except (IndexError, TypeError):
        return False
    return False

def matches(cls, oi, om):
    """impl outcome oi against one model outcome om"""
    code = om[0]
    if code == 0: return oi['kind'] == 'fail' or (cls in ONE_SIDED and oi['kind'] == 'throw' and oi['code'] == 3)
    if code == 1:
        if cls in ONE_SIDED and (oi['kind'] == 'fail' or (oi['kind'] == 'throw' and oi['code'] == 3)): return True
        if cls in (13, 5) and not om[3]: return oi['kind'] in ('ok', 'crash')     # a Rule whose tree is not complete, a Vario whose directions and results do not match: using it may crash
        return oi['kind'] == 'ok' and dump_equal(cls, oi['dump'], om[1])
    if code == 2:
        if om[1] == 3: return oi['kind'] == 'crash' and oi['what'] in ('assertion', 'ABRT', 'exit-1')
        if om[1] == 4: return oi['kind'] == 'throw' and oi['code'] == 3
        return oi['kind'] == 'throw' and oi['code'] == om[1]
    if code == 3: return oi['kind'] == 'crash' and oi['what'] not in ('assertion', 'ABRT', 'terminate')
    if code == 4: return oi['kind'] == 'timeout' or (oi['kind'] == 'throw' and oi['code'] == 1)
    return False

def short(o):
    if o is None: return None
    d = dict(o)
    if 'dump' in d: d['dump'] = sx_str(d['dump'])[:400]
    return d
def short_m(om):
    return sx_str(om)[:400]

def replay_of(cls, data, oi, om=None, note=''):
    r = {'class': CLS[cls], 'entry_point': entry(cls), 'file_b64': base64.b64encode(data).decode(), 'file_text': data.decode('latin1')[:2000],
         'file_length': len(data), 'impl': short(oi), 'how': 'write file_b64 to a file and call the entry point on it (harness/C09.cpp, case "(1 %d (bytes...))") under AddressSanitizer' % cls}
    if om is not None: r['model [code as it is now, fuel |f|+1; same, large fuel; reader before the fixes; (CSV) reader with the proposed fixes/C09_18]'] = [short_m(x) for x in om]
    if note: r['note'] = note
    return r

# ----------------------------------------------------------------------------- generators
INT_SUBST = [b'0', b'-1', b'-5', b'99999999999', b'2147483647', b'65536', b'NA', b'abc', b'1e', b'-', b'7x', b'3.5', b'+', b'#']
FLT_SUBST = [b'NA', b'abc', b'1e999', b'-', b'1.2.3', b'nan', b'-1e-999', b'.', b'1e+', b'0x10', b'1,5']
LOC_SUBST = [b'x3', b'z2000000000', b'sel2', b'NA', b'x0', b'X1', b'x-1', b'code5', b'zz', b'f99', b'x4294967297', b'rklow2']

def prefixes(rng, data, quick, modelled=True):
    n = len(data)
    if quick and not modelled and n > 90:
        # classes without a model: the generic rules only; line ends and a sample
        keep = set(range(0, 12)) | {n - 1, n - 2}
        for m in re.finditer(rb'\n', data):
            keep.add(m.start()); keep.add(min(n - 1, m.start() + 1))
        for _ in range(40): keep.add(rng.randrange(n))
        if len(keep) > 90: keep = set(rng.sample(sorted(keep), 90))
        return sorted(keep)
    if n <= (260 if quick else 3000): return list(range(n))
    keep = set(range(0, 64)) | set(range(n - 24, n))
    for m in re.finditer(rb'\n', data):
        for d in (-2, -1, 0, 1, 2):
            if 0 <= m.start() + d < n: keep.add(m.start() + d)
    extra = 60 if quick else 1200
    for _ in range(extra): keep.add(rng.randrange(n))
    if quick and len(keep) > 220:
        keep = set(rng.sample(sorted(keep), 220))
    return sorted(keep)

def corruptions(rng, cls, data, quick):
    """token-level and line-level corruptions of one valid file: list of (label, bytes)"""
    out = []
    toks = [(m.start(), m.end()) for m in re.finditer(rb'\S+', data)]
    def sub(a, b, w): return data[:a] + w + data[b:]
    ints = [(a, b) for a, b in toks if re.fullmatch(rb'-?\d+', data[a:b])]
    flts = [(a, b) for a, b in toks if re.fullmatch(rb'-?\d*\.\d+(e[-+]?\d+)?', data[a:b])]
    # count fields are the integers followed by a '#' comment on the same line (and the first integers of the file)
    counts = [(a, b) for a, b in ints if re.match(rb'[ \t]*#', data[b:b + 4])] or ints[:6]
    others = [t for t in ints if t not in counts]
    pick_c = counts if not quick else counts[:10]
    for k, (a, b) in enumerate(pick_c):
        v = int(data[a:b])
        for w in [str(v + 1).encode(), str(v - 1).encode()] + INT_SUBST:
            # huge counts may cost a 5 s time-out each: in the quick tier only on the first three count fields
            if quick and w in (b'99999999999', b'2147483647') and (k >= 3 or (w == b'2147483647' and k >= 1)): continue
            out.append(('count:' + w.decode(), sub(a, b, w)))
    # the first plain integers of a file are dimensions more often than values: always corrupted, the rest is sampled
    for k, (a, b) in enumerate(others[:8]):
        v = int(data[a:b])
        for w in [b'-1', b'0', b'NA', b'abc', str(v + 1).encode()] + ([b'99999999999'] if k < 2 else []):
            out.append(('int:' + w.decode(), sub(a, b, w)))
    others = others[8:]
    for a, b in rng.sample(others, min(len(others), 4 if quick else 30)):
        for w in rng.sample(INT_SUBST, 4 if quick else len(INT_SUBST)):
            out.append(('int:' + w.decode(), sub(a, b, w)))
    for a, b in rng.sample(flts, min(len(flts), 3 if quick else 20)):
        for w in rng.sample(FLT_SUBST, 4 if quick else len(FLT_SUBST)):
            out.append(('float:' + w.decode(), sub(a, b, w)))
    # lines: delete, duplicate, append a token, drop the last token, swap neighbours
    lines = data.split(b'\n')
    idx = list(range(1, len(lines)))
    for i in (rng.sample(idx, min(len(idx), 8)) if quick else idx):
        out.append(('line-deleted', b'\n'.join(lines[:i] + lines[i + 1:])))
        out.append(('line-duplicated', b'\n'.join(lines[:i + 1] + lines[i:])))
        if lines[i].strip() and not lines[i].lstrip().startswith(b'#'):
            out.append(('token-appended', b'\n'.join(lines[:i] + [lines[i].rstrip() + b' 7 '] + lines[i + 1:])))
            ws = lines[i].split()
            out.append(('token-dropped', b'\n'.join(lines[:i] + [b' '.join(ws[:-1])] + lines[i + 1:])))
        if i + 1 < len(lines): out.append(('lines-swapped', b'\n'.join(lines[:i] + [lines[i + 1], lines[i]] + lines[i + 2:])))
    # locator words of the Db part
    if cls in (1, 2, 20):
        m = re.search(rb'# Locators\n([^\n]*)\n', data)
        if m:
            ws = [(m.start(1) + w.start(), m.start(1) + w.end()) for w in re.finditer(rb'\S+', m.group(1))]
            for a, b in ws[:3]:
                for w in (LOC_SUBST if not quick else LOC_SUBST[:6] + [b'x4294967297']):
                    out.append(('locator:' + w.decode(), sub(a, b, w)))
            m2 = re.search(rb'# Names\n([^\n]*)\n', data)
            if m2 and len(m2.group(1).split()) >= 2:
                w0 = m2.group(1).split()[0]
                out.append(('names-all-equal', data[:m2.start(1)] + b' '.join([w0] * len(m2.group(1).split())) + b' ' + data[m2.end(1):]))
    if cls == 6 and b'Drift:x1' in data:
        out.append(('drift:x', data.replace(b'Drift:x1', b'Drift:x', 1)))
        out.append(('drift:x0', data.replace(b'Drift:x1', b'Drift:x0', 1)))
    # class tag
    tag = TAGS.get(cls)
    if tag:
        for w in (b'', tag.lower(), tag + b'x', b'Db' if tag != b'Db' else b'Table', tag[:-1]):
            out.append(('wrong-tag', w + data[len(tag):]))
        out.append(('tag-only', tag)); out.append(('tag-newline', tag + b'\n')); out.append(('tag-count-only', tag + b'\n99999999999\n'))
        out.append(('tag-negative', tag + b'\n-3\n-3\n-3\n')); out.append(('tag-huge-twice', tag + b'\n70000 # c\n70000 # d\n'))
    # bytes
    out.append(('crlf', data.replace(b'\n', b'\r\n'))); out.append(('cr-only', data.replace(b'\n', b'\r')))
    out.append(('no-newlines', data.replace(b'\n', b' '))); out.append(('tabs', data.replace(b' ', b'\t')))
    out.append(('trailing-garbage', data + b'\x00\xff 12 abc\n')); out.append(('doubled', data + data))
    for _ in range(6 if quick else 60):
        k = rng.randrange(len(data)); out.append(('byte-flip', data[:k] + bytes([rng.randrange(256)]) + data[k + 1:]))
        k = rng.randrange(len(data)); out.append(('byte-inserted', data[:k] + bytes([rng.choice([0, 9, 10, 13, 32, 35, 45, 255, 48, 57])]) + data[k:]))
    return out

def byte_streams(rng, cls, n):
    tag = TAGS.get(cls, b'')
    out = []
    for i in range(n):
        ln = rng.choice([0, 1, 3, 10, 40, 200])
        kind = i % 4
        if kind == 0: body = bytes(rng.randrange(256) for _ in range(ln))
        elif kind == 1: body = bytes(rng.choice(b'0123456789 \n\n-+.e#NA') for _ in range(ln))
        elif kind == 2: body = b' '.join(rng.choice([b'1', b'2', b'0', b'3', b'NA', b'#', b'x1', b'-1', b'1.5', b'\n', b'\n']) for _ in range(ln))
        else: body = bytes(rng.choice(b' \t\r\n\x0b\x0c#') for _ in range(ln))
        out.append(('byte-stream', (tag + b'\n' if i % 5 else b'') + body))
    return out

CSV_SEEDS = [
    b'x,y,z\n1,2,3\n4,5,6\n7,8,9\n',
    b'"east","north","grade"\n1.5,2,3\n4,NA,6\n',
    b'a;b\n1,5;2\n3;4,25\n',
    b'1,2\n3,4\n',
    b'x3\n1\n2\n',              # a single column named as the third coordinate
    b'z2,x1,x1\n1,2,3\n4,5,6\n',
]
def csv_cases(rng, quick):
    out = []
    for s in CSV_SEEDS:
        vs = [s, s.replace(b'\n', b'\r\n'), s[:-1], s + b'\n\n', s.replace(b'\n', b',\n'), s.replace(b',', b',,', 1)]
        lines = s.split(b'\n')
        vs.append(b'\n'.join([lines[0], lines[1] + b',99,100'] + lines[2:]))          # ragged: longer row
        vs.append(b'\n'.join([lines[0], lines[1].rsplit(b',', 1)[0]] + lines[2:]))    # ragged: shorter row
        vs.append(b'\n'.join([lines[0] + b',extra,more'] + lines[1:]))                # more names than values
        vs.append(b'\n'.join([lines[0].split(b',')[0]] + lines[1:]))                  # fewer names than values
        vs.append(s.replace(b'1', b'abc', 1)); vs.append(s.replace(b'2', b'1e999', 1)); vs.append(s.replace(b'3', b'9' * 400, 1))
        vs.append(lines[0] + b'\n'); vs.append(b''); vs.append(b'\n\n\n'); vs.append(b',,,\n,,,\n'); vs.append(b'\xef\xbb\xbf' + s)
        vs.append(s + b'x' * 5000 + b'\n'); vs.append(b','.join([b'c%d' % i for i in range(300)]) + b'\n' + b','.join([b'1'] * 300) + b'\n')
        for v in vs:
            for p in ([len(v)] if quick else range(0, len(v) + 1, max(1, len(v) // 12))):
                for variant in range(5):
                    out.append((30 + variant, 'csv', v[:p]))
        for p in range(len(s)):
            out.append((30 + rng.randrange(5), 'csv-prefix', s[:p]))
    # a rank taken from a column name and used as a size (setLocatorByUID pads the list of the role up to the rank)
    for hdr in (b'x2000000000', b'a,z2000000000', b'x70000000,y'):
        ncol = hdr.count(b',') + 1
        body = hdr + b'\n' + b','.join([b'1'] * ncol) + b'\n' + b','.join([b'2'] * ncol) + b'\n'
        for variant in (0, 2, 4): out.append((30 + variant, 'csv-rank', body))
    for i in range(20 if quick else 300):
        out.append((30 + i % 5, 'csv-bytes', bytes(rng.choice(b'0123456789,;.\n\n"-eNA x') for _ in range(rng.choice([5, 30, 120])))))
    return out

# field-aware corruptions of the binary format: every field of the two BMP headers set to each value of a boundary list, the depth
# and the number of colours crossed; bases: the 24-bit file of the library, an 8-bit indexed image with its palette (colours used
# declared / left to 0 as drawing software does), a 32-bit image
BMP_FIELDS = [('type', 0, 2), ('file-size', 2, 4), ('reserved', 6, 4), ('offset', 10, 4), ('info-size', 14, 4), ('width', 18, 4), ('height', 22, 4),
              ('planes', 26, 2), ('bits', 28, 2), ('compression', 30, 4), ('image-size', 34, 4), ('xppm', 38, 4), ('yppm', 42, 4),
              ('colours-used', 46, 4), ('colours-important', 50, 4)]
BMP_BOUND = [-1, 0, 1, 2, 3, 8, 255, 256, 257, 65535, 65536, 2 ** 31 - 1, -2 ** 31]
BMP_BITS = [1, 4, 8, 9, 12, 15, 16, 23, 24, 32]
BMP_COLOURS = [-1, 0, 1, 255, 256, 257, 65536]
def bmp_put(data, off, size, v):
    if len(data) < off + size: return data
    return data[:off] + (v & (2 ** (8 * size) - 1)).to_bytes(size, 'little') + data[off + size:]
def bmp_make(w, h, bits, used, npal):
    rowb = (w * bits + 7) // 8; pad = (4 - rowb % 4) % 4
    pal = b''.join(bytes([i % 256, (2 * i) % 256, (3 * i) % 256, 0]) for i in range(npal))
    pix = b''.join(bytes((7 * (x + y * w * 3) + 1) % 251 for x in range(rowb)) + b'\0' * pad for y in range(h))
    off = 54 + len(pal)
    hdr = b'BM' + (off + len(pix)).to_bytes(4, 'little') + b'\0' * 4 + off.to_bytes(4, 'little')
    info = (40).to_bytes(4, 'little') + w.to_bytes(4, 'little') + h.to_bytes(4, 'little') + (1).to_bytes(2, 'little') + bits.to_bytes(2, 'little') + \
           (0).to_bytes(4, 'little') + len(pix).to_bytes(4, 'little') + (2835).to_bytes(4, 'little') * 2 + used.to_bytes(4, 'little') + (0).to_bytes(4, 'little')
    return hdr + info + pal + pix
def bmp_cases(lib_files):
    out = []
    bases = list(lib_files) + [bmp_make(5, 4, 8, 256, 256), bmp_make(5, 4, 8, 0, 256), bmp_make(5, 4, 8, 16, 16), bmp_make(3, 2, 32, 0, 0), bmp_make(4, 3, 24, 0, 0), bmp_make(4, 3, 16, 0, 0)]
    for b in bases:
        out.append((43, 'field:base', b))
        for name, off, size in BMP_FIELDS:
            for v in BMP_BOUND: out.append((43, 'field:' + name, bmp_put(b, off, size, v)))
        for bits in BMP_BITS:
            for used in BMP_COLOURS: out.append((43, 'field:bits+colours', bmp_put(bmp_put(b, 28, 2, bits), 46, 4, used)))
        for w in (0, 1, 3, 65536):
            for h in (-1, 0, 1, 65536): out.append((43, 'field:width+height', bmp_put(bmp_put(b, 18, 4, w), 22, 4, h)))
    return out
# the text formats: each numeric token of the header lines set to each value of a boundary list
TXT_BOUND = [b'-1', b'0', b'1', b'2', b'255', b'256', b'257', b'65536', b'99999999', b'2147483647', b'-2147483648', b'1e30', b'-1e30', b'0.5', b'NA', b'abc', b'']
def header_field_cases(cls, data, nlines=14, ntok=48):
    out = []
    lines = data.split(b'\n')
    head = b'\n'.join(lines[:nlines])
    toks = [m.span() for m in re.finditer(rb'(?<![A-Za-z_])[-+]?\d+(?:\.\d*)?(?:[eE][-+]?\d+)?', head)][:ntok]
    for a, b in toks:
        for v in TXT_BOUND: out.append((cls, 'field:header', data[:a] + v + data[b:]))
    return out

# ----------------------------------------------------------------------------- main
PHASES = {}
def timed(name, f, *a, **k):
    t = time.time(); r = f(*a, **k); PHASES[name] = round(PHASES.get(name, 0) + time.time() - t, 1); return r

def ncores():
    try: return len(os.sched_getaffinity(0))
    except (AttributeError, OSError): return NPROC

def run(ctx):
    quick = ctx.quick()
    if not os.path.exists(os.path.join(BUILD, 'asan', 'Verif', 'libgstlearn.so')):
        ctx.log('the AddressSanitizer build of the library is missing (bin/setup.sh builds it with bin/buildlib.sh asan): building it now, ~900 CPU-s')
        ctx.notes.append('ASan library built inside the check (not prebuilt by setup)')
    timed('build_asan_lib', build_lib, ctx, 'asan')      # no-op after bin/setup.sh (same script, same directory $VERIF_BUILD/asan)
    proofs_ok = timed('coq_properties', coq_properties, ctx)
    runner = timed('build_model_runner', build_runner, ctx)
    exe = timed('build_harness', build_harness, ctx, 'C09', flavor='asan')
    if runner is None or exe is None:
        print('ERROR: model runner or harness does not build'); sys.exit(3)
    ctx.log('phases so far (s): %s' % PHASES)
    rng = ctx.rng
    os.makedirs(os.path.join(BUILD, 'tmp'), exist_ok=True)
    tmpdir = tempfile.mkdtemp(prefix='C09_', dir=os.path.join(BUILD, 'tmp'))
    try:
        check(ctx, quick, rng, runner, exe, tmpdir, proofs_ok)
    finally:
        shutil.rmtree(tmpdir, ignore_errors=True)
        ctx.cov['phase_wall_s'] = dict(PHASES)

def coq_witnesses():
    out = []
    txt = open(os.path.join(VERIF, 'coq', 'C09', 'Witness.v')).read()
    tag2cls = {v: k for k, v in TAGS.items()}
    for m in re.finditer(r'Definition (\w+) : list Z := \[([^\]]*)\]\.', txt):
        data = bytes(int(x) for x in m.group(2).split(';') if x.strip())
        tag = data.split(b'\n')[0].strip()
        if tag in tag2cls: out.append((m.group(1), tag2cls[tag], data))
    return out

def make_corpus(ctx, exe, tmpdir):
    cf = os.path.join(tmpdir, 'gen.sx'); of = cf + '.out'
    open(cf, 'w').write('(0)\n'); open(of, 'w').close()
    r = subprocess.run([exe, cf, of, tmpdir], stdout=subprocess.DEVNULL, stderr=subprocess.PIPE, env=dict(os.environ, ASAN_OPTIONS=ASAN), timeout=300)
    txt = open(of).read().strip()
    if r.returncode != 0 or not txt:
        print('ERROR: the library could not write the corpus of valid files (rc %s): %s' % (r.returncode, r.stderr.decode(errors='replace')[-1500:])); sys.exit(3)
    return [(c, bytes(b)) for c, b in sx_parse(txt)]

def check(ctx, quick, rng, runner, exe, tmpdir, proofs_ok):
    corpus = make_corpus(ctx, exe, tmpdir)
    # which of the readers of PENDING show their guard: those are compared with their model, the others follow the generic rules
    global MODELLED
    pcls = sorted(PENDING)
    pres = run_children(ctx, exe, tmpdir, [(c, PENDING[c]) for c in pcls], batch=1)
    guarded = sorted(c for c, o in zip(pcls, pres) if o and o['kind'] == 'fail')
    MODELLED = (MODELLED - set(PENDING)) | set(guarded)
    ctx.cov['guards_of_proposed_fixes_present'] = {CLS[c]: (c in guarded) for c in pcls}
    ctx.log('guards of fixes/C09_19..22 present in the implementation: %s' % ({CLS[c]: (c in guarded) for c in pcls}))
    if guarded and len(guarded) < len(pcls):
        ctx.notes.append('only some of the guards of fixes/C09_19..22 are present: %s' % [CLS[c] for c in guarded])
    ctx.log('corpus: %d valid files written by the library (%s)' % (len(corpus), ', '.join(sorted(set(CLS[c] for c, _ in corpus)))))
    cases = []     # (cls, label, bytes)
    # the files of the Coq refutations (coq/C09/Witness.v) and the valid files of the non-vacuity examples, always first
    for name, cls, data in coq_witnesses():
        cases.append((cls, 'coq-witness:' + name, data))
    # the same files kept as a regression corpus (corpus/C09_regression.tsv): the files that broke the readers before each fix;
    # the reader models before the fixes still fail on them, so a reverted fix shows under its old key
    tag2cls = {v: k for k, v in TAGS.items()}
    rp = os.path.join(VERIF, 'corpus', 'C09_regression.tsv')
    if os.path.exists(rp):
        for line in open(rp):
            if line.startswith('#') or not line.strip(): continue
            name, first, b64 = line.rstrip('\n').split('\t')
            data = base64.b64decode(b64)
            if first.encode('latin1') in tag2cls: cases.append((tag2cls[first.encode('latin1')], 'regression-corpus:' + name, data))
            else:
                for variant in (0, 2, 4): cases.append((30 + variant, 'regression-corpus:' + name, data))
    for cls, data in corpus:
        cases.append((cls, 'valid', data))
        for p in prefixes(rng, data, quick, cls in FULL_PREFIX): cases.append((cls, 'prefix', data[:p]))
        if cls < 40:
            for lab, d in corruptions(rng, cls, data, quick): cases.append((cls, lab, d))
        else:
            for _ in range(40 if quick else 400):
                k = rng.randrange(len(data)); cases.append((cls, 'byte-flip', data[:k] + bytes([rng.randrange(256)]) + data[k + 1:]))
            if cls == 43:   # binary header of a BMP: every byte of it, three values
                for k in range(min(54, len(data))):
                    for v in (0, 127, 255):
                        cases.append((cls, 'header-byte', data[:k] + bytes([v]) + data[k + 1:]))
            lines = data.split(b'\n')
            if cls != 43:
                # header fields merged or split: each comma of the first lines deleted / replaced by a digit
                head = b'\n'.join(lines[:12])
                for k in [m.start() for m in re.finditer(rb',', head)][:60]:
                    cases.append((cls, 'separator', data[:k] + data[k + 1:]))
                    cases.append((cls, 'separator', data[:k + 1] + b'2' + data[k + 1:]))
            for i in range(len(lines)):
                cases.append((cls, 'line-deleted', b'\n'.join(lines[:i] + lines[i + 1:])))
                for w in (b'-1', b'0', b'1', b'99999999', b'NA', b'abc'):
                    cases.append((cls, 'number:' + w.decode(), b'\n'.join(lines[:i] + [re.sub(rb'\d+', w, lines[i], count=1)] + lines[i + 1:])))
                    cases.append((cls, 'number:' + w.decode(), b'\n'.join(lines[:i] + [re.sub(rb'(\d+)(\D*)$', w.replace(b'\\', b'') + rb'\2', lines[i], count=1)] + lines[i + 1:])))
    for cls in sorted(set(c for c, _ in corpus if c < 30)):
        for lab, d in byte_streams(rng, cls, 12 if quick else 200): cases.append((cls, lab, d))
    # field-aware corruptions of the grid exchange formats (small files: always run, under ASan)
    cases += bmp_cases([d for c, d in corpus if c == 43])
    for cls, data in corpus:
        if cls in (40, 41, 42): cases += header_field_cases(cls, data)
    # MeshETurbo with masks (the library writes none for a complete grid): ranks inside / outside the grid, array and map storage,
    # a grid out of proportion with the file
    def turbo(nx, mode, mesh, grid):
        t = 'MeshETurbo\n2 # Space Dimension\n# NX\n%s \n# DX\n1 1 \n# X0\n0 0 \n# Rotation\n1 0 0 1 \n0 # Polarization\n%d # Storing Mode\n' % (nx, mode)
        for lab, ranks in (('Mesh', mesh), ('Grid', grid)):
            t += '%d # %s Active Count\n%d # %s Masking Count\n' % (len(ranks) if ranks else 12, lab, 1 if ranks else 0, lab)
            if ranks: t += '# %s Masking\n%s \n' % (lab, ' '.join(str(r) for r in ranks))
        return t.encode()
    for mode in (0, 1):
        for nx, mesh, grid in (('3 4', [0, 5, 11], []), ('3 4', [], [0, 11]), ('3 4', [0, 5000], []), ('3 4', [-1], []), ('3 4', [], [12]), ('3 4', [], [-7]),
                               ('30000 30000', [0, 7], []), ('30000 30000', [], [3]), ('70000 70000', [1], []), ('3 4', [0, 1, 2, 3] * 5, [])):
            cases.append((12, 'mask', turbo(nx, mode, mesh, grid)))
    cases += csv_cases(rng, quick)
    # the model materialises lists: keep counts either small or far above the cap (mid-range counts are regenerated as huge)
    def tame(d):
        return re.sub(rb'(?<![\d.])([1-9]\d{6,8})(?![\d.])', lambda m: m.group(1) + b'00000', d)
    cases = [(c, lab, tame(d) if c in MODELLED else d) for c, lab, d in cases]
    # de-duplicate
    seen = set(); uniq = []
    for c in cases:
        k = (c[0], c[2])
        if k not in seen: seen.add(k); uniq.append(c)
    cases = uniq
    for c, lab, d in cases: ctx.dist(CLS[c].split(':')[0] + '/' + lab.split(':')[0])
    ctx.log('%d distinct cases' % len(cases))

    # ---- the loads, under a wall-clock budget: directed cases first (witnesses, count / locator / tag corruptions, valid files),
    # then prefixes, byte-level corruptions and byte streams, chunk after chunk while the budget lasts
    t0 = time.time()
    budget = float(os.environ.get('C09_BUDGET_S', '75' if quick else '600'))
    UNDIRECTED = ('prefix', 'byte-flip', 'byte-inserted', 'byte-stream', 'csv-prefix', 'csv-bytes', 'header-byte', 'line-deleted', 'line-duplicated', 'lines-swapped')
    tier0 = [i for i, c in enumerate(cases) if c[1].split(':')[0] not in UNDIRECTED]
    tier1 = [i for i, c in enumerate(cases) if c[1].split(':')[0] in UNDIRECTED]
    rng.shuffle(tier0); rng.shuffle(tier1)
    order = tier0 + tier1
    workers = max(1, min(ncores(), 16))
    chunk = 32 * workers * 2
    impl = [None] * len(cases)
    done = 0
    r0 = resource.getrusage(resource.RUSAGE_CHILDREN)
    while done < len(order):
        # the directed tier is always run; the rest only while the budget lasts
        if done >= len(tier0) and time.time() - t0 > budget: break
        idx = order[done:done + chunk]
        res = run_children(ctx, exe, tmpdir, [(cases[i][0], cases[i][2]) for i in idx], batch=32, workers=workers)
        for i, o in zip(idx, res): impl[i] = o
        done += len(idx)
    skipped = len(order) - done
    # a time-out must be reproducible: each one is run a second time, alone; a case that then answers is only 'slow'
    tmo = [i for i, o in enumerate(impl) if o and o['kind'] == 'timeout']
    if tmo:
        again = run_children(ctx, exe, tmpdir, [(cases[i][0], cases[i][2]) for i in tmo], batch=1, workers=workers)
        nslow = 0
        for i, o in zip(tmo, again):
            if o and o['kind'] != 'timeout': impl[i] = o; nslow += 1
        ctx.cov['timeouts_not_reproduced'] = nslow
    r1 = resource.getrusage(resource.RUSAGE_CHILDREN)
    PHASES['loads_under_asan'] = round(time.time() - t0, 1)
    ctx.cov['loads'] = {'cases_generated': len(cases), 'directed': len(tier0), 'run': done, 'skipped_by_wall_clock_budget': skipped, 'budget_s': budget,
                        'workers': workers, 'children_cpu_s': round(r1.ru_utime + r1.ru_stime - r0.ru_utime - r0.ru_stime, 1)}
    if skipped:
        ctx.log('wall-clock budget of %.0f s reached: %d undirected cases (prefixes, byte corruptions) not run' % (budget, skipped))
        ctx.notes.append('wall-clock budget of %.0f s for the loads reached after %d of %d cases: %d undirected cases (prefixes, byte-level corruptions) were not run' % (budget, done, len(cases), skipped))
    # the cases that were not run leave the evaluation
    keep = [i for i in range(len(cases)) if impl[i] is not None]
    cases = [cases[i] for i in keep]; impl = [impl[i] for i in keep]
    kinds = {}
    for o in impl:
        if o: kinds[o['kind']] = kinds.get(o['kind'], 0) + 1
    ctx.cov['impl_outcome_kinds'] = kinds
    ctx.log('implementation: %d loads in child processes under ASan, %.1fs wall, %s CPU-s of children, %d workers, %s' % (len(cases), time.time() - t0, ctx.cov['loads']['children_cpu_s'], workers, kinds))
    t0 = time.time()
    mi = [i for i, c in enumerate(cases) if c[0] in MODELLED]
    cf = write_cases(ctx, 'model', [[cases[i][0], CAP, BIGFUEL, list(cases[i][2])] for i in mi])
    rc_m, mres = run_model(ctx, runner, cf, timeout=600, jobs=workers)
    try: os.remove(cf)
    except OSError: pass
    if len(mres) != len(mi):
        print('ERROR: model runner returned %d results for %d cases' % (len(mres), len(mi))); sys.exit(3)
    model = dict(zip(mi, mres))
    ctx.log('model: %d files of modelled classes, %.1fs' % (len(mi), time.time() - t0))
    PHASES['model'] = round(time.time() - t0, 1)
    t0 = time.time()

    viol = {}    # key -> (len(data), text, replay, found_input)
    def report(key, text, replay, size, found_input=True):
        if key not in viol or size < viol[key][0]: viol[key] = (size, text, replay, found_input)
    stats = {'agree': 0, 'agree_fixed_model': 0, 'predicted_defect': 0, 'ill_formed': 0, 'unmodelled_ok': 0, 'unmodelled_fail': 0}
    found_input = False
    for i, (cls, lab, data) in enumerate(cases):
        oi = impl[i]
        if oi is None or oi['kind'] == 'harness-error':
            print('ERROR: no result for case %d (%s %s)' % (i, CLS[cls], lab)); sys.exit(3)
        nontrivial = len(data) > len(TAGS.get(cls, b'')) + 1
        ctx.count((cls, data), nontrivial)
        if i % 997 == 0: ctx.sample({'class': CLS[cls], 'corruption': lab, 'file': data.decode('latin1')[:160], 'impl': short(oi)})
        name = entry(cls)
        # ---- generic rules, every class
        generic_bad = None
        if oi['kind'] == 'crash': generic_bad = '%s: %s in %s' % (oi['what'], oi['summary'], oi['where'])
        elif oi['kind'] == 'timeout': generic_bad = 'no answer within 5 s of CPU'
        elif oi['kind'] == 'throw': generic_bad = 'C++ exception %s escapes the loader' % oi['what']
        elif oi.get('maxreq', 0) > ALLOC_A * len(data) + ALLOC_B:
            generic_bad = 'allocation request of %d bytes for a file of %d bytes' % (oi['maxreq'], len(data))
        if cls in MODELLED:
            o1, o2, o3 = model[i][:3]
            o4 = model[i][3] if len(model[i]) > 3 else None      # the reader with a proposed, not yet applied, fix
            if o1 and o1[0] == -999: print('ERROR: model rejected case', i); sys.exit(3)
            if matches(cls, oi, o2) or (o1[0] == 4 and matches(cls, oi, o1)):
                if o1[0] == 4 and o2[0] != 4 and not generic_bad:
                    # the loop iterates without input but the count is small enough: no observable failure on this file
                    stats['count_loop_benign'] = stats.get('count_loop_benign', 0) + 1
                elif o1[0] >= 2:
                    stats['predicted_defect'] += 1; found_input = True
                    key = model_key(o2 if (o1[0] == 4 and o2[0] in (2, 3)) else o1)
                    report(key, '%s on a %s file (%s): the reader model (the code as it is now) predicts %s and the implementation shows it: %s' % (
                        name, CLS[cls], lab, {2: 'an escaping exception / assertion', 3: 'an out-of-bounds store', 4: 'a count-driven loop that no longer consumes input'}[o1[0]],
                        generic_bad or short(oi)), replay_of(cls, data, oi, model[i]), len(data))
                elif o1[0] == 1 and not o1[3]:
                    stats['ill_formed'] += 1; found_input = True
                    report(illformed_key(cls, o1[1]), '%s returns an object that violates the class invariant (%s) for a %s file (%s)' % (name, illformed_why(cls, o1[1]), CLS[cls], lab),
                           replay_of(cls, data, oi, model[i]), len(data))
                elif generic_bad:
                    found_input = True
                    report(generic_key(cls, oi), '%s: %s' % (name, generic_bad), replay_of(cls, data, oi, model[i]), len(data))
                else:
                    stats['agree'] += 1
                    if oi['kind'] == 'ok': check_flags(cls, lab, data, oi, report, name)
            elif o4 is not None and matches(cls, oi, o4) and (o4[0] == 0 or (o4[0] == 1 and o4[3])) and not generic_bad:
                # the implementation behaves as the reader with the proposed fix (fixes/C09_18 applied): agreement with that model
                stats['agree_next_model'] = stats.get('agree_next_model', 0) + 1
                if oi['kind'] == 'ok': check_flags(cls, lab, data, oi, report, name)
            elif matches(cls, oi, o3) and (o3[0] >= 2 or (o3[0] == 1 and not o3[3])):
                # the implementation behaves as the reader did BEFORE a fix: the old failure is back (regression)
                stats['regression'] = stats.get('regression', 0) + 1; found_input = True
                key = model_key(o3) if o3[0] >= 2 else illformed_key(cls, o3[1])
                report(key, '%s on a %s file (%s): the implementation no longer behaves as the current reader model (%s) but as the reader before the fix: %s' % (
                    name, CLS[cls], lab, short_m(o2), generic_bad or short(oi)), replay_of(cls, data, oi, model[i], 'regression: a fix of fixes/C09_* seems to have been reverted'), len(data))
            else:
                # neither the current reader model nor the reader before the fixes: decide on the property itself
                if generic_bad and cls in ONE_SIDED and oi['kind'] in ('crash', 'throw'):
                    # downstream of the reader (the oracles of the model): a failure of the property, under the key of the reader
                    found_input = True
                    report(generic_key(cls, oi), '%s on a %s file (%s): %s' % (name, CLS[cls], lab, generic_bad), replay_of(cls, data, oi, model[i]), len(data))
                elif generic_bad:
                    found_input = True
                    report('unpredicted:' + generic_key(cls, oi),
                           '%s on a %s file (%s): %s — the reader model predicts %s' % (name, CLS[cls], lab, generic_bad, short_m(o2)), replay_of(cls, data, oi, model[i]), len(data))
                elif oi['kind'] == 'ok' and impl_illformed(cls, oi['dump']):
                    found_input = True
                    report('unpredicted:' + illformed_key(cls, oi['dump']), '%s returns an object that violates the class invariant (%s) for a %s file (%s); the reader model predicts %s' % (
                        name, illformed_why(cls, oi['dump']), CLS[cls], lab, short_m(o2)), replay_of(cls, data, oi, model[i]), len(data))
                elif oi['kind'] == 'ok' and (min(oi['flags'][:2] + oi['flags'][3:]) < 1):
                    found_input = True
                    report('unpredicted:%s:returned-object-not-reusable' % name, '%s returns an object that cannot be printed/saved/reloaded %s; the model predicts %s' % (name, oi['flags'], short_m(o2)),
                           replay_of(cls, data, oi, model[i]), len(data))
                else:
                    report('model-drift:%s' % name, 'model and implementation disagree on a %s file (%s) but the implementation shows no failure of the property on it: impl %s, model %s' % (
                        CLS[cls], lab, short(oi), short_m(o2)), replay_of(cls, data, oi, model[i], 'correspondence coq/C09/Readers.v vs ' + name), len(data), found_input=False)
        else:
            if generic_bad:
                found_input = True
                report(generic_key(cls, oi), '%s on a %s file (%s): %s' % (name, CLS[cls], lab, generic_bad), replay_of(cls, data, oi), len(data))
            elif oi['kind'] == 'ok':
                stats['unmodelled_ok'] += 1
                check_flags(cls, lab, data, oi, report, name)
            else: stats['unmodelled_fail'] += 1
    for key in sorted(viol):
        size, text, replay, fi = viol[key]
        r = ctx.violation(key, text, replay, found_input=fi)
        if r == 'known' and os.environ.get('C09_SHOW_KNOWN'):
            ctx.log('known finding %s: %s | file %r' % (key, text[:400], replay.get('file_text', '')[:300]))
    ctx.cov['outcomes'] = stats
    ctx.cov['modelled_classes'] = sorted(CLS[c] for c in MODELLED)
    ctx.cov['trusted_base'] += ['AddressSanitizer (g++ 12, -fsanitize=address) on library and harness; harness/C09.cpp replaces operator new to measure requests and to refuse > 256 MB (ASan max_allocation_size_mb=256 for malloc); 5 s CPU timer per load',
                                'libstdc++ semantics of operator>> / num_get for int and double re-expressed in coq/C09/Model.v (parse_int, parse_double), tied by the correspondence on corrupted numbers']
    ctx.cov['unmodelled_classes'] = sorted(set(CLS[c] for c, _, _ in cases if c not in MODELLED))
    ctx.cov['rule'] = ('case = (loader, file content); files = every byte prefix of valid files written by the library (sampled around line ends for long files), token / line / '
                       'byte corruptions of them, byte streams, CSV and grid-exchange files; one load per case in a child process under AddressSanitizer (5 s CPU, 256 MB per request); '
                       'distinct = distinct (loader, content); non-trivial = content longer than the class tag')
    PHASES['compare'] = round(time.time() - t0, 1)
    ctx.log('outcomes: %s' % stats)
    ctx.log('phases (s): %s' % PHASES)
    if not proofs_ok: proof_break_violation(ctx, found_input)
    if stats.get('agree_next_model'):
        ctx.notes.append('%d CSV files behave as the reader model with the proposed fixes/C09_18 (the fix seems applied: re-align run_csv of coq/C09/Run.v)' % stats['agree_next_model'])
    ctx.assumptions = ['files shorter than 2^31 bytes', 'device errors (badbit) do not occur while reading',
                       'memory safety of code downstream of the readers (std::string, Eigen, destructors) is runtime evidence only (ASan on the explored files)',
                       'the theorems of coq/C09/Properties.v speak about the readers as they are now (every fix of fixes/C09_1 .. C09_17 is in /repo: cfg_fixed, p_all); '
                       'the theorems about AnamDiscreteDD / IR, AnamEmpirical, DbLine, MeshETurbo (C09_pending_*) and C09_csv_no_exception speak about the readers WITH the proposed fixes/C09_18 .. C09_22; '
                       'the text grid exchange formats (Zycor, IfpEn, F2G) have no reader model (generic safety rules only); BMP: the 32-bit pixel value and the palette entries the file does not set are not predicted by the model (dimensions only)',
                       'Model: the construction of a covariance / a drift from its identifier is an oracle of the reader model (theorems hold whatever it answers)']
    ctx.level = 'proof (reader logic) + runtime evidence (memory safety downstream)'

def generic_key(cls, oi):
    """key of a failure observed on a loader that has no reader model (or that the model does not predict): the reader and one of
    two root causes — a count of the file used unchecked (allocation, negative size, loop without input) or a crash / escaping
    exception on a corrupted field"""
    if cls >= 30: rd = entry(cls)
    else: rd = CLS[cls] + '::_deserialize'
    if oi['kind'] == 'crash' or (oi['kind'] == 'throw' and oi['code'] not in (1, 2)):
        if cls in (18, 19): rd = 'AnamDiscrete::_deserialize'      # the two heirs crash in the same place for the same reason
        return rd + ':crash-on-corrupted-field'
    if cls in FAMILY_COUNT: rd = FAMILY_COUNT[cls] + '::_deserialize'
    return rd + ':count-from-file-unchecked'

def check_flags(cls, lab, data, oi, report, name):
    resave, reload_, idem, usable = oi['flags']
    if usable == 1 and resave == 1 and reload_ == 1: return
    who = (FAMILY_SAVE[cls] + '::createFromNF') if cls in FAMILY_SAVE else name
    what = ('toString() throws' if usable != 1 else 'it cannot be saved again (dumpToNF fails)' if resave != 1 else 'the file it saves does not load')
    report('%s:returned-object-not-reusable' % who, '%s returns an object that cannot be used and saved again: %s, for a %s file (%s)' % (name, what, CLS[cls], lab),
           replay_of(cls, data, oi), len(data))
    # idem (the reloaded object saves to the same bytes) is the business of C08: reported in the evidence only

def impl_illformed(cls, d):
    """the class invariant (coq/C09/Spec.v: wf_db, wf_dbgrid, wf_table) evaluated on the dump of the implementation's object"""
    try:
        if cls == 2:
            g, db = d
            if g[0] < 0 or any(len(x) != g[0] for x in g[1:5]) or any(v < 0 for v in g[1]): return True
            if db[1] != (0 if g[0] <= 0 else prod(g[1])): return True
            return impl_illformed(1, db)
        if cls == 1:
            ncol, nech, names, uid, locs, arr = d
            allu = [u for l in locs for u in l]
            return (ncol < 0 or nech < 0 or len(names) != ncol or len(set(map(tuple, names))) != len(names) or uid != list(range(ncol)) or len(arr) != ncol * nech or len(locs) != 29
                    or len(set(allu)) != len(allu) or any(u < 0 or u >= ncol for u in allu))
        if cls == 3:
            return d[0] < 0 or d[1] < 0 or len(d[2]) != d[0] * d[1]
    except (IndexError, TypeError, ValueError):
        return True
    return False

def illformed_why(cls, d):
    if 30 <= cls <= 34: return illformed_why0(1, d)
    if cls == 13: return 'the tree of nodes described by the file is refused or incomplete, the object is returned all the same'
    if cls == 5: return 'a direction of the file was not added to the VarioParam (grid and non-grid definitions mixed): results and directions no longer match'
    return illformed_why0(cls, d)
def illformed_why0(cls, d):
    if cls == 2:
        g, db = d
        if db[1] != (0 if g[0] <= 0 else prod(g[1])): return 'number of samples %d differs from the grid size %s' % (db[1], g[1])
        if any(v < 0 for v in g[1]): return 'negative number of grid nodes %s' % (g[1],)
        return illformed_why(1, db)
    if cls == 1:
        ncol, nech, names, uid, locs, arr = d
        if ncol < 0 or nech < 0: return 'negative dimension ncol=%d nech=%d' % (ncol, nech)
        allu = [u for l in locs for u in l]
        if len(set(allu)) != len(allu): return 'a column holds several roles: role lists %s for %d column(s)' % ([l for l in locs if l], ncol)
        return 'inconsistent table'
    return 'inconsistent dimensions'
def illformed_key(cls, d):
    if cls == 2:
        g, db = d
        if db[1] != (0 if g[0] <= 0 else prod(g[1])) or any(v < 0 for v in g[1]): return 'DbGrid::_deserialize:table-and-grid-disagree'
        return illformed_key(1, db)
    if cls == 1:
        ncol, nech, names, uid, locs, arr = d
        if ncol < 0 or nech < 0: return 'Db::_deserialize:negative-count-accepted'
        return 'Db::_deserialize:locator-rank-beyond-count'
    if cls in (13, 5): return CLS[cls] + '::_deserialize:crash-on-corrupted-field'
    if 30 <= cls <= 34: return 'Db::createFromCSV:locator-rank-beyond-count'
    return CLS[cls] + '::_deserialize:ill-formed-object'
def prod(l):
    p = 1
    for v in l: p *= v
    return p

if __name__ == '__main__':
    main(run)

"""C03 — every offered covariance model is a valid (positive-definite) model.

  tie 1 (translator)     translators/C03_covtable.py regenerates coq/C03/gen/CovTable.v (validity domain of every structure of
                         CovFactory + the polynomial closed forms translated statement by statement); the theorems compare
                         it with the hand-written reference coq/C03/Valid.v and with the hand-written closed forms.
  tie 2 (correspondence) extracted model (coq/C03/Run.v) vs harness/C03.cpp on the same cases: ACovFunc::evalCov,
                         CovAniso::eval, Model::eval / eval0 / evalIvarIpas / evalCovMatrixSymmetric, CovFactory::getCovList.
  search                 numerical PSD exploration of the implementation's covariance matrices (regular / clustered / random
                         point sets, every structure x every accepted dimension): a negative direction found in floating point
                         is confirmed in exact rational arithmetic on the harvested doubles before it is reported.
"""
import sys, os, math, importlib.util, itertools
sys.set_int_max_str_digits(0)
sys.path.insert(0, os.path.dirname(__file__))
from common import *

F = Fraction
TEST = 1.234e30

def load_translator(name):
    p = os.path.join(VERIF, 'translators', name + '.py')
    spec = importlib.util.spec_from_file_location(name, p)
    m = importlib.util.module_from_spec(spec); spec.loader.exec_module(m)
    return m

def write_if_changed(path, text):
    os.makedirs(os.path.dirname(path), exist_ok=True)
    if os.path.exists(path) and open(path).read() == text: return False
    with open(path, 'w') as f: f.write(text)
    return True

def short(e): return e['class'][3:]           # CovPenta -> Penta (used in violation keys)

# ----------------------------------------------------------------------------------------------- what the model covers
POLY = {0, 2, 4, 18, 20, 21, 24, 25, 26}
FIELD = {11, 13, 14, 15, 16}                   # Linear, GC1, Spline G.C., GC3, GC5: depend on the field and on the space dimension
TRANS = {1, 3, 5, 17, 22, 23}
PARAMS = {7: [F(1, 2), F(3, 2), F(5, 2)], 10: [F(1, 2), F(1), F(3, 2), F(2)], 19: [F(1, 2), F(1), F(2), F(7, 2), F(8), F(12)],
          8: [F(1), F(2), F(3)], 9: [F(1), F(2), F(3)], 12: [F(1)], 6: [F(1, 8), F(1, 2), F(1), F(3, 2), F(2)]}
MODEL_TYPES = POLY | FIELD | TRANS | set(PARAMS)
PARAM_SCADEF = {7, 8, 9, 10}                   # scadef depends on the third parameter (oracle, checked below in floats)
TOL_POLY, TOL_TRANS, TOL_BESSEL = 1e-12, 1e-11, 1e-9
DEG = {16: 5, 15: 3, 14: 2}                          # degree of the generalised covariances in (field, h)

def tol_of(code): return TOL_BESSEL if code in (6, 7) else (TOL_POLY if code in POLY | FIELD | {8, 9, 12} else TOL_TRANS)

def scadef_float(code, p):
    p = float(p)
    if code == 7: return math.sqrt(12. * p)
    if code == 10: return 3. ** (1. / p)
    if code == 9: return math.sqrt(20. ** (1. / p) - 1.)
    if code == 8: return 20. ** (1. / (p if p >= 0.05 else 1.)) - 1.
    return None

def params_for(e, rng, explore=False):
    c = e['code']
    if not e['hasparam']: return [F(1)]
    if c in PARAMS and not explore: return PARAMS[c]
    ex = {6: [F(1, 8), F(1, 2), F(1), F(2)], 7: [F(1, 2), F(1), F(5, 2)], 8: [F(1, 2), F(1), F(3)], 9: [F(1, 2), F(1), F(3)],
          10: [F(1, 2), F(1), F(3, 2), F(2)], 12: [F(1, 2), F(1), F(3, 2), F(127, 64)], 19: [F(1, 2), F(1), F(2), F(8), F(12)]}
    return ex.get(c, [F(1)])

# ----------------------------------------------------------------------------------------------- enclosures
def enc_of(x):
    """model output ((n d) (n d)) -> (lo, hi) Fractions, or None"""
    if x == [] or x is None: return None
    return (unq(x[0]), unq(x[1]))

def inside(v, enc, tol, scale=1.0):
    if v is None or enc is None: return False
    lo, hi = enc
    t = F(tol) * (F(scale) + max(abs(lo), abs(hi)))
    return lo - t <= v <= hi + t

def Pt(p): return [dy(x) for x in p]
def M2(m): return [[dy(x) for x in r] for r in m]

# ----------------------------------------------------------------------------------------------- geometry (support checks in floats)
def rot_from_angles(ndim, ang):
    """GeometryHelper::rotation2DMatrixInPlace / rotation3DMatrixInPlace, as a flat row-major list (floats)"""
    def cs(a):
        if a == 0: return 1., 0.
        if a == 90: return 0., 1.
        if a == 180: return -1., 0.
        if a == 270: return 0., -1.
        r = float(a) * math.pi / 180.
        return math.cos(r), math.sin(r)
    if ndim == 2:
        c, s = cs(ang[0]); return [c, s, -s, c]
    if ndim == 3:
        (c0, s0), (c1, s1), (c2, s2) = cs(ang[0]), cs(ang[1]), cs(ang[2])
        return [c0 * c1, s0 * c1, -s1, -s0 * c2 + c0 * s1 * s2, c0 * c2 + s0 * s1 * s2, c1 * s2,
                s0 * s2 + c0 * s1 * c2, -c0 * s2 + s0 * s1 * c2, c1 * c2]
    return [1. if i == j else 0. for i in range(ndim) for j in range(ndim)]

def dyadic_round(x, bits=30): return F(round(x * (1 << bits)), 1 << bits)

# ----------------------------------------------------------------------------------------------- exact / float linear algebra
def neg_direction(K, thr):
    """K: symmetric matrix of floats. Gaussian elimination with diagonal pivoting on the Schur complement, carrying the
    vectors v_i with S_ij = v_i^T K v_j.  Returns a vector x with x^T K x < -thr * x^T x (floats) or None."""
    n = len(K)
    S = [row[:] for row in K]
    V = [[1. if i == j else 0. for j in range(n)] for i in range(n)]
    rem = list(range(n))
    def ray(i): return S[i][i] / max(1e-300, sum(t * t for t in V[i]))
    while rem:
        worst = min(rem, key=ray)
        if ray(worst) < -thr: return V[worst]
        p = max(rem, key=lambda i: S[i][i])
        if S[p][p] <= 1e-13 * max(1., abs(K[p][p])):
            # remaining block has (numerically) zero diagonal: any sizeable off-diagonal entry is an indefinite 2x2 minor
            for a in rem:
                for b in rem:
                    if a < b and abs(S[a][b]) > 1e-7 * max(1., abs(K[a][a])):
                        sg = -1. if S[a][b] > 0 else 1.
                        x = [V[a][k] + sg * V[b][k] for k in range(n)]
                        q = S[a][a] + S[b][b] - 2 * abs(S[a][b])
                        if q < -thr * sum(t * t for t in x): return x
            return None
        rem.remove(p)
        piv = S[p][p]
        for i in rem:
            f = S[i][p] / piv
            if f == 0.: continue
            Vi, Vp = V[i], V[p]
            for k in range(n): Vi[k] -= f * Vp[k]
        Sp = S[p]
        fs = {i: S[i][p] / piv for i in rem}
        for i in rem:
            fi = fs[i]
            if fi == 0.: continue
            Si = S[i]
            for j in rem: Si[j] -= fi * Sp[j]
    return None

def exact_quad(Kq, x):
    """x^T K x with K a matrix of Fractions (exact doubles) and x Fractions"""
    n = len(x); s = F(0)
    for i in range(n):
        if x[i] == 0: continue
        row = Kq[i]; t = F(0)
        for j in range(n):
            if x[j] != 0: t += row[j] * x[j]
        s += x[i] * t
    return s

def rationalise(x, bits=16):
    m = max(abs(t) for t in x) or 1.
    return [F(round(t / m * (1 << bits)), 1 << bits) for t in x]

def monomials(ndim, order):
    """drift monomials of degree <= order (order -1: none)"""
    out = []
    for deg in range(order + 1):
        for c in itertools.combinations_with_replacement(range(ndim), deg): out.append(c)
    return out

def authorise(x, pts, ndim, order):
    """project the rational vector x exactly onto the increments that filter the polynomials of degree <= order"""
    if order < 0: return x
    mon = monomials(ndim, order)
    Fm = [[math.prod([F(p[d]) for d in m], start=F(1)) for m in mon] for p in pts]     # n x k
    k = len(mon); n = len(pts)
    G = [[sum(Fm[i][a] * Fm[i][b] for i in range(n)) for b in range(k)] for a in range(k)]
    r = [sum(Fm[i][a] * x[i] for i in range(n)) for a in range(k)]
    # exact solve G mu = r (Gauss-Jordan on Fractions); singular -> give up
    A = [G[a][:] + [r[a]] for a in range(k)]
    for c in range(k):
        pr = next((i for i in range(c, k) if A[i][c] != 0), None)
        if pr is None: return None
        A[c], A[pr] = A[pr], A[c]
        pv = A[c][c]; A[c] = [t / pv for t in A[c]]
        for i in range(k):
            if i != c and A[i][c] != 0:
                f = A[i][c]; A[i] = [a - f * b for a, b in zip(A[i], A[c])]
    mu = [A[a][k] for a in range(k)]
    return [x[i] - sum(Fm[i][a] * mu[a] for a in range(k)) for i in range(n)]

def project_float(K, pts, ndim, order):
    """float matrix N^T K N on an orthonormal basis N of the authorised increments; returns (Kp, N)"""
    n = len(pts)
    mon = monomials(ndim, order)
    cols = [[math.prod([float(p[d]) for d in m], start=1.) for p in pts] for m in mon]
    basis = []
    for c in cols:                                  # Gram-Schmidt of the drift columns
        v = c[:]
        for b in basis:
            d = sum(a * t for a, t in zip(v, b)); v = [a - d * t for a, t in zip(v, b)]
        nv = math.sqrt(sum(a * a for a in v))
        if nv > 1e-9 * math.sqrt(sum(a * a for a in c) + 1e-300): basis.append([a / nv for a in v])
    N = []
    for i in range(n):
        v = [1. if j == i else 0. for j in range(n)]
        for b in basis + N:
            d = sum(a * t for a, t in zip(v, b)); v = [a - d * t for a, t in zip(v, b)]
        nv = math.sqrt(sum(a * a for a in v))
        if nv > 1e-6: N.append([a / nv for a in v])
    m = len(N)
    KN = [[sum(K[i][j] * N[b][j] for j in range(n)) for i in range(n)] for b in range(m)]
    Kp = [[sum(N[a][i] * KN[b][i] for i in range(n)) for b in range(m)] for a in range(m)]
    return Kp, N

# ----------------------------------------------------------------------------------------------- generators
def point_set(rng, kind, ndim, n, m2=None):
    if kind == 'grid':
        m = {1: 9, 2: m2 or rng.choice([3, 4, 5]), 3: 3, 4: 3, 5: 2}[ndim]
        return [tuple(F(c) for c in p) for p in itertools.product(range(m), repeat=ndim)]
    if kind == 'grid6':
        return [tuple(F(c) for c in p) for p in itertools.product(range(6), repeat=ndim)]
    if kind == 'cluster-fixed':      # deterministic: tight triplets (spacing 1/64) on the corners of a cube of side 3
        pts = []
        for c in itertools.product((0, 3), repeat=ndim):
            c = [F(t) for t in c]
            pts.append(tuple(c))
            a = list(c); a[0] += F(1, 64); pts.append(tuple(a))
            b = list(c); b[-1] -= F(1, 64) if ndim > 1 else F(1, 32); pts.append(tuple(b))
        return pts[:24]
    if kind == 'clustered':
        cs = [tuple(F(rng.randint(-24, 24), 4) for _ in range(ndim)) for _ in range(max(2, n // 3))]
        pts = []
        for c in cs:
            for _ in range(3):
                pts.append(tuple(x + F(rng.randint(-4, 4), 16) for x in c))
        return list(dict.fromkeys(pts))[:n]
    return list(dict.fromkeys(tuple(F(rng.randint(-48, 48), 8) for _ in range(ndim)) for _ in range(n)))

def psd_sill(rng, nvar):
    if nvar == 1: return [[F(rng.choice([1, 2, 3, 5, 6, 10]), 2)]]
    while True:
        r = rng.choice([nvar, nvar, 1])
        A = [[F(rng.randint(-3, 3), 2) for _ in range(r)] for _ in range(nvar)]
        S = [[sum(A[i][k] * A[j][k] for k in range(r)) for j in range(nvar)] for i in range(nvar)]
        if all(S[i][i] > 0 for i in range(nvar)): return S

def gen_struct(rng, e, ndim, nvar, allow_paths=None):
    """-> impl structure (type param path vals rotspec sill) + meta"""
    code = e['code']
    param = rng.choice(params_for(e, rng)) if e['hasparam'] else F(1)
    usesfield = code in FIELD or code == 12
    paths = [0, 1, 1, 2, 3, 6, 7, 8] + ([] if usesfield else [4, 5])
    if allow_paths is not None: paths = [p for p in paths if p in allow_paths]
    path = rng.choice(paths)
    if e['hasrange'] == 0: path = rng.choice([0, 1, 2, 8])
    iso = path in (2, 3, 6)
    base = F(rng.choice([2, 3, 4, 6, 8, 12, 20, 36, 64, 100]), 4)
    if iso: vals = [base]
    else: vals = [base * rng.choice([F(1), F(1, 2), F(1, 4), F(2), F(3), F(3, 4)]) if rng.random() < .8 else base for _ in range(ndim)]
    rotspec = []
    angles = None
    if ndim in (2, 3) and rng.random() < .7 and e['hasrange'] != 0:
        angles = [F(rng.choice([0, 15, 30, 45, 60, 90, 120, 135, 180, 270, 33, 77, 200, 345]) + rng.choice([0, 0, F(1, 2)])) for _ in range(ndim)]
        if ndim == 2: angles[1] = F(0)
        if rng.random() < .35 and path not in (4, 5, 8):
            rm = [dyadic_round(t) for t in rot_from_angles(ndim, angles)]
            rotspec = [1, [dy(t) for t in rm]]
        else: rotspec = [0, [dy(a) for a in angles]]
    if path in (4, 5) and not rotspec: rotspec = [0, [dy(F(0))] * ndim] if ndim >= 2 else []
    sill = psd_sill(rng, nvar)
    s = [code, dy(param), path, [dy(v) for v in vals], rotspec, M2(sill)]
    meta = {'code': code, 'param': param, 'path': path, 'vals': vals, 'iso': iso, 'rotspec': rotspec, 'angles': angles,
            'sill': sill, 'name': e['name'], 'short': short(e), 'hasrange': e['hasrange']}
    return s, meta

def gen_mode(rng, ncov, allow_order=True):
    r = rng.random()
    if r < .4: return [], 'default'
    if r < .6: return [1, 0, 0, []], 'asVario'
    if r < .72: return [0, 1, 0, []], 'unitary'
    if r < .8: return [1, 1, 0, []], 'asVario+unitary'
    if r < .9 and allow_order: return [0, 0, rng.choice([1, 2, 3]), []], 'orderVario'
    act = sorted(rng.sample(range(ncov), rng.randint(1, ncov)))
    return [0, 0, 0, [act]], 'activeList'

# ----------------------------------------------------------------------------------------------- the check
def translate(ctx):
    ctx.tab = None
    try:
        text, tab = load_translator('C03_covtable').translate(REPO)
        write_if_changed(os.path.join(VERIF, 'coq', 'C03', 'gen', 'CovTable.v'), text)
        ctx.tab = tab
        return True
    except Exception as ex:
        if type(ex).__name__ != 'TranslationError': raise
        ctx.violation('translator:CovTable', 'the covariance headers/sources are no longer in the form the translator understands: %s; '
                      'the generated validity table, hence the theorems about it, is not tied to the code any more' % ex,
                      {'translator': 'translators/C03_covtable.py', 'error': str(ex)}, found_input=False)
        return False

def run(ctx):
    quick = ctx.quick()
    rng = ctx.rng
    build_lib(ctx)
    tie_ok = translate(ctx)
    if ctx.tab is None:
        # fall back on the pinned tree's table so that the search below can still look for a failing input
        text, ctx.tab = load_translator('C03_covtable').translate('/repo') if REPO != '/repo' else (None, None)
        if ctx.tab is None: return     # nothing can be generated: the violation recorded by translate() is the verdict
    ctx.log('library built, table translated')
    proofs_ok = coq_properties(ctx)
    ctx.log('theorems re-checked')
    runner = build_runner(ctx)
    exe = build_harness(ctx, 'C03')
    if exe is None: print('ERROR: harness does not build'); sys.exit(3)
    ctx.log('runner and harness built')
    if runner is None:
        if proofs_ok: print('ERROR: model runner does not build'); sys.exit(3)
    entries = ctx.tab['entries']
    by_code = {e['code']: e for e in entries}
    found_input = False
    st = {'found': False}
    ctx.bad_struct = {}; ctx.bad_aniso = set()

    def viol(key, text, replay, found=True):
        if found: st['found'] = True
        return ctx.violation(key, text, replay, found_input=found)

    # ------------------------------------------------------------------ 1. validity table and acceptance per dimension
    table_fail = {}
    if runner is not None:
        cf = write_cases(ctx, 'table', [[9]])
        _, mo = run_model(ctx, runner, cf, jobs=1)
        if not mo or mo[0][0] == -999: print('ERROR: model rejected the table case'); sys.exit(3)
        for code, decl, ref, fails in mo[0][1]:
            if fails: table_fail[code] = (decl, ref, fails)
            ctx.count('table:%d' % code, True)
    # (the Markov structure runs an FFT on a 512^ndim array when constructed: only built in R^1, R^2)
    acc_cases = [[2, d, o, [e['code'] for e in entries if o == 3 and (e['code'] != 27 or d <= 2)]] for d in range(1, 6) for o in (-1, 0, 1, 2, 3)]
    cf = write_cases(ctx, 'accept', acc_cases)
    _, acc = run_impl(ctx, exe, cf)
    guard_vacuous = []      # (code, ndim) constructed although getMaxNDim < ndim
    for k, c in enumerate(acc_cases):
        d, o = c[1], c[2]
        if k >= len(acc) or acc[k][0] == -997:
            viol('crash:getCovList', 'no answer for getCovList in dimension %d' % d, {'case': sx_str(c)}); continue
        names = [''.join(chr(x) for x in nm) for nm in acc[k][0]]
        expect = [e['name'] for e in entries if (e['maxdim'] is None or d <= e['maxdim']) and e['minorder'] <= o and (e['spaceR'] or not ctx.tab.get('isvalid_checks_space'))]
        ctx.count('accept:%d:%d' % (d, o), True); ctx.dist('accept_dim%d' % d)
        if sorted(names) != sorted(expect):
            diff = sorted(set(names) ^ set(expect))
            viol('acceptance:getCovList', 'CovFactory::getCovList(ndim=%d, order=%d) differs from the table generated from getMaxNDim/getMinOrder on %s' % (d, o, diff),
                 {'case': sx_str(c), 'impl': names, 'table': expect})
        for code, made, cons, finite, nm in acc[k][1]:
            e = by_code.get(code)
            if e is None:
                viol('acceptance:unknown-structure', 'ECov value %d is created by the library but is not in the translated factory table' % code, {'case': sx_str(c)}); continue
            ok_dim = e['maxdim'] is None or d <= e['maxdim']
            if made and not ok_dim and o == 3: guard_vacuous.append((code, d))
            if made and cons != (1 if (ok_dim and e['spaceR']) else 0):
                viol('acceptance:isConsistent', 'CovAniso::isConsistent(%s, R^%d) = %d, table says %d' % (e['name'], d, cons, 1 - cons), {'case': sx_str(c), 'structure': e['name']})
            if o == 3 and e['name'] in names and not (e['onRn'] and e['haseval']) and finite == 0:
                viol('getCovList:offers-structure-without-covariance-on-Rn',
                     "CovFactory::getCovList offers '%s' in R^%d although the structure has no covariance on R^n (hasCovOnRn/getCompatibleSpaceR false, "
                     "_evaluateCov not defined): CovAniso('%s').eval returns the undefined value 1.234e30" % (e['name'], d, e['name']),
                     {'case': sx_str(c), 'structure': e['name'], 'how': 'CovFactory::getCovList(CovContext(1, SpaceRN(%d)), 3); CovAniso(ECov::%s, ctxt).eval(p1, p2)' % (d, e['key'])})

    ctx.log('table and acceptance done')
    # ------------------------------------------------------------------ 2. closed forms: ACovFunc::evalCov vs the model
    hs = [F(0), F(1, 1 << 40), F(1, 1 << 20), F(1, 65536), F(1, 8), F(1, 4), F(3, 8), F(1, 2), F(5, 8), F(3, 4), F(7, 8),
          F(1) - F(1, 1 << 10), F(1) - F(1, 1 << 30), F(1), F(1) + F(1, 1 << 30), F(1) + F(1, 1 << 10), F(9, 8), F(5, 4), F(3, 2), F(7, 4),
          F(2) - F(1, 1 << 20), F(2), F(2) + F(1, 1 << 20), F(5, 2), F(3), F(5), F(8), F(21, 2), F(33)]
    hs += [F(rng.randint(1, 4095), 1024) for _ in range(10 if quick else 60)]
    cases0 = []; meta0 = []
    for e in entries:
        code = e['code']
        if code not in MODEL_TYPES: continue
        for param in (PARAMS.get(code, [F(1)])):
            for ndim in ([1, 2, 3] if code in FIELD else [1]):
                field = F(rng.choice([1, 3, 10, 25]), 2) if code in FIELD | {12} else F(1)
                cases0.append([0, code, ndim, dy(param), dy(field), [dy(h) for h in hs]])
                meta0.append((e, param, ndim, field))
    cf = write_cases(ctx, 'closed', cases0)
    _, im0 = run_impl(ctx, exe, cf)
    mcases0 = []
    for k, c in enumerate(cases0):
        cov0 = undy(im0[k][1]) if k < len(im0) and im0[k][0] == 1 else F(0)
        mcases0.append([0, c[1], c[2], c[3], c[4], dy(cov0), c[5]])
    mo0 = []
    if runner is not None:
        cfm = write_cases(ctx, 'closed_m', mcases0)
        _, mo0 = run_model(ctx, runner, cfm)
        if len(mo0) != len(mcases0): print('ERROR: model runner returned %d results for %d cases' % (len(mo0), len(mcases0))); sys.exit(3)
    for k, c in enumerate(cases0):
        e, param, ndim, field = meta0[k]
        ii = im0[k] if k < len(im0) else None
        if ii is None or ii[0] != 1:
            viol('crash:evalCov:' + short(e), 'no answer from ACovFunc::evalCov for %s' % e['name'], {'case': sx_str(c)}); continue
        # accessors harvested from the object = table generated from the headers
        scadef, parmax, maxnd, minord, hasr, hasp = undy(ii[2]), undy(ii[3]), ii[4], ii[5], ii[6], ii[7]
        exp_max = 1000000000 if e['maxdim'] is None else e['maxdim']
        exp_parmax = None if e['parmax'][0] == 'unbounded' else e['parmax'][1]
        if (maxnd, minord, hasr, bool(hasp)) != (exp_max, e['minorder'], e['hasrange'], e['hasparam']) or \
           (exp_parmax is not None and (parmax is None or abs(parmax - exp_parmax) > F(1, 10 ** 12))) or (exp_parmax is None and parmax is not None):
            viol('table:accessors:' + short(e), 'accessors of the %s object differ from the table translated from its header' % e['name'],
                 {'case': sx_str(c), 'impl': [maxnd, minord, hasr, hasp, str(parmax)], 'table': [exp_max, e['minorder'], e['hasrange'], e['hasparam'], str(exp_parmax)]})
        sf = scadef_float(e['code'], param)
        if e['scadef'][0] == 'const': sf = float(e['scadef'][1])
        if sf is not None and abs(float(scadef) - sf) > 1e-13 * abs(sf):
            viol('scadef:' + short(e), 'getScadef() of %s (param %s) = %r, the formula of the table gives %r' % (e['name'], param, float(scadef), sf), {'case': sx_str(c)})
        if not mo0: continue
        for j, h in enumerate(hs):
            v = undy(ii[8][j]); enc = enc_of(mo0[k][j])
            if enc is None:
                print('ERROR: model has no closed form for %s param %s' % (e['name'], param)); sys.exit(3)
            # ties excluded: thresholds of the code on h itself (nugget 1e-10, cardinal sine 1e-5)
            ctx.count('closed:%d:%s:%d:%s' % (e['code'], param, ndim, h), True)
            scale = max(1., float(field), float(h)) ** DEG.get(e['code'], 1) if e['code'] in FIELD else 1.0
            if not inside(v, enc, tol_of(e['code']), scale):
                ctx.bad_struct[short(e)] = 'closed-form:' + short(e)
                viol('closed-form:' + short(e), 'ACovFunc::evalCov of %s (param %s, ndim %d, field %s) at h = %s returns %r, the published closed form gives %r'
                     % (e['name'], param, ndim, field, h, float(v) if v is not None else None, float(enc[0])),
                     {'case': sx_str([0, c[1], c[2], c[3], c[4], [dy(h)]]), 'h': str(h), 'impl': str(v), 'model': [str(enc[0]), str(enc[1])],
                      'how': 'CovFactory::createCovFunc(ECov::%s, CovContext(1,%d)); setParam(%s); setField(%s); evalCov(%s)' % (e['key'], ndim, float(param), float(field), float(h))})
                break
        ctx.dist('closed_' + short(e))
    ctx.sample({'closed_form_case': sx_str(cases0[1])[:200], 'impl': str(im0[1])[:200]})

    ctx.log('closed forms done')
    # ------------------------------------------------------------------ 3. anisotropic structures, sums, modes, matrices
    ncase = 200 if quick else 2600
    cases1 = []; meta1 = []
    model_entries = [e for e in entries if e['code'] in MODEL_TYPES]
    for i in range(ncase):
        e = model_entries[i % len(model_entries)]
        dmax = min(e['maxdim'] or 4, 4)
        ndim = rng.randint(1, dmax)
        nvar = rng.choice([1, 1, 1, 2, 3])
        ncov = rng.choice([1, 1, 2, 3])
        es = [e] + [rng.choice([x for x in model_entries if (x['maxdim'] or 9) >= ndim]) for _ in range(ncov - 1)]
        structs = []; metas = []
        for x in es:
            s, m = gen_struct(rng, x, ndim, nvar)
            structs.append(s); metas.append(m)
        mode, mname = gen_mode(rng, ncov)
        pts = point_set(rng, rng.choice(['grid', 'clustered', 'random']), ndim, rng.choice([4, 6, 9]))
        if len(pts) > 12: pts = rng.sample(pts, 12)
        # sizes of the increments comparable with the ranges
        sc = F(rng.choice([1, 1, 2, 4, 8]), 4)
        pts = [tuple(x * sc for x in p) for p in pts]
        queries = []
        for _ in range(6):
            p1, p2 = rng.choice(pts), rng.choice(pts)
            iv, jv = rng.randrange(nvar), rng.randrange(nvar)
            queries.append((p1, p2, iv, jv)); queries.append((p2, p1, iv, jv))     # C(h) and C(-h)
        queries.append((pts[0], pts[0], 0, 0))
        steps = []
        for _ in range(2):
            direc = [F(rng.randint(-2, 2), 2) for _ in range(ndim)]
            steps.append((F(rng.randint(1, 12), 4), direc, rng.randrange(nvar), rng.randrange(nvar)))
        steps.append((F(3, 2), [], 0, 0))
        c = [1, ndim, nvar, structs, mode, [[Pt(q[0]), Pt(q[1]), q[2], q[3]] for q in queries], [Pt(p) for p in pts],
             [[dy(s[0]), [dy(t) for t in s[1]], s[2], s[3]] for s in steps]]
        cases1.append(c); meta1.append({'structs': metas, 'mode': mname, 'queries': queries, 'pts': pts, 'steps': steps, 'ndim': ndim, 'nvar': nvar})
    corpus = load_corpus(ctx)
    for c in corpus:
        if c[0] == 1:
            cases1.insert(0, c); meta1.insert(0, meta_from_case(c, by_code))
    res1 = correspond_structs(ctx, exe, runner, cases1, meta1, by_code, viol)

    ctx.log('structures done')
    # ------------------------------------------------------------------ 3b. covariances and Legendre spectra on the sphere
    sphere_tests(ctx, exe, runner, by_code, viol, quick)
    ctx.log('sphere done')
    # ------------------------------------------------------------------ 3b'. memory safety of the spectra at the smallest request (ASan build)
    asan_spectrum_n0(ctx, by_code, viol)
    ctx.log('ASan spectra done')
    # ------------------------------------------------------------------ 3c. multivariate models: exact PSD decision (LDL^T over Q)
    exact_psd_models(ctx, exe, runner, by_code, viol, quick)
    ctx.log('exact LDL^T done')
    # ------------------------------------------------------------------ 4. properties tested on the implementation alone
    property_tests(ctx, exe, entries, by_code, viol, quick)

    ctx.log('property tests done')
    # ------------------------------------------------------------------ 5. search: numerical PSD exploration
    psd_exploration(ctx, exe, entries, by_code, table_fail, guard_vacuous, viol, quick)

    ctx.log('PSD exploration done')
    # ------------------------------------------------------------------ 6. verdict on the table
    for code, (decl, ref, fails) in sorted(table_fail.items()):
        e = by_code[code]
        for f in fails:
            what = {0: 'unknown to the reference table', 1: 'declared dimension above the reference', 2: 'declared IRF order below the reference',
                    3: 'compact support larger than the range', 4: 'getScadef differs from the reference', 5: 'closed form text / shape / space flags differ from the reference',
                    6: 'parameter range larger than the reference'}[f]
            if f in (1, 2, 5) and ctx.psd_found.get(code): continue   # reported with a concrete point set by the search
            if f == 5 and short(e) in ctx.bad_struct: continue        # reported with a concrete distance by the closed-form correspondence
            if f == 3 and ctx.support_found.get(code): continue
            viol('table:%s:%s' % (short(e), {0: 'unknown', 1: 'dimension', 2: 'order', 3: 'support', 4: 'scadef', 5: 'form', 6: 'parameter'}[f]),
                 "structure '%s': %s (declared max dimension %s, reference %s) and no failing input was found by the search" % (e['name'], what, decl or 'any', ref),
                 {'structure': e['name'], 'check': what, 'reference': 'coq/C03/Valid.v', 'generated': 'coq/C03/gen/CovTable.v'}, found=False)
    ctx.cov['rule'] = ('cases = (structure, parameter, normalised distance) for the closed forms; (1-3 anisotropic structures with range/scale setter, rotation by '
                       'angles or matrix, PSD sill matrix, calculation mode, point pairs, point set, steps) for CovAniso/Model; (dimension, order) for the acceptance; '
                       '(structure, dimension, parameter, range, point set) for the PSD exploration. distinct = distinct case text; non-trivial = the structure is '
                       'evaluated at a non-zero distance with a defined result (every generated case)')
    if not (proofs_ok and tie_ok): proof_break_violation(ctx, st['found'])
    ctx.level = 'proof (partial: positive definiteness of the valid structures in their reference dimension is cited mathematics)'
    ctx.cov['trusted_base'] += [
        'CoqInterval 4.x used as a library (Interval.Float.Specific_ops over Z mantissas, Interval.Interval.Float_full): exp, cos, sin, sqrt, div enclosures',
        'extraction: ExtrOcamlNativeString; ClassicalDedekindReals.sig_forall_dec realised by a function that aborts (never reached: the runner computes on Z only)',
        'translators/C03_covtable.py (regex / recursive-descent translation of the covariance headers and of the arithmetic _evaluateCov bodies)',
        'reference validity table coq/C03/Valid.v (hand-written from Chiles-Delfiner, Wendland, Yaglom)',
        'python exact rational arithmetic (fractions) for the confirmation of negative directions on the harvested doubles']
    ctx.assumptions = [
        'PROVED for every finite point set: Gaussian (R^d, every d), Cosinus (R^1), nugget (every d); on regular 1-D grids: Triangle, Exponential; closure: sums, non-negative '
        'combinations, congruence/relabelling, Gram, Schur product with a (weighted) Gram factor, sill (x) kernel, limits, multivariate multi-structure block matrix (C03_model_psd)',
        'CITED, not proved (coq/C03/Valid.v): positive definiteness of Spherical/Cubic/Penta/Wendland (R^3; partial theorem under the named hypothesis intersection_volume), Exponential, Cauchy, Gamma, '
        'Stable, Matern, Cardinal Sine (R^3), J-Bessel, Storkey/Reg1D (R^1), conditional positive definiteness of Linear/Power/GC/spline structures, Schoenberg (Legendre matrices on the sphere); '
        'the check explores them numerically and, for rational closed forms on rational configurations, decides PSD exactly (LDL^T over Q)',
        'coordinates, ranges, sills are dyadic rationals with small mantissas: binary64 and Q read identical inputs',
        'polynomial closed forms are evaluated by the model at a 2^-100 bracket of the square root of the squared normalised distance (exact on perfect squares); '
        'the values at both ends of the bracket are returned (their Lipschitz closeness is not proved)',
        'J-Bessel: rational partial sums of the alternating series (no square root, no Gamma function: the Gamma ratio is a Pochhammer product); theorem C03_besselj_bracket is about every later partial sum, '
        'the identification of their limit with the library function is the correspondence (1e-9)',
        'the cut-offs h > MAX_EXP / h > 100 of Exponential, Gaussian, Cosexp are not mirrored (difference < 4e-44)',
        'Markov has no covariance on R^n: only its Legendre spectrum on the sphere is modelled (exact, any coefficient list); on the sphere: Geometric, LinearSph, Exponential closed forms, '
        'Matern (integer parameter) by its Legendre series, spectra of Geometric / Poisson / LinearSph / Matern / Markov (exact) and Exponential (enclosures); '
        'not modelled: Poisson covariance (J0 of an irrational argument), CovAniso::evalCovOnSphere scaling by the radius; memory safety of evalSpectrumOnSphere(n = 0) is tested under ASan',
        'third parameter: Matern 1/2, 3/2, 5/2; Stable 1/2, 1, 3/2, 2; Cauchy/Gamma integer; Power 1 (constant term harvested from the implementation); J-Bessel any positive rational',
        'scadef of Matern/Stable/Cauchy/Gamma is harvested from the implementation and checked against its formula in floating point only']

def meta_from_case(c, by_code):
    """meta-data of a stored case (corpus): structure names, setter paths, mode"""
    ms = []
    for s in c[3]:
        e = by_code[s[0]]
        ms.append({'code': s[0], 'param': undy(s[1]), 'path': s[2], 'vals': [undy(v) for v in s[3]], 'rotspec': s[4], 'name': e['name'], 'short': short(e),
                   'hasrange': e['hasrange'], 'sill': [[undy(t) for t in r] for r in s[5]]})
    md = c[4]
    if md == []: mn = 'default'
    elif md[2] != 0: mn = 'orderVario'
    elif md[3] != []: mn = 'activeList'
    else: mn = {(1, 0): 'asVario', (0, 1): 'unitary', (1, 1): 'asVario+unitary'}.get((md[0], md[1]), 'default')
    return {'structs': ms, 'mode': mn, 'ndim': c[1], 'nvar': c[2]}

def load_corpus(ctx):
    p = os.path.join(VERIF, 'corpus', ctx.pid + '.sx')
    if not os.path.exists(p): return []
    return [sx_parse(l) for l in open(p) if l.strip() and not l.startswith('#')]

# ----------------------------------------------------------------------------------------------- structures: impl run, model cases, comparison
def model_case_from(c, ii, by_code):
    """build the model case from the implementation case and what the implementation derived (rotation matrix, scadef and evalCov(0) oracles)"""
    ndim, nvar = c[1], c[2]
    ms = []
    for k, s in enumerate(c[3]):
        code, param, path, vals, rotspec, sill = s
        info = ii[1][k]
        rot = info[1]; scadef = info[3]; cov0 = info[4]
        e = by_code[code]
        if e['hasrange'] == 0:
            setter, v = 0, [dy(1)] * ndim
        elif path in (0, 5): setter, v = 0, vals
        elif path == 3: setter, v = 0, vals * ndim
        elif path in (2, 6): setter, v = 1, vals * ndim
        else: setter, v = 1, vals
        p = param
        if path == 8 and e['hasparam'] and e['parmax'][0] == 'num' and undy(param) > e['parmax'][1]: p = dy(e['parmax'][1])
        if e.get('parmin_dim') and undy(p) < F(ndim - 2, 2): p = dy(F(ndim - 2, 2))       # ACovFunc::setParam raises the parameter to getParMin()
        ms.append([code, p, setter, v, rot, sill, scadef, cov0 if cov0 != [] else dy(0), []])
    return [1, ndim, nvar, ms, c[4], c[5], c[6]]

def struct_key(m, what):
    return '%s:%s' % (what, m['short']) if m else what

def correspond_structs(ctx, exe, runner, cases, metas, by_code, viol):
    cf = write_cases(ctx, 'structs', cases)
    _, im = run_impl(ctx, exe, cf)
    mcases = []; idx = []
    for k, c in enumerate(cases):
        ii = im[k] if k < len(im) else None
        if ii is None or ii[0] != 1:
            m = metas[k]
            viol('crash:structure' + (':' + m['structs'][0]['short'] if m else ''), 'the implementation produced no answer (exception / crash) on a structure case',
                 {'case': sx_str(c), 'impl': ii}); continue
        # steps become ordinary queries for the model (origin -> dir * step; default direction = first axis)
        qs = list(c[5])
        for st in c[7]:
            step = undy(st[0]); d = [undy(t) for t in st[1]]
            if not d: d = [F(1)] + [F(0)] * (c[1] - 1)
            qs.append([[dy(0)] * c[1], [dy(step * t) for t in d], st[2], st[3]])
        mc = model_case_from(c, ii, by_code); mc[5] = qs
        mcases.append(mc); idx.append(k)
    if runner is None or not mcases: return None
    cfm = write_cases(ctx, 'structs_m', mcases)
    _, mo = run_model(ctx, runner, cfm)
    if len(mo) != len(mcases): print('ERROR: model runner returned %d results for %d cases' % (len(mo), len(mcases))); sys.exit(3)
    ndis = 0
    order = sorted(range(len(idx)), key=lambda a_: ((cases[idx[a_]][2] > 1, False, 0) if metas[idx[a_]] is None else (cases[idx[a_]][2] > 1, metas[idx[a_]]['mode'] != 'default', len(cases[idx[a_]][3]))))
    for a in order:
        k = idx[a]
        c, ii, mm, m = cases[k], im[k], mo[a], metas[k]
        if mm and mm[0] == -999: print('ERROR: model rejected case', sx_str(mcases[a])[:300]); sys.exit(3)
        ndim, nvar = c[1], c[2]
        ctx.count(sx_str(c), True)
        if m:
            ctx.dist('mode_' + m['mode']); ctx.dist('ndim_%d' % ndim); ctx.dist('nvar_%d' % nvar); ctx.dist('ncov_%d' % len(c[3]))
            for sm in m['structs']: ctx.dist('struct_' + sm['short']); ctx.dist('path_%d' % sm['path'])
        ctx.sample({'case': sx_str(c)[:400], 'impl': sx_str(ii)[:300]}, 3)
        bad = False
        ssum = 0.0
        allp = [[float(undy(t)) for t in q[0]] for q in mcases[a][5]] + [[float(undy(t)) for t in q[1]] for q in mcases[a][5]] + [[float(undy(t)) for t in p] for p in c[6]]
        hmax = 4 * max([abs(t) for p in allp for t in p] + [1.])
        # (a) derived scales / rotation / field
        for s_i, s in enumerate(c[3]):
            code, param, path, vals, rotspec, sill = s
            e = by_code[code]; sm = m['structs'][s_i] if m else None
            info = ii[1][s_i]
            scales_i = [undy(t) for t in info[0]]; rot_i = [[undy(t) for t in r] for r in info[1]]
            field_i = undy(info[2]); scadef_i = undy(info[3])
            scales_m = [unq(t) for t in mm[0][s_i][0]]; field_m = unq(mm[0][s_i][1])
            ssum += sum(abs(float(undy(t))) for r in sill for t in r) * max(1., float(field_m), hmax / max(1e-9, float(min(scales_m)))) ** DEG.get(code, 1)
            sf = scadef_float(code, undy(param))
            if e['scadef'][0] == 'const': sf = float(e['scadef'][1])
            if sf is not None and scadef_i is not None and abs(float(scadef_i) - sf) > 1e-13 * abs(sf) and path != 8:
                viol('scadef:' + short(e), 'getScadef() of %s (param %s) = %r, the formula of the table gives %r' % (e['name'], undy(param), float(scadef_i), sf), {'case': sx_str(c)})
            if any(abs(x - y) > F(1, 10 ** 14) * abs(y) for x, y in zip(scales_i, scales_m)) or len(scales_i) != len(scales_m):
                bad = True
                if path == 7 and code in PARAM_SCADEF:
                    key = 'createAnisotropic:range-converted-before-param'
                    txt = ("CovAniso::createAnisotropic(%s, ranges=%s, param=%s): the ranges are divided by getScadef() BEFORE the third parameter is set, "
                           "so the scales are %s instead of range/scadef(param) = %s; the practical range of the structure is %s, not the requested one"
                           % (e['name'], [float(undy(v)) for v in vals], float(undy(param)), [float(x) for x in scales_i], [float(x) for x in scales_m],
                              [float(undy(t)) for t in info[7]]))
                else:
                    key = 'aniso:range-to-scale:path%d:%s' % (path, short(e))
                    txt = 'structure %s built by setter path %d: scales %s, the model (range / scadef) gives %s' % (e['name'], path, [float(x) for x in scales_i], [float(x) for x in scales_m])
                viol(key, txt, {'case': sx_str([1, ndim, nvar, [s], [], [], [], []]), 'impl_scales': [str(x) for x in scales_i], 'model_scales': [str(x) for x in scales_m]})
            elif path not in (4, 5) and e['hasrange'] != 0 and field_i is not None and abs(field_i - field_m) > F(1, 10 ** 13) * abs(field_m):
                bad = True
                viol('aniso:field:path%d:%s' % (path, short(e)), 'structure %s built by setter path %d: field %r, the model (scadef * largest scale) gives %r' % (e['name'], path, float(field_i), float(field_m)),
                     {'case': sx_str([1, ndim, nvar, [s], [], [], [], []])})
            # rotation: orthonormal, and equal to the documented matrix of the angles / to the matrix given
            for i in range(ndim):
                for j in range(ndim):
                    d = sum(rot_i[i][t] * rot_i[j][t] for t in range(ndim)) - (1 if i == j else 0)
                    if abs(d) > F(1, 10 ** 6): viol('rotation:not-orthonormal', 'rotation matrix harvested from %s is not orthonormal' % e['name'], {'case': sx_str(c)})
            if rotspec and rotspec[0] == 0 and ndim in (2, 3):
                ang = [undy(t) for t in rotspec[1]]
                if ndim == 2: ang = [ang[0], F(0)]
                ref = rot_from_angles(ndim, ang)
                # documented convention: direct matrix, first COLUMN = direction of the first anisotropy axis
                got = [float(rot_i[i][j]) for j in range(ndim) for i in range(ndim)]
                if any(abs(x - y) > 1e-14 for x, y in zip(ref, got)):
                    bad = True
                    viol('rotation:angles-to-matrix', 'rotation matrix of %s for angles %s differs from GeometryHelper::rotationMatrix' % (e['name'], [float(t) for t in ang]),
                         {'case': sx_str([1, ndim, nvar, [s], [], [], [], []]), 'impl': got, 'expected': ref})
            if rotspec and rotspec[0] == 1:
                given = [undy(t) for t in rotspec[1]]
                rowm = [rot_i[i][j] for i in range(ndim) for j in range(ndim)]
                colm = [rot_i[j][i] for i in range(ndim) for j in range(ndim)]
                if given != rowm and given != colm:
                    bad = True
                    viol('rotation:matrix-not-stored', 'setAnisoRotation(matrix) of %s stores another matrix' % e['name'], {'case': sx_str([1, ndim, nvar, [s], [], [], [], []])})
        if bad: ndis += 1; continue
        tol = max(tol_of(s[0]) for s in c[3])
        fieldy = any(s[0] in FIELD or s[0] == 12 for s in c[3])
        first = m['structs'][0] if m else None
        def aniso_class(sm):
            if sm is None: return None
            if sm['rotspec'] and any(undy(t) != 0 for t in (sm['rotspec'][1] if sm['rotspec'][0] == 0 else [[1, 0]])) and len(set(sm['vals'])) > 1: return 'aniso:rotated-anisotropy'
            if len(set(sm['vals'])) > 1: return 'aniso:anisotropic-ranges'
            return None
        def report(site, what, q_repr, v, enc):
            # attribution of the mismatch (stable keys): a structure whose closed form already failed > calculation mode >
            # anisotropy / rotation > the structure itself > a sum of structures
            names = [x['short'] for x in m['structs']] if m else []
            culprit = next((n for n in names if n in ctx.bad_struct), None)
            acls = [a_ for a_ in (aniso_class(x) for x in (m['structs'] if m else [])) if a_]
            if culprit: key = ctx.bad_struct[culprit]
            elif any(a_ in ctx.bad_aniso for a_ in acls): key = next(a_ for a_ in acls if a_ in ctx.bad_aniso)
            elif nvar > 1: key = 'multivariate:sill-matrix'       # the same structures pass with one variable (processed first)
            elif m and m['mode'] != 'default': key = 'mode:%s' % m['mode']
            elif acls and len(names) == 1: key = acls[0]; ctx.bad_aniso.add(key)
            elif len(names) == 1: key = 'eval:%s:%s' % (site, names[0]); ctx.bad_struct[names[0]] = key
            else: key = 'eval:sum:%s' % site
            return viol(key, '%s of a model with %s (mode %s) %s returns %r, the closed form with the range measured along the rotated axes gives %s'
                        % (site, [x['name'] for x in m['structs']] if m else '?', m['mode'] if m else '?', what, float(v) if v is not None else None,
                           [float(enc[0]), float(enc[1])] if enc else None),
                        {'case': sx_str(c), 'model_case': sx_str(mcases[a])[:4000], 'query': q_repr, 'impl': str(v), 'model': [str(enc[0]), str(enc[1])] if enc else None})
        nq = len(c[5])
        scale = ssum
        stop = False
        for qi_, q in enumerate(mcases[a][5]):
            encM = enc_of(mm[1][qi_][0]); encC = enc_of(mm[1][qi_][1])
            if encM is None or encC is None: print('ERROR: model has no value for case', sx_str(mcases[a])[:300]); sys.exit(3)
            if qi_ < nq:
                vM, vC = undy(ii[2][qi_][0]), undy(ii[2][qi_][1])
                if not inside(vC, encC, tol, scale): report('CovAniso::eval', 'at query %d' % qi_, sx_str(q), vC, encC); stop = True; break
                if not inside(vM, encM, tol, scale): report('Model::eval', 'at query %d' % qi_, sx_str(q), vM, encM); stop = True; break
            else:
                vS = undy(ii[5][qi_ - nq])
                if not inside(vS, encM, tol, scale): report('Model::evalIvarIpas', 'at step %d' % (qi_ - nq), sx_str(c[7][qi_ - nq]), vS, encM); stop = True; break
        if stop: ndis += 1; continue
        for t in range(nvar * nvar):
            if not inside(undy(ii[3][t]), enc_of(mm[2][t]), tol, scale):
                report('Model::eval0', 'for variables (%d,%d)' % (t // nvar, t % nvar), '', undy(ii[3][t]), enc_of(mm[2][t])); stop = True; break
        if stop: ndis += 1; continue
        Mi = ii[4]; Mm = mm[3]
        if Mi == [-1] or len(Mi) != len(Mm):
            viol('matrix:size', 'evalCovMatrixSymmetric returns a matrix of the wrong size', {'case': sx_str(c)}); ndis += 1; continue
        for r in range(len(Mm)):
            for cc in range(len(Mm)):
                v = undy(Mi[r][cc])
                if Mi[r][cc] != Mi[cc][r]:
                    viol('matrix:not-symmetric', 'evalCovMatrixSymmetric is not symmetric at (%d,%d)' % (r, cc), {'case': sx_str(c)}); stop = True; break
                if not inside(v, enc_of(Mm[r][cc]), tol, scale):
                    report('Model::evalCovMatrixSymmetric', 'at entry (%d,%d)' % (r, cc), '', v, enc_of(Mm[r][cc])); stop = True; break
            if stop: break
        if stop: ndis += 1; continue
    ctx.cov['disagreements'] = ctx.cov.get('disagreements', 0) + ndis
    return im

# ----------------------------------------------------------------------------------------------- sphere
def sphere_tests(ctx, exe, runner, by_code, viol, quick):
    """ACovFunc::evalCovOnSphere / evalSpectrumOnSphere against the model: closed forms (Geometric, LinearSph, Exponential),
    Legendre series from the exact rational spectrum (Poisson, Matern with an integer parameter), spectra (non-negative, sum 1)"""
    rng = ctx.rng
    cases = []; meta = []
    alphas = [F(0), F(1, 64), F(1, 8), F(1, 2), F(1), F(3, 2), F(2), F(5, 2), F(3), F(201, 64)] + [F(rng.randint(1, 200), 64) for _ in range(4 if quick else 20)]
    confs = []
    for scale in (F(1, 8), F(1, 2), F(3, 4), F(15, 16)): confs.append((28, F(1), scale, 50))
    for scale in (F(1, 4), F(1), F(3)): confs.append((1, F(1), scale, 50))
    confs.append((30, F(1), F(1), 50))
    for lam in (F(1, 2), F(3, 2), F(4)):
        for deg in (10, 50): confs.append((29, lam, F(1), -deg))      # Poisson: spectrum only (its covariance is exp(..) J0(lambda sin alpha): not modelled)
    for mu in (F(1), F(2)):
        for scale in (F(1, 4), F(1)): confs.append((7, mu, scale, 30))
    for code, param, scale, deg in confs:
        if deg > 0:
            cases.append([3, code, dy(param), dy(scale), deg, [dy(a) for a in alphas]]); meta.append(('cov', code, param, scale, deg))
        deg = abs(deg)
        if code in (28, 29, 30, 7, 1):
            # (LinearSph and Exponential write sp[1] whatever n -- finding spectrum-n0-heap-overflow, tested under ASan below -- : n >= 1 here)
            for n in ((1, 7, deg) if code in (30, 1) else (0, 1, 7, deg)):
                cases.append([4, code, dy(param), dy(scale), n, []]); meta.append(('spec', code, param, scale, n))
    # Markov: spectrum only (no covariance on R^n), default and explicit coefficients
    for coeffs in ([], [F(1), F(1, 2)], [F(2), F(0), F(1, 4)]):
        for scale in (F(1, 4), F(1)):
            for n in (0, 5, 20):
                cases.append([4, 27, dy(1), dy(scale), n, [dy(t) for t in coeffs]]); meta.append(('spec', 27, F(1), scale, n))
    cf = write_cases(ctx, 'sphere', cases)
    _, im = run_impl(ctx, exe, cf)
    if runner is None: return
    mcases = [(c[:5] + [c[5] if c[5] else [dy(1)]]) if (c[0] == 4 and c[1] == 27) else c for c in cases]   # CovMarkov starts with the coefficient list (1)
    cfm = write_cases(ctx, 'sphere_m', mcases)
    _, mo = run_model(ctx, runner, cfm)
    if len(mo) != len(cases): print('ERROR: model runner returned %d results for %d sphere cases' % (len(mo), len(cases))); sys.exit(3)
    for k, c in enumerate(cases):
        what, code, param, scale, n = meta[k]
        e = by_code[code]; ii = im[k] if k < len(im) else None
        if ii is None or ii[0] != 1:
            viol('crash:sphere:' + short(e), 'no answer on the sphere for %s' % e['name'], {'case': sx_str(c)}); continue
        ctx.count(sx_str(c), True); ctx.dist('sphere_%s_%s' % (what, short(e)))
        if what == 'cov':
            if ii[1] != 1:
                viol('sphere:hasCovOnSphere:' + short(e), '%s has no covariance on the sphere' % e['name'], {'case': sx_str(c)}); continue
            for j, a in enumerate(alphas):
                v = undy(ii[3][j]); enc = enc_of(mo[k][j])
                if enc is None: print('ERROR: model has no sphere covariance for', e['name']); sys.exit(3)
                if not inside(v, enc, 1e-10):
                    viol('sphere:covariance:' + short(e), "ACovFunc::evalCovOnSphere of %s (param %s, scale %s, degree %d) at alpha = %s returns %r, the model gives %r"
                         % (e['name'], param, scale, n, a, float(v) if v is not None else None, float(enc[0])),
                         {'case': sx_str([3, c[1], c[2], c[3], c[4], [dy(a)]]), 'impl': str(v), 'model': [str(enc[0]), str(enc[1])]}); break
        else:
            sp_i = [undy(t) for t in ii[3]]
            if code == 27 and not c[5]: pass
            if code == 1:          # enclosures
                encs = [enc_of(t) for t in mo[k]]
                if len(sp_i) != len(encs) or any(not inside(x, en, 1e-11) for x, en in zip(sp_i, encs)):
                    viol('sphere:spectrum:' + short(e), 'ACovFunc::evalSpectrumOnSphere of %s (scale %s, n %d) = %s, the model gives %s'
                         % (e['name'], scale, n, [float(x) if x is not None else None for x in sp_i][:8], [float(en[0]) if en else None for en in encs][:8]), {'case': sx_str(c)})
                if any(x < 0 for x in sp_i) or (sp_i and abs(sum(sp_i) - 1) > F(1, 10 ** 12)):
                    viol('sphere:spectrum-not-a-distribution:' + short(e), 'spectrum of %s on the sphere has a negative coefficient or does not sum to 1' % e['name'], {'case': sx_str(c)})
                continue
            sp_m = [unq(t) for t in mo[k]]
            if len(sp_i) != len(sp_m) or any(x is None or abs(x - y) > F(1, 10 ** 12) for x, y in zip(sp_i, sp_m)):
                viol('sphere:spectrum:' + short(e), 'ACovFunc::evalSpectrumOnSphere of %s (param %s, scale %s, n %d) = %s, the model gives %s'
                     % (e['name'], param, scale, n, [float(x) if x is not None else None for x in sp_i][:8], [float(y) for y in sp_m][:8]), {'case': sx_str(c)}); continue
            if any(x < 0 for x in sp_i) or (sp_i and abs(sum(sp_i) - 1) > F(1, 10 ** 12)):
                viol('sphere:spectrum-not-a-distribution:' + short(e), 'spectrum of %s on the sphere has a negative coefficient or does not sum to 1' % e['name'], {'case': sx_str(c)})

def asan_spectrum_n0(ctx, by_code, viol):
    """evalSpectrumOnSphere(n = 0, ...) of every structure with a spectrum, under AddressSanitizer (one process per structure)"""
    # quick tier: only the sources that define a spectrum are compiled with -fsanitize=address, into the harness executable itself
    # (its definitions take precedence over the ones of the shared library); thorough tier: the complete ASan library
    exe_a = None
    if ctx.quick():
        import glob
        srcs = [f for f in sorted(glob.glob(os.path.join(REPO, 'src', 'Covariances', 'Cov*.cpp'))) if '::_evaluateSpectrumOnSphere(' in open(f).read()]
        fl, ld = lib_flags('lib')
        outd = os.path.join(BUILD, 'harness'); os.makedirs(outd, exist_ok=True)
        out = os.path.join(outd, 'C03_spectra_asan')
        rc, o, e = sh(['g++'] + fl + ['-fsanitize=address', '-fno-omit-frame-pointer', '-g1', os.path.join(VERIF, 'harness', 'C03.cpp')] + srcs
                      + ['-o', out] + ld + ['-fsanitize=address'], timeout=600)
        if rc == 0: exe_a = out
        else: ctx.log('ASan build of the spectrum sources failed', e[-1500:])
        ctx.cov['asan_sources'] = [os.path.basename(f) for f in srcs]
    else:
        rc, out, err = sh([os.path.join(VERIF, 'bin', 'buildlib.sh'), 'asan'], timeout=3000)
        if rc == 0: exe_a = build_harness(ctx, 'C03', 'asan')
    if exe_a is None:
        print('ERROR: the AddressSanitizer harness does not build; the memory-safety regression of the spectra cannot run', flush=True); sys.exit(3)
    for code in (1, 7, 27, 28, 29, 30):
        e = by_code.get(code)
        if e is None: continue
        c = [4, code, dy(1), dy(1), 0, []]
        cf = write_cases(ctx, 'asan_spec_%d' % code, [c])
        rc, res = run_impl(ctx, exe_a, cf, timeout=300, env={'ASAN_OPTIONS': 'detect_leaks=0:abort_on_error=0'})
        log = open(cf + '.impl.log').read()
        ctx.count(sx_str(c) + ':asan', True); ctx.dist('asan_spectrum_n0')
        if 'AddressSanitizer' in log:
            kind = 'heap-overflow' if 'heap-buffer-overflow' in log else 'memory-error'
            where = re.search(r'#0 0x[0-9a-f]+ in (\S+).*?(/\S+?:\d+)', log)
            viol('%s:spectrum-n0-%s' % (short(e), kind),
                 "ACovFunc::evalSpectrumOnSphere(n = 0) of '%s' writes beyond its 1-element vector (AddressSanitizer: %s%s); without the sanitizer the write is silent"
                 % (e['name'], kind, (' in %s at %s' % (where.group(1), os.path.basename(where.group(2)))) if where else ''),
                 {'case': sx_str(c), 'asan': log[:1500], 'how': 'CovFactory::createCovFunc(ECov::%s, ctxt)->evalSpectrumOnSphere(0, 1.) linked against the -fsanitize=address build' % e['key']})
        elif rc != 0 or not res:
            viol('crash:sphere:' + short(e), 'evalSpectrumOnSphere(n = 0) of %s crashes' % e['name'], {'case': sx_str(c), 'log': log[:800]})

# ----------------------------------------------------------------------------------------------- exact PSD decision
def ldl_exact(K):
    """K: symmetric matrix of Fractions.  Symmetric elimination with diagonal pivoting, exact.
    Returns None if K is positive semi-definite, else a rational vector x with x^T K x < 0."""
    n = len(K)
    S = [row[:] for row in K]
    V = [[F(1) if i == j else F(0) for j in range(n)] for i in range(n)]
    rem = list(range(n))
    while rem:
        neg = next((i for i in rem if S[i][i] < 0), None)
        if neg is not None: return V[neg]
        p = max(rem, key=lambda i: S[i][i])
        if S[p][p] == 0:
            for a in rem:
                for b in rem:
                    if a < b and S[a][b] != 0:
                        sg = -1 if S[a][b] > 0 else 1
                        return [V[a][k] + sg * V[b][k] for k in range(n)]
            return None
        rem.remove(p)
        piv = S[p][p]
        for i in rem:
            f = S[i][p] / piv
            if f == 0: continue
            V[i] = [a - f * b for a, b in zip(V[i], V[p])]
            Sp = S[p]
            S[i] = [a - f * b for a, b in zip(S[i], Sp)]
        for i in rem:
            for j in rem: S[j][i] = S[i][j] if j > i else S[j][i]
    return None

EXACT_TYPES = {0: [F(1)], 2: [F(1)], 4: [F(1)], 18: [F(1)], 20: [F(1)], 21: [F(1)], 24: [F(1)], 25: [F(1)], 26: [F(1)], 8: [F(1), F(2)], 9: [F(1), F(2), F(3)]}
INT_DIST_PTS = [(25, 0), (7, 24), (-7, 24), (-25, 0), (-7, -24), (7, -24), (0, 0)]     # integer mutual distances in the plane

def exact_psd_models(ctx, exe, runner, by_code, viol, quick):
    """multi-variable, multi-structure models whose covariance matrix is exact in Q (rational closed forms, rational
    normalised distances): the model's matrix and the implementation's matrix are decided PSD by an exact LDL^T"""
    if runner is None: return
    rng = ctx.rng
    cases = []; meta = []
    ncase = 24 if quick else 200
    for t in range(ncase):
        geo = rng.choice(['line', 'line', 'plane7', 'axis3'])
        if geo == 'line':
            ndim = 1; pts = sorted(set((F(rng.randint(0, 60), 4),) for _ in range(rng.randint(5, 9))))
        elif geo == 'plane7':
            ndim = 2; pts = [(F(x), F(y)) for x, y in INT_DIST_PTS]
        else:
            ndim = 3; ax = rng.randrange(3); pts = sorted(set(tuple(F(rng.randint(0, 40), 4) if d == ax else F(3) for d in range(3)) for _ in range(rng.randint(5, 8))))
        nvar = rng.choice([2, 2, 3])
        ncov = rng.choice([1, 2, 3])
        codes = [c for c in EXACT_TYPES if c in by_code and (by_code[c]['maxdim'] or 9) >= ndim]
        structs = []
        for _ in range(ncov):
            code = rng.choice(codes)
            param = rng.choice(EXACT_TYPES[code])
            rg = F(rng.choice([4, 8, 16, 32, 64, 128]), 4) if geo != 'plane7' else F(rng.choice([16, 32, 64]))
            sill = psd_sill(rng, nvar)
            structs.append([code, dy(param), 0, [dy(rg)] * ndim, [], M2(sill)])      # path 0: scales given (no scadef)
        c = [1, ndim, nvar, structs, [], [], [Pt(p) for p in pts], []]
        cases.append(c); meta.append((geo, ndim, nvar, [by_code[s[0]] for s in structs], pts))
    cf = write_cases(ctx, 'exactpsd', cases)
    _, im = run_impl(ctx, exe, cf)
    mcases = []; idx = []
    for k, c in enumerate(cases):
        ii = im[k] if k < len(im) else None
        if ii is None or ii[0] != 1:
            viol('crash:structure:' + short(meta[k][3][0]), 'the implementation produced no answer on a multivariate model', {'case': sx_str(c)}); continue
        mcases.append(model_case_from(c, ii, by_code)); idx.append(k)
    if not mcases: return
    cfm = write_cases(ctx, 'exactpsd_m', mcases)
    _, mo = run_model(ctx, runner, cfm)
    if len(mo) != len(mcases): print('ERROR: model runner returned %d results for %d cases' % (len(mo), len(mcases))); sys.exit(3)
    nexact = 0
    for a, k in enumerate(idx):
        c = cases[k]; geo, ndim, nvar, es, pts = meta[k]
        Mm = mo[a][3]; Mi = im[k][4]
        encs = [[enc_of(t) for t in r] for r in Mm]
        ctx.count(sx_str(c), True); ctx.dist('exactpsd_' + geo); ctx.dist('exactpsd_nvar_%d' % nvar)
        if any(t is None for r in encs for t in r): print('ERROR: model has no value for an exact case'); sys.exit(3)
        if any(t[0] != t[1] for r in encs for t in r): continue           # a distance was not a rational square root: not an exact case
        nexact += 1
        Kq = [[t[0] for t in r] for r in encs]
        names = [e['name'] for e in es]
        x = ldl_exact(Kq)
        if x is not None:
            q = exact_quad(Kq, x)
            viol('model-psd:exact',
                 'the exact covariance matrix (closed forms of %s, %d variables, %d points in R^%d) is NOT positive semi-definite: x^T K x = %s for a rational x (exact LDL^T)'
                 % (names, nvar, len(pts), ndim, q), {'case': sx_str(c), 'x': [str(t) for t in x], 'xKx': str(q)}); continue
        # the implementation's matrix: the same exact decision on the returned doubles, up to the rounding of the entries
        Ki = [[undy(t) for t in r] for r in Mi]
        n = len(Ki)
        tr = sum(Ki[i][i] for i in range(n))
        Kreg = [[Ki[i][j] + (F(1, 10 ** 11) * tr / n if i == j else 0) for j in range(n)] for i in range(n)]
        x = ldl_exact(Kreg)
        if x is not None:
            q = exact_quad(Ki, x)
            viol('model-psd:impl',
                 "Model::evalCovMatrixSymmetric of %s (%d variables, PSD sills, %d points in R^%d): x^T K x = %.6g < -1e-11 trace/n |x|^2 for a rational x (exact LDL^T on the returned doubles), while the exact matrix of the closed forms is PSD"
                 % (names, nvar, len(pts), ndim, float(q)), {'case': sx_str(c), 'x': [str(t) for t in x], 'xKx': str(q)})
    ctx.cov['exact_psd_matrices'] = nexact

# ----------------------------------------------------------------------------------------------- property tests on the implementation
def axis_dirs(ndim, ang):
    """columns of the direct rotation matrix = directions of the anisotropy axes (documented convention)"""
    r = rot_from_angles(ndim, ang)       # flat, r[ecr] with ecr = i*ndim + j holding element (row j, col i)?  see note below
    # rotation2DMatrixInPlace fills rot[0]=ca, rot[1]=sa, rot[2]=-sa, rot[3]=ca and Rotation::setAngles loads it by COLUMN:
    # column 0 = (ca, sa) = direction of the first axis
    return [[r[i * ndim + j] for j in range(ndim)] for i in range(ndim)]

def property_tests(ctx, exe, entries, by_code, viol, quick):
    rng = ctx.rng
    cases = []; meta = []
    nrep = 2 if quick else 12
    for e in entries:
        if not (e['onRn'] and e['haseval']): continue
        code = e['code']
        for ndim in range(1, min(e['maxdim'] or 3, 3) + 1):
            for rep in range(nrep):
                param = rng.choice(params_for(e, rng, True))
                if code in (14, 22, 12, 11, 13, 15, 16) and rep > 0: continue
                ranges = [F(rng.choice([4, 6, 8, 12, 16, 20]), 2) for _ in range(ndim)]
                ang = [F(rng.choice([0, 30, 45, 60, 90, 115, 200, 33])) for _ in range(ndim)]
                if ndim == 2: ang[1] = F(0)
                rotspec = [0, [dy(a) for a in ang]] if ndim in (2, 3) else []
                sill = [[F(rng.choice([1, 2, 3, 5]), 2)]]
                s = [code, dy(param), 1, [dy(r) for r in ranges], rotspec, M2(sill)]
                axes = axis_dirs(ndim, ang) if ndim in (2, 3) else [[1.]]
                qs = []
                tags = []
                # along every rotated axis, just inside / just beyond / far beyond the range
                for ax in range(ndim):
                    for fac, tag in ((1 - F(1, 64), 'inside'), (1 + F(1, 1024), 'beyond'), (F(5, 2), 'far'), (F(1, 2), 'half')):
                        p2 = [dyadic_round(float(ranges[ax] * fac) * axes[ax][d], 40) for d in range(ndim)]
                        qs.append([[dy(0)] * ndim, [dy(t) for t in p2], 0, 0]); tags.append((ax, tag, fac))
                # random increments, h and -h
                for _ in range(6):
                    p1 = [F(rng.randint(-40, 40), 8) for _ in range(ndim)]; p2 = [F(rng.randint(-40, 40), 8) for _ in range(ndim)]
                    qs.append([Pt(p1), Pt(p2), 0, 0]); tags.append(('rand', 'h', None))
                    qs.append([Pt(p2), Pt(p1), 0, 0]); tags.append(('rand', '-h', None))
                for mode in ([], [1, 0, 0, []]):
                    cases.append([1, ndim, 1, [s], mode, qs, [], []]); meta.append((e, ndim, param, ranges, ang, tags, sill[0][0], bool(mode)))
    cf = write_cases(ctx, 'props', cases)
    _, im = run_impl(ctx, exe, cf)
    ctx.support_found = {}
    hits = {}
    def hit(cls, e, text, rep):
        hits.setdefault(cls, []).append((short(e), text, rep))
    for k in range(0, len(cases), 2):
        e, ndim, param, ranges, ang, tags, sill, _ = meta[k]
        a, b = (im[k] if k < len(im) else None), (im[k + 1] if k + 1 < len(im) else None)
        if a is None or b is None or a[0] != 1 or b[0] != 1:
            viol('crash:structure:' + short(e), 'no answer from the implementation for %s in R^%d' % (e['name'], ndim), {'case': sx_str(cases[k])}); continue
        ctx.count(sx_str(cases[k]), True); ctx.dist('property_' + short(e))
        cov = [undy(t[1]) for t in a[2]]; vario = [undy(t[1]) for t in b[2]]
        c0 = undy(a[3][0]); g0 = undy(b[3][0])
        sc = F(sill)
        big = max([abs(c0)] + [abs(x) for x in cov if x is not None])
        tolv = F(1, 10 ** 10) * (big + sc)
        stationary = e['minorder'] < 0
        for i, (ax, tag, fac) in enumerate(tags):
            q = cases[k][5][i]
            rep = {'case': sx_str([1, ndim, 1, cases[k][3], [], [q], [], []]), 'structure': e['name'], 'ranges': [float(r) for r in ranges], 'angles': [float(t) for t in ang]}
            if cov[i] is None or vario[i] is None:
                viol('undefined-value:' + short(e), 'covariance of %s undefined' % e['name'], rep); break
            # variogram form = C(0) - C(h)
            if abs(vario[i] - (c0 - cov[i])) > tolv:
                hit('mode:asVario', e, "%s: the variogram mode returns %r, C(0) - C(h) = %r" % (e['name'], float(vario[i]), float(c0 - cov[i])),
                     dict(rep, case=sx_str([1, ndim, 1, cases[k][3], [1, 0, 0, []], [q], [], []]))); break
            if stationary and abs(cov[i]) > abs(c0) * (1 + F(1, 10 ** 12)):
                hit('bound:|C(h)|<=C(0)', e, '%s: |C(h)| = %r exceeds C(0) = %r' % (e['name'], float(abs(cov[i])), float(c0)), rep); break
            if tag == '-h' and cov[i] != cov[i - 1]:
                hit('symmetry:C(h)=C(-h)', e, '%s: C(h) = %r but C(-h) = %r' % (e['name'], float(cov[i - 1]), float(cov[i])), rep); break
            if e['support'] is not None and e['scadef'][0] == 'const':
                # compact support: zero beyond the range, measured along the rotated axes; non-zero just inside the support
                supp_over_range = e['support'] / e['scadef'][1]
                if tag in ('beyond', 'far') and fac > supp_over_range and cov[i] != 0:
                    hit('support:nonzero-beyond-support', e, '%s: C = %r at %s x range along rotated axis %d (support/range = %s)' % (e['name'], float(cov[i]), float(fac), ax + 1, supp_over_range), rep); break
                if tag == 'beyond' and fac <= supp_over_range and cov[i] != 0 and supp_over_range > 1:
                    ctx.support_found[e['code']] = True
                    viol(short(e) + ':nonzero-beyond-range', "'%s' does not vanish beyond its range: C = %r at %s x range along rotated axis %d (the closed form has support %s x range)"
                         % (e['name'], float(cov[i]), float(fac), ax + 1, supp_over_range), rep)
                if tag == 'inside' and supp_over_range == 1 and cov[i] == 0 and e['code'] != 0:
                    hit('support:range-on-wrong-axis', e, '%s: C = 0 at %s x range along rotated axis %d (ranges %s, angles %s): the range is not measured along the rotated axes'
                         % (e['name'], float(fac), ax + 1, [float(r) for r in ranges], [float(t) for t in ang]), rep); break
                if tag == 'half' and supp_over_range == 1 and cov[i] == 0:
                    hit('support:range-on-wrong-axis', e, '%s: C = 0 at half the range along rotated axis %d' % (e['name'], ax + 1), rep); break
    # a defect shared by several structures is reported once (it is not in their closed forms); otherwise under the structure's name
    for cls, lst in hits.items():
        names = sorted(set(x[0] for x in lst))
        if len(names) > 1:
            viol(cls, lst[0][1] + ' (same failure for %d structures: %s)' % (len(names), ', '.join(names)), lst[0][2])
        else:
            viol(cls + ':' + names[0], lst[0][1], lst[0][2])

# ----------------------------------------------------------------------------------------------- PSD exploration
def psd_exploration(ctx, exe, entries, by_code, table_fail, guard_vacuous, viol, quick):
    rng = ctx.rng
    ctx.psd_found = {}
    cases = []; meta = []
    dcap = 4
    guard_dims = {}
    for code, d in guard_vacuous:
        if d <= dcap: guard_dims.setdefault(code, set()).add(d)
    for e in entries:
        if not (e['onRn'] and e['haseval']): continue
        code = e['code']
        dmax = min(e['maxdim'] or dcap, dcap)
        dims = [(d, True) for d in range(1, dmax + 1)] + [(d, False) for d in sorted(guard_dims.get(code, set())) if d == dmax + 1]
        for ndim, accepted in dims:
            for param in params_for(e, rng, True):
                kinds = ['grid', 'cluster-fixed', 'clustered', 'random'] if ndim <= 3 else ['grid']
                if ndim == 2: kinds.append('grid6')
                rlist = [F(5, 4), F(13, 8), F(5, 2), F(4)] if quick else [F(3, 4), F(5, 4), F(13, 8), F(2), F(5, 2), F(3), F(4), F(6)]
                if ndim == 4: rlist = [F(3, 4)] if quick else [F(1, 2), F(3, 4), F(5, 4)]
                for kind in kinds:
                    for rg in (rlist if kind == 'grid' else [F(11, 8), F(3, 2), F(9, 4)] if kind == 'grid6' else rlist[1:3]):
                        pts = point_set(rng, kind, ndim, 18, m2=4)
                        if kind in ('clustered', 'random'): pts = [tuple(x / 4 for x in p) for p in pts]
                        if e['hasrange'] == -1: rg2 = rg * 8       # field large enough for the "covariance" form to be usable
                        else: rg2 = rg
                        # asymptotic structures: give the scale the same role as the range of the bounded ones
                        sc = e['scadef'][1] if e['scadef'][0] == 'const' else F(3)
                        rgd = dyadic_round(float(rg2 * sc), 16)
                        s = [code, dy(param), 1, [dy(rgd)] * ndim, [], [[dy(1)]]]
                        cases.append([1, ndim, 1, [s], [], [], [Pt(p) for p in pts], []]); meta.append((e, ndim, param, rgd, kind, pts, accepted))
    # directed regression: the witness of Example C03_old_penta_regression (7 points with integer mutual distances, range 32), in R^2 and embedded in R^3
    WPTS = [(25, 0), (7, 24), (-7, 24), (-25, 0), (-7, -24), (7, -24), (0, 0)]
    WX = [F(5), F(4), F(4), F(5), F(4), F(4), F(8)]
    pe = by_code.get(21)
    wcases = []
    if pe is not None:
        for nd in (2, 3):
            if pe['maxdim'] is None or pe['maxdim'] >= nd:
                wp = [tuple(F(t) for t in p) + (F(0),) * (nd - 2) for p in WPTS]
                wcases.append([1, nd, 1, [[21, dy(1), 1, [dy(32)] * nd, [], [[dy(1)]]]], [], [], [Pt(p) for p in wp], []])
    if wcases:
        cfw = write_cases(ctx, 'penta_witness', wcases)
        _, imw = run_impl(ctx, exe, cfw)
        for k, c in enumerate(wcases):
            ii = imw[k] if k < len(imw) else None
            if ii is None or ii[0] != 1 or ii[4] == [-1]: continue
            Kq = [[undy(t) for t in r] for r in ii[4]]
            q = exact_quad(Kq, WX)
            ctx.count(sx_str(c), True); ctx.dist('penta_witness')
            old_form = F(-149093, 8192)     # value for the pre-fix closed form (Example C03_old_penta_regression)
            if q < 0:
                ctx.psd_found[21] = True
                viol('Penta:not-psd-in-%dD' % c[1],
                     "'Penta' is offered in R^%d (getMaxNDim = %s) but is not positive semi-definite: on the 7 regression points of C03_old_penta_regression (integer mutual distances, range 32) "
                     "x = (5,4,4,5,4,4,8) gives x^T K x = %.9g on the implementation's matrix (the Reg1D closed form that CovPenta.cpp carried before fix C03_1 gives exactly %s = %.9g)"
                     % (c[1], pe['maxdim'], float(q), old_form, float(old_form)),
                     {'case': sx_str(c), 'points': WPTS, 'x': [str(t) for t in WX], 'xKx_exact_on_doubles': str(q), 'xKx_old_form': str(old_form), 'example': 'C03_old_penta_regression (coq/C03/Properties.v)',
                      'how': 'Model::addCovFromParam(ECov::PENTA, ranges = 32); K = model.evalCovMatrixSymmetric(db of the 7 points); x^T K x in exact rational arithmetic on the returned doubles'})
    # regression cases of the corpus (kind 7): former witnesses, explored first so that they provide the replay of their key
    for cc in load_corpus(ctx):
        if cc[0] == 7 and len(cc[1][3]) == 1 and cc[1][3][0][0] in by_code:
            c1 = cc[1]; e1 = by_code[c1[3][0][0]]
            pts1 = [tuple(undy(t) for t in p) for p in c1[6]]
            cases.insert(0, c1); meta.insert(0, (e1, c1[1], undy(c1[3][0][1]), undy(c1[3][0][3][0]), 'corpus', pts1, e1['maxdim'] is None or c1[1] <= e1['maxdim']))
    cf = write_cases(ctx, 'psd', cases)
    _, im = run_impl(ctx, exe, cf, timeout=3000)
    nneg = 0
    guard_best = None
    for k, c in enumerate(cases):
        e, ndim, param, rg, kind, pts, accepted = meta[k]
        ii = im[k] if k < len(im) else None
        if ii is None or ii[0] != 1 or ii[4] == [-1]:
            viol('crash:matrix:' + short(e), 'no covariance matrix from the implementation for %s in R^%d' % (e['name'], ndim), {'case': sx_str(c)}); continue
        ctx.count(sx_str(c), True); ctx.dist('psd_%s_%dD' % (short(e), ndim)); ctx.dist('psd_points_' + kind)
        Kq = [[undy(t) for t in r] for r in ii[4]]
        n = len(Kq)
        if any(t is None for r in Kq for t in r):
            viol('undefined-value:' + short(e), 'covariance matrix of %s in R^%d contains undefined values' % (e['name'], ndim), {'case': sx_str(c)}); continue
        if any(Kq[i][j] != Kq[j][i] for i in range(n) for j in range(i)):
            viol('matrix:not-symmetric', 'evalCovMatrixSymmetric of %s is not symmetric' % e['name'], {'case': sx_str(c)}); continue
        key_done = (e['code'], ndim, accepted)
        if key_done in ctx.psd_found.get('_done', set()): continue
        Kf = [[float(t) for t in r] for r in Kq]
        trace = sum(abs(Kf[i][i]) for i in range(n)) or 1.
        order = e['minorder']
        if order >= 0:
            Kp, N = project_float(Kf, [[float(t) for t in p] for p in pts], ndim, order)
            if not Kp: continue
            tr2 = sum(abs(Kp[i][i]) for i in range(len(Kp))) or 1.
            y = neg_direction(Kp, 1e-9 * max(tr2 / len(Kp), 1e-300))
            x = None if y is None else [sum(N[b][i] * y[b] for b in range(len(N))) for i in range(n)]
        else:
            x = neg_direction(Kf, 1e-10 * trace / n)
        if x is None: continue
        xq = rationalise(x, 20)
        xq = authorise(xq, pts, ndim, order)
        if xq is None: continue
        q = exact_quad(Kq, xq)
        xx = sum(t * t for t in xq)
        if xx == 0 or q >= -F(1, 10 ** 10) * F(trace) / n * xx: continue
        nneg += 1
        ctx.psd_found.setdefault('_done', set()).add(key_done)
        if accepted: ctx.psd_found[e['code']] = True
        ray = float(q / xx)
        cond = '' if order < 0 else ' (x filters the polynomials of degree <= %d: an authorised increment)' % order
        rep = {'case': sx_str(c), 'structure': e['name'], 'ndim': ndim, 'param': str(param), 'range': str(rg), 'points': [[str(t) for t in p] for p in pts],
               'x': [str(t) for t in xq], 'xKx_exact': str(q), 'rayleigh_quotient': ray,
               'how': 'Model::addCovFromParam(ECov::%s, ranges = range in every direction, sill 1, param); K = model.evalCovMatrixSymmetric(db of the points); '
                      'x^T K x computed in exact rational arithmetic on the returned doubles' % e['key']}
        if accepted:
            viol('%s:not-psd-in-%dD' % (short(e), ndim),
                 "'%s' is offered in R^%d%s but its covariance matrix on %d %s points (range %s%s) is not positive semi-definite: x^T K x = %.6g for the recorded x%s, i.e. an eigenvalue <= %.4g (trace %g)"
                 % (e['name'], ndim, '' if e['maxdim'] is None else ' (getMaxNDim = %d)' % e['maxdim'], n, kind, float(rg), ', param %s' % float(param) if e['hasparam'] else '', float(q), cond, ray, trace), rep)
        else:
            pref = {18: 0, 17: 1, 2: 2, 4: 3}.get(e['code'], 9)
            if guard_best is not None and guard_best[0] <= pref: continue
            guard_best = (pref,
                 "the constructor of ACovFunc calls the virtual isConsistent() (hence the base getMaxNDim() = MAX_INT): no structure is ever refused. '%s' (getMaxNDim = %d) is created in R^%d "
                 "by CovAniso / Model::addCovFromParam without error and its covariance matrix on %d %s points is not positive semi-definite (x^T K x = %.6g, eigenvalue <= %.4g)"
                 % (e['name'], e['maxdim'], ndim, n, kind, float(q), ray), rep)
    if guard_best is not None: viol('ACovFunc:dimension-guard-vacuous', guard_best[1], guard_best[2])
    ctx.cov['psd_negative_directions'] = nneg
    if guard_vacuous and not any(v[0] == 'ACovFunc:dimension-guard-vacuous' for v in ctx.violations) and not any(k == 'ACovFunc:dimension-guard-vacuous' for k, _ in ctx.known_hit):
        code, d = guard_vacuous[0]
        viol('ACovFunc:dimension-guard-vacuous', "'%s' (getMaxNDim = %s) is created in R^%d without the exception announced by ACovFunc::ACovFunc" % (by_code[code]['name'], by_code[code]['maxdim'], d),
             {'case': sx_str([2, d, 3]), 'structure': by_code[code]['name']})

if __name__ == '__main__':
    main(run)

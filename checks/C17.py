"""C17 — automatic model fitting returns a usable, constraint-abiding model.

Theorems of coq/C17 (eigen-truncation, definite-positive repair, sequencing of the unconstrained Goulard loop, bound
vectors / clamping / options) + correspondence of the modelled functions with the library (the static functions of
model_auto.cpp / foxleg.cpp are compiled into the harness from the current source text) + post-condition oracle on
Model::fit / Model::fitFromVMap / ModelOptimSillsVario::fit / ModelOptimVario::fit + optional trace hook (hooks/C17.patch).

Defects found on the pinned tree, all repaired in /repo (fixes/C17_1 .. C17_10); the model follows the repaired code and
corpus/C17.sx + the directed scenarios keep one regression case per defect, which fires with the key below if the repair is undone:
  *:multi:goulard:constant-sill*:sill-undefined            constant sill, several variables (fill(0.) inside the variable loop)   C17_1
  *:intrinsic:crash                                        option flag_intrinsic (work sills never allocated, wrong indexing)       C17_2
  *:multi:*:exception-length-error                         negative parameter count not tested                                      C17_3
  *:pair-without-valid-lag:sill-undefined                  pair of variables without valid lag: 1/0, 0/0 in the Goulard steps       C17_4
  *:constraint:after-reduction:not-satisfied               bounds wiped after a reduction following a non-converged run             C17_5
  ModelOptim*::fit:empty-lag:crash                         heap overflow in ModelOptimSillsVario::_compressArray                    C17_6
  Model::fitFromVMap:isotropy-asked:ranges-differ, :rotation-locked:angles-changed   options overridden by st_alter_vmap_optvar    C17_7
  *:constraint-sill:no-goulard:not-satisfied               sill constraint applied to the square root                               C17_8
  Model::fit:constraint-on-parameter-not-inferred:not-satisfied (angle half)                                                        C17_9
  Model::fit:exception-null-ellipsoid-radius               Tensor exception leaving Model::fit                                      C17_10
  impl-vs-spec:*:constant-sill-with-sill-item:accepted, :total-sill-differs-from-imposed   sill item + constant sill: total dropped silently   C17_11
  impl-vs-spec:*:constant-sill-vector:total-sill-differs-from-imposed   (seeded change C17_2: per-variable totals overwritten by the scalar)
Known findings that remain (deterministic: directed scenario or corpus case for each):
  Model::fit:constraint-on-parameter-not-inferred:not-satisfied     a constraint on an anisotropy range the library decides not to infer
                                                                    (one direction, or isotropy forced by the geometry) is dropped silently
  Model::fit / ModelOptimSillsVario::fit / ModelOptimVario::fit :zero-total-sill:kriging-undefined-results,
  Model::fit:singular-total-sill:kriging-undefined-results         degenerate data: the fitted model is PSD but a variable has a zero total
                                                                    sill / the total sill matrix is singular, kriging returns undefined values
  ModelOptimVario::fit:no-termination                               nugget effect alone, Goulard off: nlopt never returns (15 s limit in the check)
"""
import sys, os, math, itertools, random
sys.path.insert(0, os.path.dirname(__file__))
from common import *
if hasattr(sys, 'set_int_max_str_digits'): sys.set_int_max_str_digits(0)   # exact rationals of long Goulard replays

HOOKS = ['verif_c17_trace_start', 'verif_c17_trace_stop', 'verif_c17_trace_size', 'verif_c17_trace_data', 'verif_c17_trace_overflow']
E_RANGE, E_ANGLE, E_PARAM, E_SILL = 1, 2, 3, 4
T_LOWER, T_DEFAULT, T_UPPER, T_EQUAL = -1, 0, 1, 2
ELEM = {1: 'range', 2: 'angle', 3: 'param', 4: 'sill'}
CASE = {-1: 'lower', 0: 'default', 1: 'upper', 2: 'equal'}
# ECov values used (include/Enum/ECov.hpp)
NUGGET, EXPONENTIAL, SPHERICAL, GAUSSIAN, CUBIC, LINEAR, BESSEL_K, COSEXP, STABLE = 0, 1, 2, 3, 4, 8, 6, 13, 15

def F(x): return Fraction(x)
def fl(x): return None if x is None else float(x)

# ----------------------------------------------------------------------------- exact linear algebra on harvested doubles
def is_psd_exact(M, rel=Fraction(1, 10**10)):
    """M: square list of lists of Fractions (None = undefined). True iff min eigenvalue >= -rel*trace, decided by an exact
    LDL' elimination of M + rel*trace*I."""
    n = len(M)
    if any(v is None for r in M for v in r): return False
    tr = sum(M[i][i] for i in range(n))
    if tr < 0: return False
    if tr == 0: return all(abs(v) == 0 for r in M for v in r)
    A = [[(M[i][j] + M[j][i]) / 2 + (rel * tr if i == j else 0) for j in range(n)] for i in range(n)]
    for k in range(n):
        piv = A[k][k]
        if piv < 0: return False
        if piv == 0:
            if any(A[i][k] != 0 for i in range(k + 1, n)): return False
            continue
        for i in range(k + 1, n):
            f = A[i][k] / piv
            for j in range(k + 1, n): A[i][j] -= f * A[k][j]
    return True

def sym_defect(M):
    n = len(M)
    return max([abs(M[i][j] - M[j][i]) for i in range(n) for j in range(n)] + [0])

def unmat(m, conv=None):
    conv = conv or undy
    return [[conv(x) for x in r] for r in m]

def dmat(M): return [[dy(x) for x in r] for r in M]

def close_mat(A, B, tol=1e-9, scale=None):
    """A impl (Fractions/None), B model (Fractions)"""
    if A is None or B is None: return False
    if len(A) != len(B): return False
    sc = scale if scale is not None else max([abs(x) for r in B for x in r] + [Fraction(1)])
    for ra, rb in zip(A, B):
        if len(ra) != len(rb): return False
        for a, b in zip(ra, rb):
            if a is None: return False
            if abs(a - b) > tol * sc: return False
    return True

def close_o(a, b, tol=1e-9):
    if a is None or b is None: return a is None and b is None
    return abs(a - b) <= tol * (1 + abs(b))

# ----------------------------------------------------------------------------- build
def build_c17_harness(ctx, with_hook=False):
    """the harness compiles the current text of model_auto.cpp / foxleg.cpp into itself (static functions)"""
    outd = os.path.join(BUILD, 'harness'); os.makedirs(outd, exist_ok=True)
    srcs = [os.path.join(REPO, 'src', 'Core', 'model_auto.cpp'), os.path.join(REPO, 'src', 'Core', 'foxleg.cpp'),
            os.path.join(REPO, 'src', 'Model', 'AModelOptimSills.cpp')]
    incs = set()
    for s in srcs:
        for line in open(s):
            m = re.match(r'\s*#\s*include\s+([<"][^>"]+[>"])', line)
            if m: incs.add(m.group(1))
    inc = os.path.join(outd, 'C17_includes_%d.hpp' % os.getpid())
    with open(inc, 'w') as f:
        for i in sorted(incs): f.write('#include %s\n' % i)
    extra = ['-DC17_INCLUDES="%s"' % inc, '-DC17_FOXLEG_SRC="%s"' % srcs[1], '-DC17_MODEL_AUTO_SRC="%s"' % srcs[0], '-ldl'] + (['-DC17_COPY_WITH_HOOK'] if with_hook else [])
    exe = build_harness(ctx, 'C17', extra=extra)
    try: os.remove(inc)
    except OSError: pass
    return exe

def load_corpus(ctx):
    p = os.path.join(VERIF, 'corpus', ctx.pid + '.sx')
    if not os.path.exists(p): return []
    return [sx_parse(l) for l in open(p) if l.strip() and not l.startswith('#')]

def both(ctx, exe, runner, name, icases, mk_model):
    """run impl on icases, build the model cases from (case, impl result), run the model. Returns list of (case, impl, mcase, model)"""
    cf = write_cases(ctx, name + '_i', icases)
    rc, impl = run_impl(ctx, exe, cf, timeout=1500)
    out = []
    mcases = []; idx = []
    for i, c in enumerate(icases):
        ii = impl[i] if i < len(impl) else None
        mc = None
        if ii is not None and not (len(ii) == 2 and ii[0] == -997):
            try: mc = mk_model(c, ii)
            except Exception as ex:
                mc = None
        out.append([c, ii, mc, None])
        if mc is not None: mcases.append(mc); idx.append(i)
    if mcases:
        mf = write_cases(ctx, name + '_m', mcases)
        rc, model = run_model(ctx, runner, mf)
        if len(model) != len(mcases):
            print('ERROR: model runner returned %d results for %d cases (%s)' % (len(model), len(mcases), name)); sys.exit(3)
        for k, i in enumerate(idx):
            if model[k] and model[k][0] == -999:
                print('ERROR: model rejected a case of stage %s: %s' % (name, sx_str(mcases[k])[:300])); sys.exit(3)
            out[i][3] = model[k]
    return out

def crashed(ii): return ii is None or (len(ii) == 2 and ii[0] == -997)

# ----------------------------------------------------------------------------- stage 1: truncation / definite-positive repair
def gen_sym(rng, n, kind):
    q = lambda: Fraction(rng.randint(-32, 32), 4)
    if kind == 'psd':
        A = [[Fraction(rng.randint(-4, 4), 2) for _ in range(n)] for _ in range(n)]
        return [[sum(A[i][k] * A[j][k] for k in range(n)) for j in range(n)] for i in range(n)]
    if kind == 'rank1':
        v = [Fraction(rng.randint(-4, 4)) for _ in range(n)]
        s = rng.choice([1, -1, 1])
        return [[s * v[i] * v[j] for j in range(n)] for i in range(n)]
    if kind == 'zero': return [[Fraction(0)] * n for _ in range(n)]
    if kind == 'diag':
        d = [q() for _ in range(n)]
        return [[d[i] if i == j else Fraction(0) for j in range(n)] for i in range(n)]
    if kind == 'nearpsd':   # PSD minus a small multiple of the identity: a slightly negative eigenvalue
        M = gen_sym(rng, n, 'psd'); e = Fraction(1, 2 ** rng.choice([10, 20, 30, 40]))
        return [[M[i][j] - (e if i == j else 0) for j in range(n)] for i in range(n)]
    if kind == 'corr':      # unit diagonal, correlations possibly inconsistent (typical Goulard input)
        M = [[Fraction(1) if i == j else Fraction(0) for j in range(n)] for i in range(n)]
        for i in range(n):
            for j in range(i):
                M[i][j] = M[j][i] = Fraction(rng.randint(-9, 9), 8)
        return M
    M = [[Fraction(0)] * n for _ in range(n)]
    for i in range(n):
        for j in range(i + 1):
            M[i][j] = M[j][i] = q()
    return M

def orthonormal_defect(V):
    n = len(V)
    return max(abs(sum(V[i][k] * V[i][l] for i in range(n)) - (1 if k == l else 0)) for k in range(n) for l in range(n))

def stage_trunc(ctx, exe, runner, quick):
    rng = ctx.rng
    kinds = ['any', 'psd', 'rank1', 'zero', 'diag', 'nearpsd', 'corr']
    N = 140 if quick else 1500
    icases = []
    for i in range(N):
        n = rng.choice([1, 2, 2, 3, 3, 4])
        kd = kinds[i % len(kinds)]
        S = gen_sym(rng, n, kd)
        which = i % 2
        if (i // 2) % 2 == 0:
            icases.append([0, which, n, dmat(S)])
            ctx.dist('trunc_%s_n%d' % (kd, n))
        else:
            # domain of the callers: a variable with a sill constraint has a non-negative diagonal term (the constrained
            # initialisation and st_updateCurrentSillDiag produce values >= 0)
            cons = [dy(Fraction(rng.randint(1, 8), 2)) if (rng.random() < .7 and S[k][k] >= 0) else [] for k in range(n)]
            eps = dy(Fraction(1, 2 ** rng.choice([40, 40, 3])))
            icases.append([1, which, n, eps, cons, dmat(S)])
            ctx.dist('makedp_%s_n%d' % (kd, n))
    def mk_model(c, ii):
        flag, lam, V, out = ii
        if lam == [] or V == []: return None
        if c[0] == 0: return [0, c[2], c[3], lam, V]
        return [1, c[2], c[3], c[4], c[5], lam, V]
    res = both(ctx, exe, runner, 'trunc', icases, mk_model)
    for c, ii, mc, mi in res:
        fn = ('AModelOptimSills::_truncateNegativeEigen' if c[1] == 0 else 'st_truncate_negative_eigen') if c[0] == 0 else \
             ('AModelOptimSills::_makeDefinitePositive' if c[1] == 0 else 'st_makeDefinitePositive')
        if crashed(ii):
            ctx.count(sx_str(c)); ctx.found_input = True
            ctx.violation('crash:' + fn, '%s: no answer (crash or exception)' % fn, {'case': sx_str(c)}); continue
        flag, lam, V, out = ii
        if mc is None:
            ctx.count(sx_str(c)); ctx.found_input = True
            ctx.violation('eigen-failure:' + fn, 'computeEigen failed on a finite symmetric matrix', {'case': sx_str(c), 'impl': ii}); continue
        n = c[2]
        Sout = unmat(out); lamv = [undy(x) for x in lam]; Vv = unmat(V)
        ctx.count(sx_str(c)); ctx.sample({'case': sx_str(c)[:200], 'impl': sx_str(ii)[:200], 'model': sx_str(mi)[:200]})
        if c[0] == 0:
            mflag, mS, derr = mi; mS = unmat(mS, unq)
            expect = mS
        else:
            mflag, mT, specs = mi; mT = unmat(mT, unq)
            d = []
            for s in specs:
                if s[0] == 0: d.append(1.0)
                elif s[0] == 2: d.append(0.0)
                else:
                    r = unq(s[1]); d.append(math.sqrt(r) if r >= 0 else float('nan'))
            if any(x != x for x in d): expect = None   # sqrt of a negative ratio: impl writes NaN
            elif mflag: expect = mT
            else: expect = [[Fraction(float(mT[i][j]) * d[i] * d[j]) for j in range(n)] for i in range(n)]
        agree = (flag == mflag) and ((expect is None and any(v is None for r in Sout for v in r)) or (expect is not None and close_mat(Sout, expect)))
        # the property on impl's own output: symmetric, PSD; negative directions really cut (eigenvalues of S' = max(lam,0))
        spec_ok = True; why = ''
        if any(v is None for r in Sout for v in r): spec_ok = False; why = 'undefined / NaN entry'
        elif sym_defect(Sout) != 0: spec_ok = False; why = 'not symmetric'
        elif not flag and not is_psd_exact(Sout): spec_ok = False; why = 'not positive semi-definite'
        elif not flag and c[0] == 0 and orthonormal_defect(Vv) < Fraction(1, 10**10):
            sc = max([abs(x) for x in lamv] + [Fraction(1)])
            for k in range(n):
                qf = sum(Vv[i][k] * Sout[i][j] * Vv[j][k] for i in range(n) for j in range(n))
                if abs(qf - max(lamv[k], 0)) > Fraction(1, 10**9) * sc:
                    spec_ok = False; why = "direction %d (eigenvalue %g): v'S'v = %g, expected max(lambda,0)" % (k, lamv[k], qf); break
        if not agree:
            ctx.ndis += 1
            if not spec_ok:
                ctx.found_input = True
                ctx.violation('%s:%s' % (fn, 'negative-direction-not-cut' if why.startswith('direction') else 'output-' + why.split(' ')[0] + ('-psd' if why.startswith('not positive') else '')),
                              '%s on %s: %s' % (fn, [[float(x) for x in r] for r in unmat(c[3] if c[0] == 0 else c[5])], why),
                              {'case': sx_str(c), 'impl': sx_str(ii), 'model': sx_str(mi)})
            else:
                ctx.violation('model-drift:' + fn, 'model and impl disagree on %s but impl output is a valid truncation: correspondence no longer checks' % fn,
                              {'case': sx_str(c), 'impl': sx_str(ii), 'model': sx_str(mi), 'correspondence': 'coq/C17/Model.v vs ' + fn}, found_input=False)
        elif not spec_ok and not (c[0] == 1 and expect is None):
            ctx.ndis += 1; ctx.found_input = True
            ctx.violation('%s:output-%s' % (fn, why.split(' ')[0]), '%s: %s (model agrees: check the theorem hypotheses)' % (fn, why), {'case': sx_str(c), 'impl': sx_str(ii)})
        elif c[0] == 1 and expect is None:
            ctx.found_input = True
            ctx.violation(fn + ':sqrt-of-negative-ratio', '%s writes NaN: a constrained variable with negative diagonal before truncation' % fn, {'case': sx_str(c), 'impl': sx_str(ii)})


# ----------------------------------------------------------------------------- stage 2: options -> parameters -> bounds -> clamp
COVTYPES = [0, 1, 2, 3, 4, 6, 7, 10, 11, 12, 19]   # nugget, exponential, spherical, gaussian, cubic, besselJ, matern, stable, linear, power, cosexp

def parid_enc(imod, icov, elem, ivar, jvar): return (((imod * 50 + icov) * 50 + elem) * 50 + ivar) * 50 + jvar
def parid_dec(v):
    j = v % 50; v //= 50; i = v % 50; v //= 50; e = v % 50; v //= 50; c = v % 50; v //= 50
    return (v % 50, c, e, i, j)

def gen_dirs(rng, ndim):
    ndir = rng.choice([1, 2, 2, 3, 4])
    pool = {1: [[1]], 2: [[1, 0], [0, 1], [Fraction(3, 5), Fraction(4, 5)], [Fraction(-4, 5), Fraction(3, 5)], [1, 0]],
            3: [[1, 0, 0], [0, 1, 0], [0, 0, 1], [Fraction(3, 5), Fraction(4, 5), 0], [0, Fraction(3, 5), Fraction(4, 5)], [0, 0, 1]]}[ndim]
    return [rng.choice(pool) for _ in range(ndir)]

def gen_items(rng, ncov, nvar, mono_sill=True):
    items = []
    for _ in range(rng.choice([0, 1, 1, 2, 3, 4])):
        elem = rng.choice([E_RANGE, E_RANGE, E_ANGLE, E_PARAM, E_SILL])
        icov = rng.randint(0, ncov)            # ncov itself: designates nothing
        iv1 = rng.choice([0, 0, 0, 1, 2]); iv2 = rng.choice([0, 0, 1]) if elem == E_SILL else rng.choice([0, 0, 0, 1])
        if elem == E_SILL and rng.random() < .6: iv1 = iv2 = 0      # the sill of a single variable: the item that really lands on a parameter
        case = rng.choice([T_LOWER, T_UPPER, T_EQUAL, T_EQUAL, T_DEFAULT])
        if elem == E_SILL:
            r = Fraction(rng.randint(1, 12), 4); val = r * r
            if rng.random() < .08: val = -val
        elif elem == E_ANGLE: val = Fraction(rng.randint(-360, 360), 2)
        elif elem == E_PARAM: val = Fraction(rng.randint(1, 12), 8)
        else: val = Fraction(rng.randint(1, 200), 8)
        items.append([0 if rng.random() < .95 else 1, icov, elem, iv1, iv2, case, dy(val)])
    return items

def stage_params(ctx, exe, runner, quick):
    rng = ctx.rng
    N = 260 if quick else 4000
    icases = []
    for i in range(N):
        ndim = rng.choice([1, 2, 2, 2, 3, 3]); nvar = rng.choice([1, 1, 2, 3])
        dirs = gen_dirs(rng, ndim)
        opts = [rng.random() < .5, rng.random() < .8, rng.random() < .7, rng.random() < .7, rng.random() < .3, rng.random() < .3,
                rng.random() < .3, rng.random() < .3, False, False]
        ncov = rng.choice([1, 2, 2, 3, 4])
        types = [rng.choice(COVTYPES) for _ in range(ncov)]
        if ndim == 3 or rng.random() < .5: pass
        items = gen_items(rng, ncov, nvar)
        hmax = Fraction(rng.randint(1, 400), 4)
        nvs2 = nvar * (nvar + 1) // 2
        varchol = [dy(Fraction(rng.randint(-16, 16), 4)) for _ in range(nvs2)]
        angles = [dy(Fraction(rng.randint(-180, 180), 2)) for _ in range(ndim)]
        vmap = (i % 5 == 4)
        if vmap:    # st_vmap_auto_count: a 2-D map, one variable (vmap_auto_fit asks both nvar and nvar(nvar+1)/2 maps), no direction
            ndim = 2; nvar = rng.choice([1, 1, 1, 2]); varchol = varchol[:1] if nvar == 1 else [dy(Fraction(rng.randint(-16, 16), 4)) for _ in range(3)]
            angles = [dy(0), dy(0)]; types = [t for t in types]; items = gen_items(rng, ncov, nvar)
        icases.append([3, ndim, nvar, [[dy(Fraction(float(x))) for x in d] for d in dirs], opts, types, items, dy(hmax), varchol, angles, vmap])
        ctx.dist('params_%sndim%d_nvar%d_ndir%d' % ('vmap_' if vmap else '', ndim, nvar, len(dirs)))
        for it in items: ctx.dist('item_%s_%s' % (ELEM[it[2]], CASE[it[5]]))
    def mk_model(c, ii):
        ndim, nvar, dirs, opts, types, items = c[1], c[2], c[3], c[4], c[5], c[6]
        zflat = [(len(d) < 3 or undy(d[2]) == 0) for d in dirs]
        if ii[0] == 0: chars = ii[2]; dvar = [[0, 0]] * (nvar * (nvar + 1) // 2); nrange = sum(1 for t in types if t != 0); ncova = len(types)
        else: chars, dvar, nrange, ncova = ii[5], ii[6], ii[7], ii[8]
        roots = []; sillneg = False
        for it in items:
            v = undy(it[6])
            if it[2] == E_SILL:
                if v < 0: sillneg = True; roots.append([0, 0])
                else:
                    r = Fraction(math.isqrt(v.numerator)) / Fraction(math.isqrt(v.denominator)); roots.append(dy(r))
            else: roots.append([0, 0])
        return [3, ndim, nvar, len(dirs), zflat, opts, chars, items, roots, sillneg, [c[7], dvar, c[9], nrange, ncova], c[10]]
    res = both(ctx, exe, runner, 'params', icases, mk_model)
    for c, ii, mc, mi in res:
        site = 'st_model_auto_count/st_parid_alloc/st_model_auto_pardef/st_model_auto_constraints_apply/st_check_param'
        if crashed(ii):
            ctx.count(sx_str(c)); ctx.found_input = True
            ctx.violation('crash:parameters', 'no answer (crash or exception) while building the parameter list', {'case': sx_str(c)}); continue
        if ii[0] == 0 and ii[1] == -1:
            ctx.cov['tie_excluded'] += 1; ctx.count(None, False); continue     # structure not valid in this dimension: outside the model
        ctx.count(sx_str(c)); ctx.sample({'case': sx_str(c)[:200], 'impl': sx_str(ii)[:200], 'model': sx_str(mi)[:200]})
        items = c[6]; opts_in = c[4]
        if ii[0] == 0 or mi[0] != 1:
            if not (ii[0] == 0 and mi[0] == 0):
                ctx.ndis += 1
                ctx.violation('model-drift:st_alter_model_optvar:status', 'impl status %s, model status %s' % (ii[:2], mi[:1]),
                              {'case': sx_str(c), 'impl': sx_str(ii), 'model': sx_str(mi)}, found_input=False)
            continue
        _, iopts, iparids, ibounds, icheck = ii[:5]
        _, mopts, mparids, mbounds, mcheck, rt = mi
        if not rt:
            print('ERROR: model parid round trip failed'); sys.exit(3)
        ib = [[undy(x) for x in t] for t in ibounds]; mb = [[unq(x) for x in t] for t in mbounds]
        dec = [parid_dec(v) for v in iparids]
        # ---- the property on impl's own answer
        viol = None
        if not opts_in[2] and any(e == E_ANGLE or (e == E_RANGE and iv > 0) for (_, _, e, iv, _) in dec):
            viol = ('options:isotropy-ignored', 'anisotropy not authorised but the parameter list holds anisotropy ranges / angles')
        elif not opts_in[3] and any(e == E_ANGLE for (_, _, e, iv, _) in dec):
            viol = ('options:locked-rotation-ignored', 'rotation not authorised but the parameter list holds angles')
        elif iopts[4] and len(set(ic for (_, ic, e, iv, _) in dec if e == E_ANGLE)) > 1:
            viol = ('options:samerot-several-rotations', 'lock_samerot is on but angles are parameters of several structures: %s' % sorted(set(ic for (_, ic, e, iv, _) in dec if e == E_ANGLE)))
        if viol is None:
            # user items as the library holds them after st_alter_model_optvar (sill values replaced by their roots)
            litems = ii[10]
            for k, pd in enumerate(dec):
                des = [it for it in litems if it[0] == pd[0] and it[1] == pd[1] and it[2] == pd[2] and it[3] == pd[3] and (pd[2] != E_SILL or it[4] == pd[4])]
                lo = next((undy(it[6]) for it in des if it[5] in (T_LOWER, T_EQUAL)), None)
                up = next((undy(it[6]) for it in des if it[5] in (T_UPPER, T_EQUAL)), None)
                tol = Fraction(1, 10**9)
                if lo is not None and (ib[k][1] is None or ib[k][1] < lo - tol * (1 + abs(lo))):
                    viol = ('constraints:%s:lower-bound-not-on-designated-parameter' % ELEM.get(pd[2], '?'), 'parameter %s: lower bound %s, user asked %s' % (pd, fl(ib[k][1]), fl(lo))); break
                if up is not None and (ib[k][2] is None or ib[k][2] > up + tol * (1 + abs(up))):
                    viol = ('constraints:%s:upper-bound-not-on-designated-parameter' % ELEM.get(pd[2], '?'), 'parameter %s: upper bound %s, user asked %s' % (pd, fl(ib[k][2]), fl(up))); break
                if not des and k < len(mb) and mparids == iparids and (not close_o(ib[k][1], mb[k][1]) or not close_o(ib[k][2], mb[k][2])):
                    viol = ('constraints:%s:bound-on-undesignated-parameter' % ELEM.get(pd[2], '?'), 'parameter %s designated by no item has bounds [%s,%s], defaults are [%s,%s]' % (pd, fl(ib[k][1]), fl(ib[k][2]), fl(mb[k][1]), fl(mb[k][2]))); break
        if viol is None:
            badb = any(l is not None and u is not None and u < l for (_, l, u) in ib)
            if icheck[0] == 1:
                ic = [[undy(x) for x in t] for t in icheck[1]]
                if badb: viol = ('st_check_param:lower-above-upper-accepted', 'a parameter with lower > upper passes st_check_param')
                elif any((l is not None and p < l) or (u is not None and p > u) for (p, l, u) in ic):
                    viol = ('st_check_param:parameter-outside-bounds', 'after st_check_param a parameter is outside [lower, upper]')
            elif not badb: viol = ('st_check_param:consistent-bounds-rejected', 'st_check_param refuses bounds with lower <= upper everywhere')
        agree = (iopts == mopts and iparids == mparids and len(ib) == len(mb) and
                 all(close_o(a[k], b[k]) for a, b in zip(ib, mb) for k in range(3)) and icheck[0] == mcheck[0] and
                 (icheck[0] == 0 or all(close_o(undy(a[k]), unq(b[k])) for a, b in zip(icheck[1], mcheck[1]) for k in range(3))))
        if viol:
            ctx.ndis += 1; ctx.found_input = True
            ctx.violation(viol[0], viol[1], {'case': sx_str(c), 'impl': sx_str(ii), 'model': sx_str(mi)})
        elif not agree:
            ctx.ndis += 1
            what = 'options' if iopts != mopts else 'parameter list' if iparids != mparids else 'bounds / clamp'
            ctx.violation('model-drift:parameters:' + what.replace(' ', '-').replace('/', ''), 'model and impl disagree on the %s but every user constraint / option is honoured by impl' % what,
                          {'case': sx_str(c), 'impl': sx_str(ii), 'model': sx_str(mi), 'correspondence': 'coq/C17/ModelPar.v vs ' + site}, found_input=False)

def stage_foxleg(ctx, exe, runner, quick):
    """st_define_bounds, evaluation points of st_gradient, st_check_param alone"""
    rng = ctx.rng
    N = 120 if quick else 2000
    icases = []
    q = lambda a, b, d: Fraction(rng.randint(a, b), d)
    for i in range(N):
        npar = rng.randint(1, 5)
        delta = rng.choice([Fraction(1), Fraction(1, 2), Fraction(1, 64), Fraction(4), Fraction(1, 2 ** 20)])
        steps = []
        for k in range(npar):
            l = q(-40, 40, 4) if rng.random() < .7 else None
            u = (l if l is not None else q(-40, 40, 4)) + q(0, 60, 4) if rng.random() < .7 else None
            lo = l if l is not None else (u - 10 if u is not None else Fraction(-10)); hi = u if u is not None else lo + 20
            p = rng.choice([lo, hi, lo + (hi - lo) * Fraction(rng.randint(0, 16), 16)])
            steps.append([dy(rng.choice([Fraction(1), Fraction(1, 4), Fraction(10), Fraction(1800), Fraction(0)])), dy(p), dy(l), dy(u)])
        icases.append([4, dy(delta), steps])
        ctx.dist('define_bounds_npar%d' % npar)
    def mk4(c, ii):
        steps = []
        for s in c[2]:
            sc = float(undy(s[0])); eps = max(1e-3, abs(1e-3 * sc))
            steps.append(s + [[0, 0], dy(Fraction(eps))])
        return [4, c[1], steps]
    res = both(ctx, exe, runner, 'foxleg', icases, mk4)
    tol = Fraction(1, 10**9)
    for c, ii, mc, mi in res:
        ctx.count(sx_str(c))
        if crashed(ii):
            ctx.found_input = True; ctx.violation('crash:st_define_bounds', 'no answer', {'case': sx_str(c)}); continue
        viol = None; agree = len(ii) == len(mi)
        for k, s in enumerate(c[2]):
            p, l, u = undy(s[1]), undy(s[2]), undy(s[3])
            b0, b1, g1, g2 = [undy(x) for x in ii[k]]
            m0, m1, n1, n2 = [unq(x) for x in mi[k][:4]]
            if not (close_o(b0, m0) and close_o(b1, m1) and close_o(g1, n1) and close_o(g2, n2)): agree = False
            if b0 > 0 or b1 < 0 or (l is not None and p + b0 < l - tol * (1 + abs(l))) or (u is not None and p + b1 > u + tol * (1 + abs(u))):
                viol = ('st_define_bounds:step-box-leaves-the-bounds', 'parameter %s in [%s,%s]: step box [%s,%s]' % (fl(p), fl(l), fl(u), fl(b0), fl(b1)))
            for g in (g1, g2):
                if (l is not None and g < l) or (u is not None and g > u):
                    viol = ('st_gradient:evaluation-point-outside-bounds', 'parameter %s in [%s,%s] evaluated at %s' % (fl(p), fl(l), fl(u), fl(g)))
        if viol:
            ctx.ndis += 1; ctx.found_input = True; ctx.violation(viol[0], viol[1], {'case': sx_str(c), 'impl': sx_str(ii), 'model': sx_str(mi)})
        elif not agree:
            ctx.ndis += 1
            ctx.violation('model-drift:st_define_bounds', 'model and impl disagree on the step box / evaluation points, impl stays inside the bounds',
                          {'case': sx_str(c), 'impl': sx_str(ii), 'model': sx_str(mi), 'correspondence': 'coq/C17/ModelPar.v define_bounds_one, grad_points vs foxleg.cpp'}, found_input=False)
    # st_check_param alone (undefined bounds, lower > upper)
    icases = []
    for i in range(N):
        ts = []
        for k in range(rng.randint(1, 5)):
            l = q(-20, 20, 2) if rng.random() < .7 else None; u = q(-20, 20, 2) if rng.random() < .7 else None
            if l is not None and u is not None and u < l and rng.random() < .8: l, u = u, l
            ts.append([dy(q(-30, 30, 2)), dy(l), dy(u)])
        icases.append([5, ts])
    res = both(ctx, exe, runner, 'checkparam', icases, lambda c, ii: c)
    for c, ii, mc, mi in res:
        ctx.count(sx_str(c))
        if crashed(ii):
            ctx.found_input = True; ctx.violation('crash:st_check_param', 'no answer', {'case': sx_str(c)}); continue
        ts = [[undy(x) for x in t] for t in c[1]]
        badb = any(l is not None and u is not None and u < l for (_, l, u) in ts)
        viol = None
        if ii[0] == 1:
            ic = [[undy(x) for x in t] for t in ii[1]]
            if badb: viol = ('st_check_param:lower-above-upper-accepted', 'a parameter with lower > upper passes st_check_param')
            elif any((l is not None and p < l) or (u is not None and p > u) for (p, l, u) in ic):
                viol = ('st_check_param:parameter-outside-bounds', 'after st_check_param a parameter is outside [lower, upper]')
        elif not badb: viol = ('st_check_param:consistent-bounds-rejected', 'st_check_param refuses bounds with lower <= upper everywhere')
        agree = ii[0] == mi[0] and (ii[0] == 0 or all(close_o(undy(a[k]), unq(b[k])) for a, b in zip(ii[1], mi[1]) for k in range(3)))
        if viol:
            ctx.ndis += 1; ctx.found_input = True; ctx.violation(viol[0], viol[1], {'case': sx_str(c), 'impl': sx_str(ii), 'model': sx_str(mi)})
        elif not agree:
            ctx.ndis += 1
            ctx.violation('model-drift:st_check_param', 'model and impl disagree, impl result is inside the bounds', {'case': sx_str(c), 'impl': sx_str(ii), 'model': sx_str(mi)}, found_input=False)

def gen_parid_block(rng, ic, t, ndim, nvar, aniso, goulard_off, angles_allowed):
    """identifiers of one structure in the order st_parid_alloc produces them; some directions locked (no RANGE of their own)"""
    ps = []; vals = []
    hasrange = 0 if t == 0 else -1 if t in (11, 12) else 1
    hasparam = t in (6, 7, 10, 12, 19)
    if goulard_off:
        for a in range(nvar):
            for b in range(a + 1): ps.append(parid_enc(0, ic, E_SILL, a, b)); vals.append(Fraction(rng.randint(-12, 12), 4))
    if hasparam: ps.append(parid_enc(0, ic, E_PARAM, 0, 0)); vals.append(Fraction(rng.randint(4, 12), 8))
    if hasrange > 0: ps.append(parid_enc(0, ic, E_RANGE, 0, 0)); vals.append(Fraction(rng.randint(1, 80), 4))
    if hasrange != 0 and aniso and ndim > 1:
        ranks = [1] if ndim == 2 else rng.choice([[1, 2], [1], [2], []])      # 3-D: lock_no3d keeps [1], lock_iso2d keeps [2]
        for k in ranks: ps.append(parid_enc(0, ic, E_RANGE, k, 0)); vals.append(Fraction(rng.randint(1, 80), 4))
        if angles_allowed and rng.random() < .6:
            for k in ([0] if ndim == 2 or rng.random() < .5 else list(range(ndim))):
                ps.append(parid_enc(0, ic, E_ANGLE, k, 0)); vals.append(Fraction(rng.randint(-90, 90)))
    return ps, vals

def stage_map(ctx, exe, runner, quick):
    """st_model_auto_strmod_define: ranges (locked directions, isotropy), angles, third parameter, sills from AIC parameters"""
    rng = ctx.rng
    N = 120 if quick else 1500
    icases = []
    for i in range(N):
        ndim = rng.choice([1, 2, 2, 3, 3]); aniso = rng.random() < .7 and ndim > 1
        nvar = rng.choice([1, 1, 2, 3]); goulard_off = rng.random() < .4; samerot = aniso and rng.random() < .3
        ncov = rng.randint(1, 3); types = [rng.choice([0, 1, 2, 3, 10, 11]) for _ in range(ncov)]
        parids = []; vals = []; rotated = False
        for ic, t in enumerate(types):
            ps, vs = gen_parid_block(rng, ic, t, ndim, nvar, aniso, goulard_off, not (samerot and rotated))
            if any(parid_dec(q)[2] == E_ANGLE for q in ps): rotated = True
            parids += ps; vals += vs
        icases.append([6, ndim, nvar, types, aniso, samerot, parids, [dy(v) for v in vals], dy(Fraction(rng.choice([100, 64, 7])))])
        ctx.dist('map_ndim%d_nvar%d_%s%s%s' % (ndim, nvar, 'aniso' if aniso else 'iso', '_aic' if goulard_off else '', '_samerot' if samerot else ''))
    def mk6(c, ii):
        if len(ii) != 3: return None
        return [6, c[2], c[4], c[5], ii[2], [list(parid_dec(v)) for v in c[6]], c[7], ii[0]]
    res = both(ctx, exe, runner, 'map', icases, mk6)
    site = 'st_model_auto_strmod_define'
    tol = Fraction(1, 10**9)
    eq = lambda a, b: a is not None and b is not None and abs(a - b) <= tol * (1 + abs(b))
    for c, ii, mc, mi in res:
        if crashed(ii):
            ctx.count(sx_str(c)); ctx.found_input = True; ctx.violation('crash:' + site, 'no answer', {'case': sx_str(c)}); continue
        if mc is None:
            ctx.cov['tie_excluded'] += 1; ctx.count(None, False); continue          # a structure that does not exist in this space
        ctx.count(sx_str(c))
        ndim, nvar, types, aniso, samerot, parids = c[1], c[2], c[3], c[4], c[5], [parid_dec(v) for v in c[6]]
        vals = [undy(v) for v in c[7]]
        before, after, chars = ii
        viol = None; agree = len(after) == len(mi)
        first_ranged = next((k for k, ch in enumerate(chars) if ch[0] != 0), None)
        for ic, (st, ch) in enumerate(zip(after, chars)):
            R = [undy(x) for x in st[0]]; A = [undy(x) for x in st[1]]; P = undy(st[2]); S = unmat(st[3])
            own = [(pd, v) for pd, v in zip(parids, vals) if pd[1] == ic]
            rng_own = {pd[3]: v for pd, v in own if pd[2] == E_RANGE}
            # ---- the rules the theorems state, evaluated on what the library wrote
            if own and ch[0] != 0:
                if aniso:
                    for k in range(ndim):
                        if k in rng_own and not eq(R[k], rng_own[k]):
                            viol = ('range-parameter-not-written', 'structure %d: range[%d] = %s, parameter %s' % (ic, k, fl(R[k]), fl(rng_own[k]))); break
                        if k not in rng_own and 0 in rng_own and not eq(R[k], rng_own[0]):
                            viol = ('locked-direction-differs-from-first-range', 'structure %d: direction %d has no range parameter of its own, range[%d] = %s, range[0] parameter = %s'
                                    % (ic, k, k, fl(R[k]), fl(rng_own[0]))); break
                elif any(not eq(x, R[0]) for x in R) or (0 in rng_own and rng_own[0] > Fraction(1, 10**10) and not eq(R[0], rng_own[0])):
                    viol = ('isotropy-not-applied', 'structure %d: anisotropy not authorised, ranges %s, range parameter %s' % (ic, [fl(x) for x in R], fl(rng_own.get(0))))
                if viol is None and any(x is None or x <= 0 for x in R) and all(v > 0 for v in rng_own.values()):
                    viol = ('range-not-positive', 'structure %d: ranges %s from positive parameters' % (ic, [fl(x) for x in R]))
                ang_own = {pd[3]: v for pd, v in own if pd[2] == E_ANGLE}
                if viol is None and ndim == 2 and 0 in ang_own and not samerot and not ang_eq(A[0], ang_own[0]):
                    viol = ('angle-parameter-not-written', 'structure %d: angle %s, parameter %s' % (ic, fl(A[0]), fl(ang_own[0])))
            par_own = [v for pd, v in own if pd[2] == E_PARAM]
            if viol is None and par_own and ch[1] and not eq(P, par_own[-1]):
                viol = ('third-parameter-not-written', 'structure %d: third parameter %s, parameter value %s' % (ic, fl(P), fl(par_own[-1])))
            if viol is None and any(pd[2] == E_SILL for pd, _ in own) and (any(v is None for r in S for v in r) or sym_defect(S) != 0 or not is_psd_exact(S)):
                viol = ('aic-sill-not-psd', 'structure %d: sill matrix %s built from the AIC parameters is not symmetric PSD' % (ic, [[fl(x) for x in r] for r in S]))
            if viol is None and samerot and ndim == 2 and first_ranged is not None and ic >= 1 and ic != first_ranged and ch[0] != 0:
                if not ang_eq(A[0], undy(after[first_ranged][1][0])):
                    viol = ('samerot-angles-differ', 'lock_samerot: structure %d has angle %s, structure %d has %s' % (ic, fl(A[0]), first_ranged, fl(undy(after[first_ranged][1][0]))))
            if viol: break
            # ---- model
            if ic < len(mi):
                mR = [unq(x) for x in mi[ic][0]]; mA = [unq(x) for x in mi[ic][1]]; mP = unq(mi[ic][2]); mS = unmat(mi[ic][3], unq)
                if not (len(R) == len(mR) and all(close_o(a, b) for a, b in zip(R, mR)) and close_o(P, mP) and close_mat(S, mS)): agree = False
                if ndim == 2 and A[0] is not None and not ang_eq(A[0], mA[0]): agree = False
        if viol:
            ctx.ndis += 1; ctx.found_input = True
            ctx.violation('impl-vs-spec:%s:%s' % (site, viol[0]), viol[1], {'case': sx_str(c), 'impl': sx_str(ii), 'model': sx_str(mi)})
        elif not agree:
            ctx.ndis += 1
            ctx.violation('model-drift:' + site, 'the Model written differs from coq/C17/ModelMap.v although every stated rule (written / locked / isotropic ranges, angles, third parameter, PSD sills) holds',
                          {'case': sx_str(c), 'impl': sx_str(ii), 'model': sx_str(mi)}, found_input=False)

def cons_forms(c11):
    """(scalar or None, list of per-variable entries) of the constant-sill field of a fit case"""
    if c11 == []: return None, None
    if isinstance(c11[0], int): return undy(c11), []
    return undy(c11[0]), [undy(x) for x in c11[1]]

def imposed_totals(c11, nvar, vector_alone_counts=True):
    """the total sill imposed on each variable (C17_constant_sill_expand): the user's entry where given, the scalar elsewhere;
    None = no constraint on that variable"""
    val, sills = cons_forms(c11)
    if sills is None: return [None] * nvar
    return [(sills[v] if v < len(sills) else val) for v in range(nvar)]

def stage_consill(ctx, exe, runner, quick):
    """Constraints: constant-sill value, per-variable vector, expandConstantSill, isConstraintSillDefined, copies"""
    rng = ctx.rng
    N = 80 if quick else 800
    icases = []
    for i in range(N):
        val = Fraction(rng.randint(1, 16), 4) if rng.random() < .8 else None
        sills = [(Fraction(rng.randint(1, 40), 8) if rng.random() < .85 else None) for _ in range(rng.choice([0, 0, 1, 2, 2, 3, 4]))]
        icases.append([8, dy(val), [dy(x) for x in sills], rng.randint(1, 4), rng.randint(1, 4)])
        ctx.dist('consill_%s_%s' % ('scalar' if val is not None else 'noscalar', 'vector%d' % len(sills) if sills else 'novector'))
    res = both(ctx, exe, runner, 'consill', icases, lambda c, ii: [11] + c[1:])
    fn = 'Constraints::expandConstantSill'
    for c, ii, mc, mi in res:
        ctx.count(sx_str(c))
        if crashed(ii):
            ctx.found_input = True; ctx.violation('crash:' + fn, 'no answer', {'case': sx_str(c)}); continue
        val = undy(c[1]); user = [undy(x) for x in c[2]]; n1, n2 = c[3], c[4]
        defined, e1, e2, ecopy, orig = ii[0], [undy(x) for x in ii[1]], [undy(x) for x in ii[2]], [undy(x) for x in ii[3]], [undy(x) for x in ii[4]]
        viol = None
        for name, got, n, base in (('first expansion', e1, n1, user), ('expansion of a copy', ecopy, n1, user), ('second expansion', e2, n2, e1)):
            if len(got) != n: viol = ('wrong-length', '%s to %d variables has %d entries' % (name, n, len(got))); break
            for v in range(n):
                want = base[v] if v < len(base) else val
                if got[v] != want:
                    viol = ('user-entry-overwritten' if v < len(base) else 'scalar-not-appended',
                            '%s: variable %d gets %s, the %s is %s' % (name, v, fl(got[v]), 'entry already there' if v < len(base) else 'scalar value', fl(want))); break
            if viol: break
        if viol is None and orig != user: viol = ('copy-shares-the-vector', 'expanding a copy changed the original object: %s' % [fl(x) for x in orig])
        if viol is None and bool(defined) != (val is not None or len(user) > 0): viol = ('isConstraintSillDefined', 'answers %d for value %s, vector %s' % (defined, fl(val), [fl(x) for x in user]))
        m1 = [unq(x) for x in mi[1]]; m2 = [unq(x) for x in mi[2]]
        if viol:
            ctx.ndis += 1; ctx.found_input = True
            ctx.violation('impl-vs-spec:%s:%s' % (fn, viol[0]), viol[1], {'case': sx_str(c), 'impl': sx_str(ii), 'model': sx_str(mi)})
        elif not (bool(defined) == bool(mi[0]) and e1 == m1 and e2 == m2):
            ctx.ndis += 1
            ctx.violation('model-drift:' + fn, 'impl and model differ, the expansion rule holds', {'case': sx_str(c), 'impl': sx_str(ii), 'model': sx_str(mi)}, found_input=False)

def stage_alpha(ctx, exe, runner, quick):
    """constant sill: st_updateAlphaDiag / AModelOptimSills::_updateAlphaDiag"""
    rng = ctx.rng
    N = 60 if quick else 600
    icases = []; aux = []
    for i in range(N):
        ncova = rng.randint(1, 3); nvar = rng.randint(1, 3); ivar0 = rng.randrange(nvar); icov0 = rng.randrange(ncova)
        alpha = []
        for ic in range(ncova):
            M = gen_sym(rng, nvar, 'psd'); alpha.append(M)
        xr = [Fraction(rng.randint(1, 24), 8) for _ in range(nvar)]
        cons = [Fraction(rng.randint(1, 40), 4) if rng.random() < .9 or k == ivar0 else None for k in range(nvar)]
        srm = sum(alpha[ic][ivar0][ivar0] for ic in range(ncova) if ic != icov0)
        icases.append([7, i % 2, ncova, nvar, ivar0, icov0, [dy(x) for x in xr], [dmat(M) for M in alpha], [dy(x) for x in cons]])
        aux.append((cons[ivar0], xr[ivar0], srm))
    k = iter(range(N))
    res = both(ctx, exe, runner, 'alpha', icases, lambda c, ii: [9] + [dy(x) for x in aux[next(k)]])
    for (c, ii, mc, mi), (cons, xr, srm) in zip(res, aux):
        fn = 'AModelOptimSills::_updateAlphaDiag' if c[1] == 0 else 'st_updateAlphaDiag'
        ctx.count(sx_str(c))
        if crashed(ii):
            ctx.found_input = True; ctx.violation('crash:' + fn, 'no answer', {'case': sx_str(c)}); continue
        got = undy(ii[0]); exp = unq(mi[0])
        viol = None
        if got is None or got < 0: viol = ('negative-term', 'new diagonal term %s' % fl(got))
        else:
            tot = xr * xr * (srm + got); want = max(cons, xr * xr * srm)
            if abs(tot - want) > Fraction(1, 10**9) * (1 + abs(want)):
                viol = ('sum-of-sills-not-constant-sill', 'xr^2 (sum of alpha) = %s, constant sill %s, other structures alone %s' % (fl(tot), fl(cons), fl(xr * xr * srm)))
        if viol:
            ctx.ndis += 1; ctx.found_input = True
            ctx.violation('impl-vs-spec:%s:%s' % (fn, viol[0]), viol[1], {'case': sx_str(c), 'impl': sx_str(ii), 'model': sx_str(mi)})
        elif not close_o(got, exp):
            ctx.ndis += 1
            ctx.violation('model-drift:' + fn, 'impl %s, model %s' % (fl(got), fl(exp)), {'case': sx_str(c), 'impl': sx_str(ii), 'model': sx_str(mi)}, found_input=False)

# ----------------------------------------------------------------------------- stage: unconstrained Goulard loop (needs the hook: eigen-pairs of every step)
def stage_goulard(ctx, exe, runner, quick):
    if not ctx.hook:
        ctx.notes.append('Goulard loop replay skipped (no hook): the eigen-pairs of the inner steps cannot be harvested'); return
    rng = ctx.rng
    N = 60 if quick else 800
    icases = []
    for i in range(N):
        nvar = rng.choice([1, 2, 2, 3]); ncova = rng.choice([1, 2, 2, 3]); npadir = rng.choice([3, 5, 8, 12])
        nvs2 = nvar * (nvar + 1) // 2
        hs = [Fraction(k + 1) for k in range(npadir)]
        rngs = [Fraction(rng.randint(2, 16)) for _ in range(ncova)]
        kinds = ['nug'] + ['sph'] * (ncova - 1) if rng.random() < .7 else ['sph'] * ncova
        def gval(kind, r, h):
            if kind == 'nug': return Fraction(1)
            t = min(Fraction(1), h / r); return (3 * t - t ** 3) / 2
        ge = [[[dy(Fraction(round(gval(kinds[ic], rngs[ic], hs[ip]) * 256), 256)) for ip in range(npadir)] for ij in range(nvs2)] for ic in range(ncova)]
        A = [[[Fraction(rng.randint(-4, 4), 2) for _ in range(nvar)] for _ in range(nvar)] for _ in range(ncova)]
        true = [[[sum(A[ic][a][k] * A[ic][b][k] for k in range(nvar)) for b in range(nvar)] for a in range(nvar)] for ic in range(ncova)]
        pairs = [(a, b) for a in range(nvar) for b in range(a + 1)]
        gg = []; wt = []
        for ij, (a, b) in enumerate(pairs):
            row = []; wrow = []
            for ip in range(npadir):
                v = sum(true[ic][a][b] * undy(ge[ic][ij][ip]) for ic in range(ncova)) + Fraction(rng.randint(-24, 24), 16)
                row.append(dy(Fraction(round(v * 64), 64)))
                wrow.append([] if rng.random() < .1 and ip > 1 else dy(Fraction(rng.randint(1, 40), 8)))
            if a != b and rng.random() < .15: wrow = [[]] * npadir      # a cross-variogram without any weighted lag: zero cross-sill
            gg.append(row); wt.append(wrow)
        sill0 = [[[dy(1 if a == b else 0) for b in range(nvar)] for a in range(nvar)] for ic in range(ncova)]
        maxiter = rng.choice([0, 1, 2, 5, 30, 100]); tolred = dy(Fraction(1, 2 ** rng.choice([10, 20, 20, 30])))
        icases.append([2, i % 2, nvar, ncova, npadir, maxiter, tolred, wt, gg, ge, sill0])
        ctx.dist('goulard_nvar%d_ncova%d_maxiter%d' % (nvar, ncova, maxiter))
    def mk(c, ii):
        status, sills, crit, rec, records = ii
        if not rec: return None
        eigs = []
        for r in records:
            nv = int(undy(r[2]))
            val = r[6 + nv * nv:6 + nv * nv + nv]; vec = r[6 + nv * nv + nv:6 + 2 * nv * nv + nv]
            if any(x == [] for x in val + vec): return None      # NaN inside the loop: no replay, the sills are judged below
            eigs.append([val, [vec[k * nv:(k + 1) * nv] for k in range(nv)]])
        return [2] + c[2:] + [eigs]
    res = both(ctx, exe, runner, 'goulard', icases, mk)
    for c, ii, mc, mi in res:
        fn = 'AModelOptimSills::_goulardWithoutConstraint' if c[1] == 0 else 'st_goulard_without_constraint'
        ctx.count(sx_str(c))
        if crashed(ii):
            ctx.found_input = True; ctx.violation('crash:' + fn, 'no answer (crash or exception)', {'case': sx_str(c)}); continue
        status, sills, crit, rec, records = ii
        nvar, ncova, maxiter = c[2], c[3], c[5]
        S = [unmat(m) for m in sills]
        spec_ok = status != 0 or all(all(v is not None for r in M for v in r) and sym_defect(M) == 0 and is_psd_exact(M) for M in S)
        # C17_goulard_step_decrease_partial on impl: a run in which nothing was truncated (every recorded step reports no negative
        # eigenvalue) cannot end with a criterion above the initial one (sills = identity), computed here from the inputs
        if status == 0 and rec and records and all(int(undy(r[5])) == 1 for r in records) and spec_ok and undy(crit) is not None:
            pairs = [(a, b) for a in range(nvar) for b in range(a + 1)]
            crit0 = Fraction(0)
            for ij, (a, b) in enumerate(pairs):
                for ip in range(c[4]):
                    if c[7][ij][ip] == []: continue
                    t = undy(c[8][ij][ip]) - sum(undy(c[10][ic][a][b]) * undy(c[9][ic][ij][ip]) for ic in range(ncova))
                    crit0 += (1 if a == b else 2) * undy(c[7][ij][ip]) * t * t
            ctx.dist('goulard_run_without_truncation')
            if undy(crit) > crit0 * (1 + Fraction(1, 10**9)) + Fraction(1, 10**12):
                ctx.ndis += 1; ctx.found_input = True
                ctx.violation('impl-vs-spec:%s:criterion-increased-without-truncation' % fn, 'criterion %s after %d steps without truncation, %s before' % (fl(undy(crit)), len(records), fl(crit0)),
                              {'case': sx_str(c), 'impl': sx_str(ii)[:3000]})
        # C17_goulard_entry_minimiser on impl: the matrix the step hands to the eigen-solver (recorded by the hook) must minimise,
        # term by term, the weighted sum of squares given the sills of the other structures at that moment
        if status == 0 and rec and records and spec_ok:
            pairs = [(a, b) for a in range(nvar) for b in range(a + 1)]
            W = [[None if c[7][ij][ip] == [] else undy(c[7][ij][ip]) for ip in range(c[4])] for ij in range(len(pairs))]
            GG = [[undy(x) for x in r] for r in c[8]]; GE = [[[undy(x) for x in r] for r in m] for m in c[9]]
            cur = [unmat(m) for m in c[10]]; bad = None
            for r in records[:3 * ncova]:
                nv = int(undy(r[2])); icov = int(undy(r[3])); sin = r[6:6 + nv * nv]; sout = r[6 + 2 * nv * nv + nv:]
                if any(x == [] for x in sin + sout): break
                for ij, (a, b) in enumerate(pairs):
                    ips = [ip for ip in range(c[4]) if W[ij][ip] is not None]
                    res = [GG[ij][ip] - sum(cur[ic][a][b] * GE[ic][ij][ip] for ic in range(ncova) if ic != icov) for ip in ips]
                    g = [GE[icov][ij][ip] for ip in ips]; w = [W[ij][ip] for ip in ips]
                    S2 = sum(wi * gi * gi for wi, gi in zip(w, g))
                    if S2 <= 0: continue
                    sopt = sum(wi * gi * ri for wi, gi, ri in zip(w, g, res)) / S2
                    q = lambda x: sum(wi * (ri - x * gi) ** 2 for wi, gi, ri in zip(w, g, res))
                    got = undy(sin[a * nv + b])
                    if q(got) > q(sopt) * (1 + Fraction(1, 10**8)) + Fraction(1, 10**10) * (1 + sum(wi * ri * ri for wi, ri in zip(w, res))):
                        bad = (icov, a, b, got, sopt); break
                if bad: break
                cur[icov] = [[undy(sout[i * nv + j]) for j in range(nv)] for i in range(nv)]
            if bad:
                ctx.ndis += 1; ctx.found_input = True
                ctx.violation('impl-vs-spec:%s:update-is-not-the-least-squares-minimiser' % fn,
                              'structure %d, variables (%d,%d): term %s written, the weighted sum of squares is smaller at %s' % (bad[0], bad[1], bad[2], fl(bad[3]), fl(bad[4])),
                              {'case': sx_str(c), 'impl': sx_str(ii)[:3000]})
                continue
        if mi is None:
            if not spec_ok:
                ctx.ndis += 1; ctx.found_input = True
                ctx.violation(fn + ':sill-undefined', '%s returns sill matrices with NaN / not PSD: %s' % (fn, sx_str(sills)[:300]), {'case': sx_str(c), 'impl': sx_str(ii)[:3000]})
            continue
        if mi[0] == 0:
            # the model asked for more eigen-pairs than impl produced (or computeEigen failed): iteration counts differ
            agree = (status != 0); tie = True
        else:
            _, msills, mcrits, mcalls = mi
            crits = [unq(x) for x in mcrits][::-1]
            tol = undy(c[6]); tie = False
            for t in range(1, len(crits)):
                ct, cp = crits[t], crits[t - 1]
                for a in (abs(ct), (abs(ct - cp) / abs(ct)) if ct != 0 else None):
                    if a is not None and abs(a - tol) <= Fraction(1, 10**6) * tol: tie = True
            mS = [unmat(m, unq) for m in msills]
            sc = max([abs(x) for M in mS for r in M for x in r] + [Fraction(1)])
            agree = status == 0 and mcalls == len(records) and all(close_mat(a, b, 1e-7, sc) for a, b in zip(S, mS)) and close_o(undy(crit), crits[-1], 1e-6)
        if not spec_ok:
            ctx.ndis += 1; ctx.found_input = True
            ctx.violation(fn + ':sill-not-psd', '%s returns a sill matrix that is not symmetric PSD: %s' % (fn, sx_str(sills)[:300]), {'case': sx_str(c), 'impl': sx_str(ii)[:3000]})
        elif not agree:
            if tie: ctx.cov['tie_excluded'] += 1; continue
            ctx.ndis += 1
            ctx.violation('model-drift:' + fn, 'the replay of the Goulard loop with the recorded eigen-pairs differs from impl (sills still PSD): iterations impl %d model %s' % (len(records), mi[3] if mi[0] == 1 else '?'),
                          {'case': sx_str(c), 'impl': sx_str(ii)[:3000], 'model': sx_str(mi)[:3000], 'correspondence': 'coq/C17/Model.v goulard vs ' + fn}, found_input=False)

# ----------------------------------------------------------------------------- stage 3: post-condition oracle on the fitting entry points
PATHS = {0: 'Model::fit', 1: 'Model::fitFromVMap', 2: 'ModelOptimSillsVario::fit', 3: 'ModelOptimVario::fit'}
FITTYPES = [0, 1, 2, 3, 4, 6, 10, 11, 19]

def run_impl_resilient(ctx, exe, name, cases, per_case_timeout=60, alone=lambda c: False):
    """a crash / abort / hang of the harness on a case is a result (None / 'timeout'); the remaining cases are still run.
    Cases for which alone(c) holds run in a process of their own (a heap corruption must not hit the next case);
    a case on which a batch dies is run again alone before it is blamed."""
    out = [None] * len(cases)
    def single(i):
        cf = write_cases(ctx, '%s_s%d' % (name, i), [cases[i]])
        rc, res = run_impl(ctx, exe, cf, timeout=per_case_timeout)
        return res[0] if res else ('timeout' if rc == 124 else None)
    batch = [i for i, c in enumerate(cases) if not alone(c)]
    for i, c in enumerate(cases):
        if alone(c): out[i] = single(i)
    start = 0; tries = 0
    while start < len(batch) and tries < 400:
        idx = batch[start:start + 60]                    # small batches: a case that hangs costs one batch time limit only
        cf = write_cases(ctx, '%s_%d' % (name, tries), [cases[i] for i in idx])
        rc, res = run_impl(ctx, exe, cf, timeout=150)
        for k, r in enumerate(res[:len(idx)]): out[idx[k]] = r
        tries += 1
        if len(res) >= len(idx): start += len(idx); continue
        out[idx[len(res)]] = single(idx[len(res)])
        start += len(res) + 1
    return out

def gen_field(rng, kind, x):
    """value of the synthetic regionalised variable at point x (floats), kind-dependent"""
    if kind == 'nugget': return rng.gauss(0, 1)
    if kind == 'const': return 1.5
    s = math.sin(x[0] / 3.0) + (0.5 * math.cos(x[1] / 2.0) if len(x) > 1 else 0) + (0.3 * math.sin(x[2]) if len(x) > 2 else 0)
    if kind == 'trend': s += 0.4 * x[0] - (0.2 * x[1] if len(x) > 1 else 0)
    if kind == 'aniso' and len(x) > 1: s = math.sin(x[0] / 6.0) + math.cos(x[1] * 1.5)
    return s + 0.3 * rng.gauss(0, 1)

def gen_fit_case(rng, tag, quick):
    path = rng.choice([0, 0, 0, 0, 0, 0, 1, 1, 2, 3])
    ndim = 2 if path == 1 else rng.choice([1, 2, 2, 2, 3])
    nvar = rng.choice([1, 1, 2, 2, 3]) if path != 1 else rng.choice([1, 1, 2])
    fkind = rng.choice(['smooth', 'smooth', 'nugget', 'trend', 'aniso', 'const'] if path != 1 else ['smooth', 'smooth', 'nugget', 'trend', 'aniso'])
    hetero = nvar > 1 and rng.random() < .25
    dq = lambda v: dy(Fraction(round(v * 64), 64))
    mix = [[rng.uniform(-1, 1) for _ in range(nvar)] for _ in range(nvar)]
    def values(x):
        base = [gen_field(rng, fkind, x) for _ in range(nvar)]
        return [base[v] + 0.5 * sum(mix[v][w] * base[w] for w in range(nvar) if w != v) for v in range(nvar)]
    if path != 1:
        n = rng.choice([5, 12, 30, 60] if quick else [5, 12, 30, 60, 120])
        if ndim == 1: n = min(n, 40)
        data = []; seen = set()
        for i in range(n):
            while True:     # distinct locations (coinciding data make any kriging system singular, whatever the model)
                x = [Fraction(rng.randint(0, 80), 8) for _ in range(ndim)]
                if tuple(x) not in seen: break
            seen.add(tuple(x))
            z = [dq(v) for v in values([float(t) for t in x])]
            if hetero:   # variable 0 and the others never / rarely defined together
                if i % 2 == 0: z = [z[0]] + [[]] * (nvar - 1)
                elif rng.random() < .9: z = [[]] + z[1:]
            elif rng.random() < .05: z[rng.randrange(nvar)] = []
            data.append([[dy(t) for t in x], z])
        ndir = 1 if ndim == 1 else rng.choice([1, 2, 2, 3, 4])
        dirs = []
        for k in range(ndir):
            if ndim == 1: cd = [1.0]
            elif ndim == 2:
                a = math.pi * k / ndir + (0.3 if rng.random() < .2 else 0); cd = [math.cos(a), math.sin(a)]
            else:
                cd = [[1., 0., 0.], [0., 1., 0.], [0., 0., 1.], [math.sqrt(.5), math.sqrt(.5), 0.]][k % 4]
            npas = rng.choice([3, 5, 8]); tolang = 90. if ndir == 1 else rng.choice([22.5, 45.])
            dirs.append([[dy(Fraction(t)) for t in cd], npas, dy(Fraction(rng.choice([1, 1.5, 2, 0.75]))), dy(Fraction(tolang))])
        edits = []
        if rng.random() < .3:
            nvs2 = nvar * (nvar + 1) // 2
            for _ in range(rng.randint(1, 3)):
                idir = rng.randrange(ndir); npas = dirs[idir][1]
                edits.append([idir, rng.randrange(nvs2) * npas + rng.randrange(npas), dy(0)])
    else:
        nx = rng.choice([8, 10, 12]); ny = rng.choice([8, 10])
        vals = []
        for j in range(ny):
            for i in range(nx):
                z = [dq(v) for v in values([float(i), float(j)])]
                if rng.random() < .03: z[rng.randrange(nvar)] = []
                vals.append(z)
        data = [nx, ny, vals, rng.choice([3, 4, 5])]; dirs = []; edits = []
    ncov = rng.choice([1, 2, 2, 3])
    types = rng.sample(FITTYPES if ndim <= 3 else FITTYPES, ncov)
    if path in (2, 3): types = [t for t in types if t not in (11,)] or [2]
    nugget_only_nlopt = lambda: path == 3 and all(t == 0 for t in types)
    opts = [rng.random() < .5, rng.random() < .85 or nvar > 1, rng.random() < .7, rng.random() < .7, rng.random() < .25, rng.random() < .2,
            rng.random() < .15, rng.random() < .15, False, nvar > 1 and rng.random() < .1]
    if nugget_only_nlopt(): opts[1] = True     # without Goulard this configuration does not terminate (known finding, one directed scenario)
    mauto = [rng.choice([1000, 1000, 100, 100, 100, 0, 1, 5, 20, 50]), rng.choice([0, 1, 2, 2, 2, 3])]
    items = []
    if rng.random() < .6:
        for _ in range(rng.choice([1, 1, 2, 3])):
            elem = rng.choice([E_RANGE, E_RANGE, E_RANGE, E_ANGLE, E_PARAM, E_SILL] if nvar == 1 else [E_RANGE, E_RANGE, E_RANGE, E_ANGLE, E_PARAM])
            icov = rng.randrange(len(types))
            iv1 = rng.choice([0, 0, 1, 2]) if elem in (E_RANGE, E_ANGLE) else 0
            case = rng.choice([T_LOWER, T_UPPER, T_EQUAL, T_EQUAL])
            if elem == E_SILL: r = Fraction(rng.randint(1, 12), 4); val = r * r
            elif elem == E_ANGLE: val = Fraction(rng.randint(-8, 16) * 45, 4)
            elif elem == E_PARAM: val = Fraction(rng.randint(4, 14), 8)
            else: val = Fraction(rng.randint(1, 80), 8)
            items.append([0, icov, elem, iv1, 0, case, dy(val)])
        if rng.random() < .1 and items:      # a pair lower > upper on the same parameter
            it = list(items[0]); it[5] = T_LOWER; it[6] = dy(undy(it[6]) + 5); up = list(items[0]); up[5] = T_UPPER
            items = [it, up] + items[1:]
    cons_sill = dy(Fraction(rng.choice([1, 2, 4]))) if (rng.random() < .16 and opts[1]) else []
    if cons_sill != [] and rng.random() < .5:      # per-variable totals: full vector, partial vector + scalar, entry left free
        k = rng.randint(1, nvar)
        cons_sill = [cons_sill, [dy(Fraction(rng.randint(2, 12), 4)) if rng.random() < .9 else [] for _ in range(k)]]
    if path == 1 or cons_sill != []: mauto[0] = min(mauto[0], 50)      # keeps the quick tier quick (maxiter also bounds every inner Goulard run)
    return [10, path, ndim, nvar, data, dirs, edits, types, opts, mauto, items, cons_sill, 1, tag]

def constant_data(c):
    """every variable constant over the data set: the experimental variogram is identically zero (degenerate input)"""
    rows = [r[1] for r in c[4]] if c[1] != 1 else c[4][2]
    for v in range(c[3]):
        vals = set(sx_str(r[v]) for r in rows if r[v] != [])
        if len(vals) > 1: return False
    return True

DESCR = {}    # tag -> (valid lags per pair of variables, total lags, empty lags), filled by the describe pass

def fit_combo(c):
    """the part of the configuration that matters for the sill matrices / usability post-conditions"""
    path, nvar, opts, items, cons_sill, mauto = c[1], c[3], c[8], c[10], c[11], c[9]
    d = DESCR.get(c[13])
    return '%s:%s:%s' % (PATHS[path], 'mono' if nvar == 1 else 'multi', 'goulard' if opts[1] else 'no-goulard') + \
           (':constant-sill' if cons_sill != [] else '') + (':intrinsic' if opts[9] else '') + \
           (':pair-without-valid-lag' if d and path != 1 and any(v == 0 for v in d[0]) else '')

def inferred_params(c):
    """which anisotropy parameters the library infers for this configuration (st_alter_model_optvar / st_alter_vmap_optvar,
    re-stated here only to NAME the violation keys): returns (set of range ranks >= 1 inferred, rotation inferred)"""
    path, ndim, opts, dirs = c[1], c[2], c[8], c[5]
    aniso, rot, no3d, iso2d = bool(opts[2]), bool(opts[3]), bool(opts[6]), bool(opts[7])
    if path == 1: return ({1} if aniso else set()), (aniso and rot)      # st_alter_vmap_optvar obeys the user (2-D maps)
    ndir = len(dirs)
    zflat = [len(d[0]) < 3 or undy(d[0][2]) == 0 for d in dirs]
    n2 = ndir if ndim == 2 else sum(1 for z in zflat if z) if ndim == 3 else 0
    n3 = sum(1 for z in zflat if not z) if ndim == 3 else 0
    if ndim == 3: no3d = n3 <= 0; iso2d = n2 <= 0
    if ndir <= ndim: rot = False
    if ndir <= 1 or ndim <= 1: aniso = False; rot = False
    if n2 <= 1: iso2d = True
    if iso2d: rot = False
    if not aniso: return set(), False
    ranks = {1} if ndim == 2 else ({1} if not iso2d else set()) | ({2} if not no3d else set()) if ndim == 3 else set(range(1, ndim))
    return ranks, rot

def total_sill_defect(S, nvar):
    """'' or the reason why kriging with this model is singular whatever the data: zero / singular total sill matrix"""
    T = [[sum(st['sill'][i][j] for st in S) for j in range(nvar)] for i in range(nvar)]
    if any(v is None for r in T for v in r): return ''
    if any(T[i][i] == 0 for i in range(nvar)): return ':zero-total-sill'
    tr = sum(T[i][i] for i in range(nvar))
    shifted = [[T[i][j] - (Fraction(1, 10**9) * tr if i == j else 0) for j in range(nvar)] for i in range(nvar)]
    return '' if is_psd_exact(shifted, Fraction(0)) else ':singular-total-sill'

def ang_eq(a, b, tol=1e-7):
    d = (float(a) - float(b)) % 360.0
    return min(d, 360.0 - d) <= tol

def check_fit_result(ctx, c, ii):
    """evaluates the post-conditions of the property on one answer of the harness; returns list of (key, text)"""
    path, ndim, nvar, types, opts, mauto, items, cons_sill = c[1], c[2], c[3], c[7], c[8], c[9], c[10], c[11]
    combo = fit_combo(c)
    out = []
    d = DESCR.get(c[13])
    def fatal(kind):
        # key of a crash / exception: the part of the configuration that selects the failing code
        if kind == 'no-termination': return '%s:no-termination' % PATHS[path]
        if path in (2, 3) and d and d[2] > 0: return '%s:empty-lag:crash' % PATHS[path]      # heap corruption: crash or bad_alloc-like exception
        if opts[9] and kind == 'crash': return '%s:intrinsic:crash' % PATHS[path]
        if kind.startswith('exception-') and kind != 'exception-length-error': return '%s:%s' % (PATHS[path], kind)
        return '%s:%s:%s:%s' % (PATHS[path], 'mono' if nvar == 1 else 'multi', 'goulard' if opts[1] else 'no-goulard', kind)
    if ii is None: return [(fatal('crash'), 'the process died (abort / segmentation fault / heap corruption) during the fit')]
    if ii == 'timeout': return [(fatal('no-termination'), 'the fit did not terminate within the time limit')]
    if len(ii) == 2 and ii[0] == -997: return [(fatal('exception'), 'uncaught exception outside the fit call')]
    if len(ii) == 1: ctx.dist('fit_no_experimental_variogram'); return []
    status, structs, refang, refcanon, hmax, post, trace, exc, ms = ii
    ctx.fit_ms.append((ms, fit_combo(c), c[9][0]))
    exc_s = ''.join(chr(x) for x in exc)
    if status == -98:
        if 'Cannot create such covariance function' in exc_s:      # a basic structure that does not exist in this space: a reported user error
            ctx.dist('fit_failure_reported'); return []
        what = 'length-error' if '_M_default_append' in exc_s or 'length' in exc_s else 'null-ellipsoid-radius' if 'Ellipsoid radius' in exc_s else \
               'bad-alloc' if 'bad_alloc' in exc_s or 'bad_array' in exc_s else 'other'
        return [(fatal('exception-' + what), 'the fit threw an exception instead of reporting failure: %s' % exc_s)]
    if status == -5: return []
    if status != 0:
        ctx.dist('fit_failure_reported'); return []
    # P7 (C17_constant_sill_with_sill_item_refused): a constraint item on a sill switches Goulard off, so a constant-sill
    #    constraint given with it cannot be enforced: the fit must refuse the combination instead of returning a model
    if path in (0, 1) and cons_sill != [] and any(it[2] == E_SILL for it in items):
        out.append(('impl-vs-spec:%s:constant-sill-with-sill-item:accepted' % PATHS[path],
                    'a constraint item on a sill is combined with the constant-sill constraint and the fit returns a model (status 0) instead of refusing'))
    ctx.dist('fit_status_ok')
    S = []
    for st in structs:
        S.append({'type': st[0], 'sill': unmat(st[1]), 'ranges': [undy(x) for x in st[2]], 'angles': [undy(x) for x in st[3]],
                  'param': undy(st[4]), 'hasrange': st[5], 'hasparam': st[6]})
    if not S: return [('%s:empty-model' % combo, 'the fit reports success and returns a model without any structure')]
    # P1 sills (min eigenvalue >= -1e-10 x trace, plus 1e-10 x the largest sill of the whole model: dust such as -1e-60 beside a zero diagonal is not judged)
    sill_scale = max([abs(v) for st in S for r in st['sill'] for v in r if v is not None] + [Fraction(0)])
    for k, st in enumerate(S):
        M = st['sill']
        if any(v is None for r in M for v in r): out.append(('%s:sill-undefined' % combo, 'structure %d (type %d): sill matrix holds NaN/undefined values' % (k, st['type']))); break
        if sym_defect(M) != 0: out.append(('%s:sill-not-symmetric' % combo, 'structure %d: sill matrix not symmetric' % k)); break
        if not is_psd_exact([[M[i][j] + (Fraction(1, 10**10) * sill_scale if i == j else 0) for j in range(nvar)] for i in range(nvar)]): out.append(('%s:sill-not-psd' % combo, 'structure %d (type %d): sill matrix %s has a negative eigenvalue' % (k, st['type'], [[float(x) for x in r] for r in M]))); break
    # P2 ranges
    for k, st in enumerate(S):
        if st['hasrange'] != 0 and any(r is None for r in st['ranges'][:ndim]) and st['hasparam'] and st['param'] is not None and st['param'] <= Fraction(5, 1000):
            # one cause, one key: the default lower bound 0.001 of the third parameter makes the range <-> scale conversion overflow
            out.append(('%s:third-parameter-at-lower-bound:range-undefined' % PATHS[path], 'structure %d (type %d): third parameter %s, ranges %s' % (k, st['type'], fl(st['param']), [fl(r) for r in st['ranges']]))); break
        if st['hasrange'] != 0 and any(r is None or r <= 0 for r in st['ranges'][:ndim]):
            out.append(('%s:range-not-positive' % combo, 'structure %d (type %d): ranges %s' % (k, st['type'], [fl(r) for r in st['ranges']]))); break
    # mapping original structure index -> final structure (reduction may have dropped some); types are distinct
    fin = {}
    for k, st in enumerate(S):
        if st['type'] in types: fin[types.index(st['type'])] = st
    # P3 user constraints (Model::fit / fitFromVMap only: the ModelOptim* classes have no code for constraint items)
    tol = 1e-9
    seen_sides = set()
    for it in (items if path in (0, 1) else []):
        igrf, icov, elem, iv1, iv2, case, val = it[0], it[1], it[2], it[3], it[4], it[5], undy(it[6])
        if igrf != 0 or case == T_DEFAULT: continue
        # constraints_get: the first item designating a parameter decides, per side
        ident = (icov, elem, iv1, iv2 if elem == E_SILL else 0)
        sides = [s_ for s_ in (('lo', 'up') if case == T_EQUAL else ('lo',) if case == T_LOWER else ('up',)) if (ident, s_) not in seen_sides]
        for s_ in (('lo', 'up') if case == T_EQUAL else ('lo',) if case == T_LOWER else ('up',)): seen_sides.add((ident, s_))
        if icov not in fin or not sides: continue
        st = fin[icov]; got = None
        if elem == E_RANGE and iv1 < ndim and ((iv1 == 0 and st['hasrange'] > 0) or (iv1 > 0 and st['hasrange'] != 0 and opts[2])): got = st['ranges'][iv1]
        elif elem == E_ANGLE and st['hasrange'] != 0 and opts[2] and opts[3] and ((ndim == 2 and iv1 == 0) or (ndim == 3 and iv1 < 3)): got = st['angles'][iv1]
        elif elem == E_PARAM and st['hasparam']: got = st['param']
        elif elem == E_SILL and iv1 < nvar and iv2 < nvar: got = st['sill'][iv1][iv2]
        if got is None: continue
        g = float(got); v = float(val); t = tol * (1 + abs(v))
        if elem == E_ANGLE:
            bad = (case == T_EQUAL and not ang_eq(g, v))     # bounds on angles are only meaningful without wrap-around: not judged
        else:
            bad = ('lo' in sides and g < v - t) or ('up' in sides and g > v + t)
        if bad:
            an_inf, rot_inf = inferred_params(c)
            first_rot = next((k for k, t in enumerate(types) if t != 0), None)
            not_inferred = (elem == E_RANGE and iv1 > 0 and iv1 not in an_inf) or (elem == E_ANGLE and not rot_inf) or \
                           (elem == E_ANGLE and opts[4] and icov != first_rot)          # lock_samerot: one structure carries the rotation
            key = '%s:constraint-on-parameter-not-inferred:not-satisfied' % PATHS[path] if not_inferred else \
                  '%s:constraint:after-reduction:not-satisfied' % PATHS[path] if len(S) < len(types) else \
                  ('%s:constraint-sill:%s:not-satisfied' % (PATHS[path], 'goulard' if opts[1] else 'no-goulard') if elem == E_SILL else '%s:constraint-%s-%s:not-satisfied' % (PATHS[path], ELEM[elem], CASE[case]))
            out.append((key,
                        'structure %d (type %d): %s[%d] = %r, user constraint %s %r' % (icov, st['type'], ELEM[elem], iv1, g, CASE[case], v)))
    # P4 options (Model::fit / fitFromVMap)
    if not opts[2] and path in (0, 1):
        for k, st in enumerate(S):
            r = st['ranges'][:ndim]
            if st['hasrange'] != 0 and all(x is not None for x in r) and max(r) - min(r) > 1e-9 * max(r):
                out.append(('%s:isotropy-asked:ranges-differ' % PATHS[path], 'isotropy asked, structure %d has ranges %s' % (k, [fl(x) for x in r]))); break
    if not opts[3] and ndim > 1 and path in (0, 1):
        ref = [undy(x) for x in refcanon] if path != 1 else [Fraction(0)] * ndim
        for k, st in enumerate(S):
            # an equality constraint of the user on an angle of this structure is an accepted value too
            ok_vals = [[b] + [undy(it[6]) for it in items if it[0] == 0 and it[2] == E_ANGLE and it[5] == T_EQUAL and it[3] == j and
                              it[1] in fin and fin[it[1]] is st] for j, b in enumerate(ref[:ndim])]
            if st['hasrange'] != 0 and not all(any(ang_eq(a, b) for b in bs) for a, bs in zip(st['angles'][:ndim], ok_vals)):
                out.append(('%s:rotation-locked:angles-changed' % PATHS[path], 'rotation locked, structure %d has angles %s, reference %s' % (k, [fl(x) for x in st['angles']], [fl(x) for x in ref]))); break
    # P4b lock rules (C17_ranges_locked + C17_ranges_alloc_shape): a direction whose range is not a parameter of the fit
    #      (isotropy in the plane: lock_iso2d, no vertical direction: lock_no3d, a single direction, ...) carries the range of rank 0
    if path in (0, 1) and ndim > 1:
        ranks, _ = inferred_params(c)
        for k, st in enumerate(S):
            r = st['ranges'][:ndim]
            if st['hasrange'] <= 0 or any(x is None for x in r): continue
            badk = [j for j in range(1, ndim) if j not in ranks and abs(r[j] - r[0]) > 1e-9 * abs(r[0])]
            if badk:
                out.append(('impl-vs-spec:%s:locked-direction-differs-from-first-range' % PATHS[path],
                            'structure %d (type %d): ranges %s; the ranges of rank %s are not parameters of this fit (inferred ranks: %s) and must equal the range of rank 0'
                            % (k, st['type'], [fl(x) for x in r], badk, sorted(ranks)))); break
    # P6 constant sill (C17_constant_sill_expand / _to_goulard): the diagonal sills of variable v add up to the total imposed on v
    if cons_sill != [] and opts[1] and not opts[9] and len(S) > 0 and mauto[0] >= 50:     # the total is reached by the iterations, not by construction
        val, _ = cons_forms(cons_sill)
        tot = imposed_totals(cons_sill, nvar)
        for v in range(nvar):
            if tot[v] is None or any(st['sill'][v][v] is None for st in S): continue
            got = sum(st['sill'][v][v] for st in S)
            if abs(got - tot[v]) > Fraction(1, 10**6) * (1 + abs(tot[v])):
                form = 'scalar' if isinstance(cons_sill[0], int) else ('vector-without-scalar' if val is None else 'vector')
                if path in (0, 1) and any(it[2] == E_SILL for it in items): form = 'with-sill-item'      # a ConsItem on a sill switches Goulard (hence the constant sill) off
                if path == 3 and all(t == 0 for t in types): form = 'no-free-parameter'      # nlopt has nothing to optimise: the Goulard step is never run
                if len(S) < len(types) and form != 'with-sill-item': form = 'after-reduction'     # structures dropped after the last constrained Goulard run
                out.append(('impl-vs-spec:%s:constant-sill-%s:total-sill-differs-from-imposed' % (PATHS[path], form),
                            'variable %d: the sills of the %d structure(s) add up to %s, the total imposed by the user is %s (constraint: value %s, per-variable %s)'
                            % (v, len(S), fl(got), fl(tot[v]), fl(val), [fl(x) for x in cons_forms(cons_sill)[1]]))); break
    # P5 save / reload / krige
    saved, reloaded, same, krig, nfinite, minstd = post
    if not out and not constant_data(c):
        if saved != 1: out.append(('%s:save-failed' % combo, 'dumpToNF of the fitted model failed'))
        elif reloaded != 1: out.append(('%s:reload-failed' % combo, 'the saved model cannot be read back'))
        elif krig != 0: out.append(('%s:kriging-failed' % combo, 'kriging with the reloaded model returns %d' % krig))
        elif nfinite < 8 * nvar:
            why = total_sill_defect(S, nvar)
            out.append(('%s%s:kriging-undefined-results' % ((PATHS[path] if why else combo), why), 'kriging with the reloaded model gives only %d defined values out of %d%s' % (nfinite, 8 * nvar,
                        ' (the sum of the sill matrices is %s)' % why[1:].replace('-', ' ') if why else '')))
    return out

def check_fit_trace(ctx, c, ii, mcases, mmeta):
    """in-situ records of the hook: direct checks, and model cases appended to mcases (meta tells how to compare)"""
    out = []
    if not isinstance(ii, list) or len(ii) != 9 or ii[6][0] != 1: return out
    status, structs = ii[0], ii[1]
    _, nrec, overflow, nb, nout, firstout, k1, k45, k3 = ii[6]
    combo = fit_combo(c)
    ctx.dist('trace_records', nrec); ctx.dist('trace_param_vectors', nb)
    if nout:
        out.append(('foxleg_f:parameter-outside-bounds', '%d of %d parameter vectors of foxleg_f lie outside [lower, upper]; first: %s' % (nout, nb, [fl(undy(x)) for x in firstout][:40])))
    souts = []
    for r in k1:
        v = [undy(x) for x in r]
        site, nv, icov, it, flag = int(v[1]), int(v[2]), int(v[3]), int(v[4]), int(v[5])
        sin = r[6:6 + nv * nv]; val = r[6 + nv * nv:6 + nv * nv + nv]; vec = r[6 + nv * nv + nv:6 + 2 * nv * nv + nv]; sout = r[6 + 2 * nv * nv + nv:]
        rows = lambda f: [f[i * nv:(i + 1) * nv] for i in range(nv)]
        souts.append(rows(sout))
        if any(x == [] for x in sin + val + vec): continue
        mcases.append([0 if site in (0, 2) else 7, nv, rows(sin), val, rows(vec)])
        mmeta.append(('k1', site, flag, rows(sout), c))
    # the sills of the returned model are outputs of the truncation step (unconstrained Goulard paths)
    if status == 0 and c[8][1] and c[11] == [] and not c[8][9] and c[1] in (0, 1, 2) and c[9][0] >= 1 and souts and not overflow:
        for st in structs:
            if st[1] not in souts[-12:]:
                out.append(('%s:final-sill-not-a-truncation-output' % combo, 'the sill matrix of structure type %d is not the output of the last truncation steps' % st[0])); break
    for r4, r5 in k45:
        npar = int(undy(r4[2])); delta = r4[3]
        param = r4[4:4 + npar]; lower = r4[4 + npar:4 + 2 * npar]; upper = r4[4 + 2 * npar:4 + 3 * npar]; scale = r4[4 + 3 * npar:4 + 4 * npar]
        b0 = r4[4 + 4 * npar:4 + 5 * npar]; b1 = r4[4 + 5 * npar:4 + 6 * npar]
        how = int(undy(r5[1])); hgn = r5[3:3 + npar]; paux = r5[3 + npar:3 + 2 * npar]
        if any(x == [] for x in param + scale + hgn + paux + [delta]): continue
        steps = []
        for k in range(npar):
            eps = max(1e-3, abs(1e-3 * float(undy(scale[k]))))
            steps.append([scale[k], param[k], lower[k], upper[k], hgn[k], dy(Fraction(eps))])
        mcases.append([4, delta, steps]); mmeta.append(('k45', how, (b0, b1, hgn, paux, param, lower, upper, scale, delta), None, c))
    # angles of the returned structures that are not parameters of the fit: reference angle, or the user's equality constraint
    if status == 0 and c[1] == 0 and k3 and not c[8][4] and len(structs) == len(c[7]) and c[2] == 2:   # 2-D: one angle (3-D triplets are not canonical)
        r = k3[0]; npar = int(undy(r[2])); ids = [list(parid_dec(int(undy(x)))) for x in r[3:3 + npar]]
        for icov, st in enumerate(structs):
            if st[5] == 0 or any(x == [] for x in ii[3]): continue
            mcases.append([8, icov, c[10], ids, ii[3][:c[2]]]); mmeta.append(('ang', icov, ids, st[3][:c[2]], c))
    # user constraints in the bound vectors handed to foxleg_f
    for r in k3:
        npar = int(undy(r[2])); ids = [int(undy(x)) for x in r[3:3 + npar]]
        lower = [undy(x) for x in r[3 + 2 * npar:3 + 3 * npar]]; upper = [undy(x) for x in r[3 + 3 * npar:3 + 4 * npar]]
        mono_sqrt = c[3] == 1 and c[8][1]     # Goulard on + sill constraints: values replaced by their square roots
        seen_sides = set()
        for it in c[10]:
            if it[5] == T_DEFAULT: continue
            ident = (it[0], it[1], it[2], it[3], it[4] if it[2] == E_SILL else 0)
            sd = [x for x in (('lo', 'up') if it[5] == T_EQUAL else ('lo',) if it[5] == T_LOWER else ('up',)) if (ident, x) not in seen_sides]
            for x in ('lo', 'up') if it[5] == T_EQUAL else ('lo',) if it[5] == T_LOWER else ('up',): seen_sides.add((ident, x))
            if not sd: continue          # constraints_get: the first item designating a parameter decides
            v = undy(it[6])
            if it[2] == E_SILL:
                if not mono_sqrt or v < 0: continue
                v = Fraction(math.sqrt(float(v)))
            for k, pid in enumerate(ids):
                pd = parid_dec(pid)
                if not (pd[0] == it[0] and pd[1] == it[1] and pd[2] == it[2] and pd[3] == it[3] and (pd[2] != E_SILL or pd[4] == it[4])): continue
                t = Fraction(1, 10**9) * (1 + abs(v))
                if 'lo' in sd and (lower[k] is None or lower[k] < v - t):
                    out.append(('constraints:%s:lower-bound-not-on-designated-parameter' % ELEM[it[2]], 'in %s: parameter %s has lower bound %s, user asked %s' % (PATHS[c[1]], pd, fl(lower[k]), fl(v))))
                if 'up' in sd and (upper[k] is None or upper[k] > v + t):
                    out.append(('constraints:%s:upper-bound-not-on-designated-parameter' % ELEM[it[2]], 'in %s: parameter %s has upper bound %s, user asked %s' % (PATHS[c[1]], pd, fl(upper[k]), fl(v))))
    return out

def compare_trace_models(ctx, mcases, mmeta, runner):
    if not mcases: return
    mf = write_cases(ctx, 'trace_m', mcases)
    rc, model = run_model(ctx, runner, mf)
    if len(model) != len(mcases):
        print('ERROR: model runner returned %d results for %d trace cases' % (len(model), len(mcases))); sys.exit(3)
    SITE = {0: 'AModelOptimSills::_truncateNegativeEigen', 1: 'AModelOptimSills::_goulardWithoutConstraint', 2: 'st_truncate_negative_eigen', 3: 'st_goulard_without_constraint'}
    for mc, meta, mi in zip(mcases, mmeta, model):
        if mi and mi[0] == -999:
            print('ERROR: model rejected a trace case: %s' % sx_str(mc)[:300]); sys.exit(3)
        ctx.count('trace:' + sx_str(mc))
        if meta[0] == 'ang':
            _, icov, ids, got, c = meta
            bad = [k for k in range(1) if not any(p[1] == icov and p[2] == E_ANGLE and p[3] == k for p in ids) and not ang_eq(undy(got[k]), unq(mi[k]))]
            if bad:
                ctx.ndis += 1; ctx.found_input = True
                ctx.violation('Model::fit:angle-not-inferred:neither-reference-nor-user-equality', 'structure %d: angles %s, expected %s for the ranks %s that are not parameters' % (
                              icov, [fl(undy(x)) for x in got], [fl(unq(x)) for x in mi], bad), {'fit_case': sx_str(c), 'model_case': sx_str(mc), 'model': sx_str(mi)})
            continue
        if meta[0] == 'k1':
            _, site, flag, sout, c = meta
            Sout = unmat(sout); mflag = mi[0]; mS = unmat(mi[1], unq)
            agree = (flag == mflag) and close_mat(Sout, mS)
            if agree: continue
            ctx.ndis += 1
            n = len(Sout)
            if any(v is None for r in Sout for v in r) or sym_defect(Sout) != 0 or not is_psd_exact(Sout):
                ctx.found_input = True
                ctx.violation('%s:in-situ:output-not-psd' % SITE[site], 'during %s the truncation step wrote a matrix that is not symmetric PSD' % PATHS[c[1]],
                              {'fit_case': sx_str(c), 'record': sx_str(mc), 'written': sx_str(sout), 'model': sx_str(mi)})
            else:
                ctx.violation('model-drift:%s:in-situ' % SITE[site], 'during %s the matrix written by the truncation step differs from the model (still PSD)' % PATHS[c[1]],
                              {'fit_case': sx_str(c), 'record': sx_str(mc), 'written': sx_str(sout), 'flag': flag, 'model': sx_str(mi)}, found_input=False)
        else:
            _, how, (b0, b1, hgn, paux, param, lower, upper, scale, delta), _, c = meta
            dl = float(undy(delta)); viol = None; agree = True
            for k in range(len(param)):
                p, l, u, sc, h = undy(param[k]), undy(lower[k]), undy(upper[k]), undy(scale[k]), undy(hgn[k])
                ib0, ib1 = undy(b0[k]), undy(b1[k]); m0, m1 = unq(mi[k][0]), unq(mi[k][1])
                dloc = Fraction(dl) * sc
                # decisions of st_define_bounds taken on reals: skip the comparison when one of them is a near-tie
                tie = False
                for bd, sgn in ((l, 1), (u, -1)):
                    if bd is None: continue
                    diff = (p - bd) * sgn
                    for a, b in ((diff, dloc), (abs(p - min(diff, dloc)), dloc / 10), (abs(p - min(diff, dloc) / 2), dloc / 10)):
                        if abs(a - b) <= Fraction(1, 10**9) * (abs(a) + abs(b)): tie = True
                if tie: ctx.cov['tie_excluded'] += 1
                elif not (close_o(ib0, m0) and close_o(ib1, m1)): agree = False
                t = Fraction(2, 10**9) * (1 + abs(p))
                if h is not None and (h < ib0 - t or h > ib1 + t): viol = ('foxleg_f:step-outside-the-box', 'step %s outside [%s,%s]' % (fl(h), fl(ib0), fl(ib1)))
                pa = undy(paux[k])
                if (l is not None and pa < l - t) or (u is not None and pa > u + t): viol = ('foxleg_f:candidate-outside-bounds', 'candidate %s outside [%s,%s]' % (fl(pa), fl(l), fl(u)))
            if viol:
                ctx.ndis += 1; ctx.found_input = True
                ctx.violation(viol[0], 'during %s: %s' % (PATHS[c[1]], viol[1]), {'fit_case': sx_str(c), 'record': sx_str(mc)})
            elif not agree:
                ctx.ndis += 1
                ctx.violation('model-drift:st_define_bounds:in-situ', 'step box recorded during %s differs from the model' % PATHS[c[1]],
                              {'fit_case': sx_str(c), 'record': sx_str(mc), 'impl': sx_str([b0, b1]), 'model': sx_str(mi)}, found_input=False)

def directed_fit_cases():
    """fixed scenarios (independent of the seed): one per option / constraint combination the property names"""
    rng = random.Random(20260930)
    def D(x): return dy(Fraction(x))
    def points(n, nvar, ndim=2, hetero=False):
        pts = []; seen = set()
        for i in range(n):
            while True:
                x = [Fraction(rng.randint(0, 80), 8) for _ in range(ndim)]
                if tuple(x) not in seen: break
            seen.add(tuple(x))
            z = [math.sin(float(x[0]) / 3 + v) + 0.5 * math.cos(float(x[-1]) / 2) + 0.3 * rng.gauss(0, 1) for v in range(nvar)]
            zz = [D(Fraction(round(t * 64), 64)) for t in z]
            if hetero: zz = [zz[0]] + [[]] * (nvar - 1) if i % 2 == 0 else [[]] + zz[1:]
            pts.append([[D(v) for v in x], zz])
        return pts
    def dirs2(k, npas=6, tol=45.0):
        return [[[D(math.cos(math.pi * i / k)), D(math.sin(math.pi * i / k))], npas, D(1.0), D(tol if k > 1 else 90.0)] for i in range(k)]
    O = lambda **kw: [kw.get('noreduce', 1), kw.get('goulard', 1), kw.get('aniso', 1), kw.get('rot', 1), 0, 0, 0, 0, 0, kw.get('intrinsic', 0)]
    out = []
    def add(path, nvar, data, dirs, types, opts, items=(), cons=[], maxiter=1000, edits=()):
        out.append([10, path, 2, nvar, data, dirs, list(edits), types, opts, [maxiter, 2], [list(i) for i in items], cons, 1, 0])
    p1 = points(80, 1); p2 = points(80, 2); ph = points(60, 2, hetero=True)
    add(0, 1, p1, dirs2(2), [0, 2], O())                                                   # plain
    add(0, 1, p1, dirs2(2), [0, 2], O(goulard=0), [[0, 1, E_SILL, 0, 0, T_EQUAL, D(4)]])   # sill bound, Goulard switched off by the user
    add(0, 1, p1, dirs2(2), [0, 2], O(), [[0, 1, E_SILL, 0, 0, T_UPPER, D(Fraction(1, 4))]])  # sill bound, Goulard on (switched off by the library)
    add(0, 1, p1, dirs2(2), [0, 2], O(), [[0, 1, E_RANGE, 0, 0, T_EQUAL, D(3)], [0, 1, E_RANGE, 1, 0, T_UPPER, D(2)]])
    add(0, 1, p1, dirs2(2), [0, 2], O(), [[0, 1, E_RANGE, 0, 0, T_LOWER, D(6)], [0, 1, E_RANGE, 0, 0, T_UPPER, D(2)]])   # lower > upper
    add(0, 1, p1, dirs2(3, tol=30.0), [0, 2], O(), [[0, 1, E_ANGLE, 0, 0, T_EQUAL, D(30)]])                            # rotation inferred
    add(0, 1, p1, dirs2(2), [0, 2], O(), [[0, 1, E_ANGLE, 0, 0, T_EQUAL, D(30)]])                                       # rotation not inferred (2 directions)
    add(0, 1, p1, dirs2(1), [0, 2], O(), [[0, 1, E_RANGE, 1, 0, T_EQUAL, D(2)]])                                        # one direction: anisotropy not inferred
    add(0, 1, p1, dirs2(3, tol=30.0), [0, 2], O(aniso=0))
    add(0, 1, p1, dirs2(3, tol=30.0), [0, 2], O(rot=0))
    add(0, 1, p1, dirs2(2), [0, 10], O(), [[0, 1, E_PARAM, 0, 0, T_UPPER, D(Fraction(3, 2))]])
    add(0, 2, p2, dirs2(2), [0, 2], O())
    add(0, 2, p2, dirs2(2), [0, 2], O(), cons=D(2))                                          # constant sill, two variables
    add(0, 1, p1, dirs2(2), [0, 2], O(), cons=D(2))
    # per-variable totals: full vector, partial vector + scalar, scalar with one variable left free, mono vector, vector alone
    add(0, 2, p2, dirs2(2), [0, 2], O(), cons=[D(1), [D(1), D(2)]], maxiter=100)
    add(0, 2, p2, dirs2(2), [0, 2], O(), cons=[D(1), [D(2)]], maxiter=100)
    add(0, 2, p2, dirs2(2), [0, 2], O(), cons=[D(1), [[], D(2)]], maxiter=100)
    add(0, 1, p1, dirs2(2), [0, 2], O(), cons=[D(1), [D(Fraction(3, 2))]], maxiter=100)
    add(2, 2, p2, dirs2(2), [0, 2], O(), cons=[D(1), [D(1), D(2)]], maxiter=100)
    add(0, 1, p1, dirs2(2), [0, 2], O(), [[0, 1, E_SILL, 0, 0, T_LOWER, D(Fraction(1, 16))]], cons=D(3), maxiter=100)   # constant sill + a sill item: must be refused (regression case of fixes/C17_11)
    add(0, 2, p2, dirs2(2), [0, 2], O(intrinsic=1))
    add(0, 2, p2, dirs2(2), [0, 2], O(goulard=0))                                           # must be refused
    add(0, 2, ph, dirs2(2), [0, 2], O())                                                    # variables never known together
    add(0, 2, p2, dirs2(2), [0, 2], O(), maxiter=0)
    add(0, 1, p1, dirs2(2), [0, 1, 2], O(noreduce=0), [[0, 2, E_RANGE, 0, 0, T_UPPER, D(2)]], maxiter=3)   # reduction + not converged
    add(2, 2, p2, dirs2(2), [0, 2], O())
    add(2, 1, p1, dirs2(2), [0, 2], O(), edits=[[0, 2, D(0)]])                                # an empty lag
    add(3, 1, p1, dirs2(2), [2], O())
    add(3, 1, p1, dirs2(2), [2], O(), edits=[[1, 1, D(0)]])
    add(2, 2, p2, dirs2(2), [0, 2], O(intrinsic=1))
    add(3, 2, p2, dirs2(2), [2], O(intrinsic=1))
    add(0, 2, ph, dirs2(2), [0, 2], O(), cons=D(2), maxiter=50)
    add(0, 2, p2, dirs2(2), [0, 2], O(), cons=D(2), maxiter=0)
    add(2, 2, p2, dirs2(2), [0, 2], O(), cons=D(2), maxiter=50)
    add(3, 2, p2, dirs2(2), [0, 2], O(), cons=D(2), maxiter=50)
    add(3, 1, p1[:40], dirs2(1, npas=5), [0], O(goulard=0), maxiter=100)      # ModelOptimVario, nugget only, no Goulard: never returns
    # 3-D, directional variograms, anisotropy authorised: (a) one horizontal + the vertical direction -> lock_iso2d (range Y = range X),
    # (b) two horizontal directions, no vertical one -> lock_no3d (range Z = range X), (c) all three: nothing locked
    p3 = []
    seen3 = set()
    while len(p3) < 70:
        x = tuple(Fraction(rng.randint(0, 24), 4) for _ in range(3))
        if x in seen3: continue
        seen3.add(x)
        z = math.sin(float(x[0]) / 2) + 0.6 * math.cos(float(x[1])) + 0.8 * math.sin(2 * float(x[2])) + 0.2 * rng.gauss(0, 1)
        p3.append([[D(v) for v in x], [D(Fraction(round(z * 64), 64))]])
    d3 = lambda cds: [[[D(float(t)) for t in cd], 4, D(1.0), D(45.0)] for cd in cds]
    for cds in ([(1, 0, 0), (0, 0, 1)], [(1, 0, 0), (0, 1, 0)], [(1, 0, 0), (0, 1, 0), (0, 0, 1)]):
        for types_ in ([0, 2], [1, 3]):
            out.append([10, 0, 3, 1, p3, d3(cds), [], types_, O(), [100, 2], [], [], 1, 0])
    # degenerate but not constant data (known findings: the fitted model is PSD, yet kriging with it is singular)
    #  - second variable equal to 0 everywhere except at one far sample: its variogram is 0 at every valid lag -> zero sills
    pz = [[xy, [z[0], D(0)]] for xy, z in p2[:40]] + [[[D(100), D(100)], [D(1), D(5)]]]
    #  - second variable = 2 x first variable: every sill matrix has rank one -> singular total sill
    ps = [[xy, [z[0], dy(2 * undy(z[0]))]] for xy, z in p2[:40]]
    for path_, types_ in ((0, [0, 2]), (2, [0, 2]), (3, [2])):
        add(path_, 2, pz, dirs2(2, npas=4), types_, O(), maxiter=100)
        add(path_, 2, ps, dirs2(2, npas=4), types_, O(), maxiter=100)
    # variogram map on a 10 x 10 grid
    vals = [[D(Fraction(round((math.sin(i / 3.) + math.cos(j / 2.) + 0.3 * rng.gauss(0, 1)) * 64), 64))] for j in range(10) for i in range(10)]
    out.append([10, 1, 2, 1, [10, 10, vals, 4], [], [], [0, 2], O(), [50, 2], [], [], 1, 0])
    out.append([10, 1, 2, 1, [10, 10, vals, 4], [], [], [0, 2], O(aniso=0), [50, 2], [], [], 1, 0])
    out.append([10, 1, 2, 1, [10, 10, vals, 4], [], [], [0, 2], O(), [50, 2], [], D(2), 1, 0])
    out.append([10, 1, 2, 1, [10, 10, vals, 4], [], [], [0, 2], O(), [50, 2], [], [D(1), [D(2)]], 1, 0])
    out.append([10, 1, 2, 1, [10, 10, vals, 4], [], [], [0, 2], O(rot=0), [50, 2], [], [], 1, 0])
    out.append([10, 1, 2, 1, [10, 10, vals, 4], [], [], [0, 2], O(), [50, 2], [[0, 1, E_RANGE, 0, 0, T_UPPER, D(3)]], [], 1, 0])
    out.append([10, 1, 2, 1, [10, 10, vals, 4], [], [], [0, 2], O(goulard=0), [50, 2], [[0, 1, E_SILL, 0, 0, T_EQUAL, D(4)]], [], 1, 0])
    out.append([10, 1, 2, 1, [10, 10, vals, 4], [], [], [0, 1, 2], O(noreduce=0), [3, 2], [[0, 2, E_RANGE, 0, 0, T_UPPER, D(Fraction(1, 2))]], [], 1, 0])
    vals2 = [[v[0], D(Fraction(rng.randint(-64, 64), 64))] for v in vals]
    out.append([10, 1, 2, 2, [10, 10, vals2, 4], [], [], [0, 2], O(goulard=0), [50, 2], [], [], 1, 0])
    out.append([10, 1, 2, 2, [10, 10, vals2, 4], [], [], [0, 2], O(), [50, 2], [], [], 1, 0])
    return out

def stage_fit(ctx, exe, runner, quick):
    rng = ctx.rng
    N = 150 if quick else 600
    cases = [c for c in load_corpus(ctx) if c and c[0] == 10] + directed_fit_cases()
    ncorpus = len(cases)
    cases += [gen_fit_case(rng, i, quick) for i in range(N)]
    for k, c in enumerate(cases): c[13] = k       # tags = position (corpus cases included)
    descr = run_impl_resilient(ctx, exe, 'fitdescr', [[12] + c[1:] for c in cases])
    for c, d in zip(cases, descr):
        if isinstance(d, list) and len(d) == 3: DESCR[c[13]] = d
    # the ModelOptim* classes (not reachable from Model::fit) are judged only on experimental variograms in which every pair of
    # variables has at least one valid lag: on sparser data they index empty arrays (all lags empty) or divide by zero, which
    # the property excludes; Model::fit / fitFromVMap are judged on those data too (they refuse, or fit a zero cross-sill)
    keep = []
    for c in cases:
        d = DESCR.get(c[13])
        if c[1] in (2, 3) and d and any(v == 0 for v in d[0]):
            ctx.cov['tie_excluded'] += 1; ctx.dist('fit_excluded_ModelOptim_pair_without_valid_lag'); continue
        keep.append(c)
    cases = keep
    res = run_impl_resilient(ctx, exe, 'fit', cases, per_case_timeout=15, alone=lambda c: c[1] in (2, 3) or c[11] != [])
    mcases = []; mmeta = []
    for c, ii in zip(cases, res):
        ctx.count(sx_str(c)[:4000]); ctx.dist('fit_' + fit_combo(c)); ctx.dist('fit_ndim%d_nvar%d_ncov%d' % (c[2], c[3], len(c[7])))
        if len(ctx.cov['samples']) < 6 and isinstance(ii, list): ctx.sample({'fit_case': sx_str(c)[:300], 'impl': sx_str(ii)[:300]}, maxn=6)
        for key, text in check_fit_result(ctx, c, ii) + check_fit_trace(ctx, c, ii, mcases, mmeta):
            ctx.ndis += 1; ctx.found_input = True
            ctx.violation(key, text, {'case': sx_str(c), 'impl': sx_str(ii)[:6000] if isinstance(ii, list) else str(ii),
                                      'how': 'one line of a case file for build/harness/C17 (kind 10 = fit oracle)'})
    compare_trace_models(ctx, mcases, mmeta, runner)
    ctx.fit_ms.sort(reverse=True)
    ctx.log('slowest fits (ms, configuration, maxiter): %s; total %.1fs' % (ctx.fit_ms[:5], sum(m for m, _, _ in ctx.fit_ms) / 1000.))

def run(ctx):
    quick = ctx.quick()
    ctx.found_input = False; ctx.ndis = 0; ctx.fit_ms = []
    build_lib(ctx)
    lib = os.path.join(BUILD, 'lib', 'Verif', 'libgstlearn.so')
    rc, out, err = sh(['nm', '-D', '--defined-only', lib])
    ctx.hook = all((' T ' + h) in out for h in HOOKS)
    if not ctx.hook:
        ctx.notes.append('trace hook hooks/C17.patch not present in the library built from %s: the trace-level comparisons '
                         '(Goulard loop replay, in-situ truncation records, parameter vectors inside foxleg_f) are skipped' % REPO)
        ctx.log('NOTE: hooks/C17.patch is not applied: trace-level comparisons skipped')
    proofs_ok = coq_properties(ctx)
    runner = build_runner(ctx); exe = build_c17_harness(ctx, ctx.hook)
    if runner is None or exe is None:
        print('ERROR: model runner or harness does not build'); sys.exit(3)
    for name, fn in [('trunc', stage_trunc), ('params', stage_params), ('foxleg', stage_foxleg), ('map', stage_map), ('consill', stage_consill), ('alpha', stage_alpha), ('goulard', stage_goulard), ('fit', stage_fit)]:
        t = time.time(); fn(ctx, exe, runner, quick); ctx.log('%s: %.1fs, %d evaluations so far' % (name, time.time() - t, ctx.cov['evaluations']))
    ctx.cov['disagreements'] = ctx.ndis
    ctx.level = 'proof of the projection / clamping steps, sampled post-conditions elsewhere'
    ctx.cov['rule'] = ('cases: (a) symmetric matrices (1-4 variables: PSD, rank one, indefinite, slightly negative, correlation-like, zero) x truncation / definite-positive repair '
                       'x class method / static function, eigen-pairs harvested from the library; (b) (dimension, directions, options, basic structures, constraint items, default values) '
                       '-> effective options, parameter identifiers, default+user bounds, clamp; (c) step boxes, gradient evaluation points, st_check_param; (d) parameter vector -> Model for every parameter type (ranges with locked directions, isotropy, angles, lock_samerot copy, third parameter, sills from AIC parameters), the rules of the theorems evaluated on the library output (impl-vs-spec); (d2) constant-sill diagonal term; '
                       '(e) with the hook: complete unconstrained Goulard runs replayed with the recorded eigen-pairs, each recorded update checked to be the least-squares minimiser, criterion not above its initial value in runs without truncation; (f) fits: Model::fit, Model::fitFromVMap, ModelOptimSillsVario::fit, '
                       'ModelOptimVario::fit on synthetic data sets (smooth / pure nugget / trend / anisotropic / constant; 1-3 variables, heterotopic; 1-4 directions; emptied lags; 5-120 samples), '
                       '1-3 distinct basic structures, random options, maxiter in {0,1,5,20,50,100,1000}, constraint items, constant sill; every in-situ hook record of those fits. '
                       'distinct = distinct case text; non-trivial = every case except structures not valid in the dimension, near-ties of the Goulard stopping test and of st_define_bounds (tie_excluded)')
    ctx.assumptions = [
        'the eigen-solver (MatrixSquareSymmetric::computeEigen) is an oracle: its output enters the model as data; C17_trunc_psd needs nothing of it, C17_trunc_id / C17_goulard_final_psd need exactness of the '
        'decompositions in which no negative eigenvalue is reported (then the code keeps the matrix as it is); orthonormality is only used by the check to recognise "negative directions cut"',
        'sqrt enters make_dp as an oracle (C17_makedp_psd holds for any function); the check evaluates it in binary64',
        '_makeDefinitePositive is exercised on matrices whose constrained variables have a non-negative diagonal (what its callers produce); a negative one gives sqrt of a negative number',
        'NOT covered by theorems: convergence / optimality of foxleg_f and of the Goulard iterations, the quadratic programme of foxleg_f (st_minimization_under_constraints: only its box is modelled, the step '
        'actually taken is observed through the hook), the constrained Goulard (_goulardWithConstraints, _minimizeP4) beyond its final PSD repair, st_model_auto_strmod_reduce, tapering / second model / '
        'anamorphosis variants of the parameter list, the nlopt optimiser of ModelOptimVario. These are sampled by the post-condition oracle only',
        'third-parameter constraints are drawn in [0.5, 1.75], inside the validity domain of every structure used (J-Bessel order >= (ndim-2)/2: the library clamps a smaller value); '
        'the ModelOptim* classes are judged only when every pair of variables has a valid lag (counted under tie_excluded otherwise); '
        'the imposed total sill is judged only for maxiter >= 50 (it is reached by the iterations of the constrained Goulard, not by construction); '
        'post-conditions are judged on non-degenerate data for kriging (not every variable constant, distinct locations); bounds (not equalities) on angles are not judged (wrap-around); constraints on a '
        'parameter that the user himself removed (range of rank >= 1 under isotropy, angle with locked rotation) are not judged; ModelOptim* classes have no code for constraint items / options: only sills, '
        'ranges and usability are judged there',
        'reals are compared with tolerance 1e-9 (1e-7 for complete Goulard runs); exact rational model vs binary64 implementation']
    ctx.cov['trusted_base'] = ctx.cov.get('trusted_base', []) + [
        'harness/C17.cpp compiles the current text of src/Core/model_auto.cpp and src/Core/foxleg.cpp into itself (namespaces) to reach their static functions',
        'hooks/C17.patch (optional, add-only, guard GSTLEARN_VERIF): in-memory trace of truncations, parameter vectors and step boxes' + ('' if ctx.hook else ' - NOT present in this run')]
    if not proofs_ok: proof_break_violation(ctx, ctx.found_input)

if __name__ == '__main__':
    main(run)

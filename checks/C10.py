"""C10 - results depend only on the arguments, not on what was called before.

State carriers (DESIGN.md section 4, C10):
  (4) KrigingCalcul lazy graph   translators/C10_kcgraph.py -> coq/C10/gen/KCGraph.v ; generic theorem C10_lazy_coherent ;
                                 theorems C10_kc_graph_ok, C10_kc_coherent ; histories on the real class vs a FRESH object
  (5) VectorT copy-on-write      translators/C10_vectort.py -> coq/C10/gen/VectorTOps.v ; C10_cow_refines_values
  (1) RNG cell                   C10_rng_seeded ; bit-exact stream after random prefixes
  (2) covariance optimisation    translators/C10_optimpaths.py -> coq/C10/gen/OptimPaths.v ; C10_optim_balanced
  (3)(6) neighbourhood memo / static work areas: history-independence of kriging calls (correspondence only)
"""
import sys, os, importlib.util, itertools
sys.path.insert(0, os.path.dirname(__file__))
from common import *

def load_translator(name):
    p = os.path.join(VERIF, 'translators', name + '.py')
    spec = importlib.util.spec_from_file_location(name, p)
    m = importlib.util.module_from_spec(spec); spec.loader.exec_module(m)
    return m

def write_if_changed(path, text):
    os.makedirs(os.path.dirname(path), exist_ok=True)
    if os.path.exists(path) and open(path).read() == text: return False
    with open(path, 'w') as f: f.write(text)
    return True

_run_impl = run_impl
def run_impl(ctx, exe, casefile, timeout=1800, env=None):
    """the shared library may be relinked by another check while the harness starts: retry when it could not be loaded"""
    for attempt in range(6):
        rc, res = _run_impl(ctx, exe, casefile, timeout=timeout, env=env)
        if res: return rc, res
        try: log = open(casefile + '.impl.log').read()
        except OSError: log = ''
        if 'error while loading shared libraries' not in log and 'cannot open shared object' not in log: return rc, res
        time.sleep(10)
    return rc, res

def vals_close(a, b, tol=1e-11):
    """(status payload) pairs from the harness: status 0 ok / 1 empty-or-null / 2 crash; payload list of dyadics (dims first for matrices)"""
    if a[0] != b[0]: return False
    if a[0] != 0: return True
    x, y = a[1], b[1]
    if len(x) != len(y): return False
    for p, q in zip(x, y):
        if isinstance(p, int) or isinstance(q, int):
            if p != q: return False
            continue
        u, v = undy(p), undy(q)
        if u is None or v is None:
            if u is not v: return False
            continue
        if abs(u - v) > tol * (1 + abs(v)): return False
    return True

def show_val(a):
    if a[0] != 0: return {1: 'empty/null (failure)', 2: 'CRASH'}.get(a[0], '?')
    return [x if isinstance(x, int) else (None if undy(x) is None else float(undy(x))) for x in a[1]]

# =====================================================================================================================
# (4) KrigingCalcul
# =====================================================================================================================
KC_INPUTS = ['_Sigma00', '_Sigma', '_Sigma0', '_X', '_X0', '_PriorCov', '_Z', '_PriorMean', '_Means', '_Zp', '_rankColCok']
KC_PARAMS = ['_neq', '_nbfl', '_nrhs', '_ncck', '_flagSK', '_flagBayes', '_flagDual']
KC_NODES = ['_Zstar', '_Beta', '_LambdaSK', '_LambdaUK', '_MuUK', '_Stdv', '_VarZSK', '_VarZUK', '_XtInvSigma', '_Y0', '_InvSigmaSigma0',
            '_InvSigma', '_Sigmac', '_InvPriorCov', '_Sigma00pp', '_Sigma00p', '_Sigma0p', '_X0p', '_Y0p', '_Z0p', '_Lambda0']
KC_GETTERS = ['getEstimation', 'getStdv', 'getVarianceZstar', 'getPostMean', 'getPostCov', 'getLambda0', 'getMu', 'getY0', 'getY0p',
              'getX0p', 'getSigma0p', 'getLambda', 'getStdvMat', 'getVarianceZstarMat', 'getX0', 'getSigma0']
KC_SETOPS = {10: 'setData', 11: 'setLHS', 12: 'setRHS', 13: 'setVar', 14: 'setColCokUnique', 15: 'setBayes'}
KC_RESETS = ['resetLinkedToZ', 'resetLinkedToLHS', 'resetLinkedToRHS', 'resetLinkedtoVar0', 'resetLinkedToBayes', 'resetLinkedToColCok',
             'resetLinkedToXvalid']

class KCData:
    """random inputs of one dimension profile; everything integer so that C++ reads exactly what is written"""
    def __init__(self, rng, neq, nbfl, nrhs, ncck):
        self.rng, self.neq, self.nbfl, self.nrhs, self.ncck = rng, neq, nbfl, nrhs, ncck
    def spd(self, n, d0):
        r = self.rng
        a = [[0] * n for _ in range(n)]
        for i in range(n):
            for j in range(i):
                a[i][j] = a[j][i] = r.randint(-2, 2)
            a[i][i] = d0 + r.randint(0, 3)
        return a
    def mat(self, rows): return [len(rows), len(rows[0]) if rows else 0, [dy(x) for row in rows for x in row]]
    def vec(self, v): return [dy(x) for x in v]
    def Sigma(self, n=None): return self.mat(self.spd(n or self.neq, 9))
    def Sigma00(self, n=None): return self.mat(self.spd(n or self.nrhs, 14))
    def PriorCov(self): return self.mat(self.spd(max(self.nbfl, 1), 6))
    def X(self, nr=None):
        s = self.rng.randint(0, 2)
        return self.mat([[1, i + s, (i * i) % 5][:self.nbfl] for i in range(nr or self.neq)])
    def X0(self): return self.mat([[1, self.rng.randint(-2, 4), self.rng.randint(0, 3)][:self.nbfl] for _ in range(self.nrhs)])
    def Sigma0(self, nr=None): return self.mat([[self.rng.randint(-2, 3) for _ in range(self.nrhs)] for _ in range(nr or self.neq)])
    def Z(self, n=None): return self.vec([self.rng.randint(-5, 5) for _ in range(n or self.neq)])
    def Means(self): return self.vec([self.rng.randint(-2, 2) for _ in range(self.nrhs)])
    def PriorMean(self): return self.vec([self.rng.randint(-2, 2) for _ in range(max(self.nbfl, 1))])
    def Zp(self): return self.vec([self.rng.randint(-3, 3) for _ in range(self.nrhs)])
    def ranks(self): return sorted(self.rng.sample(range(self.nrhs), self.ncck))

def kc_set(D, name, drop=(), bad=False):
    """one set* op with fresh data; drop = names of arguments passed as nullptr; bad = one argument of a wrong dimension"""
    P = lambda k, v: [0, []] if k in drop else [1, v]
    if name == 'setData': return [10] + P('Z', D.Z(D.neq + 1 if bad else None)) + P('Means', D.Means())
    if name == 'setLHS': return [11] + P('Sigma', D.Sigma(D.neq + 1 if bad else None)) + (P('X', D.X()) if D.nbfl > 0 else [0, []])
    if name == 'setRHS': return [12] + P('Sigma0', D.Sigma0(D.neq + 1 if bad else None)) + (P('X0', D.X0()) if D.nbfl > 0 else [0, []])
    if name == 'setVar': return [13] + P('Sigma00', D.Sigma00(D.nrhs + 1 if bad else None))
    if name == 'setColCokUnique': return [14] + P('Zp', D.Zp()) + P('ranks', D.ranks())
    if name == 'setBayes': return [15] + P('PriorMean', D.PriorMean()) + P('PriorCov', D.PriorCov())
    raise ValueError(name)

def kc_setup(D, bayes=False, skip=()):
    ops = []
    for n in ['setData', 'setLHS', 'setRHS', 'setVar']:
        if n not in skip: ops.append(kc_set(D, n))
    if bayes and D.nbfl > 0 and 'setBayes' not in skip: ops.append(kc_set(D, 'setBayes'))
    if D.ncck > 0 and 'setColCokUnique' not in skip: ops.append(kc_set(D, 'setColCokUnique'))
    return ops

def kc_profiles():
    out = []
    for dual in (0, 1):
        for nbfl in (0, 2):
            for ncck in (0, 1):
                for bayes in ((0, 1) if nbfl > 0 else (0,)):
                    if dual and (ncck or bayes): continue     # refused by the class itself
                    out.append((dual, nbfl, ncck, bayes))
    return out

def kc_random_history(rng, quick):
    dual, nbfl, ncck, bayes = rng.choice(kc_profiles())
    D = KCData(rng, rng.choice([2, 3, 4]), nbfl, 2 if ncck else rng.choice([1, 2]), ncck)
    ops = []
    r = rng.random()
    if r < .7: ops += kc_setup(D, bayes)
    elif r < .85: ops += kc_setup(D, bayes, skip=[rng.choice(['setData', 'setLHS', 'setRHS', 'setVar'])])
    names = ['setData', 'setLHS', 'setRHS', 'setVar'] + (['setBayes'] if nbfl > 0 and not dual else []) + (['setColCokUnique'] if ncck else [])
    getters = [0, 1, 2, 3, 4, 5, 6, 7, 8, 9, 10, 11, 12, 13] if not dual else [0, 0, 0, 11, 3, 4]
    for _ in range(rng.randint(2, 7 if quick else 12)):
        u = rng.random()
        if u < .5: ops.append([20, rng.choice(getters)])
        elif u < .9:
            n = rng.choice(names)
            v = rng.random()
            if v < .75: ops.append(kc_set(D, n))
            elif v < .9:
                arg = {'setData': ['Z', 'Means'], 'setLHS': ['Sigma', 'X'], 'setRHS': ['Sigma0', 'X0'], 'setVar': ['Sigma00'],
                       'setColCokUnique': ['Zp', 'ranks'], 'setBayes': ['PriorMean', 'PriorCov']}[n]
                drop = [rng.choice(arg)]
                if n == 'setData' and drop == ['Means'] and rng.random() < .8: drop = ['Z']   # a null Means crashes every SK estimation
                ops.append(kc_set(D, n, drop=drop))
            else: ops.append(kc_set(D, n, bad=True))
        else: ops.append([30, rng.randrange(6)])
    ops.append([20, rng.choice(getters)])
    return [42, dual, ops], (dual, nbfl, ncck, bayes)

def kc_directed(rng):
    """template histories: full setup, a get, one perturbation (a set* with new data / a reset / nothing), the same get again;
    and incomplete setups asked twice.  Over every option profile and getter."""
    out = []
    for (dual, nbfl, ncck, bayes) in kc_profiles():
        getters = [0, 1, 2, 3, 4, 5, 6, 7, 8, 9, 11] if not dual else [0, 11]
        names = ['setData', 'setLHS', 'setRHS', 'setVar'] + (['setBayes'] if bayes else []) + (['setColCokUnique'] if ncck else [])
        for g in getters:
            D = KCData(rng, 3, nbfl, 2, ncck)
            base = kc_setup(D, bayes)
            for n in names:
                out.append(([42, dual, base + [[20, g], kc_set(D, n), [20, g]]], 'reset:' + n))
            for n in names:     # the input arrives late: a first get fails, then the input is given
                out.append(([42, dual, kc_setup(D, bayes, skip=[n]) + [[20, g], [20, g], kc_set(D, n), [20, g]]], 'late:' + n))
            out.append(([42, dual, kc_setup(D, bayes, skip=['setData']) + [kc_set(D, 'setData', drop=['Means']), [20, g]]], 'nullMeans'))
            ARGS = {'setData': ['Z'], 'setLHS': ['Sigma', 'X'], 'setRHS': ['Sigma0', 'X0'], 'setVar': ['Sigma00']}
            for n in ARGS:
                for a in ARGS[n]:
                    if a in ('X', 'X0') and nbfl == 0: continue
                    out.append(([42, dual, kc_setup(D, bayes, skip=[n]) + [kc_set(D, n, drop=[a]), [20, g], [20, g]]], 'drop:' + a))
            if nbfl > 0 and g == 0:   # the drift is removed again: the object is back to simple kriging
                out.append(([42, dual, base + [kc_set(D, 'setLHS', drop=['X']), kc_set(D, 'setRHS', drop=['X0']), [20, 0]]], 'dropX+X0'))
            if ncck > 0:     # colocation switched off by a null argument
                out.append(([42, dual, base + [kc_set(D, 'setColCokUnique', drop=['Zp']), [20, g]]], 'colcok-off'))
                if g == 9: out.append(([42, dual, base + [kc_set(D, 'setColCokUnique', drop=['Zp']), [20, 9], [20, 10]]], 'colcok-off'))
            if nbfl > 0:
                out.append(([42, dual, kc_setup(D, bayes, skip=['setLHS']) + [kc_set(D, 'setLHS', drop=['X']), [20, g], [20, g]]], 'nullX'))
                out.append(([42, dual, base + [[20, g], kc_set(D, 'setLHS', drop=['X']), [20, g]]], 'dropX'))
    return out

def kc_parse_impl(res):
    """list of per-op records; returns (records, crashed_at) ; record = dict"""
    recs = []; crashed = None; asking = None
    for r in res:
        if r[0] == 9: asking = r[1]; continue
        if r[0] == 2 and len(r) == 1:
            crashed = len(recs); break
        if r[0] == 0:
            recs.append({'kind': 'set', 'rc': r[1], 'ids': r[2], 'par': r[3], 'occ': r[4]})
        elif r[0] == 1:
            recs.append({'kind': 'get', 'hist': r[1], 'fresh': r[2], 'fpar': r[3], 'fids': r[4], 'ids': r[5], 'par': r[6], 'occ': r[7]})
        asking = None
    return recs, crashed, asking

def kc_get_disagrees(rec):
    return not vals_close(rec['hist'], rec['fresh'])

class KCModel:
    """turns an impl transcript into a case for the extracted model (same inputs identities, same parameters) and compares"""
    def __init__(self, tab):
        self.tab = tab
        self.in_ix = {n: i for i, n in enumerate(tab['inputs'])}
        self.par_ix = {n: i for i, n in enumerate(tab['params'])}
        self.node_ix = {n: i for i, n in enumerate(tab['nodes'])}
        self.setter_ix = {n: i for i, n in enumerate(tab['setters'])}
        self.getter_node = {}
        for g, br in tab['getters'].items():
            self.getter_node[g] = br
    def names_ok(self):
        return tab_names_ok(self.tab)
    def getter_target(self, g, par):
        """node needed by getter g under the parameters par (dict name->value); None when the getter returns before any need"""
        for pc, need, ret in self.tab['getters'][KC_GETTERS[g]]:
            if all(self.ev(a, par) == bool(b) for a, b in pc): return need
        return None
    def ev(self, a, par):
        if a[0] == 'par': return par[a[1]] != 0
        if a[0] == 'not': return not self.ev(a[1], par)
        if a[0] == 'and': return self.ev(a[1], par) and self.ev(a[2], par)
        if a[0] == 'or': return self.ev(a[1], par) or self.ev(a[2], par)
        raise ValueError(a)
    def model_case(self, case, recs, empty_ids):
        dual = case[1]
        p0 = [0] * len(self.tab['params'])
        p0[self.par_ix['_flagSK']] = 1; p0[self.par_ix['_flagDual']] = dual
        mops = []; meta = []
        prev = [0, 0, 0, 0, 1, 0, dual]
        for i, op in enumerate(case[2]):
            if i < len(recs): rec = recs[i]
            elif i == len(recs) and op[0] == 20: rec = {'par': prev, 'prepar': prev}     # the get that crashed the process
            else: break
            par = dict(zip(KC_PARAMS, rec['par']))
            prev = rec['par']
            if op[0] == 20:
                if rec.get('prepar') is not None: par = dict(zip(KC_PARAMS, rec['prepar']))
                tgt = self.getter_target(op[1], par)
                if tgt is None or tgt not in self.node_ix:
                    meta.append(None); continue          # the getter answers without touching the graph (or returns an input)
                mops.append([1, self.node_ix[tgt]]); meta.append(('get', tgt))
            else:
                name = KC_SETOPS.get(op[0]) or KC_RESETS[op[1]]
                ai = []
                for n, idv in zip(KC_INPUTS, rec['ids']):
                    v = -1 if idv == -1 else (0 if idv in empty_ids else idv)
                    ai.append([self.in_ix[n], v])
                ap = [[self.par_ix[n], v] for n, v in zip(KC_PARAMS, rec['par'])]
                mops.append([0, self.setter_ix[name], ai, ap]); meta.append(('set', name))
        return [41, p0, [], mops], meta

def tab_names_ok(tab):
    return tab['inputs'] == KC_INPUTS and tab['params'] == KC_PARAMS and tab['nodes'] == KC_NODES

def kc_fail_key(f, tab):
    """canonical key of one failed condition instance"""
    N = lambda i: tab['nodes'][i][1:]
    def M(m):
        return {0: tab['inputs'], 1: tab['params'], 2: tab['nodes']}[m[0]][m[1]][1:]
    t = f[0]
    if t == 4: return 'KrigingCalcul:_need%s-publishes-before-fallible' % N(f[1])
    if t == 5: return 'KrigingCalcul:_need%s-reads-%s-without-need' % (N(f[1]), M(f[2]))
    if t == 7: return 'KrigingCalcul:%s-stale-%s' % (tab['setters'][f[1]], N(f[3]))
    if t == 8:
        d = tab['dels'][f[1]]
        fr = tab['del_info'][d]['frees']
        return 'KrigingCalcul:%s-frees-%s' % (d, '+'.join(x[1:] for x in fr) if fr else 'nothing')
    if t == 9: return 'KrigingCalcul:%s-frees-%s-keeps-%s' % (tab['setters'][f[1]], N(f[2]), N(f[3]))
    if t == 0: return 'KrigingCalcul:graph-duplicate-or-cyclic-%s' % N(f[1])
    if t == 1: return 'KrigingCalcul:_need%s-wrong-guard' % N(f[1])
    if t == 2: return 'KrigingCalcul:_need%s-refers-to-%s' % (N(f[1]), M(f[2]))
    if t == 3: return 'KrigingCalcul:_need%s-assigns-%s' % (N(f[1]), N(f[2]))
    if t == 6: return 'KrigingCalcul:_need%s-tests-%s' % (tab['inputs'][f[1]][1:], tab['inputs'][f[2]][1:])
    return 'KrigingCalcul:graph-%s' % (f,)

def kc_group_failures(fails, tab):
    """failed instances -> {key: [instances]} with consequences folded into their root cause:
       - everything about a node whose own _delete does not free it goes under that _delete's key
       - a stale node downstream of another stale node (same setter, same written member) goes under the upstream one"""
    keys = {}
    broken_delete = {}
    for f in fails:
        if f[0] == 8: broken_delete[f[2]] = kc_fail_key(f, tab)
    direct = {}    # node index -> set of members it reads/needs directly
    for n, info in tab['node_info'].items():
        direct[n] = set(x[1] for c, x in info['steps'] if x[0] in ('need', 'read')) | set(info['params'])
    stale = {}     # (setter, member) -> set of stale node names
    for f in fails:
        if f[0] == 7: stale.setdefault((f[1], tuple(f[2])), set()).add(tab['nodes'][f[3]])
    def mname(m): return {0: tab['inputs'], 1: tab['params'], 2: tab['nodes']}[m[0]][m[1]]
    for f in fails:
        k = kc_fail_key(f, tab)
        if f[0] in (7, 9) and f[3] in broken_delete: k = broken_delete[f[3]]
        elif f[0] == 7:
            node = tab['nodes'][f[3]]; w = mname(f[2]); S = stale[(f[1], tuple(f[2]))]
            if w not in direct[node]:
                ups = [u for u in direct[node] if u in S]
                if ups:      # consequence of an upstream stale member: attribute to a root
                    seen = set(); cur = node
                    while True:
                        ups = sorted(u for u in direct[cur] if u in S and u not in seen)
                        if not ups: break
                        cur = ups[0]; seen.add(cur)
                    k = 'KrigingCalcul:%s-stale-%s' % (tab['setters'][f[1]], cur[1:])
        keys.setdefault(k, []).append(f)
    return keys

def kc_explain(case, recs, gi, mrecs, meta, tab, fail_keys):
    """key of a witnessed disagreement at op index gi of the (shrunk) history, from what the model says about that history"""
    N = tab['nodes']
    idx = {}; j = -1
    for i, m in enumerate(meta):
        if m is not None: j += 1; idx[i] = j
    rec = recs[gi] if gi < len(recs) else None
    mi = idx.get(gi, -1)
    if 0 <= mi < len(mrecs) and mrecs[mi][0] == 1:
        mr = mrecs[mi]
        before = mrecs[mi - 1] if mi > 0 else [0, [], [], []]
        prev_stale = [N[i] for i in before[-2]]; prev_part = [N[i] for i in before[-1]]
        tgt = meta[gi][1]
        depth = lambda n: tab['topo'].index(n)
        if prev_part:
            # a member assigned before a step that failed: it is trusted although its computation never completed
            for n in sorted(prev_part, key=lambda n: (n != tgt, -depth(n))):
                k = 'KrigingCalcul:_need%s-publishes-before-fallible' % n[1:]
                if k in fail_keys: return k, '%s is cached although its computation failed' % n, []
        if prev_stale:
            direct = {n: set(x[1] for c, x in info['steps'] if x[0] in ('need', 'read')) for n, info in tab['node_info'].items()}
            roots = [n for n in prev_stale if not (direct[n] & set(prev_stale))] or prev_stale
            back = {v: k for k, v in idx.items()}
            hits = []
            for r in sorted(prev_stale, key=lambda n: (n not in roots, -depth(n))):
                ri = N.index(r); setter = None
                for jj in range(mi - 1, -1, -1):
                    if ri in mrecs[jj][-2] and (jj == 0 or ri not in mrecs[jj - 1][-2]):
                        m = meta[back[jj]]
                        if m[0] == 'set': setter = m[1]
                        break
                own = 'KrigingCalcul:%s-stale-%s' % (setter, r[1:])
                for k, fs in fail_keys.items():
                    if setter and any(f[0] in (7, 9) and tab['setters'][f[1]] == setter and N[f[3]] == r for f in fs):
                        if k == own or r in roots: hits.append((k, '%s is stale after %s' % (r, setter)))
            if hits:
                also = []
                for k, w in hits[1:]:
                    if k != hits[0][0] and k not in also: also.append(k)
                return hits[0][0], hits[0][1], also
            r = sorted(roots, key=lambda n: -depth(n))[0]
            return 'KrigingCalcul:%s-stale-%s' % (setter or 'history', r[1:]), '%s is stale' % r, []
        if mr[1] == 2:
            # the graph itself says: a member is read while absent, without a need that would have failed cleanly
            ids = recs[gi - 1]['ids'] if gi > 0 and gi - 1 < len(recs) else [-1] * len(KC_INPUTS)
            absent = [KC_INPUTS[i][1:] for i, v in enumerate(ids) if v == -1]
            cands = sorted(k for k in fail_keys if any(k.endswith('-reads-%s-without-need' % a) for a in absent))
            if len(cands) > 1:      # prefer the _need that the getter reaches first
                pref = [k for k in cands if k.startswith('KrigingCalcul:_need%s-' % tgt[1:])]
                cands = pref or cands
            if cands: return cands[0], 'a member is read although absent (%s absent)' % ', '.join(absent), []
    if rec is not None and rec.get('fpar') and (list(rec['fpar']) != list(rec['par']) or list(rec['fids']) != list(rec['ids'])):
        # the object keeps something (a dimension, a flag, a pointer) that no sequence of calls on a fresh object reproduces
        diff = [KC_PARAMS[i] for i in range(len(KC_PARAMS)) if rec['fpar'][i] != rec['par'][i]] + \
               [KC_INPUTS[i] for i in range(len(KC_INPUTS)) if rec['fids'][i] != rec['ids'][i]]
        # the call that left it behind: the last earlier set* that may write the first differing member
        last = None; mine = diff
        for d in diff:
            for i in range(gi - 1, -1, -1):
                op = case[2][i]
                if op[0] in KC_SETOPS:
                    info = tab['setter_info'][KC_SETOPS[op[0]]]
                    if d in info['writes'] or d in info['dims']:
                        last = KC_SETOPS[op[0]]; mine = [x for x in diff if x in info['writes'] or x in info['dims']]; break
            if last: break
        if all(d in ('_neq', '_nbfl', '_nrhs') for d in mine):     # whichever of setLHS/setRHS came last: the dimension is never given back
            return 'KrigingCalcul:dimension%s-kept-after-input-removed' % ''.join('-' + d[1:] for d in mine), '%s left behind by earlier calls differ from those of a fresh object' % diff, []
        return 'KrigingCalcul:%s-keeps%s' % (last or 'history', ''.join('-' + d[1:] for d in mine)), '%s left behind by earlier calls differ from those of a fresh object' % diff, []
    return None, 'not explained by the model', []

def carrier_kc(ctx, runner, exe):
    """returns found_input (bool): a concrete failing history was found for at least one broken obligation"""
    quick = ctx.quick(); rng = ctx.rng
    tr = load_translator('C10_kcgraph')
    gen = os.path.join(VERIF, 'coq', 'C10', 'gen', 'KCGraph.v')
    tab = ctx.kc_tab
    if tab is None:
        return False
    if not tab_names_ok(tab):
        print('ERROR: the members of KrigingCalcul changed (%s); harness/C10.cpp and checks/C10.py list them by name and must be updated' %
              (set(tab['inputs'] + tab['params'] + tab['nodes']) ^ set(KC_INPUTS + KC_PARAMS + KC_NODES)))
        sys.exit(3)
    M = KCModel(tab)
    # ---- static conditions of the generated graph, evaluated by the extracted Coq function
    cf = write_cases(ctx, 'kc_cond', [[40]])
    _, mo = run_model(ctx, runner, cf)
    fails = mo[0] if mo else None
    if fails is None or (fails and fails[0] == -999):
        print('ERROR: model runner did not return the conditions'); sys.exit(3)
    fail_keys = kc_group_failures(fails, tab)
    ctx.cov['kc_failed_conditions'] = {k: len(v) for k, v in fail_keys.items()}
    ctx.log('KCGraph: %d failed condition instances under %d keys' % (len(fails), len(fail_keys)))
    # ---- histories
    cases = []; meta = []
    for c in load_corpus(ctx, 42): cases.append(c); meta.append('corpus')
    for c, what in kc_directed(rng): cases.append(c); meta.append('directed:' + what)
    nrand = 400 if quick else 5000
    for _ in range(nrand):
        c, prof = kc_random_history(rng, quick); cases.append(c); meta.append('random')
        ctx.dist('kc_profile_dual%d_nbfl%d_ncck%d_bayes%d' % prof)
    ctx.dist('kc_directed', sum(1 for m in meta if m.startswith('directed')))
    impl = kc_run_impl(ctx, exe, cases, 'kc')
    # model on the same transcripts
    mcases = []; mmeta = []
    for c, (recs, crashed, asking) in zip(cases, impl):
        rr = kc_with_prepar(c, recs)
        mc, mm = M.model_case(c, rr, kc_empty_ids(c))
        mcases.append(mc); mmeta.append(mm)
    cfm = write_cases(ctx, 'kc_model', mcases)
    _, model = run_model(ctx, runner, cfm)
    if len(model) != len(cases):
        print('ERROR: model runner returned %d results for %d cases' % (len(model), len(cases))); sys.exit(3)
    witnesses = {}     # key -> (shrunk case, text)
    nshrunk = {}
    drift = 0; ngets = 0; nstale_obs = 0
    for ci, (c, (recs, crashed, asking), mrecs, mm) in enumerate(zip(cases, impl, model, mmeta)):
        if mrecs and mrecs[0] == -999:
            print('ERROR: model rejected a case'); sys.exit(3)
        # 1. the tie: occupancy of the cache and status of every get, impl vs model of the generated graph
        bad_tie = kc_compare_tie(c, recs, crashed, mrecs, mm, tab)
        # 2. the property: every get of the history against a fresh object
        gi_bad = None
        for i, rec in enumerate(recs):
            if rec['kind'] == 'get':
                ngets += 1
                ctx.count(sx_str(c[2][:i + 1])[:2000], True)
                if kc_get_disagrees(rec): gi_bad = i; break
        if gi_bad is None and crashed is not None: gi_bad = crashed
        if gi_bad is not None:
            nstale_obs += 1
            def explain(cc, rr, gg):
                mc, smm = M.model_case(cc, kc_with_prepar(cc, rr), kc_empty_ids(cc))
                _, smodel = run_model(ctx, runner, write_cases(ctx, 'kc_expl', [mc]))
                return kc_explain(cc, rr, gg, smodel[0] if smodel else [], smm, tab, fail_keys)
            cut = [c[0], c[1], c[2][:gi_bad + 1]]
            key, why, also = explain(cut, recs[:gi_bad + 1], gi_bad)
            if key is None: key = 'model-drift:KrigingCalcul:unexplained-history-dependence'
            for k2 in also:       # the same history also shows these (kept unshrunk unless a better witness comes)
                if k2 not in witnesses: witnesses[k2] = (cut, recs[:gi_bad + 1], gi_bad, why + ' (history found for %s)' % key, meta[ci])
            if key in witnesses and (len(witnesses[key][0][2]) <= 4 or len(cut[2]) >= len(witnesses[key][0][2]) or nshrunk.get(key, 0) >= 6): continue   # a witness at least as short is already there
            nshrunk[key] = nshrunk.get(key, 0) + 1
            small, srecs, sgi = kc_shrink(ctx, exe, cut, gi_bad, lambda cc, rr, gg: (explain(cc, rr, gg)[0] or 'model-drift:KrigingCalcul:unexplained-history-dependence') == key)
            if key not in witnesses or len(sx_str(small)) < len(sx_str(witnesses[key][0])):
                witnesses[key] = (small, srecs, sgi, explain(small, srecs, sgi)[1], meta[ci])
        elif bad_tie:
            drift += 1
            ctx.violation('model-drift:KrigingCalcul:' + bad_tie[0],
                          'the graph generated from KrigingCalcul.cpp does not predict the object: %s (history independent on this case)' % bad_tie[1],
                          {'case': sx_str(c), 'model_case': sx_str(mcases[ci]), 'correspondence': 'translators/C10_kcgraph.py vs KrigingCalcul'},
                          found_input=False)
    ctx.cov['kc_gets_compared'] = ngets
    ctx.cov['kc_histories_with_disagreement'] = nstale_obs
    ctx.log('KrigingCalcul: %d histories, %d gets compared with a fresh object, %d histories disagree, %d distinct keys' %
            (len(cases), ngets, nstale_obs, len(witnesses)))
    found = False
    for key, (small, srecs, sgi, why, origin) in sorted(witnesses.items()):
        found = True
        text = kc_describe(small, srecs, sgi, why)
        ctx.violation(key, text, {'case': sx_str(small), 'history': kc_pretty(small), 'how': 'harness/C10.cpp kind 42: last get of the history vs a fresh object given the same inputs',
                                  'found_by': origin})
        ctx.sample({'key': key, 'history': kc_pretty(small), 'what': text[:300]})
    # failed conditions for which no history shows a difference: the obligation stays open without failing input
    for key, fs in sorted(fail_keys.items()):
        if key not in witnesses:
            ctx.violation(key, 'condition of C10_lazy_coherent fails on the graph of KrigingCalcul.cpp (%d instance(s): %s) and no history exhibiting it was found; '
                               'the theorem C10_kc_graph_ok does not check' % (len(fs), fs[:3]),
                          {'failed_condition_instances': fs, 'theorem': 'coq/C10/Properties.v C10_kc_graph_ok / C10_kc_coherent'},
                          found_input=False)
    ctx.kc_fail_keys = fail_keys
    return found

def kc_empty_ids(case):
    """identities (creation order, from 1) of the vectors that are empty - version 0 in the model"""
    out = set(); nid = 0
    for op in case[2]:
        if op[0] in (10, 11, 12, 14, 15):
            for flag, v in ((op[1], op[2]), (op[3], op[4])):
                if flag:
                    nid += 1
                    if v == []: out.add(nid)
        elif op[0] == 13:
            if op[1]: nid += 1
    return out

def kc_with_prepar(case, recs):
    """parameters in force when a get was asked = parameters after the previous op"""
    out = []
    prev = None
    for op, rec in zip(case[2], recs):
        r = dict(rec)
        if op[0] == 20: r['prepar'] = prev if prev is not None else [0, 0, 0, 0, 1, 0, case[1]]
        prev = rec['par']
        out.append(r)
    return out

def kc_run_impl(ctx, exe, cases, name):
    cf = write_cases(ctx, name, cases)
    rc, res = run_impl(ctx, exe, cf, timeout=3000)
    out = []
    for i in range(len(cases)):
        if i < len(res): out.append(kc_parse_impl(res[i]))
        else: out.append(([], 0, None))
    if len(res) < len(cases):
        print('ERROR: harness stopped after %d of %d cases' % (len(res), len(cases))); sys.exit(3)
    return out

def kc_compare_tie(c, recs, crashed, mrecs, mm, tab):
    j = 0
    for i, (op, m) in enumerate(zip(c[2], mm)):
        if i >= len(recs): break
        if m is None: continue
        if j >= len(mrecs): return ('transcript', 'model stopped at op %d (%s) but the object went on' % (i, m))
        mr = mrecs[j]; j += 1
        rec = recs[i]
        occ_i = sorted(n for n, b in zip(KC_NODES, rec['occ']) if b)
        occ_m = sorted(tab['nodes'][k] for k in (mr[-3]))
        if occ_i != occ_m:
            return ('cache-occupancy', 'after op %d (%s) the object caches %s, the graph says %s' % (i, m, occ_i, occ_m))
        if rec['kind'] == 'get':
            st_i = rec['hist'][0]
            st_m = 0 if (mr[1] == 0 and mr[4]) else (1 if mr[1] in (0, 1) else 2)
            if st_i != st_m:
                return ('get-status', 'op %d (%s): object answers status %d, the graph says %d' % (i, m, st_i, st_m))
            same_i = not kc_get_disagrees(rec)
            if mr[3] and not same_i and list(rec['fpar']) == list(rec['par']):
                return ('unexplained-history-dependence', 'op %d (%s): the graph says history-independent, the object differs from a fresh one' % (i, m))
    return None

def kc_shrink(ctx, exe, case, gi, same_cause):
    """cut after the disagreeing get, then drop earlier ops one at a time while the last get still disagrees (or crashes)
    AND the model still attributes the disagreement to the same cause (no slippage to another defect)"""
    cur = [case[0], case[1], case[2][:gi + 1]]
    def bad(cands):
        res = kc_run_impl(ctx, exe, cands, 'kc_shrink')
        out = []
        for c, (recs, crashed, asking) in zip(cands, res):
            n = len(c[2])
            if crashed is not None: ok = crashed == n - 1
            else: ok = len(recs) == n and recs[-1]['kind'] == 'get' and kc_get_disagrees(recs[-1])
            out.append(ok and same_cause(c, recs, n - 1))
        return out, res
    for _ in range(40):
        cands = [[cur[0], cur[1], cur[2][:k] + cur[2][k + 1:]] for k in range(len(cur[2]) - 1)]
        if not cands: break
        b, res = bad(cands)
        nxt = [c for c, ok in zip(cands, b) if ok]
        if not nxt: break
        cur = nxt[0]
    res = kc_run_impl(ctx, exe, [cur], 'kc_shrunk')
    recs, crashed, asking = res[0]
    return cur, recs, len(cur[2]) - 1

def kc_pretty(case):
    out = ['KrigingCalcul K(%s)' % ('true' if case[1] else 'false')]
    for op in case[2]:
        if op[0] == 20: out.append('K.%s()' % KC_GETTERS[op[1]])
        elif op[0] == 30: out.append('K.%s()' % KC_RESETS[op[1]])
        else:
            args = []
            kinds = {10: 'vv', 11: 'mm', 12: 'mm', 13: 'm', 14: 'vi', 15: 'vm'}[op[0]]
            for q, kd in enumerate(kinds):
                flag, v = op[1 + 2 * q], op[2 + 2 * q]
                if not flag: args.append('nullptr')
                elif kd == 'm': args.append('M%dx%d%s' % (v[0], v[1], [float(undy(x)) for x in v[2]]))
                elif kd == 'i': args.append(str(list(v)))
                else: args.append(str([float(undy(x)) for x in v]))
            out.append('K.%s(%s)' % (KC_SETOPS[op[0]], ', '.join(args)))
    return out

def kc_describe(case, recs, gi, why):
    op = case[2][gi]
    g = KC_GETTERS[op[1]] if op[0] == 20 else '?'
    if gi < len(recs) and recs[gi]['kind'] == 'get':
        r = recs[gi]
        return '%s after this history returns %s; a fresh object given the same inputs returns %s (%s)' % (g, show_val(r['hist']), show_val(r['fresh']), why)
    return '%s after this history crashes the process (%s)' % (g, why)

def load_corpus(ctx, kind=None):
    p = os.path.join(VERIF, 'corpus', ctx.pid + '.sx')
    if not os.path.exists(p): return []
    out = [sx_parse(l) for l in open(p) if l.strip() and not l.startswith('#')]
    return [c for c in out if kind is None or c[0] == kind]

# =====================================================================================================================
# (5) VectorT copy-on-write
# =====================================================================================================================
# harness member code -> (accessor name in the generated table, what it does to the values as a model mutation)
VT_CODES = {
    0: ('VectorT::push_back/1', lambda i, v, n: [0, v]),
    1: ('VectorT::operator[]/1', lambda i, v, n: [1, i, v]),
    2: ('VectorT::fill/2', lambda i, v, n: [2, v, n]),
    3: ('VectorT::resize/2', lambda i, v, n: [3, n, v]),
    4: ('VectorT::clear/0', lambda i, v, n: [4]),
    5: ("VectorNumT::add/1'", lambda i, v, n: [5, v]),
    6: ('VectorT::insert/2', lambda i, v, n: [6, i, v]),
    7: ('VectorT::remove/1', lambda i, v, n: [7, i]),
    8: ('VectorT::operator=/1', lambda i, v, n: [8, [v] * n]),
    9: ('VectorT::reserve/1', lambda i, v, n: [9]),
    10: ('VectorT::begin/0', lambda i, v, n: [1, i, v]),
    11: ('VectorT::getVector const/0', lambda i, v, n: [1, i, v]),
    12: ('VectorT::getVector const/0', lambda i, v, n: [0, v]),
    13: ('VectorT::getVectorPtr const/0', lambda i, v, n: [1, i, v]),
    14: ('VectorT::setAt/2', lambda i, v, n: [1, i, v]),
    15: ('VectorT::data/0', lambda i, v, n: [1, i, v]),
    16: ('VectorT::at/1', lambda i, v, n: [1, i, v]),
    17: ('VectorT::front/0', lambda i, v, n: [1, 0, v]),
    19: ('VectorT::operator<</1', lambda i, v, n: [0, v]),
    20: ("VectorT::push_front/1", lambda i, v, n: [6, 0, v]),
    21: ('VectorT::resize/1', lambda i, v, n: [3, n, 0]),
    22: ('VectorT::assign/2', lambda i, v, n: [8, [v] * n]),
}

def vt_program(rng, nh, nops, codes, detaches):
    """random program; indices are drawn inside the current size of the buffer, known from a simulation of copy-on-write
    (detaches: accessor name -> does it detach, from the generated table)"""
    heap = {h: [] for h in range(nh)}; hd = list(range(nh)); nxt = [nh]
    def det(h):
        if sum(1 for x in hd if x == hd[h]) > 1:
            heap[nxt[0]] = list(heap[hd[h]]); hd[h] = nxt[0]; nxt[0] += 1
    ops = []
    NEED_IDX = {1, 7, 10, 11, 13, 14, 15, 16, 17}
    for _ in range(nops):
        u = rng.random()
        if u < .28: o = [0, rng.randrange(nh), rng.randrange(nh)]
        elif u < .33: o = [1, rng.randrange(nh), rng.randrange(nh)]
        elif u < .40: o = [3, rng.randrange(nh), rng.randrange(nh)]
        else:
            h = rng.randrange(nh); code = rng.choice(codes); sz = len(heap[hd[h]])
            if code in NEED_IDX and sz == 0: code = 0
            i = rng.randrange(sz) if code in NEED_IDX else rng.randint(0, sz)
            o = [2, code, h, i, rng.randint(-9, 9), rng.randint(0, 4)]
        ops.append(o)
        if o[0] == 0: det(o[1]); hd[o[1]] = hd[o[2]]
        elif o[0] == 3:
            if o[1] != o[2]: hd[o[1]] = hd[o[2]]
        elif o[0] == 1: hd[o[1]], hd[o[2]] = hd[o[2]], hd[o[1]]
        else:
            name, f = VT_CODES[o[1]]
            m = f(o[3], o[4], o[5])
            if detaches[name] and not (m[0] == 3 and m[1] == len(heap[hd[o[2]]])): det(o[2])     # resize to the present size returns at once
            l = heap[hd[o[2]]]
            if m[0] == 0: l.append(m[1])
            elif m[0] == 1:
                if m[1] < len(l): l[m[1]] = m[2]
            elif m[0] == 2:
                if m[2] > 0: l[:] = (l + [0] * m[2])[:m[2]]
                l[:] = [m[1]] * len(l)
            elif m[0] == 3: l[:] = (l + [m[2]] * m[1])[:m[1]]
            elif m[0] == 4: l[:] = []
            elif m[0] == 5: l[:] = [x + m[1] for x in l]
            elif m[0] == 6: l.insert(min(m[1], len(l)), m[2])
            elif m[0] == 7:
                if m[1] < len(l): del l[m[1]]
            elif m[0] == 8: l[:] = list(m[1])
    return ops

def vt_model_ops(ops, acc_ix):
    out = []
    for o in ops:
        if o[0] == 0 or (o[0] == 3 and o[1] != o[2]): out.append([0, o[1], o[2]])
        elif o[0] == 3: out.append([1, o[1], o[1]])      # h = VectorDouble(h): the temporary takes the share back, nothing changes
        elif o[0] == 1: out.append([1, o[1], o[2]])
        else:
            name, f = VT_CODES[o[1]]
            out.append([2, acc_ix[name], o[2], f(o[3], o[4], o[5])])
    return out

def vt_pretty(nh, ops):
    out = ['VectorDouble h0..h%d;' % (nh - 1)]
    for o in ops:
        if o[0] == 0: out.append('h%d = h%d;' % (o[1], o[2]))
        elif o[0] == 1: out.append('h%d.swap(h%d);' % (o[1], o[2]))
        elif o[0] == 3: out.append('h%d = VectorDouble(h%d);' % (o[1], o[2]))
        else: out.append('h%d: %s (i=%d, value=%d, n=%d);' % (o[2], VT_CODES[o[1]][0], o[3], o[4], o[5]))
    return out

def carrier_vectort(ctx, runner, exe):
    rng = ctx.rng; quick = ctx.quick()
    tab = ctx.vt_tab
    if tab is None: return False
    _, mo = run_model(ctx, runner, write_cases(ctx, 'vt_cond', [[50]]))
    S = lambda l: ''.join(chr(x) for x in l)
    failed = [S(x) for x in mo[0][0]]; names = [S(x) for x in mo[0][1]]
    acc_ix = {n: i for i, n in enumerate(names)}
    for code in (11, 12, 13):       # the harness calls these on a non-const handle: a non-const overload, if any, is the one that runs
        nm = VT_CODES[code][0].replace(' const', '')
        if nm in acc_ix: VT_CODES[code] = (nm, VT_CODES[code][1])
    missing = [n for n, _ in VT_CODES.values() if n not in acc_ix]
    if missing:
        print('ERROR: members of VectorT used by the harness are not in the generated table any more: %s' % missing); sys.exit(3)
    ctx.cov['vt_failed_accessors'] = failed
    ctx.cov['vt_accessors'] = len(names)
    if failed: ctx.level = 'partial'      # C10_vectort_ops_ok (Properties.v) cannot hold
    codes = sorted(VT_CODES)
    detaches = {}
    for o in tab['ops']:
        detaches[o['name']] = bool(o['detach']) or (o['touch'] == 'none' and not o['leak'])
    cases = []
    for c in load_corpus(ctx, 51): cases.append(c)
    # directed: for every member, copy then apply it to the copy / to the source
    for code in codes:
        for tgt in (0, 1):
            cases.append([51, 3, [[2, 8, 0, 0, 3, 3], [0, 1, 0], [0, 2, 1], [2, code, tgt, 1, 8, 2]]])
    nprog = 500 if quick else 8000
    for _ in range(nprog):
        nh = rng.choice([2, 3, 4])
        cases.append([51, nh, vt_program(rng, nh, rng.randint(3, 14 if quick else 30), codes, detaches)])
        ctx.dist('vt_nh%d' % nh)
    rc, impl = run_impl(ctx, exe, write_cases(ctx, 'vt', cases))
    _, model = run_model(ctx, runner, write_cases(ctx, 'vt_model', [[51, c[1], vt_model_ops(c[2], acc_ix)] for c in cases]))
    if len(impl) != len(cases) or len(model) != len(cases):
        print('ERROR: VectorT runs returned %d / %d results for %d cases' % (len(impl), len(model), len(cases))); sys.exit(3)
    found = False; witnesses = {}
    for c, im, mo in zip(cases, impl, model):
        cow, val = mo
        for k in range(len(c[2])):
            ctx.count(sx_str([c[1], c[2][:k + 1]])[:1500], True)
            got = im[k] if k < len(im) else None
            if got is None or got == [-996]:
                witnesses.setdefault('VectorT:crash', (c[1], c[2][:k + 1], 'the program crashes')); break
            if got != cow[k]:
                ctx.violation('model-drift:VectorT:%s' % (VT_CODES[c[2][k][1]][0] if c[2][k][0] == 2 else 'copy/swap'),
                              'the copy-on-write model built from the generated table does not predict VectorDouble: after op %d got %s, model %s' % (k, got, cow[k]),
                              {'program': vt_pretty(c[1], c[2][:k + 1]), 'case': sx_str(c)}, found_input=False)
                break
            if got != val[k]:
                o = c[2][k]
                acc = VT_CODES[o[1]][0] if o[0] == 2 else 'copy'
                key = 'VectorT:%s-writes-shared-buffer' % acc.replace('VectorT::', '').replace('VectorNumT::', '').replace(' ', '-').replace('/', '-')
                small = vt_shrink(ctx, exe, c[1], c[2][:k + 1])
                if key not in witnesses or len(small) < len(witnesses[key][1]):
                    witnesses[key] = (c[1], small, 'after the last statement the handles hold %s; with independent values they would hold %s' % (got, val[k]))
                break
    for key, (nh, ops, text) in sorted(witnesses.items()):
        found = True
        ctx.violation(key, 'copies of a VectorDouble are not independent: ' + text, {'program': vt_pretty(nh, ops), 'case': sx_str([51, nh, ops])})
        ctx.sample({'key': key, 'program': vt_pretty(nh, ops)})
    for a in failed:
        key = 'VectorT:%s-writes-shared-buffer' % a.replace('VectorT::', '').replace('VectorNumT::', '').replace(' ', '-').replace('/', '-')
        if key not in witnesses:
            ctx.violation(key, 'member %s changes or exposes the shared buffer without detaching and no program exhibiting it was found' % a,
                          {'accessor': a, 'theorem': 'C10_cow_refines_values / C10_vectort_ops_ok'}, found_input=False)
    # call sites of getVector()/getVectorPtr() in the library whose receiver may be shared
    sites = tab['sites']
    ctx.cov['vt_getVector_call_sites'] = [list(x) for x in sites]
    tests = {('src/Geometry/Rotation.cpp', 'rotateDirect'): [52, 30, [dy(1), dy(2)], [dy(5), dy(6)], 0],
             ('src/Geometry/Rotation.cpp', 'rotateInverse'): [52, 30, [dy(1), dy(2)], [dy(5), dy(6)], 1],
             ('src/Basic/Rotation.cpp', 'rotateDirect'): [52, 30, [dy(1), dy(2)], [dy(5), dy(6)], 0],
             ('src/Basic/Rotation.cpp', 'rotateInverse'): [52, 30, [dy(1), dy(2)], [dy(5), dy(6)], 1],
             ('src/LinearOp/IProjMatrix.cpp', 'mesh2point'): [53, 0], ('src/LinearOp/IProjMatrix.cpp', 'point2mesh'): [53, 1]}
    open_sites = [x for x in sites if x[4] in ('mutable-param', 'member', 'unknown')]
    if any(o['name'] in ('VectorT::getVector/0',) and o['detach'] for o in tab['ops']) and \
       any(o['name'] in ('VectorT::getVectorPtr/0',) and o['detach'] for o in tab['ops']) and \
       not any(o['name'] in ('VectorT::getVector const/0', 'VectorT::getVectorPtr const/0') and o['leak'] for o in tab['ops']):
        open_sites = []      # non-const receivers get the detaching overloads, const ones a const view: nothing to discharge per site
    src_cache = {}
    for f, line, recv, acc, kind in open_sites:
        txt = src_cache.setdefault(f, open(os.path.join(REPO, f), errors='replace').read().split('\n'))
        fn = None
        for l in range(line - 1, -1, -1):
            m = re.match(r'^[\w:<>\*& ]+?\b(\w+)::(\w+)\s*\(', txt[l])
            if m: fn = m.group(2); cls = m.group(1); break
        key = 'VectorT:getVector-site:%s::%s' % (cls if fn else f, fn or line)
        t = tests.get((f, fn))
        ctx.cov['obligations'] += 1; ctx.cov.setdefault('theorems', []).append('receiver-unshared@%s:%d' % (f, line))
        if t is None:
            ctx.violation(key, '%s:%d writes through %s.%s() whose receiver may share its buffer with a copy; no test reaches this call site' % (f, line, recv, acc),
                          {'site': [f, line, recv, acc, kind]}, found_input=False)
            continue
        rc, r = run_impl(ctx, exe, write_cases(ctx, 'vt_site', [t]))
        if r and len(r[0]) == 2:
            a, b = r[0]
            orig = [7, 7] if t[0] == 53 and t[1] == 0 else ([7] * 9 if t[0] == 53 else [5, 6])
            a_now = [float(undy(x)) for x in a]
            ctx.count(sx_str(t), True)
            if a_now != [float(x) for x in orig]:
                found = True
                ctx.violation(key, '%s::%s(in, b) with b a copy of a: a changes from %s to %s (it follows b, written through %s.%s() without detaching)' % (cls, fn, orig, a_now, recv, acc),
                              {'case': sx_str(t), 'site': [f, line, recv, acc, kind],
                               'history': ['VectorDouble a = %s;' % orig, 'VectorDouble b = a;', '%s::%s(in, b);' % (cls, fn), 'a == b now']})
            else: ctx.cov['discharged'] += 1
    return found

def vt_shrink(ctx, exe, nh, ops):
    def bad(cands):
        rc, im = run_impl(ctx, exe, write_cases(ctx, 'vt_shrink', [[51, nh, o] for o in cands]))
        out = []
        for o, r in zip(cands, im):
            # value semantics in python
            vals = [[] for _ in range(nh)]
            ok = True
            out.append(r[-1] if r and r[-1] != [-996] else None)
        return out
    # python value semantics to decide without the model
    def pyval(ops):
        V = [[] for _ in range(nh)]
        for o in ops:
            if o[0] in (0, 3): V[o[1]] = list(V[o[2]])
            elif o[0] == 1: V[o[1]], V[o[2]] = V[o[2]], V[o[1]]
            else:
                m = VT_CODES[o[1]][1](o[3], o[4], o[5]); l = V[o[2]]
                if m[0] == 0: l.append(m[1])
                elif m[0] == 1:
                    if m[1] < len(l): l[m[1]] = m[2]
                elif m[0] == 2:
                    if m[2] > 0: l[:] = (l + [0] * m[2])[:m[2]]
                    l[:] = [m[1]] * len(l)
                elif m[0] == 3: l[:] = (l + [m[2]] * m[1])[:m[1]]
                elif m[0] == 4: l[:] = []
                elif m[0] == 5: l[:] = [x + m[1] for x in l]
                elif m[0] == 6: l.insert(min(m[1], len(l)), m[2])
                elif m[0] == 7:
                    if m[1] < len(l): del l[m[1]]
                elif m[0] == 8: l[:] = list(m[1])
        return V
    cur = list(ops)
    for _ in range(30):
        cands = [cur[:k] + cur[k + 1:] for k in range(len(cur) - 1)]
        if not cands: break
        last = bad(cands)
        nxt = [c for c, r in zip(cands, last) if r is not None and r != pyval(c)]
        if not nxt: break
        cur = nxt[0]
    return cur

# =====================================================================================================================
# (1) random generator
# =====================================================================================================================
def rng_ops(rng, n):
    ops = []
    for _ in range(n):
        u = rng.random()
        if u < .15: ops.append([0, rng.choice([0, -5, 1, 7, 12345, 20000158, 20000159, 20000160, 43241421, 2000000000, 2147483647, rng.randint(1, 2 ** 31 - 1)])])
        elif u < .6: ops.append([1])
        elif u < .75: ops.append([2])
        elif u < .9: ops.append([3, rng.randint(-3, 3), rng.randint(4, 50)])
        else: ops.append([4])
    return ops

def carrier_rng(ctx, runner, exe):
    rng = ctx.rng; quick = ctx.quick()
    cases = []
    for _ in range(150 if quick else 3000):
        prefix = rng_ops(rng, rng.randint(0, 12))
        seed = rng.choice([1, 2, 17, 1234567, 20000158, 20000159, 2 ** 31 - 1, rng.randint(1, 2 ** 31 - 1)])
        after = rng_ops(rng, rng.randint(1, 10))
        cases.append([60, prefix + [[0, seed]] + after]); ctx.dist('rng_prefix_len_%d' % (len(prefix) // 4 * 4))
    rc, impl = run_impl(ctx, exe, write_cases(ctx, 'rng', cases))
    DRAWS = {0: 0, 1: 1, 2: 2, 3: 1, 4: 1}
    mcases = []
    for c in cases:
        mops = []
        for o in c[1]:
            if o[0] == 0: mops.append([0, o[1]])
            else: mops += [[1]] * DRAWS[o[0]]
        mcases.append([60, 43241421, mops])
    _, model = run_model(ctx, runner, write_cases(ctx, 'rng_model', mcases))
    found = False
    for c, im, mo in zip(cases, impl, model):
        j = -1
        for k, o in enumerate(c[1]):
            j += max(1, DRAWS[o[0]]) if o[0] != 0 else 1
            ctx.count(sx_str(c[1][:k + 1])[:800], True)
            got = im[k] if k < len(im) else None
            want = mo[j]
            ok = got is not None and got != [-996] and got[0] == want
            if ok and o[0] == 1: ok = undy(got[1]) == Fraction(float(Fraction(want, 20000159)))   # (double) Random_value / (double) Random_congruent
            if not ok:
                found = True
                ctx.violation('Law:random-stream', 'after %s the generator state is %s, the model of law_uniform says %s' % (c[1][:k + 1], got, want),
                              {'case': sx_str(c), 'op': k}); break
    # both styles, repeated seeds, seeded procedures of the library: what follows a positive seed (or a seeded procedure)
    # in a history, against the same calls in a fresh process put in the same style
    SEEDS = [7, 7, 7, 12345, 43241421, 43241421, 2000000000]
    def op2():
        u = rng.random()
        if u < .22: return [0, rng.choice(SEEDS + [0, -3])]
        if u < .45: return [rng.choice([1, 2, 4])]
        if u < .50: return [3, 0, rng.randint(5, 40)]
        if u < .62: return [5, rng.randint(0, 1)]
        if u < .72: return [6, rng.randint(5, 12), rng.choice(SEEDS)]
        if u < .80: return [7, rng.randint(3, 8), rng.choice(SEEDS)]
        if u < .90: return [8, rng.randint(2, 5), rng.choice(SEEDS)]
        return [9, rng.randint(2, 5), rng.choice(SEEDS)]
    hist = load_corpus(ctx, 62)
    # directed: the same seed twice around draws, in each style; the initial value of Random_value as a seed; seeded procedures twice
    for style in (0, 1):
        for sd in (7, 43241421):
            hist.append([62, [[5, style], [0, sd], [2], [2], [0, sd], [2], [2]]])
            hist.append([62, [[5, style], [0, sd], [0, sd], [1], [0, sd], [1]]])
            for pr in (6, 7, 8, 9):
                hist.append([62, [[5, style], [pr, 6, sd], [pr, 6, sd]]])
                hist.append([62, [[5, style], [0, sd], [pr, 6, sd], [1], [pr, 6, sd]]])
    for _ in range(150 if quick else 3000):
        hist.append([62, [op2() for _ in range(rng.randint(3, 12))]])
    pairs = []
    for c in hist:
        ops = c[1]
        cuts = [k for k, o in enumerate(ops) if (o[0] == 0 and o[1] > 0) or o[0] in (6, 7, 8, 9)]
        if not cuts: continue
        k = cuts[-1] if rng.random() < .5 else rng.choice(cuts)
        style = 1
        for o in ops[:k]:
            if o[0] == 5: style = o[1]
        pairs.append((c, [62, [[5, style]] + ops[k:]], k))
    rc, ra = run_impl(ctx, exe, write_cases(ctx, 'rng3a', [a for a, b, k in pairs]))
    rc, rb = run_impl(ctx, exe, write_cases(ctx, 'rng3b', [b for a, b, k in pairs]))
    OPN = {0: 'law_set_random_seed', 1: 'law_uniform', 2: 'law_gaussian', 3: 'law_int_uniform', 4: 'law_exponential', 5: 'law_set_old_style',
           6: 'VH::sampleRanks', 7: 'law_set_random_seed+law_random_path', 8: 'Db::createFillRandom', 9: 'Db::addColumnsRandom'}
    pretty = lambda ops: ['%s(%s)' % (OPN[o[0]], ', '.join(str(x) for x in o[1:])) for o in ops]
    best = {}
    for (a, b, k), x, y in zip(pairs, ra, rb):
        ctx.count(sx_str(a)[:1200], True); ctx.dist('rng_two_styles')
        if x[k:] != y[1:]:
            first = next(i for i in range(len(y) - 1) if k + i >= len(x) or x[k + i] != y[1 + i])
            o = a[1][k + first]
            style = b[1][0][1]
            for q in a[1][k:k + first + 1]:
                if q[0] == 5: style = q[1]
            key = 'Law:%s-depends-on-history:%s-style' % (OPN[a[1][k][0]].split('+')[0], 'old' if style else 'new')
            # shrink: drop calls of the prefix while the difference stays
            cur = list(a[1]); kk = k
            for _ in range(20):
                done = True
                for j in range(kk):
                    cand = cur[:j] + cur[j + 1:]
                    st2 = 1
                    for q in cand[:kk - 1]:
                        if q[0] == 5: st2 = q[1]
                    if st2 != (lambda l: [z[1] for z in l if z[0] == 5][-1] if any(z[0] == 5 for z in l) else 1)(cur[:kk]): continue
                    rc2, r1 = run_impl(ctx, exe, write_cases(ctx, 'rng3s', [[62, cand], [62, [[5, st2]] + cand[kk - 1:]]]))
                    if len(r1) == 2 and r1[0][kk - 1:] != r1[1][1:]:
                        cur = cand; kk -= 1; done = False; break
                if done: break
            if key not in best or len(cur) < len(best[key][0]):
                best[key] = (cur, kk, 'after the calls %s, %s gives other values than in a fresh process in the same style' % (pretty(cur[:kk]), pretty(cur[kk:])))
    for key, (ops, kk, text) in sorted(best.items()):
        found = True
        ctx.violation(key, text, {'case': sx_str([62, ops]), 'history': pretty(ops), 'observed_from': kk})
    # new-style generator (std::mt19937): the stream after a positive seed, with and without a prefix (impl against impl)
    cases2 = []
    for _ in range(60 if quick else 600):
        prefix = [o for o in rng_ops(rng, rng.randint(1, 10))]
        seed = rng.randint(1, 2 ** 31 - 1); after = [o for o in rng_ops(rng, rng.randint(1, 8)) if o[0] != 0]
        cases2.append(([61, prefix + [[0, seed]] + after], [61, [[0, seed]] + after], len(prefix)))
    rc, r1 = run_impl(ctx, exe, write_cases(ctx, 'rng2a', [a for a, b, n in cases2]))
    rc, r2 = run_impl(ctx, exe, write_cases(ctx, 'rng2b', [b for a, b, n in cases2]))
    for (a, b, n), x, y in zip(cases2, r1, r2):
        ctx.count(sx_str(a)[:800], True)
        if [v[1] for v in x[n + 1:]] != [v[1] for v in y[1:]]:
            found = True
            ctx.violation('Law:new-style-stream-depends-on-history', 'with law_set_old_style(false): values after law_set_random_seed(%d) differ with and without the prefix %s' % (a[1][n][1], a[1][:n]),
                          {'with_prefix': sx_str(a), 'fresh': sx_str(b)})
            break
    return found

# =====================================================================================================================
# (2) covariance optimisation cache
# =====================================================================================================================
def cov_case(rng):
    ncov = rng.choice([1, 1, 2])
    model = [[rng.choice([0, 1, 2]), dy(rng.choice([2, 3, 5])), dy(rng.choice([1, 2, 4])), dy(rng.choice([1, 2, 3])), dy(rng.choice([0, 15, 30, 45]))] for _ in range(ncov)]
    dbs = []
    for k in range(3):
        n = rng.randint(2, 6)
        xs = [dy(rng.randint(0, 12) / 2) for _ in range(n)]; ys = [dy(rng.randint(0, 12) / 2) for _ in range(n)]
        zs = [dy(rng.randint(-3, 3)) if rng.random() < .85 else [] for _ in range(n)]
        if any(z != [] for z in zs) is False: zs[0] = dy(1)
        dbs.append([xs, ys, zs])
    n = rng.randint(1, 4)     # a data base without any defined value: every *Optim evaluation on it fails
    dbs.append([[dy(rng.randint(0, 9)) for _ in range(n)], [dy(rng.randint(0, 9)) for _ in range(n)], [[] for _ in range(n)]])
    ops = []
    for _ in range(rng.randint(2, 7)):
        u = rng.random()
        if u < .45: ops.append([0, rng.randrange(4), rng.choice([-1, 0, 1, 2, 3])])
        elif u < .85: ops.append([1, rng.randrange(4)])
        else: ops.append([2, rng.randrange(3), rng.choice([-1, 0, 1, 2])])
    return [70, model, dbs, ops]

COV_FN = {0: 'evalCovMatrixOptim', 1: 'evalCovMatrixSymmetricOptim', 2: 'evalCovMatrix'}
def cov_pretty(c):
    out = ['Model m = %s' % [[x[0]] + [float(undy(y)) for y in x[1:]] for x in c[1]]]
    for i, d in enumerate(c[2]): out.append('Db d%d: %d samples, %d with a defined value' % (i, len(d[0]), sum(1 for z in d[2] if z != [])))
    for o in c[3]: out.append('m.%s(%s)' % (COV_FN[o[0]], ', '.join('d%d' % x if x >= 0 else 'nullptr' for x in o[1:])))
    return out

def carrier_optim(ctx, runner, exe):
    rng = ctx.rng; quick = ctx.quick()
    tab = ctx.op_tab
    if tab is None: return False
    _, mo = run_model(ctx, runner, write_cases(ctx, 'op_cond', [[70]]))
    S = lambda l: ''.join(chr(x) for x in l)
    EV = {0: 'Pre', 1: 'Post', 2: 'Ret', 3: 'RetFail', 4: 'Tgt', 5: 'TgtIdx'}
    failed = [(S(n), [EV[e] for e in w]) for n, w in mo[0]]
    ctx.cov['optim_functions'] = [t['name'] for t in tab['rows']]
    ctx.cov['optim_entry_points'] = [list(e) for e in tab['entries']]
    for n, g, t in tab['entries']:
        if t and not g:
            ctx.violation('%s:sets-target-by-index-before-isReady' % n, 'public %s reaches optimizationSetTargetByIndex without the `if (!_isReady)` guard' % n,
                          {'entry': n, 'theorem': 'C10_optim_balanced (entries_ok)'}, found_input=False)
    ctx.cov['optim_unbalanced_paths'] = failed
    if failed: ctx.level = 'partial'      # C10_optim_balanced (Properties.v) cannot hold
    cases = load_corpus(ctx, 70)
    # directed: a failing evaluation, then a successful one
    for f1 in (0, 1):
        for f2 in (0, 1, 2):
            c = cov_case(rng)
            c[3] = [[f1, 3, -1][:2 + (f1 == 0)], [f2, 0, -1][:2 + (f2 != 1)]]
            cases.append(c)
    for _ in range(150 if quick else 2500): cases.append(cov_case(rng))
    rc, impl = run_impl(ctx, exe, write_cases(ctx, 'cov', cases), timeout=3000)
    found = False; witnesses = {}
    for c, im in zip(cases, impl):
        for k, o in enumerate(c[3]):
            if k >= len(im) or im[k] == [-996]:
                witnesses.setdefault('ACovAnisoList:%s:crash' % COV_FN[o[0]], ([c[0], c[1], c[2], c[3][:k + 1]], 'crash')); break
            h, f = im[k]
            ctx.count(sx_str([c[1], c[2], c[3][:k + 1]])[:2500], True)
            if not vals_close(h, f, 1e-9):
                # the call that left the cache behind: the last failing *Optim call before k
                # the call that left the cache behind: the last earlier call of a function that has an unbalanced exit path
                # (a failing one first: on this tree the unbalanced paths are the error returns)
                unb = set(n.split('::')[-1] for n, w in failed)
                culprit = None
                for j in range(k - 1, -1, -1):
                    if c[3][j][0] in (0, 1) and im[j][0][0] == 1 and COV_FN[c[3][j][0]] in unb: culprit = c[3][j]; break
                if culprit is None:
                    for j in range(k - 1, -1, -1):
                        if c[3][j][0] in (0, 1) and COV_FN[c[3][j][0]] in unb: culprit = c[3][j]; break
                key = 'ACovAnisoList::%s:leaves-optimization-cache' % (COV_FN[culprit[0]] if culprit else COV_FN[o[0]])
                small = [c[0], c[1], c[2], ([culprit] if culprit else []) + [o]]
                rc2, r2 = run_impl(ctx, exe, write_cases(ctx, 'cov_shrink', [small]))
                if r2 and len(r2[0]) == len(small[3]) and not vals_close(r2[0][-1][0], r2[0][-1][1], 1e-9):
                    use = small; hh, ff = r2[0][-1]
                else: use = [c[0], c[1], c[2], c[3][:k + 1]]; hh, ff = h, f
                if key not in witnesses:
                    witnesses[key] = (use, '%s after this history returns %s; on a fresh model %s' % (COV_FN[o[0]], str(show_val(hh))[:160], str(show_val(ff))[:160]))
                break
    for key, (c, text) in sorted(witnesses.items()):
        found = True
        ctx.violation(key, text, {'case': sx_str(c), 'history': cov_pretty(c)})
        ctx.sample({'key': key, 'history': cov_pretty(c)})
    for name, w in failed:
        key = '%s:leaves-optimization-cache' % name
        if key not in witnesses:
            ctx.violation(key, '%s has the exit path %s that breaks the protocol of the optimisation cache (left prepared, or target set by index while idle); no history exhibiting it was found' % (name, w),
                          {'function': name, 'path': w, 'theorem': 'C10_optim_history_independent / C10_optim_balanced'}, found_input=False)
    return found

# =====================================================================================================================
# (3)(6) neighbourhood memo, static work areas: a kriging call after a prefix of other calls, against a fresh process
# =====================================================================================================================
def krig_case(rng):
    model = [[rng.choice([0, 1]), dy(rng.choice([3, 5, 8])), dy(rng.choice([2, 4, 8])), dy(rng.choice([1, 2])), dy(rng.choice([0, 30]))]]
    dbs = []
    for k in range(2):      # data
        n = rng.randint(4, 9)
        pts = rng.sample([(x, y) for x in range(0, 9) for y in range(0, 9)], n)
        dbs.append([[dy(p[0]) for p in pts], [dy(p[1]) for p in pts], [dy(rng.randint(-4, 4)) for _ in pts]])
    for k in range(2):      # targets
        n = rng.randint(1, 5)
        dbs.append([[dy(rng.randint(0, 16) / 2) for _ in range(n)], [dy(rng.randint(0, 16) / 2) for _ in range(n)], [[] for _ in range(n)]])
    dbs.append([[dy(1), dy(2)], [dy(1), dy(3)], [[], []]])       # data without value: kriging on it fails
    neighs = [[0], [1, rng.randint(2, 5), dy(rng.choice([4, 6, 20]))], [1, 3, dy(30)]]
    def call():
        u = rng.random()
        if u < .45: return [0, rng.randrange(2), 2 + rng.randrange(2), rng.randrange(3)]
        if u < .55: return [0, 4, 2 + rng.randrange(2), rng.randrange(3)]            # fails: no data
        if u < .65: return [3, rng.randrange(2), 2 + rng.randrange(2), rng.randrange(3)]  # fails: model of another dimension
        if u < .8: return [1, rng.choice([0, 1, 4]), rng.choice([0, 1, 2])]
        if u < .9: return [2, rng.randint(-3, 99999), rng.randint(0, 7)]
        return [4, rng.randrange(2), 0, rng.randrange(3)]
    prefix = [call() for _ in range(rng.randint(1, 6))]
    obs = [rng.choice([0, 0, 0, 4]), rng.randrange(2), 2 + rng.randrange(2), rng.randrange(3)]
    return [80, model, dbs, neighs, prefix, obs]

KRIG_FN = {0: 'kriging', 1: 'evalCovMatrixOptim', 2: 'law_set_random_seed+draws', 3: 'kriging(model of another dimension)', 4: 'xvalid'}
def krig_pretty(c):
    out = []
    for cl in c[4] + [c[5]]: out.append('%s%s' % (KRIG_FN[cl[0]], tuple(cl[1:])))
    out[-1] += '   <- observed'
    return out

def carrier_krig(ctx, runner, exe):
    rng = ctx.rng; quick = ctx.quick()
    cases = load_corpus(ctx, 80) + [krig_case(rng) for _ in range(60 if quick else 1200)]
    rc, impl = run_impl(ctx, exe, write_cases(ctx, 'krig', cases), timeout=3000)
    found = False
    def same(a, b):
        if a == [-996] or b == [-996]: return a == b
        if a[0] != b[0] or len(a) != len(b): return False
        for u, v in zip(a[1:], b[1:]):
            if len(u) != len(v): return False
            for p, q in zip(u, v):
                x, y = undy(p), undy(q)
                if (x is None) != (y is None): return False
                if x is not None and abs(x - y) > 1e-9 * (1 + abs(y)): return False
        return True
    def differs(c):
        rc, r = run_impl(ctx, exe, write_cases(ctx, 'krig_shrink', [c]), timeout=600)
        return bool(r) and len(r[0]) == 2 and not same(r[0][0], r[0][1])
    for c, r in zip(cases, impl):
        if len(r) != 2: continue
        ctx.count(sx_str(c)[:3000], True); ctx.dist('krig_prefix_%d' % len(c[4]))
        if not same(r[0], r[1]):
            cur = c
            for _ in range(10):
                nxt = None
                for k in range(len(cur[4])):
                    cand = cur[:4] + [cur[4][:k] + cur[4][k + 1:], cur[5]]
                    if differs(cand): nxt = cand; break
                if nxt is None: break
                cur = nxt
            key = 'history:%s-after-%s' % (KRIG_FN[cur[5][0]].split('(')[0], '+'.join(sorted(set(KRIG_FN[x[0]].split('(')[0] for x in cur[4]))))
            found = True
            ctx.violation(key, 'the observed call gives another result after this prefix than in a fresh process', {'case': sx_str(cur), 'history': krig_pretty(cur)})
    return found

def carrier_memo(ctx, runner, exe):
    """ANeigh::select on a real NeighMoving against the memo model: ranks handed out and isUnchanged(), call by call"""
    rng = ctx.rng; quick = ctx.quick()
    cases = load_corpus(ctx, 81)
    for _ in range(80 if quick else 1500):
        n = rng.randint(3, 9)
        pts = rng.sample([(x, y) for x in range(0, 7) for y in range(0, 7)], n)
        dbin = [[dy(p[0]) for p in pts], [dy(p[1]) for p in pts], [dy(rng.randint(-3, 3)) for _ in pts]]
        m = rng.randint(2, 5)
        tp = [(rng.randint(0, 12) / 2, rng.randint(0, 12) / 2) for _ in range(m)]
        if rng.random() < .5: tp[-1] = tp[0]          # two targets at the same place: same neighbourhood, _lhsinv reused
        if rng.random() < .3: tp[1] = (40, 40)        # a target without any neighbour
        dbout = [[dy(p[0]) for p in tp], [dy(p[1]) for p in tp], [[] for _ in tp]]
        ts = []
        for _ in range(rng.randint(2, 10)):
            ts.append(ts[-1] if ts and rng.random() < .3 else rng.randrange(m))
        cases.append([81, dbin, dbout, [rng.randint(2, 4), dy(rng.choice([2, 3, 5, 50]))], ts])
    rc, impl = run_impl(ctx, exe, write_cases(ctx, 'memo', cases))
    mcases = []
    for c, r in zip(cases, impl):
        tbl = r[1] if len(r) == 2 else []
        mcases.append([81, tbl, c[4]])
    _, model = run_model(ctx, runner, write_cases(ctx, 'memo_model', mcases))
    found = False
    for c, r, mo in zip(cases, impl, model):
        if len(r) != 2:
            ctx.violation('ANeigh::select:crash', 'the neighbourhood search crashes', {'case': sx_str(c)}); found = True; continue
        for k, (got, want) in enumerate(zip(r[0], mo)):
            ctx.count(sx_str([c[1], c[2], c[3], c[4][:k + 1]])[:2000], True)
            fresh = dict((t, rk) for t, rk in r[1]).get(c[4][k])
            if got[0] != fresh:
                found = True
                ctx.violation('ANeigh::select:memo-returns-another-neighbourhood', 'select(%d) after the targets %s hands out %s, a fresh object %s' % (c[4][k], c[4][:k], got[0], fresh),
                              {'case': sx_str(c), 'call': k}); break
            if got != want:
                ctx.violation('model-drift:ANeigh::select', 'call %d: the object answers (ranks, isUnchanged) = %s, the memo model %s' % (k, got, want),
                              {'case': sx_str(c), 'call': k, 'correspondence': 'coq/C10/ModelMemo.v select vs ANeigh::select'}, found_input=False); break
    return found

NG_CLS = {'NeighMoving': 0, 'NeighUnique': 1, 'NeighBench': 2}
NG_OPS = {'attach': 0, 'setFlagXvalid': 2, 'setBallSearch': 5, 'setIsChanged': 6, 'reset': 7, 'setRankColCok': 8, 'setNMaxi': 9, 'setNMini': 10}
def ng_pretty(c):
    cls = [k for k, v in NG_CLS.items() if v == c[1]][0]
    out = ['%s ng (%s); data at %s%s' % (cls, c[2], [(float(undy(x)), float(undy(y))) for x, y in zip(c[3][0], c[3][1])], ' = targets' if c[5] else '')]
    inv = {v: k for k, v in NG_OPS.items()}
    for o in c[6]:
        out.append('ng.select(%d)' % o[1] if o[0] == 1 else 'ng.%s(%s)' % (inv[o[0]], ', '.join(str(x) for x in o[1:]) if o[0] != 0 else 'dbin, dbout'))
    return out

def carrier_neigh(ctx, runner, exe):
    """member caches of the neighbourhood classes: conditions of the generated tables, and histories on real objects"""
    rng = ctx.rng; quick = ctx.quick()
    tab = ctx.ng_tab
    if tab is None: return False
    _, mo = run_model(ctx, runner, write_cases(ctx, 'ng_cond', [[84]]))
    S = lambda l: ''.join(chr(x) for x in l)
    rows, bad_scratch, statics, entries_ok = mo[0]
    byname = {t['cls']: t for t in tab}
    # owner of a setter: ANeigh when it is defined there
    base = load_translator('C10_neighgraph').class_info(REPO, 'ANeigh')[1]
    fail_keys = {}
    for name, fails, pol_ok in rows:
        t = byname[S(name)]
        for f in fails:
            if f[0] == 1:
                st = t['setters'][f[1]][0]
                owner = 'ANeigh' if (st in base and st != 'select' and not (st == 'attach')) else t['cls']
                key = ('%s::hasChanged:memo-reused-for-another-target' % t['cls']) if st == 'select' else '%s::%s-stale-caches' % (owner, st)
            else: key = '%s:cache-table-shape' % t['cls']
            fail_keys.setdefault(key, []).append((t['cls'], f))
        if not pol_ok: fail_keys.setdefault('%s::hasChanged:memo-reused-for-another-target' % t['cls'], []).append((t['cls'], 'policy ' + t['policy']))
    bad_policy = set(NG_CLS[S(name)] for name, fails, pol_ok in rows if not pol_ok and S(name) in NG_CLS)
    if fail_keys: ctx.level = 'partial'       # C10_neigh_cache_ok (Properties.v) cannot hold
    ctx.cov['neigh_cache_failed'] = {k: len(v) for k, v in fail_keys.items()}
    for n in bad_scratch:
        ctx.violation('ANeigh:scratch-read-before-write:' + S(n), 'scratch member read before it is written: ' + S(n), {'theorem': 'C10_neigh_scratch_dead'}, found_input=False)
    # ---- histories
    def data(n):
        pts = rng.sample([(x, y) for x in range(0, 6) for y in (0, 0, 3, 3, 7)], n)
        pts = list(dict.fromkeys(pts))
        return [[dy(p[0]) for p in pts], [dy(p[1]) for p in pts], [dy(rng.randint(-3, 3)) for _ in pts]]
    def params(cls):
        return [rng.randint(2, 4), dy(rng.choice([3, 5, 50])), 1, 1] if cls == 0 else ([] if cls == 1 else [dy(rng.choice([1, 2]))])
    cases = load_corpus(ctx, 83); meta = ['corpus'] * len(cases)
    for cls in (0, 1, 2):
        for rep in range(3):
            d = data(6); n = len(d[0]); p = params(cls)
            a, b = rng.sample(range(n), 2)
            T = [[0], [1, a], [1, b], [1, a]]
            cases.append([83, cls, p, d, [], 1, T]); meta.append('targets')
            cases.append([83, cls, p, d, [], 1, [[2, 1]] + T]); meta.append('targets-xvalid')
            cases.append([83, cls, p, d, [], 1, [[2, 1], [0], [1, a], [7], [1, a]]]); meta.append('reset')
            tg = [[dy(0.5), dy(2.5)], [dy(0.5), dy(0.5)], [dy(7), dy(8)]]      # targets off the data, carrying the collocated variable
            cases.append([83, cls, p, d, tg, 0, [[8, [2]], [0], [1, 0], [1, 0], [1, 1]]]); meta.append('colcok')
            for st in ([2, 1], [5, 1, 10], [9, 2], [10, 9], [6], [7]):
                if st[0] in (9, 10) and cls != 0: continue
                cases.append([83, cls, p, d, [], 1, [[0], [1, a], st, [1, a]]]); meta.append('setter')
                cases.append([83, cls, p, d, [], 1, [[0], st, [1, a], [1, b]]]); meta.append('setter-first')
    for _ in range(120 if quick else 2500):
        cls = rng.choice([0, 0, 1, 2]); d = data(rng.randint(4, 7)); n = len(d[0])
        ops = [[0]] if rng.random() < .8 else []
        for _ in range(rng.randint(2, 8)):
            u = rng.random()
            if u < .55: ops.append([1, rng.randrange(n)])
            elif u < .65: ops.append([0])
            elif u < .75: ops.append([2, rng.randint(0, 1)])
            elif u < .82: ops.append([5, rng.randint(0, 1), rng.choice([2, 10])])
            elif u < .88 and cls == 0: ops.append([9, rng.randint(1, 4)])
            elif u < .94: ops.append([6])
            else: ops.append([7])
        ops.append([1, rng.randrange(n)])
        cases.append([83, cls, params(cls), d, [], 1, ops]); meta.append('random'); ctx.dist('neigh_cls%d' % cls)
    rc, impl = run_impl(ctx, exe, write_cases(ctx, 'neigh', cases), timeout=3000)
    # model: same histories on the generated tables
    def model_ops(c):
        t = byname[[k for k, v in NG_CLS.items() if v == c[1]][0]]
        ix = {n: i for i, n in enumerate(t['inputs'])}; sx_ = {s_[0]: i for i, s_ in enumerate(t['setters'])}
        inv = {v: k for k, v in NG_OPS.items()}
        ver = [1]; out = []; attached = False
        for o in c[6]:
            if o[0] == 1:
                if not attached: continue
                out.append([0, sx_['select'], [[ix['target'], o[1] + 1]]]); out.append([1, 0])
            else:
                nm = inv[o[0]]
                if nm not in sx_: continue
                asg = []
                if nm == 'attach':
                    ver[0] += 1; attached = True
                    asg = [[ix[x], ver[0]] for x in ('_dbin', '_dbout', '_dbgrid') if x in ix]
                elif nm == 'setFlagXvalid': asg = [[ix['_flagXvalid'], o[1]]]
                elif nm == 'setBallSearch': asg = [[ix[x], v] for x, v in (('_useBallSearch', o[1]), ('_ballLeafSize', o[2])) if x in ix]
                elif nm == 'setNMaxi': asg = [[ix['_nMaxi'], o[1]]]
                elif nm == 'setNMini': asg = [[ix['_nMini'], o[1]]]
                elif nm == 'setRankColCok': asg = [[ix['_rankColCok'], 1 + len(o[1])]] if '_rankColCok' in ix else []
                elif nm == 'reset': asg = [[ix[x], 0] for x in ('_flagXvalid', '_flagKFold', '_flagSimu', '_rankColCok') if x in ix]
                out.append([0, sx_[nm], asg])
        return [83, list(byname).index(t['cls']), out]
    _, model = run_model(ctx, runner, write_cases(ctx, 'neigh_model', [model_ops(c) for c in cases]))
    def first_bad(c, r):
        for k, (o, x) in enumerate(zip(c[6], r)):
            if o[0] == 1 and x != [-1] and (len(x) != 3 or x[0] != x[1]): return k
        return None
    def key_of(c, k):
        cls = [n for n, v in NG_CLS.items() if v == c[1]][0]
        inv = {v: n for n, v in NG_OPS.items()}
        # the last call that is not a select between the previous select and this one; a select otherwise
        if k > 0 and c[6][k - 1][0] == 1 and c[6][k - 1][1] == c[6][k][1] and any(o[0] == 8 for o in c[6][:k]):
            return 'ANeigh::select:same-target-drops-collocated-rank'
        for j in range(k - 1, -1, -1):      # a call that the generated table already denounces
            if c[6][j][0] == 1: break
            kk = 'ANeigh::%s-stale-caches' % inv[c[6][j][0]]
            if kk in fail_keys: return kk
        for j in range(k - 1, -1, -1):
            if c[6][j][0] == 1: break
            nm = inv[c[6][j][0]]
            if nm in ('setIsChanged', 'attach', 'reset') : continue
            return '%s::%s-stale-caches' % ('NeighMoving' if nm in ('setNMaxi', 'setNMini') else 'ANeigh', nm)
        for j in range(k - 1, -1, -1):      # a setter called before the attach
            nm = inv[c[6][j][0]] if c[6][j][0] != 1 else None
            if nm == 'setBallSearch' and any(o[0] == 0 for o in c[6][:j]) and not any(o[0] == 0 for o in c[6][j:k]): return 'ANeigh::setBallSearch-stale-caches'
        return '%s::hasChanged:memo-reused-for-another-target' % cls
    found = False; witnesses = {}
    for c, r, mo_, mt in zip(cases, impl, model, meta):
        if r and r[-1] == [-996]:
            witnesses.setdefault('ANeigh::select:crash', (c, 'the process crashes')); continue
        sel = [k for k, o in enumerate(c[6]) if o[0] == 1 and k < len(r) and r[k] != [-1]]
        for q, k in enumerate(sel):
            ctx.count(sx_str([c[1], c[2], c[3], c[6][:k + 1]])[:2500], True)
            same_i = r[k][0] == r[k][1]
            if q < len(mo_) and mo_[q] and not same_i: pass
            if not same_i:
                if q < len(mo_) and mo_[q] == 1 and c[1] not in bad_policy and key_of(c, k) != 'ANeigh::select:same-target-drops-collocated-rank':      # (a wrong hasChanged() is outside the table: keyed separately)
                    ctx.violation('model-drift:ANeigh:cache-table', 'the cache table generated from the neighbourhood classes says this select answers like a fresh object, the object does not',
                                  {'case': sx_str(c), 'history': ng_pretty([c[0], c[1], c[2], c[3], c[4], c[5], c[6][:k + 1]])}, found_input=False)
                key = key_of(c, k)
                cur = [c[0], c[1], c[2], c[3], c[4], c[5], c[6][:k + 1]]
                for _ in range(12):      # shrink: drop calls while the last select still differs for the same reason
                    cands = [cur[:6] + [cur[6][:j] + cur[6][j + 1:]] for j in range(len(cur[6]) - 1)]
                    rc2, rr = run_impl(ctx, exe, write_cases(ctx, 'neigh_shrink', cands))
                    nxt = [cc for cc, x in zip(cands, rr) if x and len(x) == len(cc[6]) and len(x[-1]) == 3 and x[-1][0] != x[-1][1] and key_of(cc, len(cc[6]) - 1) == key]
                    if not nxt: break
                    cur = nxt[0]
                rc2, rr = run_impl(ctx, exe, write_cases(ctx, 'neigh_shrunk', [cur]))
                if key not in witnesses or len(cur[6]) < len(witnesses[key][0][6]):
                    witnesses[key] = (cur, 'the last select hands out %s, a fresh object brought to the same inputs %s' % (rr[0][-1][0], rr[0][-1][1]))
                break
    for key, (c, text) in sorted(witnesses.items()):
        found = True
        ctx.violation(key, text, {'case': sx_str(c), 'history': ng_pretty(c)})
        ctx.sample({'key': key, 'history': ng_pretty(c)})
    for key, fs in sorted(fail_keys.items()):
        if key not in witnesses:
            ctx.violation(key, 'the cache table generated from the neighbourhood classes violates the condition of C10_cache_coherent (%s) and no history exhibiting it was found' % (fs[:3],),
                          {'instances': [str(f) for f in fs], 'theorem': 'C10_cache_coherent / C10_neigh_cache_ok'}, found_input=False)
    return found

VARIO_FN = {0: 'Vario::computeFromDb', 1: 'db_vmap', 2: 'db_vcloud'}
def carrier_statics(ctx, runner, exe):
    """inventory of the static variables: every work area across a call needs a correspondence carrier for its file"""
    rng = ctx.rng; quick = ctx.quick()
    tab = ctx.st_tab
    if tab is None: return False
    nonconst = [t for t in tab if t['class'] != 'SConst']
    ctx.cov['statics_scanned'] = len(tab); ctx.cov['statics_non_constant'] = [[t['file'], t['name'], t['class']] for t in nonconst]
    COVERED = {'src/Variogram/Vario.cpp': 82, 'src/Variogram/VMap.cpp': 82, 'src/Variogram/VCloud.cpp': 82, 'src/Basic/MathFunc.cpp': 86}      # MathFunc: kinds 86 (mvndst) and 88 (besselk)
    for t in nonconst:
        if t['class'] == 'SUnknown':
            ctx.violation('static:%s:%s' % (os.path.basename(t['file']), t['name']), 'a function-local static that keeps a value from one call to the next, or a static of unknown use (written by %s)' % t['writers'],
                          {'static': t, 'theorem': 'C10_statics_classified'}, found_input=False)
        if t['class'] in ('SCross', 'SCarry') and t['file'] not in COVERED:
            ctx.violation('static:%s:%s' % (os.path.basename(t['file']), t['name']), 'a work area kept across calls (written by %s) and no correspondence history exercises its file' % t['writers'],
                          {'static': t}, found_input=False)
    found = False
    cases = load_corpus(ctx, 82)
    for _ in range(40 if quick else 800):
        dbs = []
        for k in range(3):
            n = rng.randint(4, 9)
            pts = rng.sample([(x, y) for x in range(0, 7) for y in range(0, 7)], n)
            dbs.append([[dy(p[0]) for p in pts], [dy(p[1]) for p in pts], [dy(rng.randint(-4, 4)) for _ in pts]])
        call = lambda: [rng.choice([0, 0, 1, 2]), rng.randrange(3), rng.randint(1, 3), rng.randint(2, 4), dy(rng.choice([1, 2]))]
        cases.append([82, dbs, [call() for _ in range(rng.randint(1, 5))], call()])
    rc, impl = run_impl(ctx, exe, write_cases(ctx, 'vario', cases), timeout=3000)
    for c, r in zip(cases, impl):
        if len(r) != 2: continue
        ctx.count(sx_str(c)[:3000], True)
        if r[0] != r[1]:
            found = True
            hist = ['%s(db%d, ...)' % (VARIO_FN[x[0]], x[1]) for x in c[2]] + ['%s(db%d, ...)   <- observed' % (VARIO_FN[c[3][0]], c[3][1])]
            ctx.violation('static:variogram:%s-after-%s' % (VARIO_FN[c[3][0]], '+'.join(sorted(set(VARIO_FN[x[0]] for x in c[2])))),
                          'the observed variogram calculation gives another result after this prefix than in a fresh process', {'case': sx_str(c), 'history': hist})
    return found

def carrier_ksys(ctx, runner, exe):
    """per-target state of KrigingSystem::estimate: table conditions, and every target alone vs within the sequence"""
    rng = ctx.rng; quick = ctx.quick()
    tab = ctx.ks_tab
    if tab is None: return False
    _, mo = run_model(ctx, runner, write_cases(ctx, 'ks_cond', [[87]]))
    fails = mo[0]
    fail_keys = {}
    for f in fails:
        if f[0] == 1:
            b = tab['blocks'][f[3]]
            fail_keys['KrigingSystem::estimate:%s-not-redone-when-%s' % ('+'.join(c for c in b['calls'] if c != '_setLocalModel'), tab['atoms'][f[2]])] = f
        else: fail_keys['KrigingSystem::estimate:reuse-table-shape'] = f
    for m_, cls in tab['members']:
        if cls == 'KCarried':
            fail_keys['KrigingSystem::estimate:%s-carried-from-previous-target' % m_[1:]] = [2, m_]
    ctx.cov['ksys_members'] = {c: sum(1 for _, k in tab['members'] if k.split()[0] == c) for c in ('KGuarded', 'KPerTarget', 'KCarried')}
    if fail_keys: ctx.level = 'partial'
    ctx.cov['ksys_reuse_blocks'] = [{'calls': b['calls'], 'cond': b['cond'], 'must_follow': b['need']} for b in tab['blocks']]
    cases = load_corpus(ctx, 85)
    for _ in range(45 if quick else 900):
        n = rng.randint(4, 8)
        pts = rng.sample([(x, y) for x in range(0, 6) for y in range(0, 6)], n)
        dbin = [[dy(p[0]) for p in pts], [dy(p[1]) for p in pts], [dy(rng.randint(-4, 4)) for _ in pts], [dy(rng.choice([0.25, 0.5, 1])) for _ in pts]]
        m = rng.randint(2, 5)
        tg = [(rng.randint(2, 8) / 2, rng.randint(2, 8) / 2) for _ in range(m)]
        if rng.random() < .5: tg = sorted(tg)
        targets = [[dy(p[0]) for p in tg], [dy(p[1]) for p in tg]]
        mode = rng.choice([0, 0, 1, 2])
        cont = dy(rng.choice([0.25, 0.5, 0.75])) if (mode == 0 and rng.random() < .6) else []
        model = [[rng.choice([0, 1]), dy(rng.choice([4, 6])), dy(rng.choice([3, 6])), dy(rng.choice([1, 2])), dy(0)]]
        cases.append([85, model, dbin, targets, [rng.choice([3, 4, 10]), dy(rng.choice([4, 6, 20])), cont], mode])
        ctx.dist('ksys_mode%d_%s' % (mode, 'continuous' if cont else 'standard'))
    rc, impl = run_impl(ctx, exe, write_cases(ctx, 'kseq', cases), timeout=3000)
    found = False; witnesses = {}
    MODE = {0: 'kriging', 1: 'kribayes(constant drift)', 2: 'kribayes(linear drift)'}
    for c, r in zip(cases, impl):
        if len(r) != 2 or r[0] == [-996] or r[1] == [-996] or r[1] == [[-996]]: continue
        seq, alone = r
        if seq[0] != 0: continue
        for t in range(len(c[3][0])):
            ctx.count(sx_str([c[1], c[2], c[4], c[5], [c[3][0][:t + 1], c[3][1][:t + 1]]])[:3000], True)
            a = alone[t]
            vs = [undy(col[t]) for col in seq[1:]]; va = [undy(col[0]) for col in a[1:]]
            if a[0] != 0 or len(vs) != len(va): continue
            if any((x is None) != (y is None) or (x is not None and abs(x - y) > 1e-9 * (1 + abs(y))) for x, y in zip(vs, va)):
                cont = bool(c[4][2])
                key = None
                for k in fail_keys:
                    if (cont and k.endswith('continuous')) or (not cont and not k.endswith('continuous') and '-not-redone-' in k): key = k
                if key is None and any('-carried-' in k for k in fail_keys): key = sorted(k for k in fail_keys if '-carried-' in k)[0]
                key = key or 'KrigingSystem::estimate:target-alone-vs-sequence:%s%s' % (MODE[c[5]].split('(')[0], '-continuous' if cont else '')
                # shrink: keep the offending target and drop the others while it still differs
                keep = list(range(len(c[3][0])))
                for drop in list(range(len(keep))):
                    if drop == t or len(keep) <= 2: continue
                    cand_idx = [i for i in keep if i != drop]
                    cc = c[:3] + [[[c[3][0][i] for i in cand_idx], [c[3][1][i] for i in cand_idx]]] + c[4:]
                    rc2, rr = run_impl(ctx, exe, write_cases(ctx, 'kseq_shrink', [cc]))
                    if rr and len(rr[0]) == 2 and rr[0][0][0] == 0:
                        tt = cand_idx.index(t)
                        v1 = [undy(col[tt]) for col in rr[0][0][1:]]; v2 = [undy(col[0]) for col in rr[0][1][tt][1:]]
                        if any(x is not None and y is not None and abs(x - y) > 1e-9 * (1 + abs(y)) for x, y in zip(v1, v2)): keep = cand_idx
                cc = c[:3] + [[[c[3][0][i] for i in keep], [c[3][1][i] for i in keep]]] + c[4:]
                if key not in witnesses or len(keep) < len(witnesses[key][0][3][0]):
                    witnesses[key] = (cc, '%s, moving neighbourhood%s: target (%s, %s) gets %s when estimated alone and %s after the targets before it in the same call' % (
                        MODE[c[5]], ' with the continuous option' if cont else '', float(undy(c[3][0][t])), float(undy(c[3][1][t])), [float(x) for x in va if x is not None], [float(x) for x in vs if x is not None]))
                break
    for key, (cc, text) in sorted(witnesses.items()):
        found = True
        ctx.violation(key, text, {'case': sx_str(cc), 'history': ['targets: %s' % [(float(undy(x)), float(undy(y))) for x, y in zip(cc[3][0], cc[3][1])], 'one call on all of them vs one call per target']})
    for key, f in sorted(fail_keys.items()):
        if key not in witnesses:
            ctx.violation(key, 'the reuse conditions of KrigingSystem::estimate violate C10_cache_coherent (%s) and no sequence of targets exhibiting it was found' % (f,),
                          {'instance': f, 'theorem': 'C10_ksys_cache_ok'}, found_input=False)
    # besselk (static locals): the last call of a sequence against the same call in a fresh process
    bcases = [[88, [[dy(rng.choice([0.25, 0.5, 1, 2, 5, 10])), dy(rng.choice([0, 0.25, 0.5, 0.75])), rng.randint(1, 4)] for _ in range(rng.randint(2, 5))]] for _ in range(30)]
    rc, bi = run_impl(ctx, exe, write_cases(ctx, 'bessel', bcases))
    for c, r in zip(bcases, bi):
        ctx.count(sx_str(c), True)
        if len(r) == 2 and r[0] != r[1]:
            found = True
            ctx.violation('besselk:static-locals-kept-across-calls', 'besselk%s returns %s after the calls %s and %s in a fresh process' % (c[1][-1], r[0], c[1][:-1], r[1]), {'case': sx_str(c)})
            break
    # mvndst: same arguments, several calls in one process (the first one is what a fresh process answers)
    cases = load_corpus(ctx, 86) + [[86, n, 2000, 3, dy(rho)] for n in (3, 10, 21, 22, 25, 40) for rho in (0.25, 0.5)]
    rc, impl = run_impl(ctx, exe, write_cases(ctx, 'mvn', cases), timeout=3000)
    for c, r in zip(cases, impl):
        ctx.count(sx_str(c), True)
        if r and r != [[-996]] and any(x != r[0] for x in r[1:]):
            found = True
            ctx.violation('mvndst:quasi-random-sequence-kept-across-calls', 'mvndst(n=%d, same arguments) returns %s on successive calls of one process (a fresh process returns the first value)' % (c[1], [float(undy(x)) for x in r]),
                          {'case': sx_str(c), 'history': ['mvndst(%d, ...)' % c[1]] * 2})
            break
    return found

# =====================================================================================================================
def translate_all(ctx):
    """regenerate coq/C10/gen/*.v from the sources; a translation error is a broken tie"""
    ctx.kc_tab = None
    ok = True
    try:
        text, tab = load_translator('C10_kcgraph').translate(REPO)
        write_if_changed(os.path.join(VERIF, 'coq', 'C10', 'gen', 'KCGraph.v'), text)
        ctx.kc_tab = tab
        ctx.notes.append('KCGraph: ' + tab['not_covered'])
        for n in tab['notes']: ctx.notes.append('KCGraph: ' + n)
    except Exception as ex:
        if type(ex).__name__ != 'TranslationError': raise
        ok = False
        ctx.violation('translator:KCGraph', 'KrigingCalcul.cpp is no longer in the form the translator understands: %s; '
                      'the generated graph, hence every theorem about the class, is not tied to the code any more' % ex,
                      {'translator': 'translators/C10_kcgraph.py', 'error': str(ex)}, found_input=False)
    ctx.vt_tab = None; ctx.op_tab = None
    ctx.ng_tab = None; ctx.st_tab = None; ctx.ks_tab = None
    for name, attr, genf, what in (('C10_vectort', 'vt_tab', 'VectorTOps.v', 'VectorT.hpp/VectorNumT.hpp'),
                                   ('C10_optimpaths', 'op_tab', 'OptimPaths.v', 'the functions calling optimizationPreProcess'),
                                   ('C10_neighgraph', 'ng_tab', 'NeighCache.v', 'the neighbourhood classes (include/Neigh, src/Neigh)'),
                                   ('C10_statics', 'st_tab', 'Statics.v', 'the static variables of the scanned sources'),
                                   ('C10_ksystem', 'ks_tab', 'KSysCache.v', 'the reuse conditions of KrigingSystem::estimate')):
        try:
            text, tab = load_translator(name).translate(REPO)
            write_if_changed(os.path.join(VERIF, 'coq', 'C10', 'gen', genf), text)
            setattr(ctx, attr, tab)
        except Exception as ex:
            if type(ex).__name__ != 'TranslationError': raise
            ok = False
            ctx.violation('translator:' + genf[:-2], '%s is no longer in the form the translator understands: %s; the generated table, hence the '
                          'theorems about it, is not tied to the code any more' % (what, ex),
                          {'translator': 'translators/%s.py' % name, 'error': str(ex)}, found_input=False)
    return ok

def run(ctx):
    build_lib(ctx)
    tie_ok = translate_all(ctx)
    proofs_ok = coq_properties(ctx)
    runner = build_runner(ctx)
    exe = build_harness(ctx, 'C10')
    if runner is None or exe is None:
        if not proofs_ok:
            proof_break_violation(ctx, False); return
        print('ERROR: model runner or harness does not build'); sys.exit(3)
    found = False
    found |= carrier_kc(ctx, runner, exe)
    found |= carrier_vectort(ctx, runner, exe)
    found |= carrier_rng(ctx, runner, exe)
    found |= carrier_optim(ctx, runner, exe)
    found |= carrier_krig(ctx, runner, exe)
    found |= carrier_memo(ctx, runner, exe)
    found |= carrier_neigh(ctx, runner, exe)
    found |= carrier_statics(ctx, runner, exe)
    found |= carrier_ksys(ctx, runner, exe)
    if getattr(ctx, 'kc_fail_keys', None): ctx.level = 'partial'
    ctx.cov['rule'] = ('VectorT: a case is a program over 2-4 VectorDouble handles, compared after every statement with the copy-on-write model '
                       'and with independent values; RNG: a case is a sequence of seed/draw calls from a fresh process, compared bit-exactly; covariance cache: a '
                       'history of evalCovMatrix*Optim calls on one model, each compared with a fresh model; kriging: one call after a prefix vs in a fresh process. '
                       'KrigingCalcul: a case is a history (constructor, then set*/reset*/get* calls with integer data, some arguments null or of '
                       'wrong dimension); every get* of every history is compared with the same get* on a fresh object given the inputs in force; '
                       'distinct = distinct history prefix ending in a get')
    if not proofs_ok: proof_break_violation(ctx, found)
    ctx.cov['trusted_base'] += [
        'translators/C10_kcgraph.py, C10_vectort.py, C10_optimpaths.py: regex/brace-matching readers of the C++ sources; fail closed on unknown constructs; '
        'C10_kcgraph is additionally tied at run time: after every operation of every history the set of non-null cached members and the status of every get '
        'of the real object must equal what the extracted model of the generated graph predicts',
        'harness/C10.cpp reads private members of KrigingCalcul (#define private public) to know the inputs in force; a fresh object is built from them through the public set* calls',
        'C10_lazy_coherent is about Herbrand terms (what was read to compute what): equal terms give equal numbers in C++ because each _need body is a deterministic function of what it reads',
    ]
    ctx.assumptions = ['the dimension parameters _neq/_nbfl/_nrhs of a KrigingCalcul object are constants of the object (dimension lock); histories keep one dimension profile',
                       'X->invert() on a dense square matrix cannot report a failure in this tree (checked by the translator on AMatrix::invert / AMatrixDense::_invert)',
                       'values are compared between two executions of the same code on the same data: tolerance 1e-11 relative']

if __name__ == '__main__':
    main(run)

"""C16 — grid geometry conversions: theorems of coq/C16 + correspondence of Grid / Rotation / DbGrid conversions.

Case kinds (see coq/C16/Run.v and harness/C16.cpp):
 0 harvest rotation matrix of a list of angles      5 generateMirrorIndex (child process, time limit)
 1 rank <-> indices                                 6 DbGrid: coordinates, createCoarse / createRefine / createSubGrid
 2 indices -> coordinates -> indices / rank         7 migrate grid -> points (cell assignment)
 3 query points: indices, rank, cell membership     8 iterator
 4 Grid::multiple / divider / dilate                9 Rotation object (matrix from cos/sin, direct / inverse, matrix -> angles -> matrix)
11 point -> grid migration (plain / filling / ball tree)   12 grid -> point migration + locateDataInGrid   13 grid -> grid migration
14 session with mutations of the Grid object   16 session on a DbGrid: mutations + db_grid_define_coordinates and every other materialisation of node coordinates
17 createFromGridShrink / createFromGridExtend (inherited dimensions vs input grid)
10 session: ONE Grid/DbGrid object answers a random sequence of const queries (history independence, C16_query_history_independent)
"""
import sys, os, math, itertools
sys.path.insert(0, os.path.dirname(__file__))
from common import *

TOL = 1e-9
TIE = Fraction(1, 10 ** 7)          # decisions on reals whose margin (in cell units) is below this are excluded
EPS6 = 1e-6                          # the double EPSILON6 used as default by the library

# ----------------------------------------------------------------------------- generators
def rnd_dyadic(rng, lo, hi, den):
    return Fraction(rng.randint(lo * den, hi * den), den)

def round_dy(x, bits=40):
    return Fraction(round(Fraction(x) * 2 ** bits), 2 ** bits)

PYTH = [(3, 4, 5), (5, 12, 13), (8, 15, 17), (7, 24, 25), (20, 21, 29)]
def pyth_cs(rng):
    a, b, h = rng.choice(PYTH)
    c, s = Fraction(a, h), Fraction(b, h)
    if rng.random() < .5: c, s = s, c
    if rng.random() < .5: s = -s
    if rng.random() < .3: c = -c
    return c, s

def matmul(A, B):
    n = len(A)
    return [[sum(A[i][k] * B[k][j] for k in range(n)) for j in range(n)] for i in range(n)]
def matvec(A, v): return [sum(A[i][k] * v[k] for k in range(len(v))) for i in range(len(A))]
def transpose(A): return [list(r) for r in zip(*A)]
def ident(n): return [[Fraction(int(i == j)) for j in range(n)] for i in range(n)]
def plane_rot(n, i, j, c, s):
    M = ident(n); M[i][i] = c; M[j][j] = c; M[i][j] = -s; M[j][i] = s
    return M

def gen_matrix(rng, n, exact):
    """a rotation matrix with rational entries (exact: entries 0, +-1) as rows of Fractions"""
    M = ident(n)
    if n == 1: return M
    for _ in range(rng.randint(1, 3)):
        i, j = rng.sample(range(n), 2)
        if exact: c, s = rng.choice([(0, 1), (0, -1), (-1, 0), (1, 0)])
        else: c, s = pyth_cs(rng)
        M = matmul(M, plane_rot(n, i, j, Fraction(c), Fraction(s)))
    return M

EXACT_ANGLES = [0., 90., 180., 270.]
GEN_ANGLES = [30., 45., 60., 12.5, -33.75, 123.456, 200.5, 359.999999, 1e-9, 0.1, -90.0, 450.0, 17.0]

def gen_rot(rng, n, want):
    """returns a rotation request: None | ('angles', [a..]) | ('matrix', rows)"""
    if want == 'none': return None
    if want == 'exact_angles':
        if n == 2: return ('angles', [rng.choice(EXACT_ANGLES[1:])] + ([0.] if rng.random() < .5 else []))
        if n == 3: return ('angles', [rng.choice(EXACT_ANGLES) for _ in range(2)] + [rng.choice(EXACT_ANGLES[1:])])
        return ('angles', [rng.choice(EXACT_ANGLES[1:])])            # other dimensions: the library builds the identity
    if want == 'angles':
        if n == 2: return ('angles', [rng.choice(GEN_ANGLES)])
        if n == 3: return ('angles', [rng.choice(GEN_ANGLES + [0.]) for _ in range(3)])
        return ('angles', [rng.choice(GEN_ANGLES)])
    if want == 'exact_matrix': return ('matrix', gen_matrix(rng, n, True))
    return ('matrix', [[round_dy(x) for x in r] for r in gen_matrix(rng, n, False)])

def gen_gridspec(rng, ndim=None, rot=None, small=False, maxn=8):
    n = ndim or rng.choice([1, 2, 2, 2, 3, 3, 4])
    nx = [rng.choice([1, 2, 3, 4, 5, 6, 7, maxn]) if rng.random() < .9 else 1 for _ in range(n)]
    if small:
        while math.prod(nx) > 400: nx[rng.randrange(n)] = 2
    x0 = [rnd_dyadic(rng, -4096, 4096, 8) if rng.random() < .8 else Fraction(0) for _ in range(n)]
    dx = [rng.choice([Fraction(1), Fraction(2), Fraction(1, 2), Fraction(1, 4), Fraction(3, 8), Fraction(5, 4), Fraction(3), Fraction(10),
                      Fraction(7, 16), Fraction(25, 2)]) for _ in range(n)]
    if rot is None:
        rot = rng.choice(['none', 'none', 'exact_angles', 'angles', 'angles', 'exact_matrix', 'matrix'])
    if n == 1 and rot in ('exact_matrix', 'matrix'): rot = 'none'
    return {'n': n, 'nx': nx, 'x0': x0, 'dx': dx, 'rot': gen_rot(rng, n, rot), 'rotkind': rot}

class Harvest:
    """rotation matrices actually built by the library for a list of angles (exact doubles)"""
    def __init__(self): self.want = {}; self.got = {}
    def key(self, n, angles): return (n, tuple(angles))
    def ask(self, n, angles): self.want[self.key(n, angles)] = True
    def run(self, ctx, exe):
        keys = [k for k in self.want if k not in self.got]
        if not keys: return
        cases = [[0, k[0], [dy(a) for a in k[1]]] for k in keys]
        cf = write_cases(ctx, 'harvest', cases)
        rc, res = run_impl(ctx, exe, cf)
        if len(res) != len(cases):
            print('ERROR: harness failed while harvesting rotation matrices'); sys.exit(3)
        for k, r in zip(keys, res):
            self.got[k] = {'M': [[undy(x) for x in row] for row in r[0]], 'flag': r[1], 'cs': [(undy(p[0]), undy(p[1])) for p in r[2]]}

def grid_sx(gs, hv):
    """s-expression of a grid; the rotation matrix given to the model is the one the library uses"""
    if gs['rot'] is None: rot = []
    elif gs['rot'][0] == 'angles':
        M = hv.got[hv.key(gs['n'], gs['rot'][1])]['M']
        rot = [1, [dy(a) for a in gs['rot'][1]], [[dy(x) for x in r] for r in M]]
    else:
        rot = [2, [], [[dy(x) for x in r] for r in gs['rot'][1]]]
    return [list(gs['nx']), [dy(x) for x in gs['x0']], [dy(x) for x in gs['dx']], rot]

def grid_matrix(gs, hv):
    if gs['rot'] is None: return ident(gs['n'])
    if gs['rot'][0] == 'angles': return hv.got[hv.key(gs['n'], gs['rot'][1])]['M']
    return gs['rot'][1]

def is_rotated(gs, hv):
    M = grid_matrix(gs, hv)
    return any(abs(M[i][j] - int(i == j)) > Fraction(1, 10 ** 10) for i in range(gs['n']) for j in range(gs['n']))

def rank_of(nx, ind):
    r = 0
    for n, i in reversed(list(zip(nx, ind))): r = r * n + i
    return r
def idx_of(nx, r):
    out = []
    for n in nx: out.append(r % n); r //= n
    return out
def inrange(nx, ind): return all(0 <= i < n for n, i in zip(nx, ind))

def vclose(a, b, tol=TOL):
    if a is None or b is None or len(a) != len(b): return False
    return all(close_enough(float(x), float(y), tol) if x is not None and y is not None else x is y for x, y in zip(a, b))
def vq(l): return [unq(p) for p in l]
def vd(l): return [undy(p) for p in l]

def rotdesc(gs, hv):
    if gs['rot'] is None: return 'unrotated'
    if not is_rotated(gs, hv): return 'identity-rotation'
    return 'rotated'

# ----------------------------------------------------------------------------- sessions (one object, many queries)
TOOLS = {}
QNAME = {0: 'getCoordinate', 1: 'getCoordinate', 20: 'rankToCoordinate', 2: 'rankToIndice', 3: 'indiceToRank', 4: 'coordinateToRank',
         19: 'coordinateToRank', 5: 'coordinateToIndices', 6: 'getCoordinatesByRank', 9: 'rankToCoordinates', 18: 'getCoordinatesByRank',
         7: 'getCoordinatesByIndice', 8: 'getCoordinatesByCorner', 10: 'sampleBelongsToCell', 11: 'getCenterIndices', 12: 'multiple',
         13: 'divider', 14: 'dilate', 15: 'indicesToCoordinate', 16: 'getCellCoordinatesByCorner', 17: 'iterator',
         21: 'indiceToCoordinate', 22: 'point_to_grid',
         23: 'db_grid_define_coordinates', 24: 'generateCoordinates', 25: 'getAllCoordinates', 26: 'getAllCoordinatesMat', 27: 'getSampleCoordinates', 28: 'getSlice',
         100: 'setX0', 101: 'setDX', 102: 'setNX', 103: 'setRotationByAngles', 104: 'setRotationByVector', 105: 'resetFromVector'}

def gen_point(rng, gs, M, rotated):
    nx = gs['nx']
    r = rng.random()
    if r < .8: u = [Fraction(rng.randint(-96, 64 * k + 32), 64) for k in nx]
    else:      u = [Fraction(rng.randint(-1, k), 1) + rng.choice([Fraction(1, 2), Fraction(0), Fraction(1, 1024)]) for k in nx]
    w = [a * b for a, b in zip(u, gs['dx'])]
    if rotated: w = matvec(M, w)
    return [dy(round_dy(a + b, 20)) for a, b in zip(w, gs['x0'])]

def gen_query(rng, gs, hv, focus):
    n = gs['n']; nx = gs['nx']; ntot = math.prod(nx)
    M = grid_matrix(gs, hv); rotated = is_rotated(gs, hv)
    def any_rank(): return rng.choice(focus) if rng.random() < .3 else rng.randrange(ntot)
    def any_ind(): return [rng.randrange(k) for k in nx]
    if rng.random() < .35: return [rng.choice([0, 0, 1, 1, 20]), rng.choice(focus), rng.randrange(n)]
    f = rng.choice([2, 3, 4, 19, 5, 6, 9, 18, 7, 8, 10, 11, 12, 13, 14, 15, 16, 17, 21, 22, 0, 1, 20])
    if f in (0, 1, 20): return [f, any_rank(), rng.randrange(n)]
    if f == 2: return [2, any_rank()]
    if f == 3: return [3, any_ind()]
    if f in (4, 19, 5): return [f, gen_point(rng, gs, M, rotated), rng.random() < .5, dy(rng.choice([EPS6, EPS6, 0., 1e-3]))]
    if f in (6, 9, 18): return [f, any_rank()]
    if f == 7: return [7, any_ind()]
    if f == 8: return [8, [rng.choice([0, 1]) for _ in range(n)]]
    if f == 10: return [10, gen_point(rng, gs, M, rotated), any_rank()]
    if f == 11: return [11]
    if f == 12: return [12, [min(rng.randint(1, 3), k) for k in nx], rng.random() < .6]
    if f == 13: return [13, [rng.randint(1, 3) for _ in nx], rng.random() < .6]
    if f == 14: return [14, [rng.randint(0, 2) for _ in nx], 1]
    if f == 15: return [15, any_ind(), [dy(Fraction(rng.randint(-4, 3), 8)) for _ in nx] if rng.random() < .5 else []]
    if f == 16: return [16, any_rank(), [rng.choice([-1, 0, 1]) for _ in nx]]
    if f == 17: return [17, rng.randint(1, min(ntot + 1, 6))]
    if f == 21: return [21, any_ind(), rng.randrange(n)]
    return [22, gen_point(rng, gs, M, rotated)]

def gen_session(rng, gs, hv, length=None):
    """a random sequence of const queries on one grid; a few `focus' ranks are asked again and again, dimension by
    dimension, between queries about other nodes and points"""
    n = gs['n']; ntot = math.prod(gs['nx'])
    L = length or rng.randint(5, 40)
    focus = [rng.randrange(ntot) for _ in range(rng.randint(1, 3))]
    qs = [gen_query(rng, gs, hv, focus) for _ in range(L)]
    # the first focus rank is asked in every dimension (in random order, at random places): rank -> coordinates -> rank
    for d in rng.sample(range(n), n):
        qs.insert(rng.randint(0, len(qs)), [rng.choice([0, 1]), focus[0], d])
    return qs

def rot_item(gs, hv):
    """(matrix rows or [] for the library's identity) of the current rotation of gs"""
    if gs['rot'] is None: return []
    return [[dy(x) for x in r] for r in grid_matrix(gs, hv)]

def gen_msession(rng, gs0, hv):
    """queries interleaved with mutations of the same Grid object; the python side tracks the geometry to keep the queries meaningful"""
    gs = dict(gs0); gs['nx'] = list(gs['nx']); gs['x0'] = list(gs['x0']); gs['dx'] = list(gs['dx'])
    n = gs['n']
    angle_keys = [k for k in hv.got if k[0] == n and n in (2, 3)]
    items = []
    focus = [rng.randrange(math.prod(gs['nx']))]
    DX = [Fraction(1), Fraction(2), Fraction(1, 2), Fraction(1, 4), Fraction(3, 8), Fraction(5, 4), Fraction(3)]
    for _ in range(rng.randint(6, 30)):
        if rng.random() < .22:
            r = rng.random()
            if r < .2:
                d = rng.randrange(n); v = rnd_dyadic(rng, -2048, 2048, 8); gs['x0'][d] = v; items.append([100, d, dy(v)])
            elif r < .4:
                d = rng.randrange(n); v = rng.choice(DX); gs['dx'][d] = v; items.append([101, d, dy(v)])
            elif r < .55:
                d = rng.randrange(n); v = rng.randint(1, 6); gs['nx'][d] = v; items.append([102, d, v])
            elif r < .75 and angle_keys:
                k = rng.choice(angle_keys); gs['rot'] = ('angles', list(k[1])); items.append([103, [dy(a) for a in k[1]], rot_item(gs, hv)])
            elif r < .9 and n >= 2:
                Mx = gen_matrix(rng, n, True) if rng.random() < .5 else [[round_dy(x) for x in row] for row in gen_matrix(rng, n, False)]
                gs['rot'] = ('matrix', Mx); items.append([104, [], rot_item(gs, hv)])
            else:
                gs['nx'] = [rng.randint(1, 6) for _ in range(n)]; gs['dx'] = [rng.choice(DX) for _ in range(n)]
                gs['x0'] = [rnd_dyadic(rng, -2048, 2048, 8) for _ in range(n)]
                if angle_keys and rng.random() < .5: k = rng.choice(angle_keys); gs['rot'] = ('angles', list(k[1])); ang = [dy(a) for a in k[1]]
                else: gs['rot'] = None; ang = []
                items.append([105, list(gs['nx']), [dy(x) for x in gs['dx']], [dy(x) for x in gs['x0']], ang, rot_item(gs, hv)])
            focus = [rng.randrange(math.prod(gs['nx']))]
            # right after a mutation: ask the focus node in every dimension (stale caches show here)
            for d in range(n): items.append([rng.choice([0, 20]), focus[0], d])
        else:
            items.append(gen_query(rng, gs, hv, focus))
    return items

def gen_dbsession(rng, gs0, hv):
    """one DbGrid object: mutations of its grid (setX0 / setDX / gridCopyParams(rotation)), then db_grid_define_coordinates and
    the other functions that materialise node coordinates, interleaved with ordinary queries"""
    gs = dict(gs0); gs['x0'] = list(gs['x0']); gs['dx'] = list(gs['dx'])
    n = gs['n']; ntot = math.prod(gs['nx'])
    angle_keys = [k for k in hv.got if k[0] == n and n in (2, 3)]
    DX = [Fraction(1), Fraction(2), Fraction(1, 2), Fraction(1, 4), Fraction(3, 8), Fraction(5, 4), Fraction(3)]
    items = []
    focus = [rng.randrange(ntot)]
    def materialise():
        f = rng.choice([23, 23, 23, 25, 26, 27, 28, 24])
        if f == 27: return [27, rng.randrange(ntot)]
        if f == 28:
            if n != 3: return [23]
            pos = rng.randrange(3); return [28, pos, rng.randrange(gs['nx'][pos])]
        return [f]
    for _ in range(rng.randint(4, 14)):
        r = rng.random()
        if r < .3:
            m = rng.random()
            if m < .4:
                d = rng.randrange(n); v = rnd_dyadic(rng, -2048, 2048, 8); gs['x0'][d] = v; items.append([100, d, dy(v)])
            elif m < .7:
                d = rng.randrange(n); v = rng.choice(DX); gs['dx'][d] = v; items.append([101, d, dy(v)])
            elif angle_keys:
                k = rng.choice(angle_keys); gs['rot'] = ('angles', list(k[1])); items.append([103, [dy(a) for a in k[1]], rot_item(gs, hv)])
            items.append([23])            # the documented use: the characteristics have changed, rewrite the coordinates
        elif r < .6: items.append(materialise())
        else: items.append(gen_query(rng, gs, hv, focus))
    items.append([23]); items.append([25])
    # at most one generateCoordinates (it adds columns and prints the data base)
    seen = False
    for k, it in enumerate(items):
        if it[0] == 24:
            if seen: items[k] = [23]
            seen = True
    return items

def session_wrong(q, a_i, a_m, marg):
    """None when the implementation's answer to query q agrees with the model's, else a short text"""
    f = q[0]
    if f >= 100: return None
    try:
        if f in (0, 1, 20, 21):
            return None if close_enough(float(undy(a_i)), float(unq(a_m)), TOL) else 'impl %r, geometry %r' % (float(undy(a_i)), float(unq(a_m)))
        if f in (23, 24):        # stored X columns after the call, and getCoordinate, against the geometry
            stored, computed, rows = a_i[0], a_i[1], a_m
            if len(stored) != len(rows) or len(computed) != len(rows): return '%d stored / %d computed rows for %d nodes' % (len(stored), len(computed), len(rows))
            for r in range(len(rows)):
                if not vclose(vd(stored[r]), vq(rows[r])): return 'node %d: stored coordinates %s, geometry (getCoordinate / indicesToCoordinate) %s' % (r, [float(x) for x in vd(stored[r])], [float(x) for x in vq(rows[r])])
                if not vclose(vd(computed[r]), vq(rows[r])): return 'node %d: getCoordinate %s, geometry %s' % (r, [float(x) for x in vd(computed[r])], [float(x) for x in vq(rows[r])])
            return None
        if f in (25, 26):
            if len(a_i) != len(a_m): return '%d rows for %d nodes' % (len(a_i), len(a_m))
            for r in range(len(a_m)):
                if not vclose(vd(a_i[r]), vq(a_m[r])): return 'node %d: %s, geometry %s' % (r, [float(x) for x in vd(a_i[r])], [float(x) for x in vq(a_m[r])])
            return None
        if f == 28:
            if a_i == []: return None
            rk, rows = a_i
            for k, r in enumerate(rk):
                if not (0 <= r < len(a_m)) or not vclose(vd(rows[k]), vq(a_m[r])): return 'slice item %d (node %d): %s, geometry %s' % (k, r, [float(x) for x in vd(rows[k])], [float(x) for x in vq(a_m[r])] if 0 <= r < len(a_m) else None)
            return None
        if f in (6, 9, 18, 7, 8, 15, 16, 27):
            return None if vclose(vd(a_i), vq(a_m)) else 'impl %s, geometry %s' % ([float(x) for x in vd(a_i)], [float(x) for x in vq(a_m)])
        if f in (2, 3, 11, 17):
            return None if a_i == a_m else 'impl %s, model %s' % (a_i, a_m)
        if f in (4, 19, 10):
            if marg < TIE: return None
            return None if a_i == a_m else 'impl %s, model %s' % (a_i, a_m)
        if f in (5, 22):
            if marg < TIE: return None
            return None if a_i == a_m else 'impl %s, model %s' % (a_i, a_m)
        if f in (12, 13, 14):
            if a_i[0] == 0 or a_m[0] == 0: return None if a_i[0] == a_m[0] else 'impl ok=%s model ok=%s' % (a_i[0], a_m[0])
            ok = a_i[1] == a_m[1] and vclose(vd(a_i[2]), vq(a_m[2])) and vclose(vd(a_i[3]), vq(a_m[3]))
            return None if ok else 'impl %s / model %s' % ((a_i[1], [float(x) for x in vd(a_i[3])]), (a_m[1], [float(x) for x in vq(a_m[3])]))
    except Exception as ex:
        return 'malformed answer %r (%r)' % (a_i, ex)
    return 'unknown query'

def session_eval(ctx, G, sessions, kind=10):
    """runs several sessions on the same grid; returns for each the index of the first wrong answer (or None) and its text"""
    cf = write_cases(ctx, 'session', [[kind, G, qs] for qs in sessions])
    _, im = run_impl(ctx, TOOLS['exe'], cf); _, mo = run_model(ctx, TOOLS['runner'], cf)
    out = []
    for k, qs in enumerate(sessions):
        if k >= len(im) or k >= len(mo) or (im[k] and im[k][0] == -997) or len(im[k]) != len(qs) + 1:
            out.append((len(qs) - 1, 'crash')); continue
        bad = None
        for p, q in enumerate(qs):
            if q[0] >= 100: continue
            w = session_wrong(q, im[k][p], mo[k][p][0], unq(mo[k][p][1]))
            if w: bad = (p, w); break
        out.append(bad)
    return out

def session_shrink(ctx, G, qs, p, kind=10):
    """delta debugging on the query list: keep the wrong query last, drop as many earlier queries as possible"""
    cur = qs[:p + 1]
    for _ in range(40):
        n = len(cur) - 1
        if n == 0: break
        cands = []
        size = max(1, n // 2)
        while True:
            for st in range(0, n, size):
                cands.append(cur[:st] + cur[st + size:])
            if size == 1: break
            size = max(1, size // 2)
        res = session_eval(ctx, G, cands, kind)
        good = [c for c, r in zip(cands, res) if r is not None and r[0] == len(c) - 1]
        if not good: break
        cur = min(good, key=len)
    return cur

# ----------------------------------------------------------------------------- migration (kinds 11-13)
def optq(x): return None if x == [] else unq(x)
def optd(x): return None if x == [] else undy(x)

def migrate_verdict(ctx, viol, path, what, v_i, rec, replay, nodmax, compare_code=True, other=None):
    """one migrated value: impl vs the documented meaning (spec) and vs the model of the code.
    rec = (code, spec, old_corner, old_dmax, margin): the old_* are the models of the code before its repairs
    (lower-corner convention / former dmax handling); they only serve to give a reverted fix its former key"""
    code, spec, oldc, oldd, marg = optq(rec[0]), optq(rec[1]), optq(rec[2]), optq(rec[3]), unq(rec[4])
    if marg < 20 * TIE:        # 2e-6: the closest-node rule is accepted with eps = 0 as well as with the default 1e-6
        ctx.cov['tie_excluded'] += 1; ctx.count(None, False); return True
    ctx.count('mig|' + path + '|' + replay['case'][:200] + what[:40])
    if v_i == spec:
        if compare_code and v_i != code and code == spec:
            viol('model-drift:migrate:' + path, '%s: impl %s, model %s' % (what, v_i, code), replay, False)
        return True
    direction = 'grid-to-grid' if path.startswith(('grid-to-grid', 'createCoarse', 'createRefine')) else path.split(':')[0]
    if compare_code and v_i == code: key = 'migrate:%s:%s' % (path, 'assignment' if nodmax else 'dmax')
    elif v_i == oldc: key = 'migrate:%s:lower-corner-cell' % direction
    elif v_i == oldd: key = 'migrate:%s:dmax' % path
    elif path == 'point-to-grid:fill' and not nodmax and v_i is None and code is not None:
        key = 'migrate:point-to-grid:fill:dmax-sweep'      # the pruned sweep of expandPointToGrid stops too early (not modelled: the model is its intended result)
    else: key = 'migrate:%s:%s' % (path, other or ('closest-sample' if path.endswith(':ball') else 'unmodelled'))
    viol(key, '%s: receives %s, the documented rule gives %s (model of the code: %s)' % (
        what, 'NA' if v_i is None else float(v_i), 'NA' if spec is None else float(spec), 'NA' if code is None else float(code)), replay)
    return False

def gen_points(rng, gs, hv, npts):
    """points in and around the grid, some of them crowded in the same cell; (active, coor, value)"""
    M = grid_matrix(gs, hv); rotated = is_rotated(gs, hv); nx = gs['nx']
    pts = []
    while len(pts) < npts:
        if rng.random() < .5:
            base = [rng.randrange(k) for k in nx]
            for _ in range(rng.randint(2, 3)):
                u = [b + Fraction(rng.randint(-40, 72), 64) for b in base]
                w = [a * d for a, d in zip(u, gs['dx'])]
                if rotated: w = matvec(M, w)
                pts.append([dy(round_dy(a + b, 20)) for a, b in zip(w, gs['x0'])])
        else: pts.append(gen_point(rng, gs, M, rotated))
    out = []
    for k, c in enumerate(pts[:npts]):
        val = [] if rng.random() < .1 else dy(Fraction(rng.randint(-4000, 4000), 4))
        out.append([rng.random() < .9, c, val])
    return out

def gen_dmax(rng, gs):
    if rng.random() < .55: return []
    f = rng.choice([Fraction(1, 4), Fraction(2, 5), Fraction(3, 4), Fraction(3, 2)])
    return [dy(round_dy(d * f * rng.choice([1, 1, 2]), 12)) for d in gs['dx']]

def child_grid(rng, gs, hv):
    """a grid derived from gs (coarse / refined / sub-grid / shifted), same rotation, dyadic geometry"""
    n = gs['n']; nx = gs['nx']; M = grid_matrix(gs, hv); rotated = is_rotated(gs, hv)
    kind = rng.choice(['coarse', 'refine', 'sub', 'shift'])
    if kind == 'coarse':
        m = [min(rng.choice([1, 2, 3]), k) for k in nx]; cell = rng.random() < .6
        nxc = [k // a if cell else 1 + (k - 1) // a for k, a in zip(nx, m)]
        dxc = [d * a for d, a in zip(gs['dx'], m)]
        off = [Fraction(a - 1, 2) * d if cell else 0 for a, d in zip(m, gs['dx'])]
    elif kind == 'refine':
        m = [rng.choice([1, 2, 4]) for _ in nx]; cell = rng.random() < .6
        nxc = [k * a if cell else 1 + (k - 1) * a for k, a in zip(nx, m)]
        dxc = [d / a for d, a in zip(gs['dx'], m)]
        off = [(Fraction(-1, 2) + Fraction(1, 2 * a)) * d if cell else 0 for a, d in zip(m, gs['dx'])]
    elif kind == 'sub':
        l0 = [rng.randrange(k) for k in nx]; nxc = [rng.randint(1, k - a) for a, k in zip(l0, nx)]
        dxc = list(gs['dx']); off = [a * d for a, d in zip(l0, gs['dx'])]
    else:
        nxc = [rng.randint(1, k + 1) for k in nx]; dxc = [d * rng.choice([1, Fraction(1, 2), Fraction(3, 4), Fraction(3, 2)]) for d in gs['dx']]
        off = [Fraction(rng.randint(-48, 48), 32) * d for d in gs['dx']]
    while math.prod(nxc) > 300: nxc[nxc.index(max(nxc))] = max(1, max(nxc) // 2)
    w = matvec(M, off) if rotated else off
    x0 = [round_dy(a + b, 24) for a, b in zip(w, gs['x0'])]
    return {'n': n, 'nx': nxc, 'x0': x0, 'dx': dxc, 'rot': gs['rot'], 'rotkind': gs['rotkind']}, kind

# ----------------------------------------------------------------------------- the check
def run(ctx):
    quick = ctx.quick()
    build_lib(ctx)
    proofs_ok = coq_properties(ctx)
    runner = build_runner(ctx)
    exe = build_harness(ctx, 'C16')
    if runner is None or exe is None:
        print('ERROR: model runner or harness does not build'); sys.exit(3)
    rng = ctx.rng
    hv = Harvest()
    st = {'found_input': False, 'ndis': 0, 'rt': []}
    TOOLS['exe'] = exe; TOOLS['runner'] = runner

    def viol(key, text, replay, found=True):
        st['ndis'] += 1
        if found: st['found_input'] = True
        replay = dict(replay); replay['how'] = 'put the case line into corpus/C16.sx (or a file) and run: build/harness/C16 <file> <out>; bin/check C16 quick replays the corpus first'
        ctx.violation(key, text, replay, found_input=found)

    # ------------------------------------------------------------------ grids
    ngrid = 60 if quick else 5000
    grids = [gen_gridspec(rng) for _ in range(ngrid)]
    # make sure every rotation flavour is present in every dimension where it applies
    for n in (2, 3, 4):
        for rk in ('none', 'exact_angles', 'angles', 'exact_matrix', 'matrix'):
            grids.append(gen_gridspec(rng, ndim=n, rot=rk))
    grids.append(gen_gridspec(rng, ndim=1, rot='none'))
    dbgrids = [gen_gridspec(rng, ndim=rng.choice([1, 2, 2, 3, 3, 4]), rot=rng.choice(['none', 'exact_angles', 'angles', 'angles']), small=True, maxn=6)
               for _ in range(50 if quick else 3000)]
    rots = []
    for _ in range(30 if quick else 1500):
        n = rng.choice([2, 3, 3])
        rots.append((n, gen_rot(rng, n, rng.choice(['exact_angles', 'angles', 'angles']))[1]))
    for gs in grids + dbgrids:
        if gs['rot'] is not None and gs['rot'][0] == 'angles': hv.ask(gs['n'], gs['rot'][1])
    for n, ang in rots: hv.ask(n, ang)
    # corpus grids carry their own matrices
    hv.run(ctx, exe)

    cases = []; meta = []
    def add(case, **m): cases.append(case); meta.append(m)

    eps_choices = [EPS6, EPS6, EPS6, 0., 1e-3, 0.25]
    for gi, gs in enumerate(grids):
        G = grid_sx(gs, hv); n = gs['n']; nx = gs['nx']; ntot = math.prod(nx)
        ctx.dist('grid_%dD' % n); ctx.dist('rot_' + gs['rotkind'])
        # kind 1 -------------------------------------------------------
        ranks = list(range(ntot)) if ntot <= 40 else sorted(set([0, 1, ntot - 1, ntot - 2] + [rng.randrange(ntot) for _ in range(30)]))
        ranks += [-1, ntot, ntot + 3]
        inds = [[rng.randrange(k) for k in nx] for _ in range(12)]
        inds += [[0] * n, [k - 1 for k in nx]]
        bad = [rng.randrange(k) for k in nx]; bad[rng.randrange(n)] = rng.choice([-1, -2]); inds.append(bad)
        bad = [rng.randrange(k) for k in nx]; d = rng.randrange(n); bad[d] = nx[d] + rng.choice([0, 1]); inds.append(bad)
        add([1, G, 0, ranks, inds], kind=1, gs=gs)
        if all(k >= 2 for k in nx):
            nm = math.prod(k - 1 for k in nx)
            add([1, G, 1, sorted(set(rng.randrange(nm) for _ in range(10))), []], kind=1, gs=gs)
        # kind 2 -------------------------------------------------------
        items = []
        for _ in range(10 if quick else 14):
            ind = [rng.randrange(k) for k in nx]
            if rng.random() < .15: d = rng.randrange(n); ind[d] = rng.choice([-2, -1, nx[d], nx[d] + 1])
            r = rng.random()
            if r < .6: pc = []
            else: pc = [Fraction(rng.randint(-4, 3), 8) for _ in range(n)]
            fr = rng.random() < .9
            items.append([ind, [dy(p) for p in pc], fr, rng.random() < .5, dy(rng.choice(eps_choices))])
        items.append([[k - 1 for k in nx], [], True, False, dy(EPS6)])
        items.append([[0] * n, [], True, True, dy(EPS6)])
        add([2, G, items], kind=2, gs=gs)
        # kind 3 -------------------------------------------------------
        M = grid_matrix(gs, hv); rotated = is_rotated(gs, hv)
        pts = []
        for _ in range(10 if quick else 14):
            r = rng.random()
            if r < .75:   u = [Fraction(rng.randint(-96, 64 * k + 32), 64) for k in nx]            # anywhere in / around the grid
            elif r < .9:  u = [Fraction(rng.randint(-1, k), 1) + rng.choice([Fraction(1, 2), Fraction(0), Fraction(1, 1024), Fraction(-1, 1024)]) for k in nx]  # on / near boundaries
            else:         u = [Fraction(rng.randint(-400, 400), 4) for k in nx]                      # far away
            w = [a * b for a, b in zip(u, gs['dx'])]
            if rotated: w = matvec(M, w)
            coor = [round_dy(a + b, 20) for a, b in zip(w, gs['x0'])]
            rk = rng.randrange(ntot)
            dxs = [] if rng.random() < .7 else [d * rng.choice([Fraction(1, 2), Fraction(2), Fraction(3, 4)]) for d in gs['dx']]
            sh = [rng.choice([-1, 0, 1]) for _ in range(n)]
            pts.append([[dy(x) for x in coor], rng.random() < .5, dy(rng.choice(eps_choices)), rk, [dy(x) for x in dxs], sh])
        add([3, G, pts], kind=3, gs=gs)
        # kind 4 -------------------------------------------------------
        for op in (0, 1):
            uniform = rng.random() < .4
            m0 = rng.randint(1, 4)
            nmult = [m0 if uniform else rng.randint(1, 4) for _ in range(n)]
            if op == 0: nmult = [min(m, k) for m, k in zip(nmult, nx)]
            add([4, G, op, nmult, rng.random() < .6], kind=4, gs=gs)
        mode = rng.choice([1, 1, -1])
        nshift = [rng.randint(0, 3) for _ in range(n)]
        if mode == -1: nshift = [min(s, (k - 1) // 2) for s, k in zip(nshift, nx)]
        add([4, G, 2, nshift, mode], kind=4, gs=gs)
        # kind 14: sessions with mutations -------------------------------
        if gs['rotkind'] != 'matrix' or True:
            add([14, G, gen_msession(rng, gs, hv)], kind=14, gs=gs)
        # kind 10: sessions ----------------------------------------------
        for _ in range(1 if quick else 2):
            add([10, G, gen_session(rng, gs, hv)], kind=10, gs=gs)
        # kind 8 -------------------------------------------------------
        if ntot <= 300 and gi % 3 == 0:
            add([8, G, ntot + 2, []], kind=8, gs=gs)
        if ntot <= 300 and gi % 4 == 1 and n >= 2:
            perm = list(range(1, n + 1)); rng.shuffle(perm)
            add([8, G, ntot + 1, perm], kind=8, gs=gs)

    # kind 5: mirror
    for nx in range(2, 8):
        for ix in sorted(set([-1, 0, nx - 1, nx, nx + 1, 2 * nx, -nx, -2 * nx + 1] + [rng.randint(-60, 60) for _ in range(6 if quick else 20)])):
            add([5, nx, ix], kind=5)
    for ix in (0, 1, -1, 7, -12): add([5, 1, ix], kind=5)          # single-node axis: every index mirrors onto 0
    # kind 8 with a user-supplied order (child process)
    add([8, grid_sx({'n': 2, 'nx': [2, 3], 'x0': [0, 0], 'dx': [1, 1], 'rot': None}, hv), 6, [2, 1]], kind=8, gs={'n': 2, 'nx': [2, 3]})
    if not quick:
        add([8, grid_sx({'n': 3, 'nx': [2, 3, 2], 'x0': [0, 0, 0], 'dx': [1, 1, 1], 'rot': None}, hv), 12, [3, 1, 2]], kind=8, gs={'n': 3, 'nx': [2, 3, 2]})

    # kind 6 / 7: DbGrid level
    for gs in dbgrids:
        G = grid_sx(gs, hv); n = gs['n']; nx = gs['nx']; ntot = math.prod(nx)
        ctx.dist('dbgrid_%dD' % n); ctx.dist('dbrot_' + gs['rotkind'])
        op = rng.choice([0, 1, 1, 2, 2, 3, 3])
        if op == 0: add([6, G, 0, [], 0, 120], kind=6, gs=gs)
        elif op in (1, 2):
            uniform = rng.random() < .4; m0 = rng.randint(1, 3)
            nmult = [m0 if uniform else rng.randint(1, 3) for _ in range(n)]
            if op == 1: nmult = [min(m, k) for m, k in zip(nmult, nx)]
            add([6, G, op, nmult, rng.random() < .6, 120], kind=6, gs=gs)
        else:
            l0 = [rng.randrange(k) for k in nx]; l1 = [rng.randint(a + 1, k) for a, k in zip(l0, nx)]
            add([6, G, 3, l0, l1, 120], kind=6, gs=gs)
        M = grid_matrix(gs, hv); rotated = is_rotated(gs, hv)
        pts = []
        for _ in range(8):
            u = [Fraction(rng.randint(-64, 64 * k), 64) for k in nx]
            w = [a * b for a, b in zip(u, gs['dx'])]
            if rotated: w = matvec(M, w)
            pts.append([dy(round_dy(a + b, 20)) for a, b in zip(w, gs['x0'])])
        add([7, G, dy(EPS6), pts], kind=7, gs=gs)
        add([10, G, gen_session(rng, gs, hv)], kind=10, gs=gs)
        # kind 16: DbGrid session (stored coordinates rewritten / read after mutations); kind 17: shrink / extend
        if ntot <= 200:
            add([16, G, gen_dbsession(rng, gs, hv)], kind=16, gs=gs)
        # (angles given to a 1-D / 4-D grid are stored but build the identity: such grids are left out here, the child would use them)
        plain = gs['rot'] is None
        zrot = n == 3 and is_rotated(gs, hv) and gs['rot'][0] == 'angles' and all(a == 0 for a in gs['rot'][1][1:])
        if n >= 2 and (plain or zrot): add([17, G, 0, n - 1 if zrot else rng.randrange(n)], kind=17, gs=gs)
        if n <= 2 and ntot <= 60 and (plain or (n == 2 and is_rotated(gs, hv))): add([17, G, 1, rng.randint(2, 4)], kind=17, gs=gs)
        # kinds 11-13: migration bookkeeping
        if ntot <= 150:
            dt = rng.choice([1, 1, 2]); fill = rng.choice([0, 0, 0, 1, 1, 2])
            add([11, G, dy(EPS6), dt, gen_dmax(rng, gs), fill, gen_points(rng, gs, hv, rng.randint(1, 10))], kind=11, gs=gs)
            vals = [[] if rng.random() < .1 else dy(1000 + r) for r in range(ntot)]
            pts = [[rng.random() < .9, p[1], []] for p in gen_points(rng, gs, hv, rng.randint(1, 8))]
            add([12, G, vals, dy(EPS6), rng.choice([1, 2]), gen_dmax(rng, gs), pts], kind=12, gs=gs)
            if gs['n'] <= 3:
                ipts = [[rng.random() < .9, p[1], []] for p in gen_points(rng, gs, hv, rng.randint(1, 8))]
                add([15, G, vals, dy(EPS6), rng.choice([1, 2]), gen_dmax(rng, gs), ipts], kind=15, gs=gs)
            ch, ck = child_grid(rng, gs, hv)
            Gc = grid_sx(ch, hv)
            if rng.random() < .5: add([13, G, vals, Gc, dy(EPS6), rng.choice([1, 2]), gen_dmax(rng, gs), rng.random() < .6], kind=13, gs=gs, child=ck)
            else:
                valc = [[] if rng.random() < .1 else dy(2000 + r) for r in range(math.prod(ch['nx']))]
                add([13, Gc, valc, G, dy(EPS6), rng.choice([1, 2]), gen_dmax(rng, gs), rng.random() < .6], kind=13, gs=gs, child=ck + ':reverse')
    # kind 9: Rotation objects
    for n, ang in rots:
        h = hv.got[hv.key(n, ang)]
        vecs = [[dy(rnd_dyadic(rng, -64, 64, 8)) for _ in range(n)] for _ in range(4)]
        add([9, n, [dy(a) for a in ang], [[dy(c), dy(s)] for c, s in h['cs']], [[dy(x) for x in r] for r in h['M']], vecs], kind=9, ang=ang)
        ctx.dist('rotation_%dD' % n)

    # corpus first ------------------------------------------------------
    corpus = load_corpus(ctx)
    cases = corpus + cases; meta = [{'kind': c[0], 'corpus': True, 'gs': None} for c in corpus] + meta

    cf = write_cases(ctx, 'main', cases)
    ctx.log('%d cases; running implementation and model' % len(cases))
    rc_i, impl = run_impl(ctx, exe, cf)
    rc_m, model = run_model(ctx, runner, cf)
    if len(model) != len(cases):
        print('ERROR: model runner returned %d results for %d cases' % (len(model), len(cases))); sys.exit(3)
    ctx.log('comparing')

    for i, c in enumerate(cases):
        mi = model[i]; ii = impl[i] if i < len(impl) else None
        m = meta[i]; kind = c[0]
        if mi and mi[0] == -999:
            print('ERROR: model rejected case %d: %s' % (i, sx_str(c)[:200])); sys.exit(3)
        if ii is None or (ii and ii[0] == -997):
            viol('crash:kind%d' % kind, 'implementation produced no answer (crash / exception) on case %d' % i, {'case': sx_str(c), 'impl': ii})
            if ii is None: break
            continue
        try:
            m['st'] = st
            compare(ctx, c, m, ii, mi, viol, hv)
        except (IndexError, TypeError, ValueError) as ex:
            viol('crash:kind%d' % kind, 'malformed answer of the implementation on case %d (%r)' % (i, ex), {'case': sx_str(c), 'impl': ii})
    # second pass: the coordinates the sessions reported for a rank must lead back to that rank
    if st['rt']:
        rt = st['rt'][: (400 if quick else 4000)]
        rcases = [[3, G, [[[dy(x) for x in co], False, dy(EPS6), r, [], [0] * len(co)]]] for G, r, co, _ in rt]
        cf2 = write_cases(ctx, 'roundtrip', rcases)
        _, im2 = run_impl(ctx, exe, cf2); _, mo2 = run_model(ctx, runner, cf2)
        for k, (G, r, co, orig) in enumerate(rt):
            if k >= len(im2) or k >= len(mo2) or (im2[k] and im2[k][0] == -997): continue
            marg = unq(mo2[k][0][3])
            if marg < TIE: ctx.cov['tie_excluded'] += 1; continue
            ctx.count('10rt|%s|%d' % (sx_str(G), r))
            if im2[k][0][2] != r:
                viol('roundtrip:rank->coordinates->rank:session', 'the coordinates %s reported for rank %d during a session lead back to rank %d' % ([float(x) for x in co], r, im2[k][0][2]),
                     {'case': orig, 'rank': r, 'reported_coordinates': [float(x) for x in co]})
    ctx.cov['disagreements'] = st['ndis']
    ctx.cov['rule'] = ('one evaluation = one conversion / derived grid / query compared between implementation, model and spec; grids 1-4 D with dyadic origin and mesh, '
                       'rotation none / exact angles / general angles (matrix harvested from the library) / rational matrices; distinct = distinct (grid, item) text; '
                       'non-trivial = decision margin >= 1e-7 cell (others are counted under tie_excluded)')
    if not proofs_ok: proof_break_violation(ctx, st['found_input'])
    ctx.notes += [
        'theorems: rank<->indices, indices<->coordinates (any dimension, any orthogonal rotation, eps ranges), cell containment + uniqueness, outside flag, rotation round trips, '
        'generated 2-D/3-D matrices are rotations, every node of coarsened / refined / dilated / sub-grids sits where documented (rotated grids and different nmult per axis included), '
        'mirror index total for nx>=1, iterator with default and with any valid user order; C16_query_history_independent ties the session cases (one object, 5-40 interleaved const queries, '
        'delta-debugged on failure, keyed session:<wrong function>-after-<previous function>) to the pure model',
        'migration bookkeeping (CalcMigrate) is modelled in coq/C16/Migrate.v: location of samples, grid->point, point->grid (closest wins, first on ties), grid->grid with and without filling, '
        'filling point->grid (by its result) and its ball-tree variant; every value is compared with the documented rule (cells centred on the nodes, dmax as a limit on the sample kept) and with the model of the code; '
        'sessions also cover the mutating API (setX0/setDX/setNX/setRotationBy.../resetFromVector, C16_mutation_refresh)',
        'the corpus keeps the witnesses of the defects repaired in /repo (dilate, multiple/divider rotated, createSubGrid rotated) as regression cases; '
        'still open: migrate grid->point uses the corner-anchored cell (known finding migrate:grid-to-point:lower-corner-cell)',
        'places that MATERIALISE node coordinates outside class Grid, each compared stored-vs-geometry: DbGrid::reset/_createGridCoordinates (kinds 6), createCoarse/Refine/SubGrid (6), '
        'db_grid_define_coordinates after setX0/setDX/gridCopyParams (kind 16, C16_define_coordinates*), DbGrid::generateCoordinates, Db::getAllCoordinates / getAllCoordinatesMat / getSampleCoordinates, '
        'DbGrid::getCoordinatesPerSample(InPlace), DbGrid::getSlice (3-D), createFromGridShrink / createFromGridExtend (kind 17: inherited dimensions vs the input grid), getCellCoordinatesByCorner / ByCorner (3, 10); '
        'CONSUMERS of node coordinates (not materialising; listed, covered only through the conversions they call): CalcMigrate (modelled), distance_inter / db.cpp, dbtools.cpp, DbHelper.cpp, CalcGridToGrid, '
        'CalcSimpleInterpolation, KrigingSystem (image / block discretisation), ANoStat, ProjConvolution, RuleShadow, AMesh / MeshETurbo / Delaunay, Model, Polygons, CalcSimuFFT / Partition / TurningBands / SimuBoolean, '
        'SpatialIndices, Classical (stats on grids), Ball (tree on coordinates), VCloud; not reached by a comparison: DbGrid::createCoveringDb / resetFromPolygon (geometry from extents), getCellEdges / getGridEdges (compose checked functions)',
        'not covered: Rotation::setMatrixDirect validity test (isMatrixRotation / determinant), angles recovered from a matrix (atan2), gridIndices / decodeGridSorting, '
        'createFromGridExtend / Shrink, variable migration inside createCoarse / createRefine (only the geometry), C int overflow, NA coordinates']
    ctx.assumptions = ['origins, meshes and query points are dyadic rationals (< 2^40 mantissa); rotation matrices are read back from the library as exact doubles',
                       'binary64 evaluation of the conversions is compared with the exact model up to 1e-9 relative on coordinates; floor decisions whose exact margin is below 1e-7 cell are excluded',
                       'C int overflow is not modelled (indices and ranks stay far below 2^31)',
                       'EPSILON10 of AMatrix::isIdentity is modelled as the rational 1e-10 (the double differs by 4e-27)']

def derived_verdict(ctx, c, viol, what, under, site, nx_i, dx_i, x0_i, nx_m, dx_m, x0_m, spec, legacy=None):
    """derived grid geometry: impl vs spec (where node 0 has to be) and vs model (= the repaired code, proven to meet the spec).
    Returns True when the node coordinates can still be compared with the model."""
    same_model = nx_i == nx_m and vclose(dx_i, dx_m) and vclose(x0_i, x0_m)
    ok_spec = vclose(x0_i, spec)
    if not ok_spec:
        if under == 'dilate':
            key = 'derived:dilate:doubled-shift' if legacy is not None and vclose(x0_i, legacy) else 'derived:' + site
        else: key = 'derived:' + site
        viol(key, '%s: origin %s, but node 0 of the derived grid has to be at %s of the parent' % (what, [float(x) for x in x0_i], [float(x) for x in spec]),
             {'case': sx_str(c), 'impl_x0': [float(x) for x in x0_i], 'spec_x0': [float(x) for x in spec]})
        return False
    if not same_model:
        bad_counts = nx_i != nx_m or not vclose(dx_i, dx_m)
        viol(('derived:' + site + ':counts-or-mesh') if bad_counts else ('model-drift:' + under), '%s: impl (%s, %s, %s) / model (%s, %s, %s)' % (
            what, nx_i, [float(x) for x in dx_i], [float(x) for x in x0_i], nx_m, [float(x) for x in dx_m], [float(x) for x in x0_m]), {'case': sx_str(c)}, bad_counts)
        return False
    return True

def item_case(c, k):
    """single-item version of a multi-item case (cheap shrinking)"""
    if c[0] in (2, 3): return [c[0], c[1], [c[2][k]]]
    if c[0] == 7: return [7, c[1], c[2], [c[3][k]]]
    return c

def compare(ctx, c, m, ii, mi, viol, hv):
    kind = c[0]; gs = m.get('gs')
    G = c[1] if kind not in (5, 9) else None
    rd = ''
    if G is not None and kind != 0:
        rd = 'unrotated' if G[3] == [] else 'rotated'
    if kind == 1:
        nx = G[0]; minus = c[2]
        if ii[2] != 1: viol('model-drift:rotation-matrix', 'the library does not use the rotation matrix given to the model', {'case': sx_str(c)}, False); return
        ntot = math.prod(nx)
        for k, r in enumerate(c[3]):
            (idx_i, back_i), (idx_m, back_m) = ii[0][k], mi[0][k]
            valid = (0 <= r < ntot) and not minus
            ctx.count('1r|%s|%d|%d' % (sx_str(nx), r, minus), valid)
            if valid:
                # the property, on the implementation itself
                if back_i != r or not inrange(nx, idx_i):
                    viol('roundtrip:rank->indices->rank', 'rankToIndice(%d) = %s, indiceToRank gives back %d on nx=%s' % (r, idx_i, back_i, nx), {'case': sx_str([1, G, 0, [r], []])}); continue
                if idx_i != idx_of(nx, r):
                    viol('order:rankToIndice', 'rankToIndice(%d) = %s but the first index must vary fastest: %s' % (r, idx_i, idx_of(nx, r)), {'case': sx_str([1, G, 0, [r], []])}); continue
            if idx_i != idx_m or back_i != back_m:
                viol('model-drift:rankToIndice' + ('' if valid else ':out-of-range-rank'), 'impl %s / model %s for rank %d, nx=%s minusOne=%d' % (ii[0][k], mi[0][k], r, nx, minus),
                     {'case': sx_str([1, G, minus, [r], []]), 'impl': ii[0][k], 'model': mi[0][k]}, valid)
        for k, ind in enumerate(c[4]):
            r_i, back_i = ii[1][k]; r_m, back_m, rof, inr = mi[1][k]
            ctx.count('1i|%s|%s' % (sx_str(nx), sx_str(ind)), bool(inr))
            if len(ctx.cov['samples']) < 2: ctx.sample({'case': sx_str([1, G, 0, [], [ind]]), 'impl': ii[1][k], 'model': mi[1][k]})
            if inr:
                if r_i != rof:
                    viol('order:indiceToRank', 'indiceToRank(%s) = %d, expected %d (first index fastest) on nx=%s' % (ind, r_i, rof, nx), {'case': sx_str([1, G, 0, [], [ind]])}); continue
                if back_i != ind:
                    viol('roundtrip:indices->rank->indices', 'indiceToRank(%s) = %d, rankToIndice gives back %s on nx=%s' % (ind, r_i, back_i, nx), {'case': sx_str([1, G, 0, [], [ind]])}); continue
            elif r_i != -1:
                viol('range:indiceToRank', 'indiceToRank(%s) = %d for an index outside nx=%s (must be -1)' % (ind, r_i, nx), {'case': sx_str([1, G, 0, [], [ind]])}); continue
            if r_i != r_m or back_i != back_m:
                viol('model-drift:indiceToRank', 'impl %s / model %s' % (ii[1][k], mi[1][k]), {'case': sx_str([1, G, 0, [], [ind]])}, False)
    elif kind == 2:
        nx = G[0]
        if ii[-1] != 1: viol('model-drift:rotation-matrix', 'the library does not use the rotation matrix given to the model', {'case': sx_str(c)}, False); return
        for k, it in enumerate(c[2]):
            ind, pc, fr, ce, ep = it
            coor_i, err_i, idx_i, rank_i, cbi_i, alt = ii[k]
            coor_m, out_m, idx_m, rank_m, marg, cbi_m = mi[k]
            coor_i = vd(coor_i); cbi_i = vd(cbi_i); coor_m = vq(coor_m); cbi_m = vq(cbi_m); marg = unq(marg); eps = undy(ep)
            one = sx_str(item_case(c, k))
            site = '%s:%s' % (rd, 'centered' if ce else 'corner')
            if not vclose(coor_i, coor_m):
                viol('coords:indicesToCoordinate:%s%s' % (rd, ':percent' if pc else ''), 'indicesToCoordinateInPlace(%s) = %s, grid geometry gives %s' % (ind, [float(x) for x in coor_i], [float(x) for x in coor_m]), {'case': one}); continue
            if not vclose(cbi_i, cbi_m):
                viol('coords:getCoordinatesByIndice:%s' % rd, 'getCoordinatesByIndice(%s) = %s, grid geometry gives %s' % (ind, [float(x) for x in cbi_i], [float(x) for x in cbi_m]), {'case': one}); continue
            if alt != 1:
                viol('coords:entry-points-disagree', 'indiceToCoordinate / indicesToCoordinate / coordinateToIndices do not agree with the InPlace variants', {'case': one}); continue
            if marg < TIE:
                ctx.cov['tie_excluded'] += 1; ctx.count(None, False); continue
            ctx.count('2|' + one)
            if len(ctx.cov['samples']) < 3: ctx.sample({'case': one[:300], 'impl': ii[k], 'model': mi[k]})
            # the property on the implementation: indices -> coordinates -> indices
            lo, hi = (Fraction(-1, 2), Fraction(1, 2)) if ce else (Fraction(0), Fraction(1))
            pmax = max([undy(p) for p in pc] + [0]) if pc else 0; pmin = min([undy(p) for p in pc] + [0]) if pc else 0
            if fr and lo <= pmin + eps and pmax + eps < hi:
                if idx_i != ind:
                    viol('roundtrip:indices->coordinates->indices:' + site, 'node %s -> %s -> %s' % (ind, [float(x) for x in coor_i], idx_i), {'case': one}); continue
                if inrange(nx, ind) and (err_i != 0 or rank_i != rank_of(nx, ind)):
                    viol('roundtrip:rank->coordinates->rank:' + site, 'node %s (rank %d) -> %s -> rank %d (err %d)' % (ind, rank_of(nx, ind), [float(x) for x in coor_i], rank_i, err_i), {'case': one}); continue
            if idx_i != idx_m or (err_i != 0) != bool(out_m) or rank_i != rank_m:
                viol('cell:coordinateToIndices:' + site, 'point %s: impl indices %s err %d rank %d, the containing cell is %s (outside=%d, rank %d)' % (
                    [float(x) for x in coor_i], idx_i, err_i, rank_i, idx_m, out_m, rank_m), {'case': one})
    elif kind == 3:
        nx = G[0]
        if ii[-1] != 1: viol('model-drift:rotation-matrix', 'the library does not use the rotation matrix given to the model', {'case': sx_str(c)}, False); return
        for k, it in enumerate(c[2]):
            co, ce, ep, rk, dxs, sh = it
            err_i, idx_i, rank_i, ptg_i, bel_i, rc_i, belown_i, ccc_i, cor_i, alt, rc1_i = ii[k]
            out_m, idx_m, rank_m, marg, pout_m, pidx_m, pmarg, bel_m, belmarg, rc_m, belown_m, belownmarg, ccc_m, cor_m = mi[k]
            marg = unq(marg); pmarg = unq(pmarg); belmarg = unq(belmarg); belownmarg = unq(belownmarg)
            one = sx_str(item_case(c, k))
            site = '%s:%s' % (rd, 'centered' if ce else 'corner')
            if alt != 1:
                viol('coords:entry-points-disagree', 'rankToCoordinates / getCoordinatesByRank / getCoordinate / rankToCoordinate do not agree', {'case': one}); continue
            if not vclose(vd(ccc_i), vq(ccc_m)):
                viol('coords:getCellCoordinatesByCorner:%s' % rd, 'getCellCoordinatesByCorner(%d, %s) = %s, geometry gives %s' % (rk, sh, [float(x) for x in vd(ccc_i)], [float(x) for x in vq(ccc_m)]), {'case': one}); continue
            if not vclose(vd(cor_i), vq(cor_m)):
                viol('coords:getCoordinatesByCorner:%s' % rd, 'getCoordinatesByCorner(%s) = %s, geometry gives %s' % (sh, [float(x) for x in vd(cor_i)], [float(x) for x in vq(cor_m)]), {'case': one}); continue
            if marg >= TIE:
                ctx.count('3|' + one)
                if idx_i != idx_m or (err_i != 0) != bool(out_m) or rank_i != rank_m:
                    viol('cell:coordinateToIndices:' + site, 'point %s: impl indices %s err %d rank %d; the containing cell is %s (outside=%d, rank %d)' % (
                        [float(undy(x)) for x in co], idx_i, err_i, rank_i, idx_m, out_m, rank_m), {'case': one}); continue
            else:
                ctx.cov['tie_excluded'] += 1; ctx.count(None, False)
            if pmarg >= TIE:
                ctx.count('3p|' + one)
                if ptg_i != [] and (ptg_i[1] != pidx_m or (ptg_i[0] != 0) != bool(pout_m)):
                    viol('cell:point_to_grid:' + rd, 'point %s: point_to_grid gives %s, nearest node is %s (outside=%d)' % ([float(undy(x)) for x in co], ptg_i, pidx_m, pout_m), {'case': one}); continue
                if rc_i != rc_m:
                    viol('cell:coordinateToRank:%s:centered' % rd, 'point %s: centered rank %d, nearest node has rank %d' % ([float(undy(x)) for x in co], rc_i, rc_m), {'case': one}); continue
                if rc_m >= 0 and belownmarg >= TIE and belown_i != 1:
                    viol('cell:sampleBelongsToCell:own-cell:' + rd, 'point %s is assigned to node %d but sampleBelongsToCell says it is not in that cell' % ([float(undy(x)) for x in co], rc_i), {'case': one}); continue
            else:
                ctx.cov['tie_excluded'] += 1; ctx.count(None, False)
            if belmarg >= TIE:
                ctx.count('3b|' + one)
                if bool(bel_i) != bool(bel_m):
                    viol('cell:sampleBelongsToCell:' + rd + (':dxsPerCell' if dxs else ''), 'point %s, cell %d: impl %d, geometry %d' % ([float(undy(x)) for x in co], rk, bel_i, bel_m), {'case': one}); continue
            else:
                ctx.cov['tie_excluded'] += 1; ctx.count(None, False)
    elif kind == 4:
        op = c[2]; a = c[3]; b = c[4]
        name = ['multiple', 'divider', 'dilate'][op]
        nonuni = len(set(a)) > 1
        opt = ('cell' if b else 'point') if op < 2 else ('extend' if b == 1 else 'shrink')
        rot = rotdesc(gs, hv) if gs else rd
        site = '%s:%s:%s%s' % (name, opt, rot, ':nonuniform' if (nonuni and op < 2) else '')
        ctx.count('4|' + sx_str(c), True)
        if len(ctx.cov['samples']) < 4: ctx.sample({'case': sx_str(c)[:300], 'impl': ii, 'model': mi})
        if mi[0] == 0 or ii[0] == 0:
            if mi[0] != ii[0]: viol('model-drift:' + site, 'impl ok=%d model ok=%d' % (ii[0], mi[0]), {'case': sx_str(c)}, False)
            return
        if ii[4] != 1: viol('model-drift:rotation-matrix', 'the library does not use the rotation matrix given to the model', {'case': sx_str(c)}, False); return
        nx_i, dx_i, x0_i = ii[1], vd(ii[2]), vd(ii[3])
        nx_m, dx_m, x0_m, spec = mi[1], vq(mi[2]), vq(mi[3]), vq(mi[4])
        legacy = vq(mi[5]) if len(mi) > 5 and mi[5] else None
        derived_verdict(ctx, c, viol, 'Grid::%s(%s, %s)' % (name, a, b), name, site, nx_i, dx_i, x0_i, nx_m, dx_m, x0_m, spec, legacy)
    elif kind == 5:
        nx, ix = c[1], c[2]
        ctx.count('5|%d|%d' % (nx, ix), True)
        ri = ii[0]; rm, refl = mi
        want = rm[1] if rm[0] == 1 else None           # proven: in range, = reflected index for nx >= 2, 0 for nx = 1 (C16_mirror)
        if ri[0] == 0:
            viol('generateMirrorIndex:nx=%d' % nx if nx == 1 else 'generateMirrorIndex:no-termination',
                 'Grid::generateMirrorIndex(%d, %d) does not return within 2 s; it has to return %s' % (nx, ix, want),
                 {'case': sx_str(c), 'child_status': 'timeout' if ri[1] == 1 else 'crash'})
        elif want is None:
            viol('model-drift:generateMirrorIndex', 'impl %s / model %s' % (ri, rm), {'case': sx_str(c)}, False)
        elif ri[1] != want or (nx >= 2 and want != refl):
            viol('generateMirrorIndex:value', 'Grid::generateMirrorIndex(%d, %d) = %d, the reflected index is %d' % (nx, ix, ri[1], want), {'case': sx_str(c)})
    elif kind == 6:
        op = c[2]
        name = ['DbGrid::create', 'createCoarse', 'createRefine', 'createSubGrid'][op]
        rot = rotdesc(gs, hv) if gs else rd
        nonuni = op in (1, 2) and len(set(c[3])) > 1
        opt = ('cell' if c[4] else 'point') if op in (1, 2) else ''
        site = ':'.join(x for x in [name, opt, rot, 'nonuniform' if nonuni else ''] if x)
        nx_i, dx_i, x0_i, M_i, nodes_i, stored_i, mok, ntot_i = ii[:8]
        zc_i = ii[8] if len(ii) > 8 else []
        nx_m, dx_m, x0_m, nodes_m, spec = mi[:5]
        zc_m = mi[5] if len(mi) > 5 else []
        dx_i = vd(dx_i); x0_i = vd(x0_i); dx_m = vq(dx_m); x0_m = vq(x0_m); spec = vq(spec)
        ctx.count('6|' + sx_str(c), True)
        if len(ctx.cov['samples']) < 4: ctx.sample({'case': sx_str(c)[:300], 'impl_x0': [float(x) for x in x0_i], 'model_x0': [float(x) for x in x0_m]})
        if mok != 1: viol('model-drift:rotation-matrix', 'the library does not use the rotation matrix given to the model', {'case': sx_str(c)}, False); return
        if gs is not None:
            Mp = grid_matrix(gs, hv)
            Mi = [[undy(x) for x in r] for r in M_i]
            if gs['rot'] is not None and Mi != Mp:
                viol('derived:%s:rotation-not-inherited' % name, 'the derived grid does not have the rotation matrix of its parent', {'case': sx_str(c)}); return
        under = ['create', 'multiple', 'divider', 'createSubGrid'][op]
        usite = ':'.join(x for x in [under, opt, rot, 'nonuniform' if nonuni else ''] if x)
        if ntot_i != math.prod(nx_i):
            viol('derived:%s:sample-count' % name, '%s: %d samples for counts %s' % (name, ntot_i, nx_i), {'case': sx_str(c)}); return
        if not derived_verdict(ctx, c, viol, name, under, usite, nx_i, dx_i, x0_i, nx_m, dx_m, x0_m, spec): return
        for r in range(len(nodes_m)):
            ctx.count(None, False)
            if r >= len(nodes_i) or not vclose(vd(nodes_i[r]), vq(nodes_m[r])):
                viol('coords:DbGrid::getCoordinate:' + name, 'node %d: getCoordinate gives %s, grid geometry gives %s' % (r, [float(x) for x in vd(nodes_i[r])] if r < len(nodes_i) else None, [float(x) for x in vq(nodes_m[r])]), {'case': sx_str(c), 'node': r}); break
            if stored_i and not vclose(vd(stored_i[r]), vq(nodes_m[r])):
                viol('coords:DbGrid::stored-coordinates:' + name, 'node %d: stored coordinates %s, grid geometry gives %s' % (r, [float(x) for x in vd(stored_i[r])], [float(x) for x in vq(nodes_m[r])]), {'case': sx_str(c), 'node': r}); break
        if op in (1, 2) and zc_m:
            if len(zc_i) != len(zc_m): viol('derived:%s:values-missing' % name, 'the migrated variable is missing on the derived grid', {'case': sx_str(c)})
            else:
                for k in range(len(zc_m)):
                    if not migrate_verdict(ctx, viol, name + (':cell' if c[4] else ':point'), 'node %d of the derived grid' % k, optd(zc_i[k]), zc_m[k],
                                           {'case': sx_str(c), 'node': k}, True): break
        if not stored_i and len(nodes_m) > 0:
            viol('coords:DbGrid::stored-coordinates:missing', '%s: the coordinate columns are missing' % name, {'case': sx_str(c)})
    elif kind == 7:
        vals_i, mok, err = ii
        if mok != 1: viol('model-drift:rotation-matrix', 'the library does not use the rotation matrix given to the model', {'case': sx_str(c)}, False); return
        if err != 0: viol('crash:migrate', 'migrate returned an error', {'case': sx_str(c)}); return
        rot = rotdesc(gs, hv) if gs else rd
        for k, p in enumerate(c[3]):
            rm, marg, rs, margs, rold = mi[k]; marg = unq(marg); margs = unq(margs)
            one = sx_str(item_case(c, k))
            if marg < TIE or margs < 20 * TIE:      # 2e-6: the nearest-node rule is also accepted with the default eps of 1e-6
                ctx.cov['tie_excluded'] += 1; ctx.count(None, False); continue
            ctx.count('7|' + one)
            if vals_i[k] != rs:
                key = 'migrate:grid-to-point:lower-corner-cell' if vals_i[k] == rold else 'migrate:grid-to-point:cell-assignment:' + rot
                viol(key, 'migrate(grid->point): point %s receives %s, but %s' % ([float(undy(x)) for x in p], 'the value of node %d' % vals_i[k] if vals_i[k] >= 0 else 'no value', 'its closest node (the centre of the cell containing it) is node %d' % rs if rs >= 0 else 'it is in no cell of the grid'),
                     {'case': one, 'impl_rank': vals_i[k], 'nearest_node_rank': rs, 'model_of_code_rank': rm})
            elif vals_i[k] != rm:
                viol('model-drift:migrate:grid-to-point', 'impl assigns node %d (= nearest node), the model of st_locate_point_on_grid gives %d' % (vals_i[k], rm), {'case': one}, False)
    elif kind == 8:
        nx = G[0]; k = c[2]; order = c[3]; ntot = math.prod(nx)
        ctx.count('8|' + sx_str(c), True)
        if not order:
            seq_i = ii[1]; seq_m = mi[1]
            want = [idx_of(nx, min(j, ntot - 1)) for j in range(k)]
            if seq_i != want:
                j = next(j for j in range(k) if j >= len(seq_i) or seq_i[j] != want[j])
                viol('iterator:default-order', 'iteratorNext call %d returns %s, expected node %s' % (j, seq_i[j] if j < len(seq_i) else None, want[j]), {'case': sx_str(c)})
            elif seq_i != seq_m:
                viol('model-drift:iterator', 'impl and model sequences differ', {'case': sx_str(c)}, False)
        else:
            # requested order: order[0] is the fastest space dimension (1-based, as iteratorInit validates it)
            def want_it(it):
                out = [0] * len(nx)
                for o in order:
                    d = abs(o) - 1; out[d] = it % nx[d]; it //= nx[d]
                return out
            want = [want_it(min(j, ntot - 1)) for j in range(k)]
            seq_m = [x[1] if x[0] == 1 else None for x in mi[1]] if mi[0] == 1 else None
            if ii[0] == 0:
                viol('iterator:user-order', 'iteratorInit(%s) is accepted, then iteratorNext %s' % (order, 'never returns' if ii[1] == 1 else 'crashes'),
                     {'case': sx_str(c), 'expected': want})
            elif ii[1] != want:
                viol('iterator:user-order', 'iteratorInit(%s): iteratorNext returns %s, expected %s (order[0] is the fastest dimension)' % (order, ii[1], want), {'case': sx_str(c), 'expected': want})
            elif ii[1] != seq_m:
                viol('model-drift:iterator:user-order', 'impl %s / model %s' % (ii[1], seq_m), {'case': sx_str(c)}, False)
    elif kind == 17:
        nxc, dxc, x0c, rows, mok = ii
        if mok != 1: viol('model-drift:rotation-matrix', 'the library does not use the rotation matrix given to the model', {'case': sx_str(c)}, False); return
        name = 'createFromGridShrink' if c[2] == 0 else 'createFromGridExtend'
        rot = rotdesc(gs, hv) if gs else rd
        ctx.count('17|' + sx_str(c))
        for r, (cc, pc, sc) in enumerate(rows):
            if not vclose(vd(cc), vd(pc)):
                viol('derived:%s:%s' % (name, rot), '%s: node %d of the new grid is at %s (inherited dimensions), the corresponding node of the input grid at %s' % (name, r, [float(x) for x in vd(cc)], [float(x) for x in vd(pc)]), {'case': sx_str(c), 'node': r}); break
            if not vclose(vd(sc), vd(cc)):
                viol('coords:DbGrid::stored-coordinates:%s' % name, '%s: node %d: stored coordinates %s, getCoordinate %s' % (name, r, [float(x) for x in vd(sc)], [float(x) for x in vd(cc)]), {'case': sx_str(c), 'node': r}); break
    elif kind in (14, 16):
        qs = c[2]
        if len(ii) != len(qs) + 1:
            viol('crash:session', 'the session produced %d answers for %d items' % (len(ii) - 1, len(qs)), {'case': sx_str(c)}); return
        if ii[-1] != 1: viol('session:rotation-after-mutation', 'after setRotation... / resetFromVector the rotation matrix of the object is not the requested one (stale cached rotation)', {'case': sx_str(c)}); return
        bad = None
        for p, q in enumerate(qs):
            if q[0] >= 100: continue
            marg = unq(mi[p][1])
            if q[0] in (4, 19, 10, 5, 22) and marg < TIE: ctx.cov['tie_excluded'] += 1; ctx.count(None, False)
            else: ctx.count('14|%s|%d|%s' % (sx_str(G), p, sx_str(q)))
            w = session_wrong(q, ii[p], mi[p][0], marg)
            if w: bad = (p, w); break
        if bad is not None:
            p, w = bad
            small = session_shrink(ctx, G, qs, p, kind)
            fn = QNAME.get(small[-1][0], '?'); prev = QNAME.get(small[-2][0], '?') if len(small) > 1 else None
            key = 'session:%s-after-%s' % (fn, prev) if prev else 'session:%s-alone' % fn
            viol(key, 'one %s object, %d items (mutations included): the answer of %s%s is wrong: %s (shrunk from %d items)' % (
                'Grid' if kind == 14 else 'DbGrid', len(small), fn, ' right after ' + prev if prev else '', w, len(qs)),
                {'case': sx_str([kind, G, small]), 'items': [QNAME.get(q[0]) for q in small], 'original_case': sx_str(c)})
    elif kind == 10:
        nx = G[0]; qs = c[2]; ntot = math.prod(nx)
        if len(ii) != len(qs) + 1:
            viol('crash:session', 'the session produced %d answers for %d queries' % (len(ii) - 1, len(qs)), {'case': sx_str(c)}); return
        if ii[-1] != 1: viol('model-drift:rotation-matrix', 'the library does not use the rotation matrix given to the model', {'case': sx_str(c)}, False); return
        bad = None
        coords = {}      # rank -> {dim: value} from getCoordinate-like answers; rank -> full vector
        for p, q in enumerate(qs):
            marg = unq(mi[p][1])
            decision = q[0] in (4, 19, 10, 5, 22)
            if decision and marg < TIE: ctx.cov['tie_excluded'] += 1; ctx.count(None, False)
            else: ctx.count('10|%s|%s' % (sx_str(G), sx_str(q)))
            w = session_wrong(q, ii[p], mi[p][0], marg)
            if w and bad is None: bad = (p, w)
            f = q[0]
            # the property on the answers themselves
            if w is None and f == 2 and 0 <= q[1] < ntot and (not inrange(nx, ii[p]) or rank_of(nx, ii[p]) != q[1]) and bad is None:
                bad = (p, 'rankToIndice(%d) = %s is not the node of that rank' % (q[1], ii[p]))
            if w is None and f == 3 and inrange(nx, q[1]) and (not (0 <= ii[p] < ntot) or idx_of(nx, ii[p]) != q[1]) and bad is None:
                bad = (p, 'indiceToRank(%s) = %s is not the rank of that node' % (q[1], ii[p]))
            if f in (0, 1, 20) and 0 <= q[1] < ntot: coords.setdefault(q[1], {})[q[2]] = undy(ii[p])
            if f in (6, 9, 18) and 0 <= q[1] < ntot: coords[q[1]] = dict(enumerate(vd(ii[p])))
        if len(ctx.cov['samples']) < 6 and len(qs) > 8: ctx.sample({'session': sx_str(c)[:400], 'answers': str(ii)[:300]})
        if bad is not None:
            p, w = bad
            small = session_shrink(ctx, G, qs, p)
            fn = QNAME.get(small[-1][0], '?'); prev = QNAME.get(small[-2][0], '?') if len(small) > 1 else None
            key = 'session:%s-after-%s' % (fn, prev) if prev else 'session:%s-alone' % fn
            viol(key, 'one object, %d queries: the answer of %s%s is wrong: %s (shrunk from %d queries; the wrong query alone gives the right answer: %s)' % (
                len(small), fn, ' right after ' + prev if prev else '', w, len(qs), 'yes' if prev else 'no'),
                {'case': sx_str([10, G, small]), 'queries': [QNAME.get(q[0]) for q in small], 'original_case': sx_str(c)})
            return
        # rank -> coordinates (as answered in this session) -> rank is checked in a second pass on the implementation
        for r, dct in coords.items():
            if len(dct) == len(nx) and all(v is not None for v in dct.values()):
                m['st']['rt'].append((G, r, [dct[d] for d in range(len(nx))], sx_str(c)))
    elif kind == 15:
        vals_i, mok, err = ii[:3]
        if mok != 1: viol('model-drift:rotation-matrix', 'the library does not use the rotation matrix given to the model', {'case': sx_str(c)}, False); return
        if err != 0 or len(vals_i) != len(mi): viol('crash:migrate', 'interpolated migration failed', {'case': sx_str(c)}); return
        rot = rotdesc(gs, hv) if gs else rd
        for k, p in enumerate(c[6]):
            code, spec, marg, old = optq(mi[k][0]), optq(mi[k][1]), unq(mi[k][2]), optq(mi[k][3])
            one = sx_str([15, c[1], c[2], c[3], c[4], c[5], [p]])
            if marg < Fraction(1, 1000): ctx.cov['tie_excluded'] += 1; ctx.count(None, False); continue
            ctx.count('15|' + one)
            v = optd(vals_i[k])
            same = lambda a, b: (a is None and b is None) or (a is not None and b is not None and close_enough(float(a), float(b), 1e-9))
            if c[5] == [] and not same(v, spec):
                # offsets taken along the world axes (the code before its repair) give the former key
                key = 'migrate:grid-to-point:interpolation:' + (rot if same(v, old) else 'unmodelled')
                viol(key, 'interpolated migration: point %s receives %s, the multilinear interpolation in the frame of the grid gives %s (model of the code: %s)' % (
                    [float(undy(x)) for x in p[1]], None if v is None else float(v), None if spec is None else float(spec), None if code is None else float(code)), {'case': one})
            elif not same(v, code):
                viol('model-drift:migrate:interpolation', 'impl %s / model %s' % (v, code), {'case': one}, False)
    elif kind in (11, 12, 13):
        vals_i, mok, err = ii[:3]
        if mok != 1: viol('model-drift:rotation-matrix', 'the library does not use the rotation matrix given to the model', {'case': sx_str(c)}, False); return
        if err != 0: viol('crash:migrate', 'migrate returned an error', {'case': sx_str(c)}); return
        if len(vals_i) != len(mi): viol('crash:migrate', 'migrate returned %d values for %d targets' % (len(vals_i), len(mi)), {'case': sx_str(c)}); return
        if kind == 11:
            fl = c[5]; dmax = c[4]
            path = 'point-to-grid' + (':fill' if fl else '') + (':ball' if fl == 2 else '')
            ctx.dist('migrate_' + path)
            # expandPointToGrid indexes the samples through a compacted list: with masked or undefined samples its sweep is
            # not modelled (only the documented result is checked, under its own key)
            masked = fl == 1 and any((not p[0]) or p[2] == [] for p in c[6])
            for k in range(len(mi)):
                if not migrate_verdict(ctx, viol, path, 'node %d' % k, optd(vals_i[k]), mi[k],
                                       {'case': sx_str(c), 'node': k}, dmax == [], other='masked-samples' if masked else None): break
        elif kind == 12:
            dmax = c[5]
            # DbGrid::locateDataInGrid(data, {}, centered, useSel=true): one rank per ACTIVE sample
            nact = sum(1 for p in c[6] if p[0])
            locm = min([unq(mi[k][7]) for k in range(len(c[6]))] + [1])
            for which, lst, col in (('corner', ii[3], 5), ('centered', ii[4], 6)):
                if locm < TIE: ctx.cov['tie_excluded'] += 1; continue
                ctx.count('12loc|' + which + sx_str(c)[:200])
                full = [mi[k][col] for k, p in enumerate(c[6]) if p[0]]
                bug = [mi[k][col] for k, p in enumerate(c[6][:nact]) if p[0]]
                if lst == full: continue
                if len(lst) != nact and lst == bug:
                    viol('locateDataInGrid:useSel:sample-count', 'locateDataInGrid(useSel=true) returns %d ranks for %d active samples (%d samples): the loop stops at the number of active samples' % (len(lst), nact, len(c[6])),
                         {'case': sx_str(c), 'returned': lst, 'expected': full})
                else:
                    viol('locateDataInGrid:rank:' + which, 'locateDataInGrid(centered=%s) returns %s, the cells are %s' % (which == 'centered', lst, full), {'case': sx_str(c), 'returned': lst, 'expected': full})
                break
            for k, p in enumerate(c[6]):
                one = [12, c[1], c[2], c[3], c[4], c[5], [p]]
                migrate_verdict(ctx, viol, 'grid-to-point', 'point %s' % [float(undy(x)) for x in p[1]], optd(vals_i[k]), mi[k][:5], {'case': sx_str(one)}, dmax == [])
        else:
            dmax = c[6]; path = 'grid-to-grid' + (':fill' if c[7] else '')
            ctx.dist('migrate_' + path + ':' + str(m.get('child', 'corpus')))
            for k in range(len(mi)):
                if not migrate_verdict(ctx, viol, path, 'output node %d' % k, optd(vals_i[k]), mi[k], {'case': sx_str(c), 'node': k}, dmax == []): break
    elif kind == 9:
        n = c[1]
        M_i, flag_i, Minv_i, vec_i = ii[:4]
        e2, M3, ang2 = ii[4], ii[5], ii[6]
        gen_m, flag_m, vec_m = mi
        M_i = [[undy(x) for x in r] for r in M_i]; Minv_i = [[undy(x) for x in r] for r in Minv_i]
        Mh = [[undy(x) for x in r] for r in c[4]]
        ctx.count('9|' + sx_str(c[:3]), True)
        if M_i != Mh: viol('model-drift:rotation-matrix', 'Rotation::setAngles is not deterministic', {'case': sx_str(c)}, False); return
        gen = [vq(r) for r in gen_m]
        if any(abs(float(M_i[i][j] - gen[i][j])) > 1e-14 for i in range(n) for j in range(n)):
            viol('rotation:matrix-from-angles:%dD' % n, 'rotation matrix %s differs from the polynomial in (cos, sin) %s' % ([[float(x) for x in r] for r in M_i], [[float(x) for x in r] for r in gen]), {'case': sx_str(c)}); return
        if Minv_i != transpose(M_i):
            viol('rotation:inverse-is-not-transpose:%dD' % n, 'inverse matrix is not the transpose of the direct one', {'case': sx_str(c)}); return
        if flag_i != flag_m:
            viol('model-drift:rotation:isRotated', 'isRotated %d / model %d' % (flag_i, flag_m), {'case': sx_str(c)}, False); return
        M3 = [[undy(x) for x in r] for r in M3]
        if e2 != 0:
            viol('rotation:setMatrixDirect-rejects-own-matrix:%dD' % n, 'the matrix built from the angles is rejected by setMatrixDirect', {'case': sx_str(c)}); return
        if any(abs(float(M3[i][j] - M_i[i][j])) > 1e-9 for i in range(n) for j in range(n)):
            gimbal = n == 3 and abs(float(M_i[2][0])) > 1 - 1e-12
            viol('rotation:matrix->angles->matrix:%dD%s' % (n, ':gimbal-lock' if gimbal else ''),
                 'angles %s give the matrix %s; the angles recovered from it %s give %s' % ([float(undy(a)) for a in c[2]], [[float(x) for x in r] for r in M_i],
                                                                                         [float(undy(a)) for a in ang2], [[float(x) for x in r] for r in M3]), {'case': sx_str(c)}); return
        for k, v in enumerate(c[5]):
            a_i, b_i, d_i = [vd(x) for x in vec_i[k]]; a_m, b_m, d_m = [vq(x) for x in vec_m[k]]
            v0 = vd(v)
            if not vclose(d_i, v0):
                viol('roundtrip:rotateInverse(rotateDirect):%dD' % n, 'v=%s -> %s -> %s' % ([float(x) for x in v0], [float(x) for x in a_i], [float(x) for x in d_i]), {'case': sx_str(c[:5] + [[v]])}); break
            if not vclose(a_i, a_m):
                viol('rotation:rotateDirect:%dD' % n, 'rotateDirect(%s) = %s, R v = %s' % ([float(x) for x in v0], [float(x) for x in a_i], [float(x) for x in a_m]), {'case': sx_str(c[:5] + [[v]])}); break
            if not vclose(b_i, b_m):
                viol('rotation:rotateInverse:%dD' % n, 'rotateInverse(%s) = %s, R^T v = %s' % ([float(x) for x in v0], [float(x) for x in b_i], [float(x) for x in b_m]), {'case': sx_str(c[:5] + [[v]])}); break

def load_corpus(ctx):
    p = os.path.join(VERIF, 'corpus', ctx.pid + '.sx')
    if not os.path.exists(p): return []
    return [sx_parse(l) for l in open(p) if l.strip() and not l.startswith('#')]

if __name__ == '__main__':
    main(run)

(* Generic model runner: one s-expression case per input line, one result per output line.
   Links against the extracted [Model] (which defines sx = I of Z | L of sx list and run). *)
open Model
let parse (s : string) : sx =
  let n = String.length s in
  let pos = ref 0 in
  let rec skip () = if !pos < n && (s.[!pos] = ' ' || s.[!pos] = '\t' || s.[!pos] = '\r') then (incr pos; skip ()) in
  let rec item () : sx =
    skip ();
    if !pos >= n then failwith "eof"
    else if s.[!pos] = '(' then begin
      incr pos;
      let acc = ref [] in
      let rec loop () =
        skip ();
        if !pos >= n then failwith "unclosed"
        else if s.[!pos] = ')' then incr pos
        else (acc := item () :: !acc; loop ()) in
      loop (); L (List.rev !acc) end
    else begin
      let st = !pos in
      while !pos < n && s.[!pos] <> ' ' && s.[!pos] <> '(' && s.[!pos] <> ')' && s.[!pos] <> '\t' && s.[!pos] <> '\r' do incr pos done;
      I (Big_int_Z.big_int_of_string (String.sub s st (!pos - st))) end in
  item ()
let rec print (b : Buffer.t) (x : sx) : unit =
  match x with
  | I z -> Buffer.add_string b (Big_int_Z.string_of_big_int z)
  | L l -> Buffer.add_char b '(';
           List.iteri (fun i y -> if i > 0 then Buffer.add_char b ' '; print b y) l;
           Buffer.add_char b ')'
let () =
  let ic = if Array.length Sys.argv > 1 then open_in Sys.argv.(1) else stdin in
  (try while true do
     let line = input_line ic in
     if String.length line > 0 && line.[0] <> '#' then begin
       let b = Buffer.create 256 in
       (try print b (run (parse line)) with
        | Stack_overflow -> Buffer.add_string b "(-998 1)"
        | Failure m -> Buffer.add_string b "(-998 2)");
       print_string (Buffer.contents b); print_newline () end
   done with End_of_file -> ())

#!/usr/bin/env python3
"""C10 carrier (3): what KrigingSystem::estimate() keeps from one target to the next -> coq/C10/gen/KSysCache.v

In estimate() every block of the form `if (COND) { ... f(); ... }` whose condition mentions _neigh->isUnchanged() is a
reuse decision: the member functions called inside are executed only when one of the alternatives of COND holds; what
they write is otherwise kept from the previous target.  Extracted:
   * the alternatives of each condition (local booleans defined by `b = x || y;` are expanded)
   * the members written by the closure of the guarded calls (the cached fields of the block) and the members read
   * a block that READS a field written by an earlier guarded block must be recomputed at least as often: every
     alternative of the earlier condition must be an alternative of its own condition
   * a guarded closure that looks at the continuous option (getFlagContinuous) or at the collocated ranks (_rankColCok)
     depends on the target itself: the corresponding alternative must be in its condition
Output: one ctable (types of C10.ModelCache): inputs = the alternatives, one keyed field per block, deps = what must trigger a
recomputation, key = what does; one setter `next target` writing every input.  FAILS CLOSED on an estimate() without
such blocks or with a condition it cannot split.
"""
import re, sys, os

class TranslationError(Exception):
    pass

def strip(s):
    s = re.sub(r'/\*.*?\*/', lambda m: re.sub(r'[^\n]', ' ', m.group(0)), s, flags=re.S)
    s = re.sub(r'//[^\n]*', '', s)
    return re.sub(r'"(?:[^"\\\n]|\\.)*"', '""', s)

def match(s, i, o, c):
    d = 0
    for j in range(i, len(s)):
        if s[j] == o: d += 1
        elif s[j] == c:
            d -= 1
            if d == 0: return j
    raise TranslationError('unbalanced')

def translate(repo):
    src = strip(open(os.path.join(repo, 'src/Estimation/KrigingSystem.cpp')).read())
    hdr = strip(open(os.path.join(repo, 'include/Estimation/KrigingSystem.hpp')).read())
    members = set(re.findall(r'\b(_[A-Za-z]\w*)\s*;', hdr))
    methods = {}
    for m in re.finditer(r'\bKrigingSystem::(~?\w+)\s*\(', src):
        p = match(src, m.end() - 1, '(', ')')
        k = p + 1
        while k < len(src) and src[k] not in '{;': k += 1
        if k >= len(src) or src[k] == ';': continue
        e = match(src, k, '{', '}')
        methods[m.group(1)] = ' '.join(src[k + 1:e].split())
    if 'estimate' not in methods: raise TranslationError('KrigingSystem::estimate not found')
    body = methods['estimate']
    WRITE = r'(?:\s*(?:\[[^\]]*\]\s*)*=(?!=)|\s*\.\s*(?:resize|fill|prodMatMatInPlace|prodMatVecInPlace|setValue|invert|clear|push_back|setColumn|reset\w*|linearCombination|set\w*|move|addMatInPlace)\s*\()'
    def out_arg(b, st, en):
        # handed over as the output argument: last argument of a ...InPlace(...) call, first one of evalCovKriging / eval0MatInPlace
        before = b[max(0, st - 80):st]; after = b[en:en + 3].lstrip()
        if re.search(r'InPlace\s*\([^()]*$', before) and after.startswith(')') and not before.rstrip().endswith('&'): return True
        return bool(re.search(r'\b(evalCovKriging|eval0MatInPlace)\s*\(\s*$', before))
    def is_write(b, m):
        if re.match(WRITE, b[m.end():m.end() + 40]): return True
        before = b[max(0, m.start() - 80):m.start()]
        return out_arg(b, m.start(), m.end())
    def rw(name, seen=None):
        seen = seen if seen is not None else set()
        if name in seen or name not in methods: return set(), set(), set()
        seen.add(name)
        b = methods[name]; R, W, F = set(), set(), set()
        for m in re.finditer(r'(?<![\w.>])(_[A-Za-z]\w*)\b', b):
            if m.group(1) not in members: continue
            (W if is_write(b, m) else R).add(m.group(1))
        if 'getFlagContinuous' in b: F.add('continuous')
        if re.search(r'_rankColCok\b', b): F.add('colcok')
        for m in re.finditer(r'(?<![\w.>:])(\w+)\s*\(', b):
            if m.group(1) in methods and m.group(1) != name:
                r2, w2, f2 = rw(m.group(1), seen); R |= r2; W |= w2; F |= f2
        return R, W, F
    # local booleans
    locals_ = {}
    for m in re.finditer(r'\b(\w+)\s*=\s*([^;]*\|\|[^;]*);', body):
        locals_[m.group(1)] = m.group(2)
    blocks = []
    for m in re.finditer(r'\bif\s*\(', body):
        p = match(body, m.end() - 1, '(', ')')
        cond = body[m.end():p]
        def expand(c):
            for _ in range(5):
                for n, v in locals_.items(): c = re.sub(r'(?<![\w.>])%s\b' % re.escape(n), '(' + v + ')', c)
            return c
        cexp = expand(cond)
        if 'isUnchanged' not in cexp: continue
        if '&&' in cexp: raise TranslationError('reuse condition with && : ' + cond)
        alts = sorted(set(re.sub(r'[\s()]', '', a).replace('_neigh->', '') .strip() for a in re.sub(r'[()]', ' ', cexp).split('||') if a.strip()))
        alts = [re.sub(r'^!isUnchanged$', 'nbgh-changed', re.sub(r'^!_rankColCok\.empty$', 'colcok', re.sub(r'^getFlagContinuous$', 'continuous', re.sub(r'^OptDbg::force$', 'debug-target', re.sub(r'^_flagDataChanged$', 'data-changed', a))))) for a in alts]
        k = p + 1
        while body[k] == ' ': k += 1
        if body[k] != '{': e = body.index(';', k); inner = body[k:e]
        else: e = match(body, k, '{', '}'); inner = body[k + 1:e]
        calls = [c for c in re.findall(r'(?<![\w.>:])(\w+)\s*\(', inner) if c in methods]
        R, W, F = set(), set(), set()
        for c in calls:
            r2, w2, f2 = rw(c); R |= r2; W |= w2; F |= f2
        blocks.append({'cond': cond, 'alts': alts, 'calls': calls, 'reads': R, 'writes': W, 'flags': F})
    if not blocks: raise TranslationError('no reuse decision found in KrigingSystem::estimate')
    # ---- every member written while a target is processed: how does it get its value for THIS target?
    def first_events(name, seen, out):
        """first access (W/R) of each member in execution order of the text, callees followed once"""
        if name in seen or name not in methods: return
        seen.add(name)
        b = methods[name]
        for m in re.finditer(r'(?<![\w.>:])(\w+)\s*\(|(?<![\w.>])(_[A-Za-z]\w*)\b', b):
            if m.group(1):
                if m.group(1) in methods and m.group(1) != name: first_events(m.group(1), seen, out)
            elif m.group(2) in members:
                out.setdefault(m.group(2), 'W' if (re.match(WRITE, b[m.end():m.end() + 40]) or out_arg(b, m.start(2), m.end())) else 'R')
    # steps of estimate(): guarded blocks and the calls outside them, in textual order
    spans = []
    for m in re.finditer(r'\bif\s*\(', body):
        p = match(body, m.end() - 1, '(', ')')
        cexp = body[m.end():p]
        for n_, v in locals_.items(): cexp = re.sub(r'(?<![\w.>])%s\b' % re.escape(n_), v, cexp)
        if 'isUnchanged' not in cexp: continue
        k = p + 1
        while body[k] == ' ': k += 1
        e = match(body, k, '{', '}') if body[k] == '{' else body.index(';', k)
        spans.append((m.start(), e))
    steps = []
    for m in re.finditer(r'(?<![\w.>:])(\w+)\s*\(', body):
        if m.group(1) not in methods: continue
        g = [i for i, (a, e) in enumerate(spans) if a <= m.start() <= e]
        steps.append((m.group(1), g[0] if g else None))
    guarded_w = {}
    for i, b_ in enumerate(blocks):
        for w_ in b_['writes']: guarded_w.setdefault(w_, set()).add(i)
    pertarget = {}      # member -> first access in the part executed for every target
    seen = set()
    for name, g in steps:
        if g is None: first_events(name, seen, pertarget)
    # direct accesses in estimate() itself
    for m in re.finditer(r'(?<![\w.>])(_[A-Za-z]\w*)\b', body):
        if m.group(1) in members and not any(a <= m.start() <= e for a, e in spans):
            pertarget.setdefault(m.group(1), 'W' if re.match(WRITE, body[m.end():m.end() + 40]) else 'R')
    allw = set(guarded_w)
    for name, g in steps:
        if g is None: allw |= rw(name)[1]
    setup_w = set()      # what the constructor / isReady / the option setters establish once
    for n_ in methods:
        if n_ in ('KrigingSystem', 'isReady') or n_.startswith('setKrigOpt') or n_.startswith('updKrigOpt') or n_.startswith('_reset') or n_.startswith('_bayesPre'):
            setup_w |= rw(n_)[1]
    kmembers = []
    for m_ in sorted(allw):
        if m_ in guarded_w and pertarget.get(m_) != 'W': cls = 'KGuarded %d' % min(guarded_w[m_])
        elif pertarget.get(m_) == 'W': cls = 'KPerTarget'
        else: cls = 'KCarried'
        kmembers.append((m_, cls))
    atoms = sorted(set(a for b in blocks for a in b['alts']) | {'continuous', 'colcok'})
    ix = {a: i for i, a in enumerate(atoms)}
    for i, b in enumerate(blocks):
        need = set(['nbgh-changed']) | (b['flags'] & set(atoms))
        b['reads_blocks'] = [j for j in range(i) if blocks[j]['writes'] & b['reads']]
        for j in b['reads_blocks']: need |= set(blocks[j]['need'])
        b['need'] = sorted(need)
    L = ['(* GENERATED by translators/C10_ksystem.py from KrigingSystem::estimate. Do not edit. *)', 'From Coq Require Import List String.',
         'From Gst Require Import C10.ModelCache.', 'Import ListNotations.', 'Open Scope string_scope.', '',
         '(* inputs = reasons for recomputing: ' + ', '.join('%d=%s' % (i, a) for i, a in enumerate(atoms)) + ' *)']
    for i, b in enumerate(blocks):
        L.append('(* field %d: written by %s under `%s` ; writes %s ; reads blocks %s ; must follow: %s *)' % (
            i, '+'.join(b['calls']), b['cond'], ' '.join(sorted(b['writes']))[:160], b['reads_blocks'], ' '.join(b['need'])))
    L.append('Definition ksys_table : ctable := {| ct_fields := [' + '; '.join(
        '{| cf_id := %d; cf_eager := false; cf_deps_in := [%s]; cf_deps_f := []; cf_key := [%s] |}' % (
            i, '; '.join(str(ix[a]) for a in sorted(set(b['need']) | set(b['alts']))), '; '.join(str(ix[a]) for a in b['alts'])) for i, b in enumerate(blocks)) + '];')
    L.append('  ct_setters := [(0, {| cs_writes := [%s]; cs_clears := []; cs_rebuilds := [] |})] |}.' % '; '.join(str(i) for i in range(len(atoms))))
    L.append('')
    L.append('(* every member written while a target is processed: kept under a reuse decision (field of the table), rewritten for')
    L.append('   every target before it is read, or carried from the previous target without any decision *)')
    L.append('Definition ksys_members : list (string * kclass) := [' + '; '.join('("%s", %s)' % (m_, c) for m_, c in kmembers) + '].')
    return '\n'.join(L) + '\n', {'atoms': atoms, 'members': kmembers, 'blocks': [{k: (sorted(v) if isinstance(v, set) else v) for k, v in b.items()} for b in blocks]}

if __name__ == '__main__':
    repo = sys.argv[1] if len(sys.argv) > 1 else '/repo'
    try: text, tab = translate(repo)
    except TranslationError as e:
        print('TRANSLATION ERROR:', e); sys.exit(1)
    if len(sys.argv) > 2: open(sys.argv[2], 'w').write(text)
    else: print(text)

#!/usr/bin/env python3
"""C03: translate the validity domain and the closed forms of the covariance structures into coq/C03/gen/CovTable.v.

Input : <repo>/include/Enum/ECov.hpp                       (numeric code of every ECov key)
        <repo>/src/Covariances/CovFactory.cpp              (createCovFunc: ECov key -> class)
        <repo>/include/Covariances/ACovFunc.hpp            (defaults of the virtual accessors)
        <repo>/include/Covariances/Cov<X>.hpp, src/Covariances/Cov<X>.cpp for every class of the factory
Output: (coq text, python dict)
        cov_table : list cov_entry      one record per structure of the factory:
              name (getCovName), ECov code, getMaxNDim, getMinOrder, hasParam, getParMax, getScadef (kind),
              hasRange, getCompatibleSpaceR/S, hasCovOnRn, has an _evaluateCov, compact support read off the
              branch structure of _evaluateCov, shape of _evaluateCov (polynomial: translated / opaque: hashed)
        gen_<Class> (ndim : Z) (field h : Q) : Q     for every _evaluateCov that only uses + - * /, MAX, ABS,
              comparisons of h / ndim with literals, getContext().getField(), getContext().getNDim(), GV_PI

The translator FAILS CLOSED: an accessor whose body is not `return <literal>;`, a getScadef of an unknown form,
a factory line or a statement of a polynomial _evaluateCov it does not recognise raises TranslationError.
A body that calls anything else (exp, cos, pow, getParam, bessel...) is *opaque*: it is not translated, its
normalised text is hashed into the table, and the hand-written reference (coq/C03/Valid.v) pins the hash the
hand-written closed form was written against.
"""
import re, os, sys, json, hashlib
from fractions import Fraction

class TranslationError(Exception):
    pass

GV_PI_DOUBLE = Fraction(884279719003555, 2 ** 48)      # the binary64 nearest to pi (what GV_PI evaluates to)
WATCHED = ['getMaxNDim', 'getMinOrder', 'hasParam', 'getParMax', 'getParMin', 'getScadef', 'hasRange', 'getCovName',
           'getCompatibleSpaceR', 'getCompatibleSpaceS', 'hasCovOnRn', '_evaluateCov']

def strip_comments(s):
    s = re.sub(r'/\*.*?\*/', ' ', s, flags=re.S)
    return re.sub(r'//[^\n]*', '', s)

def match(s, i, o, c):
    if s[i] != o: raise TranslationError('expected %s' % o)
    d = 0
    for j in range(i, len(s)):
        if s[j] == o: d += 1
        elif s[j] == c:
            d -= 1
            if d == 0: return j
    raise TranslationError('unbalanced %s' % o)

def read(repo, rel):
    p = os.path.join(repo, rel)
    if not os.path.exists(p): raise TranslationError('missing file ' + rel)
    return strip_comments(open(p).read())

# ------------------------------------------------------------------------------------------ ECov / factory / defaults
def ecov_codes(repo):
    s = read(repo, 'include/Enum/ECov.hpp')
    m = re.search(r'#define\s+ENUM_COV\s+ECov\s*,\s*(\w+)\s*,(.*?)\n\s*\n', s.replace('\\\n', ' '), re.S)
    if not m: raise TranslationError('ENUM_COV not found')
    out = {}
    for k, v, _ in re.findall(r'(\w+)\s*,\s*(-?\d+)\s*,\s*"([^"]*)"', m.group(2)):
        out[k] = int(v)
    if len(out) < 10: raise TranslationError('ENUM_COV: too few keys')
    return out

def factory(repo):
    s = read(repo, 'src/Covariances/CovFactory.cpp')
    i = s.find('CovFactory::createCovFunc')
    if i < 0: raise TranslationError('createCovFunc not found')
    b = s.index('{', i); e = match(s, b, '{', '}')
    body = s[b:e]
    factory.guards_dimension = bool(re.search(r'!\s*cova->isConsistent\s*\(\s*\)', body)) and 'my_throw' in body
    if 'case' not in body:
        # the switch may live in a file-local helper that createCovFunc calls (and then checks isConsistent() on the result)
        m = re.search(r'(\w+)\s*\(\s*type\s*,\s*ctxt\s*\)', body)
        if not m: raise TranslationError('createCovFunc: no switch and no helper call')
        helper = m.group(1)
        k = re.search(r'static\s+ACovFunc\s*\*\s*%s\s*\([^)]*\)\s*\{' % helper, s)
        if not k: raise TranslationError('createCovFunc: helper %s not found' % helper)
        b = k.end() - 1; e = match(s, b, '{', '}')
        body = s[b:e]
    out = []
    for line in body.split('\n'):
        if 'case' not in line: continue
        m = re.match(r'\s*case\s+ECov::E_(\w+)\s*:\s*return\s+new\s+(\w+)\s*\(\s*ctxt\s*\)\s*;\s*$', line)
        if not m: raise TranslationError('factory line not recognised: ' + line.strip())
        out.append((m.group(1), m.group(2)))
    if not out: raise TranslationError('empty factory')
    # the acceptance test used by getCovList / displayCovList
    j = s.find('bool _isValid')
    if j < 0: raise TranslationError('_isValid not found')
    b = s.index('{', j); e = match(s, b, '{', '}')
    norm = re.sub(r'\s+', '', s[b:e + 1])
    expect = '{if((int)cova->getMaxNDim()>0&&(int)ctxt.getNDim()>(int)cova->getMaxNDim())returnfalse;returntrue;}'
    # same test, followed by the compatibility of the structure with the type of space of the context
    expect2 = ('{if((int)cova->getMaxNDim()>0&&(int)ctxt.getNDim()>(int)cova->getMaxNDim())returnfalse;'
               'if(ctxt.getSpace()->getType()==ESpaceType::RN&&!cova->getCompatibleSpaceR())returnfalse;'
               'if(ctxt.getSpace()->getType()==ESpaceType::SN&&!cova->getCompatibleSpaceS())returnfalse;returntrue;}')
    if norm not in (expect, expect2): raise TranslationError('_isValid is not the expected dimension test: ' + norm)
    factory.space_checked = (norm == expect2)
    return out

def literal(tok):
    """C literal / known macro -> ('num', Fraction) | ('macro', name) | ('bool', b) | ('str', s)"""
    tok = tok.strip()
    while tok.startswith('(') and tok.endswith(')') and match(tok, 0, '(', ')') == len(tok) - 1: tok = tok[1:-1].strip()
    if tok in ('true', 'false'): return ('bool', tok == 'true')
    if tok in ('MAX_INT', 'MAX_PARAM', 'TEST'): return ('macro', tok)
    m = re.match(r'^(?:String\s*\(\s*)?"([^"]*)"\s*\)?$', tok)
    if m: return ('str', m.group(1))
    if re.match(r'^-?(\d+\.?\d*|\.\d+)([eE][-+]?\d+)?$', tok): return ('num', Fraction(tok.rstrip('.') if tok.endswith('.') else tok))
    return None

def accessor_bodies(text, cls=None):
    """inline definitions `name() const [override] { body }` of the watched accessors in a class declaration,
    and out-of-line declarations `name(...) const [override];`"""
    inline, declared = {}, set()
    for name in WATCHED:
        for m in re.finditer(r'\b%s\s*\(([^)]*)\)\s*const\s*(?:override)?\s*([;{])' % re.escape(name), text):
            if m.group(2) == ';': declared.add(name)
            else:
                b = m.end() - 1; e = match(text, b, '{', '}')
                inline[name] = text[b + 1:e].strip()
    return inline, declared

def out_of_line(src, cls, name):
    m = re.search(r'\b%s::%s\s*\([^)]*\)\s*const\s*\{' % (cls, re.escape(name)), src)
    if not m: return None
    b = m.end() - 1; e = match(src, b, '{', '}')
    return src[b + 1:e].strip()

def ret_literal(body, what):
    m = re.match(r'^return\s+(.*?);\s*(?:;\s*)?$', body, re.S)
    if not m: raise TranslationError('%s: body is not a single return: %r' % (what, body))
    lit = literal(m.group(1))
    if lit is None: raise TranslationError('%s: returned expression is not a literal: %r' % (what, m.group(1)))
    return lit

def scadef_kind(body, what):
    norm = re.sub(r'\s+', '', body)
    m = re.match(r'^return\(?(-?[\d.]+)\)?;$', norm)
    if m: return ('const', Fraction(m.group(1).rstrip('.') if m.group(1).endswith('.') else m.group(1)))
    known = {
        'returnsqrt(12.*getParam());': ('sqrt12param', None),
        'returnpow(3.,1./getParam());': ('pow3inv', None),
        'returnsqrt(pow(20.,1./getParam())-1.);': ('sqrtpow20inv_m1', None),
        'doubleparam=getParam();if(param<0.05)param=1.;doublescadef=pow(20.,1./param)-1.;return(scadef);': ('pow20inv_m1', None),
        'returnsqrt(12.*_markovCoeffs.size());': ('sqrt12ncoeffs', None),
    }
    if norm in known: return known[norm]
    raise TranslationError('%s: getScadef of unknown form: %s' % (what, norm))

# ------------------------------------------------------------------------------------------ _evaluateCov translation
TOK = re.compile(r'\s*(?:(\d+\.?\d*(?:[eE][-+]?\d+)?|\.\d+(?:[eE][-+]?\d+)?)|([A-Za-z_]\w*)|(==|<=|>=|!=|&&|\|\||[-+*/()<>=;,{}.]))')

def tokenize(s):
    out = []; i = 0
    s = s.strip()
    while i < len(s):
        m = TOK.match(s, i)
        if not m or m.end() == i: raise TranslationError('cannot tokenise at: ' + s[i:i + 30])
        if m.group(1) is not None: out.append(('num', m.group(1)))
        elif m.group(2) is not None: out.append(('id', m.group(2)))
        else: out.append(('op', m.group(3)))
        i = m.end()
        while i < len(s) and s[i].isspace(): i += 1
    return out

class Opaque(Exception):
    pass

def qlit(fr):
    fr = Fraction(fr)
    return '(%d#%d)' % (fr.numerator, fr.denominator) if fr >= 0 else '(-(%d#%d))' % (-fr.numerator, fr.denominator)

class Parser:
    """recursive-descent parser of the tiny imperative subset; symbolic execution into Coq terms over Q"""
    def __init__(self, toks, what):
        self.t = toks; self.i = 0; self.what = what
    def peek(self, k=0): return self.t[self.i + k] if self.i + k < len(self.t) else ('eof', '')
    def eat(self, v=None):
        tk = self.peek()
        if v is not None and tk[1] != v: raise TranslationError('%s: expected %r, found %r' % (self.what, v, tk[1]))
        self.i += 1; return tk
    # expressions -> (kind, coq string) kind in 'q' (rational), 'z' (ndim)
    def expr(self, env):
        l = self.term(env)
        while self.peek() in (('op', '+'), ('op', '-')):
            op = self.eat()[1]; r = self.term(env)
            l = '(%s %s %s)' % (l, op, r)
        return l
    def term(self, env):
        l = self.unary(env)
        while self.peek() in (('op', '*'), ('op', '/')):
            op = self.eat()[1]; r = self.unary(env)
            l = '(%s %s %s)' % (l, op, r)
        return l
    def unary(self, env):
        if self.peek() == ('op', '-'):
            self.eat(); return '(- %s)' % self.unary(env)
        if self.peek() == ('op', '+'):
            self.eat(); return self.unary(env)
        return self.atom(env)
    def atom(self, env):
        k, v = self.peek()
        if k == 'num':
            self.eat(); return qlit(Fraction(v.rstrip('.') if v.endswith('.') else v))
        if (k, v) == ('op', '('):
            self.eat(); e = self.expr(env); self.eat(')'); return e
        if k == 'id':
            if v in ('MAX', 'MIN', 'ABS'):
                self.eat(); self.eat('(')
                a = self.expr(env)
                if v == 'ABS': self.eat(')'); return '(Qabs %s)' % a
                self.eat(','); b = self.expr(env); self.eat(')')
                return '(%s %s %s)' % ('Qmax' if v == 'MAX' else 'Qmin', a, b)
            if v == 'GV_PI': self.eat(); return 'gv_pi'
            if v == 'getContext':
                self.eat(); self.eat('('); self.eat(')'); self.eat('.')
                f = self.eat()[1]; self.eat('('); self.eat(')')
                if f == 'getField': return 'field'
                if f == 'getNDim': return '@ndim'
                raise Opaque('getContext().%s' % f)
            if self.peek(1) == ('op', '('): raise Opaque('call of ' + v)
            self.eat()
            if v == 'h': return 'h'
            if v in env: return env[v]
            raise Opaque('identifier ' + v)   # macro / member outside the arithmetic subset: Valid.v pins which structures must be polynomial
        raise TranslationError('%s: unexpected token %r' % (self.what, v))
    def cond(self, env):
        l = self.expr(env); op = self.eat()[1]; r = self.expr(env)
        if l.startswith('@') or r.startswith('@'):
            if op != '==' or not l.startswith('@'): raise TranslationError('%s: condition on ndim of unknown form' % self.what)
            m = re.match(r'^\((\d+)#1\)$', r)
            if not m: raise TranslationError('%s: ndim compared with a non-integer' % self.what)
            return '(Z.eqb ndim %s)' % m.group(1)
        f = {'<': 'qltb %s %s', '>': 'qltb %s %s', '<=': 'qleb %s %s', '>=': 'qleb %s %s'}
        if op not in f: raise TranslationError('%s: comparison %s not supported' % (self.what, op))
        if op in ('>', '>='): l, r = r, l
        return '(' + f[op] % (l, r) + ')'
    # statements: returns (env', ret) where ret is None or a Coq term (value returned on this path)
    def block(self, env):
        self.eat('{')
        ret = None
        while self.peek() != ('op', '}'):
            env, r = self.stmt(env)
            if ret is None: ret = r
            elif r is not None: pass  # code after a return on every path is dead
        self.eat('}')
        return env, ret
    def stmt_or_block(self, env):
        if self.peek() == ('op', '{'): return self.block(env)
        return self.stmt(env)
    def stmt(self, env):
        env = dict(env)
        k, v = self.peek()
        if (k, v) == ('op', ';'): self.eat(); return env, None
        if k == 'id' and v in ('double', 'int'):
            self.eat()
            while True:
                name = self.eat()[1]
                if self.peek() == ('op', '='):
                    self.eat(); env[name] = self.expr(env)
                else: env[name] = None
                if self.peek() == ('op', ','): self.eat(); continue
                break
            self.eat(';'); return env, None
        if k == 'id' and v == 'static': raise Opaque('static local')
        if k == 'id' and v == 'return':
            self.eat(); e = self.expr(env); self.eat(';'); return env, e
        if k == 'id' and v == 'if':
            self.eat(); self.eat('('); c = self.cond(env); self.eat(')')
            e1, r1 = self.stmt_or_block(env)
            if self.peek() == ('id', 'else'):
                self.eat(); e2, r2 = self.stmt_or_block(env)
            else: e2, r2 = dict(env), None
            if (r1 is None) != (r2 is None):
                # early return on one side only: push the continuation into the other side
                raise Opaque('early return')
            out = {}
            for n in set(e1) | set(e2):
                a, b = e1.get(n), e2.get(n)
                out[n] = a if a == b else ('(if %s then %s else %s)' % (c, a, b) if a is not None and b is not None else None)
            r = None if r1 is None else '(if %s then %s else %s)' % (c, r1, r2)
            return out, r
        if k == 'id' and self.peek(1) == ('op', '='):
            name = self.eat()[1]; self.eat('=')
            if name not in env: raise TranslationError('%s: assignment to undeclared %s' % (self.what, name))
            env[name] = self.expr(env); self.eat(';'); return env, None
        if k == 'id' and self.peek(1) in (('op', '*'), ('op', '-'), ('op', '+'), ('op', '/')) and self.peek(2) == ('op', '='):
            name = self.eat()[1]; op = self.eat()[1]; self.eat('=')
            env[name] = '(%s %s %s)' % (env[name], op, self.expr(env)); self.eat(';'); return env, None
        raise TranslationError('%s: statement not recognised at %r' % (self.what, ' '.join(t[1] for t in self.t[self.i:self.i + 8])))

def translate_body(body, what):
    """-> ('poly', coq term) | ('opaque', reason)"""
    try:
        toks = tokenize('{' + body + '}')
    except TranslationError:
        return ('opaque', 'untokenisable')
    # a body that mentions anything outside the arithmetic subset is opaque by construction
    p = Parser(toks, what)
    try:
        env, ret = p.block({})
    except Opaque as o:
        return ('opaque', str(o))
    if ret is None: raise TranslationError('%s: no return value' % what)
    if '@ndim' in ret or 'None' in ret: raise TranslationError('%s: translation incomplete: %s' % (what, ret))
    return ('poly', ret)

def support_of(body):
    """compact support read off the branch structure: the value is the initial `cov = 0.` unless h < S"""
    n = re.sub(r'\s+', '', body)
    if re.search(r'MAX\(0,1\.-h\)', n): return Fraction(1)
    if not re.match(r'^doublecov=0\.;', n): return None
    conds = re.findall(r'if\(h<(\d+)\.?\)', n)
    if not conds: return None
    if re.search(r'if\(h>', n): return None
    return Fraction(max(int(c) for c in conds))

def body_hash(body):
    n = re.sub(r'\s+', '', body)
    return int(hashlib.md5(n.encode()).hexdigest()[:12], 16)

# ------------------------------------------------------------------------------------------ main
DEFAULTS_EXPECT = {   # ACovFunc.hpp defaults the table relies on
    'getScadef': ('num', Fraction(1)), 'getParMax': ('num', Fraction(0)), 'hasRange': ('num', Fraction(1)),
    'hasParam': ('bool', False), 'getMaxNDim': ('macro', 'MAX_INT'), 'getMinOrder': ('num', Fraction(-1)),
    'getCompatibleSpaceR': ('bool', False), 'getCompatibleSpaceS': ('bool', False), 'hasCovOnRn': ('bool', True),
}

def translate(repo):
    codes = ecov_codes(repo)
    fac = factory(repo)
    base = read(repo, 'include/Covariances/ACovFunc.hpp')
    binl, _ = accessor_bodies(base)
    for k, v in DEFAULTS_EXPECT.items():
        if k not in binl: raise TranslationError('ACovFunc.hpp: default of %s not found' % k)
        if ret_literal(binl[k], 'ACovFunc::' + k) != v: raise TranslationError('ACovFunc.hpp: default of %s changed: %s' % (k, binl[k]))
    if re.sub(r'\s+', '', binl.get('_evaluateCov', '')) != 'DECLARE_UNUSED(h);returnTEST;':
        raise TranslationError('ACovFunc::_evaluateCov default changed')
    # the dimension guard of the constructor and of isConsistent (recorded, see Valid.v / findings)
    bsrc = read(repo, 'src/Covariances/ACovFunc.cpp')
    isc = out_of_line(bsrc, 'ACovFunc', 'isConsistent')
    if isc is None: raise TranslationError('ACovFunc::isConsistent not found')
    entries = []; gens = []
    seen = set()
    for key, cls in fac:
        if key not in codes: raise TranslationError('factory key %s has no ECov code' % key)
        if cls in seen: raise TranslationError('class %s appears twice in the factory' % cls)
        seen.add(cls)
        hpp = read(repo, 'include/Covariances/%s.hpp' % cls)
        cpp = read(repo, 'src/Covariances/%s.cpp' % cls)
        if not re.search(r'class\s+GSTLEARN_EXPORT\s+%s\s*:\s*public\s+ACovFunc\b' % cls, hpp):
            raise TranslationError('%s does not derive directly from ACovFunc' % cls)
        if not re.search(r':\s*ACovFunc\s*\(\s*ECov::%s\s*,\s*ctxt\s*\)' % key, cpp):
            raise TranslationError('%s: constructor does not register ECov::%s' % (cls, key))
        inl, decl = accessor_bodies(hpp)
        def get(name):
            if name in inl: return ret_literal(inl[name], '%s::%s' % (cls, name))
            if name in decl:
                raise TranslationError('%s::%s is defined out of line (not a literal accessor)' % (cls, name))
            return DEFAULTS_EXPECT[name]
        e = {'class': cls, 'key': key, 'code': codes[key]}
        nm = get('getCovName') if 'getCovName' in inl else None
        if nm is None or nm[0] != 'str': raise TranslationError('%s: getCovName not a string literal' % cls)
        e['name'] = nm[1]
        md = get('getMaxNDim')
        if md[0] == 'macro' and md[1] == 'MAX_INT': e['maxdim'] = None
        elif md[0] == 'num' and md[1].denominator == 1 and md[1] > 0: e['maxdim'] = int(md[1])
        else: raise TranslationError('%s: getMaxNDim = %r' % (cls, md))
        mo = get('getMinOrder')
        if mo[0] != 'num' or mo[1].denominator != 1: raise TranslationError('%s: getMinOrder = %r' % (cls, mo))
        e['minorder'] = int(mo[1])
        hp = get('hasParam')
        if hp[0] != 'bool': raise TranslationError('%s: hasParam = %r' % (cls, hp))
        e['hasparam'] = hp[1]
        pm = get('getParMax')
        if pm[0] == 'num': e['parmax'] = ('num', pm[1])
        elif pm[0] == 'macro' and pm[1] == 'MAX_PARAM': e['parmax'] = ('num', Fraction(1000))
        elif pm[0] == 'macro' and pm[1] == 'TEST': e['parmax'] = ('unbounded', None)
        else: raise TranslationError('%s: getParMax = %r' % (cls, pm))
        # lower bound of the third parameter (fix C03_8): absent = 0, or the dimension-dependent bound of the J-Bessel family
        if 'getParMin' in inl:
            nb = re.sub(r'\s+', '', inl['getParMin'])
            if nb == 'returnMAX(0.,((double)getContext().getNDim()-2.)/2.);': e['parmin_dim'] = True
            else: raise TranslationError('%s: getParMin of unknown form: %s' % (cls, nb))
        elif 'getParMin' in decl: raise TranslationError('%s::getParMin is defined out of line' % cls)
        else: e['parmin_dim'] = False
        hr = get('hasRange')
        if hr[0] != 'num' or hr[1] not in (-1, 0, 1): raise TranslationError('%s: hasRange = %r' % (cls, hr))
        e['hasrange'] = int(hr[1])
        for nm2, fld in (('getCompatibleSpaceR', 'spaceR'), ('getCompatibleSpaceS', 'spaceS'), ('hasCovOnRn', 'onRn')):
            v = get(nm2)
            if v[0] != 'bool': raise TranslationError('%s: %s = %r' % (cls, nm2, v))
            e[fld] = v[1]
        # scadef
        if 'getScadef' in inl: e['scadef'] = scadef_kind(inl['getScadef'], cls)
        elif 'getScadef' in decl:
            b = out_of_line(cpp, cls, 'getScadef')
            if b is None: raise TranslationError('%s::getScadef declared but not defined' % cls)
            e['scadef'] = scadef_kind(b, cls)
        else: e['scadef'] = ('const', Fraction(1))
        # closed form
        if '_evaluateCov' in inl: raise TranslationError('%s::_evaluateCov defined inline' % cls)
        if '_evaluateCov' in decl:
            b = out_of_line(cpp, cls, '_evaluateCov')
            if b is None: raise TranslationError('%s::_evaluateCov declared but not defined' % cls)
            e['haseval'] = True
            e['hash'] = body_hash(b)
            kind, term = translate_body(b, cls + '::_evaluateCov')
            e['shape'] = kind
            e['support'] = support_of(b)
            if kind == 'poly':
                gens.append((cls, term))
            else:
                e['opaque_reason'] = term
        else:
            e['haseval'] = False; e['hash'] = 0; e['shape'] = 'none'; e['support'] = None
        entries.append(e)
    return render(entries, gens, isc, getattr(factory, 'space_checked', False), getattr(factory, 'guards_dimension', False)), {'entries': entries, 'gens': dict(gens), 'isvalid_checks_space': getattr(factory, 'space_checked', False), 'factory_guards_dimension': getattr(factory, 'guards_dimension', False),
                                        'isConsistent': re.sub(r'\s+', ' ', isc)}

def coq_str(s): return '"' + s.replace('"', '""') + '"'
def coq_bool(b): return 'true' if b else 'false'
def coq_optq(x): return 'None' if x is None else 'Some %s' % qlit(x)

def render(entries, gens, isc, space_checked=False, guards_dimension=False):
    L = ['(* GENERATED by translators/C03_covtable.py from include/Covariances/Cov*.hpp, src/Covariances/Cov*.cpp,',
         '   CovFactory.cpp, ECov.hpp.  Regenerated on every run of the check.  DO NOT EDIT. *)',
         'From Coq Require Import List ZArith QArith Qabs Qminmax String.',
         'From Gst Require Import lib.QAux C03.Table.',
         'Import ListNotations.',
         'Local Open Scope Q_scope.',
         'Local Open Scope string_scope.',
         '',
         'Definition cov_table : list cov_entry := [']
    rows = []
    for e in entries:
        sk, sv = e['scadef']
        sc = 'SCconst %s' % qlit(sv) if sk == 'const' else {'sqrt12param': 'SCsqrt12param', 'pow3inv': 'SCpow3inv',
             'sqrtpow20inv_m1': 'SCsqrtpow20inv_m1', 'pow20inv_m1': 'SCpow20inv_m1', 'sqrt12ncoeffs': 'SCsqrt12ncoeffs'}[sk]
        pk, pv = e['parmax']
        pm = 'PMmax %s' % qlit(pv) if pk == 'num' else 'PMunbounded'
        sh = {'poly': 'ShPoly', 'opaque': 'ShOpaque', 'none': 'ShNone'}[e['shape']]
        rows.append('  {| ce_name := %s; ce_class := %s; ce_code := %d; ce_maxdim := %s; ce_minorder := %d;\n'
                    '     ce_hasparam := %s; ce_parmax := %s; ce_parmin_dim := %s; ce_scadef := %s; ce_hasrange := %d;\n'
                    '     ce_spaceR := %s; ce_spaceS := %s; ce_onRn := %s; ce_haseval := %s; ce_support := %s;\n'
                    '     ce_shape := %s; ce_hash := %d |}' % (
            coq_str(e['name']), coq_str(e['class']), e['code'],
            'None' if e['maxdim'] is None else 'Some %d%%nat' % e['maxdim'], e['minorder'],
            coq_bool(e['hasparam']), pm, coq_bool(e['parmin_dim']), sc, e['hasrange'], coq_bool(e['spaceR']), coq_bool(e['spaceS']),
            coq_bool(e['onRn']), coq_bool(e['haseval']), coq_optq(e['support']), sh, e['hash']))
    L.append(';\n'.join(rows))
    L.append('].')
    L.append('')
    L.append('(* closed forms translated statement by statement from the _evaluateCov bodies (arithmetic subset) *)')
    for cls, term in gens:
        L.append('Definition gen_%s (ndim : Z) (field h : Q) : Q :=\n  %s.' % (cls, term))
    L.append('')
    L.append('Definition gen_classes : list string := [%s].' % '; '.join(coq_str(c) for c, _ in gens))
    L.append('')
    L.append('(* CovFactory: createCovFunc re-checks isConsistent() on the complete object and throws; _isValid (getCovList) also')
    L.append('   requires the structure to be compatible with the type of space of the context *)')
    L.append('Definition factory_guards_dimension : bool := %s.' % coq_bool(guards_dimension))
    L.append('Definition factory_checks_space : bool := %s.' % coq_bool(space_checked))
    return '\n'.join(L) + '\n'

if __name__ == '__main__':
    repo = sys.argv[1] if len(sys.argv) > 1 else os.environ.get('VERIF_REPO', '/repo')
    text, tab = translate(repo)
    if len(sys.argv) > 2:
        open(sys.argv[2], 'w').write(text)
    else:
        sys.stdout.write(text)

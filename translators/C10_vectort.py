#!/usr/bin/env python3
"""C10 carrier (5): table of the member functions of VectorT / VectorNumT -> coq/C10/gen/VectorTOps.v

For every member function (inline in the class or defined below it):
   const-ness; whether the body calls _detach() before touching the shared buffer (*_v, _v->...);
   what it does to the buffer: 'read' | 'mutate' (calls a value-changing std::vector method or assigns *_v) |
   'capacity' (reserve: values unchanged) | 'rebind' (only the shared_ptr itself is assigned/swapped) | 'none';
   whether it hands out a mutable reference / pointer / iterator into the buffer;
   which other member functions it calls (a function that only works through safe members is safe).
Also: every call site of getVector()/getVectorPtr() in the library with the kind of its receiver.
FAILS CLOSED on member functions whose body it cannot classify.
"""
import re, sys, os, glob

class TranslationError(Exception):
    pass

MUTATING = {'push_back', 'insert', 'erase', 'clear', 'resize', 'assign', 'emplace_back', 'pop_back', 'swap', 'shrink_to_fit'}
CAPACITY = {'reserve'}
READING = {'front', 'back', 'data', 'empty', 'size', 'capacity', 'begin', 'end', 'cbegin', 'cend', 'rbegin', 'rend', 'crbegin', 'crend',
           'operator[]', 'at', 'get'}

def strip_comments(s):
    s = re.sub(r'/\*.*?\*/', lambda m: re.sub(r'[^\n]', ' ', m.group(0)), s, flags=re.S)
    return re.sub(r'//[^\n]*', '', s)

def match(s, i, o, c):
    d = 0
    for j in range(i, len(s)):
        if s[j] == o: d += 1
        elif s[j] == c:
            d -= 1
            if d == 0: return j
    raise TranslationError('unbalanced')

def members_of(src, cls):
    """(name, ret, args, const, body) for the inline definitions in `class cls` and the out-of-line ones below"""
    out = []
    m = re.search(r'class\s+%s\b[^{;]*\{' % cls, src)
    if not m: raise TranslationError('class %s not found' % cls)
    b = m.end() - 1; e = match(src, b, '{', '}')
    body = src[b + 1:e]
    decl_only = []
    i = 0
    # inline definitions / declarations: scan statements at depth 0 of the class body
    depth0 = []
    j = 0; start = 0; d = 0
    while j < len(body):
        ch = body[j]
        if ch == '{' and d == 0:
            k = match(body, j, '{', '}')
            depth0.append(body[start:k + 1]); start = k + 1; j = k + 1; continue
        if ch == ';' and d == 0:
            depth0.append(body[start:j + 1]); start = j + 1
        elif ch == '(': d += 1
        elif ch == ')': d -= 1
        j += 1
    for st in depth0:
        st = re.sub(r'#\s*(ifndef|ifdef|endif|if|else)[^\n]*', ' ', st)
        st = re.sub(r'\b(public|private|protected)\s*:', ' ', st)
        st = ' '.join(st.split())
        if not st or st.startswith('typedef') or st.startswith('using') or st.startswith('friend'): continue
        mm = re.match(r'^(?:template\s*<[^>]*>\s*)?(?:inline\s+)?(.*?)\b(operator\s*(?:const\s+\w+\s*&|\(\)|\[\]|<<|>>|==|!=|<=|>=|<|>|=|[^\s(]+)|~?\w+)\s*\((.*)$', st)
        if not mm:
            if '(' in st: raise TranslationError('%s: member not understood: %s' % (cls, st[:80]))
            continue      # data member
        ret, name, rest = mm.group(1).strip(), mm.group(2).replace(' ', ''), mm.group(3)
        # find closing paren of the argument list
        p = match('(' + rest, 0, '(', ')')
        args = rest[:p - 1]; tail = rest[p:].strip()
        const = bool(re.match(r'^const\b', tail))
        if '{' in tail:
            bb = tail[tail.index('{'):]
            out.append((name, ret, args, const, bb[1:match(bb, 0, '{', '}')].strip(), tail[:tail.index('{')]))
        elif '= default' in tail or '= delete' in tail:
            out.append((name, ret, args, const, '<default>', tail))
        else:
            decl_only.append((name, ret, args, const))
    # out-of-line definitions
    for mm in re.finditer(r'template\s*<[^>]*>\s*(?:inline\s+)?([^;{}()]*?)\b%s<T>::(operator\s*(?:\[\]|<<|[^\s(]+)|\w+)\s*\(' % cls, src):
        ret, name = mm.group(1).strip(), mm.group(2).replace(' ', '')
        p = match(src, mm.end() - 1, '(', ')')
        args = src[mm.end():p]
        k = p + 1
        while src[k] in ' \t\r\n': k += 1
        const = src[k:k + 5] == 'const'
        k = src.index('{', k); e2 = match(src, k, '{', '}')
        out.append((name, ret, ' '.join(args.split()), const, ' '.join(src[k + 1:e2].split()), ''))
    defined = {(n, c, len([a for a in a_.split(',') if a.strip()])) for n, r, a_, c, b_, t in out}
    for n, r, a_, c in decl_only:
        if (n, c, len([a for a in a_.split(',') if a.strip()])) not in defined:
            raise TranslationError('%s::%s declared but its definition was not found' % (cls, n))
    return out

def classify(cls, name, ret, args, const, body, tail):
    """-> dict"""
    if body == '<default>':
        return {'touch': 'rebind' if name in ('operator=', cls) else 'none', 'detach': False, 'leak': False, 'calls': [], 'early': False}
    b = body
    is_ctor = (name == cls)
    # position of the first _detach() call and of the first touch of the buffer
    dpos = b.find('_detach()')
    touches = [(m.start(), m.group(0)) for m in re.finditer(r'\*\s*(?:VectorNumT::)?_v\b|\(\s*\*\s*_v\s*\)|(?:VectorNumT::)?_v\s*->\s*(operator\[\]|\w+)', b)]
    rebinds = re.findall(r'\b_v\s*=(?!=)|_v\s*\.\s*swap\s*\(|std::swap\s*\(\s*_v\b', b)
    kind = 'none'
    for pos, t in touches:
        mth = re.search(r'->\s*(operator\[\]|\w+)', t)
        if mth:
            mname = mth.group(1)
            if mname in MUTATING: kind = 'mutate'
            elif mname in CAPACITY: kind = kind if kind == 'mutate' else 'capacity'
            elif mname in READING: kind = kind if kind in ('mutate', 'capacity') else 'read'
            else: raise TranslationError('%s::%s: std::vector method %s of unknown effect' % (cls, name, mname))
        else:
            # *_v ... : assignment through it?
            after = b[pos + len(t):].lstrip()
            if after.startswith('=') and not after.startswith('=='): kind = 'mutate'
            elif re.match(r'\)\s*=(?!=)', after): kind = 'mutate'
            else: kind = kind if kind in ('mutate', 'capacity') else 'read'
    if kind == 'none' and rebinds: kind = 'rebind'
    first_touch = min([p for p, t in touches], default=None)
    detach_first = dpos >= 0 and (first_touch is None or dpos < first_touch)
    # an early `if (...) return;` before _detach() is fine only if it touches the buffer through const members (size())
    early = False
    if dpos > 0:
        pre = b[:dpos].strip()
        if pre:
            if re.fullmatch(r'(if \(.*?\) (return|my_throw\(.*?\));\s*)+', pre) and '_v' not in pre: early = True
            else: raise TranslationError('%s::%s: statements before _detach(): %s' % (cls, name, pre))
    # mutable handle given out: non-const T&, T*, iterator, reverse_iterator, Vector&, Vector* whose value comes straight from _v
    r = ret.replace('inline', '').replace('typename', '').strip()
    gives = bool(re.search(r'(^|\s)(T|Vector)\s*[&*]$', r)) and not r.startswith('const') or r in ('iterator', 'reverse_iterator') \
        or bool(re.search(r'VectorT<T>::(iterator|reverse_iterator)$', r))
    leak = gives and bool(re.search(r'return\s+(\*\s*_v|_v\s*->|_v\s*\.\s*get\s*\(|\(\s*\*\s*_v)', b))
    # other members of the class called on this object
    calls = sorted(set(m.group(1) for m in re.finditer(r'(?<![\w.>:])(?:VectorNumT::|VectorT<T>::|this->)?(\boperator\[\]|push_back|resize|begin|end|cbegin|cend|at|size|reserve|insert|length|toString|innerProduct|sum)\s*\(', b)
                       if not b[max(0, m.start() - 2):m.start()].endswith('->') and not b[max(0, m.start() - 1):m.start()].endswith('.')))
    if is_ctor: kind, leak, detach_first = ('rebind' if kind == 'none' else 'init'), False, False
    return {'touch': kind, 'detach': detach_first, 'leak': leak, 'calls': calls, 'early': early}

def leak_sites(repo):
    sites = []
    for root in ('src', 'include'):
        for p in sorted(glob.glob(os.path.join(repo, root, '**', '*.?pp'), recursive=True)):
            if p.endswith('VectorT.hpp'): continue
            src = strip_comments(open(p, errors='replace').read())
            for m in re.finditer(r'(\b[\w.\->]+?)\s*(?:\.|->)\s*(getVector|getVectorPtr)\s*\(\s*\)', src):
                recv = m.group(1)
                line = src.count('\n', 0, m.start()) + 1
                # enclosing function text: back to the previous line starting at column 0 with a '{' after it
                k = src.rfind('\n{', 0, m.start())
                head = src[src.rfind('\n\n', 0, k) if k > 0 else 0:k if k > 0 else 0]
                fn = src[k:m.start()] if k > 0 else ''
                base = re.sub(r'^.*(\.|->)', '', recv)
                kind = 'unknown'
                pm = re.search(r'(const\s+)?(\w+)\s*(&|\*)?\s*\b%s\b\s*[,)]' % re.escape(base), head)
                lm = re.search(r'\b(\w+)\s+%s\s*(\(|;|=|\{)' % re.escape(base), fn)
                if pm and pm.group(2).startswith('Vector'):
                    kind = 'const-param' if pm.group(1) else 'mutable-param'
                elif lm and lm.group(1).startswith('Vector'):
                    kind = 'local'
                else:
                    # member or something else: look for its declared type in this file and in the matching header
                    hdr = os.path.join(repo, 'include', os.path.relpath(p, os.path.join(repo, 'src'))).replace('.cpp', '.hpp') if p.endswith('.cpp') else p
                    txt = src + (strip_comments(open(hdr, errors='replace').read()) if os.path.exists(hdr) and hdr != p else '')
                    tm = re.search(r'\b(\w+)\s*[&*]?\s+%s\s*;' % re.escape(base), txt)
                    if tm and not tm.group(1).startswith('Vector'): continue      # getVector() of another class
                    kind = 'member' if tm else 'unknown'
                sites.append((os.path.relpath(p, repo), line, recv, m.group(2), kind))
    return sites

def translate(repo):
    vt = strip_comments(open(os.path.join(repo, 'include/Basic/VectorT.hpp')).read())
    vn = strip_comments(open(os.path.join(repo, 'include/Basic/VectorNumT.hpp')).read())
    rows = []
    for cls, src in (('VectorT', vt), ('VectorNumT', vn)):
        seen = {}
        for name, ret, args, const, body, tail in members_of(src, cls):
            if name.startswith('~'): continue
            c = classify(cls, name, ret, args, const, body, tail)
            nargs = len([a for a in args.split(',') if a.strip()])
            key = '%s::%s%s/%d' % (cls, name, ' const' if const else '', nargs)
            if key in seen:
                key += "'" * (seen[key]);
            seen[key.rstrip("'")] = seen.get(key.rstrip("'"), 0) + 1
            rows.append((key, const, c))
    if not any(k.startswith('VectorT::_detach') for k, _, _ in rows): raise TranslationError('_detach not found')
    # shape of _detach itself
    d = [c for k, _, c in rows if k.startswith('VectorT::_detach')]
    dm = re.search(r'void VectorT<T>::_detach\(\)\s*\{(.*?)\}', vt, re.S)
    shape = ''.join(dm.group(1).split()) if dm else ''
    if shape != 'if(_v.use_count()==1)return;_v=std::make_shared<Vector>(*_v);':
        raise TranslationError('_detach() is not `if (use_count()==1) return; _v = make_shared(*_v)`: ' + shape)
    if not re.search(r'operator=\(const VectorT& other\)\s*\{\s*_detach\(\);\s*_v = other\._v;\s*return \(\*this\);\s*\}', vt):
        raise TranslationError('copy assignment is not `_detach(); _v = other._v;`')
    sites = leak_sites(repo)
    # safe members: a function is dangerous iff it mutates or leaks the buffer directly without detaching first.
    L = []
    w = L.append
    w('(* GENERATED by translators/C10_vectort.py from include/Basic/VectorT.hpp and VectorNumT.hpp. Do not edit. *)')
    w('From Coq Require Import List String.')
    w('From Gst Require Import C10.ModelCow.')
    w('Import ListNotations.')
    w('Open Scope string_scope.')
    w('')
    w('(* name, const, detaches first, effect on the shared buffer, hands out a mutable reference/pointer/iterator *)')
    w('Definition vt_ops : list accessor := [')
    eff = {'none': 'ENone', 'read': 'ERead', 'mutate': 'EMutate', 'capacity': 'ECapacity', 'rebind': 'ERebind', 'init': 'ERebind'}
    w(';\n'.join('  {| a_name := "%s"; a_const := %s; a_detach := %s; a_effect := %s; a_leak := %s |}' % (
        k, 'true' if const else 'false', 'true' if c['detach'] else 'false', eff[c['touch']], 'true' if c['leak'] else 'false')
        for k, const, c in rows))
    w('].')
    w('')
    w('(* call sites of getVector()/getVectorPtr() in the library: file, line, receiver, kind of receiver *)')
    w('Definition vt_leak_sites : list (string * nat * string * string) := [')
    w(';\n'.join('  ("%s", %d, "%s", "%s")' % (f, l, r.replace('"', ''), k) for f, l, r, a, k in sites))
    w('].')
    table = {'ops': [{'name': k, 'const': const, **c} for k, const, c in rows], 'sites': sites}
    return '\n'.join(L) + '\n', table

if __name__ == '__main__':
    repo = sys.argv[1] if len(sys.argv) > 1 else '/repo'
    try:
        text, tab = translate(repo)
    except TranslationError as e:
        print('TRANSLATION ERROR:', e); sys.exit(1)
    if len(sys.argv) > 2: open(sys.argv[2], 'w').write(text)
    else: print(text)

#!/usr/bin/env python3
"""C10 carrier (2): exit paths of every function that prepares the covariance optimisation cache
(ACov::optimizationPreProcess / optimizationPostProcess) -> coq/C10/gen/OptimPaths.v

For every function of the library that calls optimizationPreProcess (the functions implementing the pair
themselves excluded): the set of its exit paths as words over {Pre, Post, Ret, RetFail}.
  closed   functions must leave the cache as they found it on every path            (evalCovMatrixOptim, ...)
  opener   KrigingSystem::isReady: prepared on success, untouched on failure; closed by KrigingSystem::conclusion
FAILS CLOSED: unknown control statements, or Pre/Post inside a loop body, are translation errors.
"""
import re, sys, os, glob

class TranslationError(Exception):
    pass

PROTOCOL = {'KrigingSystem::isReady': 'opener', 'KrigingSystem::conclusion': 'closer'}

def strip_comments(s):
    s = re.sub(r'/\*.*?\*/', lambda m: re.sub(r'[^\n]', ' ', m.group(0)), s, flags=re.S)
    return re.sub(r'//[^\n]*', '', s)

def match(s, i, o, c):
    d = 0
    for j in range(i, len(s)):
        if s[j] == o: d += 1
        elif s[j] == c:
            d -= 1
            if d == 0: return j
    raise TranslationError('unbalanced %s' % o)

def parse_block(s):
    out = []; n = len(s)
    def skip(i):
        while i < n and s[i] in ' \t\r\n': i += 1
        return i
    def one(i):
        i = skip(i)
        if i >= n: return None, i
        if s[i] == '{':
            e = match(s, i, '{', '}'); return ('block', parse_block(s[i + 1:e])), e + 1
        m = re.match(r'(if|for|while|switch|do|try|goto)\b', s[i:])
        if m:
            kw = m.group(1)
            if kw not in ('if', 'for', 'while'): raise TranslationError('unsupported control statement: ' + kw)
            j = skip(i + len(kw))
            e = match(s, j, '(', ')')
            head = s[j + 1:e].strip()
            body, k = one(e + 1)
            if body is None: raise TranslationError('missing body')
            body = body[1] if body[0] == 'block' else [body]
            if kw != 'if': return ('loop', head, body), k
            k2 = skip(k)
            if re.match(r'else\b', s[k2:]):
                eb, k3 = one(k2 + 4)
                eb = eb[1] if eb[0] == 'block' else [eb]
                return ('if', head, body, eb), k3
            return ('if', head, body, []), k
        d = 0; j = i
        while j < n:
            ch = s[j]
            if ch in '([{': d += 1
            elif ch in ')]}': d -= 1
            elif ch == ';' and d == 0: break
            j += 1
        if j >= n: raise TranslationError('statement without ;')
        return ('stmt', ' '.join(s[i:j].split())), j + 1
    i = 0
    while True:
        st, i = one(i)
        if st is None: break
        if st[0] == 'block': out.extend(st[1])
        else: out.append(st)
    return out

OWNED = {'_modelSimple'}     # private clones of the KrigingSystem, deleted with it: their cache cannot be seen by anybody else

def events_of(text, recv=None):
    """events on the receiver `recv` ('' = this); with recv None: (receiver, event) pairs"""
    ev = []
    for m in re.finditer(r'((?:[\w]+(?:\(\))?\s*(?:->|\.)\s*)*)optimization(Pre|Post)Process\s*\(', text):
        r = re.sub(r'\s', '', m.group(1))
        r = re.sub(r'(->|\.)$', '', r)
        base = re.split(r'->|\.', r)[0] if r else ''
        ev.append((m.start(), base, 'Pre' if m.group(2) == 'Pre' else 'Post'))
    ev.sort()
    if recv is None: return [(b, e) for _, b, e in ev]
    return [e for _, b, e in ev if b == recv]

def paths(stmts, recv):
    """set of (word tuple, terminated)"""
    cur = {((), False)}
    for s in stmts:
        nxt = set()
        for w, term in cur:
            if term: nxt.add((w, True)); continue
            if s[0] == 'stmt':
                ev = events_of(s[1], recv)
                if re.match(r'return\b', s[1]):
                    fail = bool(re.fullmatch(r'return\s+(false|1)', s[1]))
                    nxt.add((w + tuple(ev) + (('RetFail',) if fail else ('Ret',)), True))
                else:
                    nxt.add((w + tuple(ev), False))
            elif s[0] == 'if':
                ev = tuple(events_of(s[1], recv))
                branches = [s[2], s[3]]
                # `if (recv != nullptr) ...` without else: with a null receiver there is no cache to speak of
                if recv and not s[3] and re.search(r'\b%s\s*!=\s*nullptr' % re.escape(recv), s[1]): branches = [s[2]]
                for branch in branches:
                    for w2, t2 in paths(branch, recv): nxt.add((w + ev + w2, t2))
            elif s[0] == 'loop':
                if events_of(s[1]): raise TranslationError('Pre/Post in a loop header')
                nxt.add((w, False))
                for w2, t2 in paths(s[2], recv):
                    if any(e in ('Pre', 'Post') for e in w2): raise TranslationError('Pre/Post inside a loop body')
                    nxt.add((w + w2, t2))
        cur = nxt
    return cur

def functions(src):
    out = []
    for m in re.finditer(r'\n([A-Za-z_][\w:<>\*&, ]*?)\s*\b(\w+)::(\w+)\s*\(', src):
        p = match(src, m.end() - 1, '(', ')')
        k = p + 1
        while k < len(src) and src[k] in ' \t\r\nconst': k += 1
        if k >= len(src) or src[k] != '{': continue
        e = match(src, k, '{', '}')
        out.append((m.group(2) + '::' + m.group(3), src[k + 1:e], src.count('\n', 0, m.start()) + 2))
    return out

def translate(repo):
    rows = []
    files = sorted(glob.glob(os.path.join(repo, 'src', '**', '*.cpp'), recursive=True))
    for p in files:
        raw = open(p, errors='replace').read()
        if 'optimizationPreProcess' not in raw and 'optimizationPostProcess' not in raw: continue
        src = strip_comments(raw)
        for name, body, line in functions(src):
            if re.search(r'::_?optimization(Pre|Post)Process$', name): continue
            if not re.search(r'optimization(Pre|Post)Process\s*\(', body): continue
            blk = parse_block(body)
            recvs = sorted(set(b for b, e in events_of(body)))
            for rv in recvs:
                if rv in OWNED: continue
                ps = paths(blk, rv)
                words = sorted(set(w + (() if t else ('Ret',)) for w, t in ps))
                rows.append((name + ('@%s' % rv if rv else ''), os.path.relpath(p, repo), line, PROTOCOL.get(name, 'closed'), words))
    if not rows: raise TranslationError('no function calling optimizationPreProcess was found')
    # the implementation of the pair must still have the known shape (Pre does nothing when already prepared)
    acov = strip_comments(open(os.path.join(repo, 'src/Covariances/ACov.cpp')).read())
    if not re.search(r'void ACov::optimizationPostProcess\(\) const\s*\{\s*_optimizationPostProcess\(\);\s*_isOptimPreProcessed = false;\s*\}', acov):
        raise TranslationError('ACov::optimizationPostProcess changed')
    L = []
    w = L.append
    w('(* GENERATED by translators/C10_optimpaths.py. Do not edit. *)')
    w('From Coq Require Import List String.')
    w('From Gst Require Import C10.ModelOptim.')
    w('Import ListNotations.')
    w('Open Scope string_scope.')
    w('')
    w('Definition optim_paths : list (string * fkind * list word) := [')
    w(';\n'.join('  (* %s:%d *) ("%s", %s, [%s])' % (f, line, name, {'closed': 'Closed', 'opener': 'Opener', 'closer': 'Closer'}[kind],
                                                    '; '.join('[' + '; '.join(wd) + ']' for wd in words))
                 for name, f, line, kind, words in rows))
    w('].')
    table = [{'name': n, 'file': f, 'line': l, 'kind': k, 'words': [list(x) for x in ws]} for n, f, l, k, ws in rows]
    return '\n'.join(L) + '\n', table

if __name__ == '__main__':
    repo = sys.argv[1] if len(sys.argv) > 1 else '/repo'
    try:
        text, tab = translate(repo)
    except TranslationError as e:
        print('TRANSLATION ERROR:', e); sys.exit(1)
    if len(sys.argv) > 2: open(sys.argv[2], 'w').write(text)
    else: print(text)

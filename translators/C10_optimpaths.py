#!/usr/bin/env python3
"""C10 carrier (2): exit paths of every function that prepares the covariance optimisation cache
(ACov::optimizationPreProcess / optimizationPostProcess) -> coq/C10/gen/OptimPaths.v

For every function of the library that calls optimizationPreProcess (the functions implementing the pair
themselves excluded): the set of its exit paths as words over {Pre, Post, Ret, RetFail}.
  closed   functions must leave the cache as they found it on every path            (evalCovMatrixOptim, ...)
  opener   KrigingSystem::isReady: prepared on success, untouched on failure; closed by KrigingSystem::conclusion
FAILS CLOSED: unknown control statements, or Pre/Post inside a loop body, are translation errors.
"""
import re, sys, os, glob

class TranslationError(Exception):
    pass

PROTOCOL = {'KrigingSystem::isReady': 'opener', 'KrigingSystem::conclusion': 'closer'}

def strip_comments(s):
    s = re.sub(r'/\*.*?\*/', lambda m: re.sub(r'[^\n]', ' ', m.group(0)), s, flags=re.S)
    return re.sub(r'//[^\n]*', '', s)

def match(s, i, o, c):
    d = 0
    for j in range(i, len(s)):
        if s[j] == o: d += 1
        elif s[j] == c:
            d -= 1
            if d == 0: return j
    raise TranslationError('unbalanced %s' % o)

def parse_block(s):
    out = []; n = len(s)
    def skip(i):
        while i < n and s[i] in ' \t\r\n': i += 1
        return i
    def one(i):
        i = skip(i)
        if i >= n: return None, i
        if s[i] == '{':
            e = match(s, i, '{', '}'); return ('block', parse_block(s[i + 1:e])), e + 1
        m = re.match(r'(if|for|while|switch|do|try|goto)\b', s[i:])
        if m:
            kw = m.group(1)
            if kw not in ('if', 'for', 'while', 'switch'): raise TranslationError('unsupported control statement: ' + kw)
            j = skip(i + len(kw))
            e = match(s, j, '(', ')')
            head = s[j + 1:e].strip()
            if kw == 'switch':
                # the cases are alternatives; treated as a body executed zero or one time, labels removed (Pre/Post are refused inside)
                b0 = skip(e + 1)
                if s[b0] != '{': raise TranslationError('switch without block')
                e2 = match(s, b0, '{', '}')
                inner = re.sub(r'\b(case\s+[\w:]+|default)\s*:', ' ', s[b0 + 1:e2])
                inner = re.sub(r'\bbreak\s*;', ' ', inner)
                return ('loop', head, parse_block(inner)), e2 + 1
            body, k = one(e + 1)
            if body is None: raise TranslationError('missing body')
            body = body[1] if body[0] == 'block' else [body]
            if kw != 'if': return ('loop', head, body), k
            k2 = skip(k)
            if re.match(r'else\b', s[k2:]):
                eb, k3 = one(k2 + 4)
                eb = eb[1] if eb[0] == 'block' else [eb]
                return ('if', head, body, eb), k3
            return ('if', head, body, []), k
        d = 0; j = i
        while j < n:
            ch = s[j]
            if ch in '([{': d += 1
            elif ch in ')]}': d -= 1
            elif ch == ';' and d == 0: break
            j += 1
        if j >= n: raise TranslationError('statement without ;')
        return ('stmt', ' '.join(s[i:j].split())), j + 1
    i = 0
    while True:
        st, i = one(i)
        if st is None: break
        if st[0] == 'block': out.extend(st[1])
        else: out.append(st)
    return out

OWNED = {'_modelSimple'}     # private clones of the KrigingSystem, deleted with it: their cache cannot be seen by anybody else

def events_of(text, recv=None):
    """events on the receiver `recv` ('' = this); with recv None: (receiver, event) pairs"""
    ev = []
    for m in re.finditer(r'((?:[\w]+(?:\(\))?\s*(?:->|\.)\s*)*)optimization(PreProcess|PostProcess|SetTargetByIndex|SetTarget)\s*\(', text):
        r = re.sub(r'\s', '', m.group(1))
        r = re.sub(r'(->|\.)$', '', r)
        base = re.split(r'->|\.', r)[0] if r else ''
        ev.append((m.start(), base, {'PreProcess': 'Pre', 'PostProcess': 'Post', 'SetTargetByIndex': 'TgtIdx', 'SetTarget': 'Tgt'}[m.group(2)]))
    ev.sort()
    if recv is None: return [(b, e) for _, b, e in ev]
    return [e for _, b, e in ev if b == recv]

def paths(stmts, recv):
    """set of (word tuple, terminated)"""
    cur = {((), False)}
    for s in stmts:
        nxt = set()
        for w, term in cur:
            if term: nxt.add((w, True)); continue
            if s[0] == 'stmt':
                ev = events_of(s[1], recv)
                if re.match(r'return\b', s[1]):
                    fail = bool(re.fullmatch(r'return\s+(false|1)', s[1]))
                    nxt.add((w + tuple(ev) + (('RetFail',) if fail else ('Ret',)), True))
                else:
                    nxt.add((w + tuple(ev), False))
            elif s[0] == 'if':
                ev = tuple(events_of(s[1], recv))
                branches = [s[2], s[3]]
                # `if (recv != nullptr) ...` without else: with a null receiver there is no cache to speak of
                if recv and not s[3] and re.search(r'\b%s\s*!=\s*nullptr' % re.escape(recv), s[1]): branches = [s[2]]
                for branch in branches:
                    for w2, t2 in paths(branch, recv): nxt.add((w + ev + w2, t2))
            elif s[0] == 'loop':
                if any(e in ('Pre', 'Post') for b, e in events_of(s[1])): raise TranslationError('Pre/Post in a loop header')
                nxt.add((w, False))
                for w2, t2 in paths(s[2], recv):
                    if any(e in ('Pre', 'Post') for e in w2): raise TranslationError('Pre/Post inside a loop body')
                    nxt.add((w + w2, t2))
        cur = nxt
    return cur

def functions(src):
    out = []
    for m in re.finditer(r'\n([A-Za-z_][\w:<>\*&, ]*?)\s*\b(\w+)::(\w+)\s*\(', src):
        p = match(src, m.end() - 1, '(', ')')
        k = p + 1
        while k < len(src) and src[k] in ' \t\r\nconst': k += 1
        if k >= len(src) or src[k] != '{': continue
        e = match(src, k, '{', '}')
        out.append((m.group(2) + '::' + m.group(3), src[k + 1:e], src.count('\n', 0, m.start()) + 2))
    return out

def translate(repo):
    rows = []; inside = []
    files = sorted(glob.glob(os.path.join(repo, 'src', '**', '*.cpp'), recursive=True))
    for p in files:
        raw = open(p, errors='replace').read()
        if 'optimizationPreProcess' not in raw and 'optimizationPostProcess' not in raw and 'optimizationSetTarget' not in raw: continue
        src = strip_comments(raw)
        for name, body, line in functions(src):
            if re.search(r'::_?optimization(PreProcess|PostProcess|SetTarget|SetTargetByIndex)$', name): continue      # the implementation of the protocol itself
            if not re.search(r'optimization(PreProcess|PostProcess|SetTarget\w*)\s*\(', body): continue
            blk = parse_block(body)
            recvs = sorted(set(b for b, e in events_of(body)))
            for rv in recvs:
                if rv in OWNED: continue
                ps = paths(blk, rv)
                words = sorted(set(w + (() if t else ('Ret',)) for w, t in ps))
                kind = PROTOCOL.get(name, 'closed')
                if kind == 'closed' and not any(e in ('Pre', 'Post') for w in words for e in w): kind = 'inside'    # only sets targets
                rows.append((name + ('@%s' % rv if rv else ''), os.path.relpath(p, repo), line, kind, words))
                if kind == 'inside': inside.append((name, os.path.relpath(p, repo), src, any('TgtIdx' in w for w in words)))
    if not rows: raise TranslationError('no function calling optimizationPreProcess was found')
    # functions that only set targets rely on the cache being prepared: every PUBLIC member function of their class from
    # which they are reachable must refuse to run before the opener succeeded (`if (!_isReady) ... return`)
    entries = []
    for cls in sorted(set(n.split('::')[0] for n, f, src, ti in inside)):
        srcs = [src for n, f, src, ti in inside if n.startswith(cls + '::')]
        src = srcs[0]
        fns = {n.split('::')[1]: b for n, b, l in functions(src) if n.startswith(cls + '::')}
        calls = {n: set(m for m in re.findall(r'(?<![\w.>:])(\w+)\s*\(', b) if m in fns and m != n) for n, b in fns.items()}
        def closure(seed):
            reach = set(seed); changed = True
            while changed:
                changed = False
                for n, cs in calls.items():
                    if n not in reach and cs & reach: reach.add(n); changed = True
            return reach
        reach = closure(n.split('::')[1] for n, f, s_, ti in inside if n.startswith(cls + '::'))
        reach_idx = closure(n.split('::')[1] for n, f, s_, ti in inside if n.startswith(cls + '::') and ti)
        hdrs = glob.glob(os.path.join(repo, 'include', '**', cls + '.hpp'), recursive=True)
        if not hdrs: raise TranslationError('header of %s not found' % cls)
        hdr = strip_comments(open(hdrs[0]).read())
        pub = set()
        mode = 'private'
        for line in hdr.split('\n'):
            mm = re.match(r'\s*(public|private|protected)\s*:', line)
            if mm: mode = mm.group(1)
            elif mode == 'public':
                for m2 in re.finditer(r'\b(\w+)\s*\(', line): pub.add(m2.group(1))
        for n in sorted(reach & pub):
            if PROTOCOL.get(cls + '::' + n) in ('opener', 'closer'): continue
            if n == cls or n.startswith('~'): continue
            guarded = bool(re.match(r'\s*(?:[^;{}]*;\s*)*?if\s*\(\s*!\s*_isReady\s*\)', fns[n][:400]))
            entries.append((cls + '::' + n, guarded, n in reach_idx))
    # the implementation of the pair must still have the known shape (Pre does nothing when already prepared)
    acov = strip_comments(open(os.path.join(repo, 'src/Covariances/ACov.cpp')).read())
    if not re.search(r'void ACov::optimizationPostProcess\(\) const\s*\{\s*_optimizationPostProcess\(\);\s*_isOptimPreProcessed = false;\s*\}', acov):
        raise TranslationError('ACov::optimizationPostProcess changed')
    L = []
    w = L.append
    w('(* GENERATED by translators/C10_optimpaths.py. Do not edit. *)')
    w('From Coq Require Import List String.')
    w('From Gst Require Import C10.ModelOptim.')
    w('Import ListNotations.')
    w('Open Scope string_scope.')
    w('')
    w('Definition optim_paths : list (string * fkind * list word) := [')
    w(';\n'.join('  (* %s:%d *) ("%s", %s, [%s])' % (f, line, name, {'closed': 'Closed', 'opener': 'Opener', 'closer': 'Closer', 'inside': 'Inside'}[kind],
                                                    '; '.join('[' + '; '.join(wd) + ']' for wd in words))
                 for name, f, line, kind, words in rows))
    w('].')
    w('')
    w('(* public entry points from which a target-setting function is reachable: guarded by `if (!_isReady)`? ; reaches a')
    w('   SetTargetByIndex (which needs the cache prepared)? A by-point target is valid in any state. *)')
    w('Definition optim_entries : list (string * bool * bool) := [' + '; '.join('("%s", %s, %s)' % (n, 'true' if g else 'false', 'true' if t else 'false') for n, g, t in entries) + '].')
    table = [{'name': n, 'file': f, 'line': l, 'kind': k, 'words': [list(x) for x in ws]} for n, f, l, k, ws in rows]
    return '\n'.join(L) + '\n', {'rows': table, 'entries': entries}

if __name__ == '__main__':
    repo = sys.argv[1] if len(sys.argv) > 1 else '/repo'
    try:
        text, tab = translate(repo)
    except TranslationError as e:
        print('TRANSLATION ERROR:', e); sys.exit(1)
    if len(sys.argv) > 2: open(sys.argv[2], 'w').write(text)
    else: print(text)

#!/usr/bin/env python3
"""C10 carrier (4): translate the lazy-evaluation graph of KrigingCalcul into coq/C10/gen/KCGraph.v.

Input : <repo>/src/Estimation/KrigingCalcul.cpp, <repo>/include/Estimation/KrigingCalcul.hpp,
        <repo>/src/Matrix/{AMatrix,AMatrixDense,MatrixSquareSymmetric}.cpp (is invert() able to fail?)
Output: a Coq file defining  KCGraph : graph  (types of Gst.C10.Model) as plain lists, and a python dict (for the check).

What is extracted
  members      from the header: `const T* _M;` = pointer input, `int/bool _p;` = scalar parameter,
               every other data member = cached node (or scratch, see SCRATCH)
  _needN       for a pointer input: the member whose presence is tested;
               for a node: guard member, then the flat list of steps
                   SNeed m | SRead m | SFall site | SFail | SPub m | SRet0
               each with its path condition (conjunction of (condition over parameters, polarity))
  _deleteN     the _delete* it calls and the members it really frees
  set*/reset*  members written, dimension parameters passed by address to _checkDimension*, the _delete*
               functions reached through resetLinkedTo*, and that the resets precede every write/return
  getters      (path condition, member needed, member returned)

The translator FAILS CLOSED: any statement or condition it does not recognise raises TranslationError;
the check reports that as a broken tie (no graph => no theorem about the code).
"""
import re, sys, os, json

class TranslationError(Exception):
    pass

# helper functions whose body is inlined at the call site (they are not memoised themselves)
INLINE = {'_patchColCokVarianceZstar', '_needDual'}
# members recomputed on every use inside one (inlined) body: a read must be preceded by a write in the same body
SCRATCH = {'_bDual', '_cDual'}
# cross-validation patch: not modelled (see NOT_COVERED); steps under a condition on _nxvalid are dropped
EXCLUDED_FUNCS = {'setXvalidUnique', '_patchRHSForXvalidUnique', 'printStatus', '_printMatrix', '_printVector',
                  '_isPresentMatrix', '_isPresentVector', '_isPresentIVector', '_checkDimensionVector',
                  '_checkDimensionMatrix', '_validForDual', '_resetAll', 'KrigingCalcul', '~KrigingCalcul'}
EXCLUDED_MEMBERS = {'_C_RHS', '_X_RHS', '_rankXvalidEqs', '_rankXvalidVars', '_nxvalid'}
# suffix of _need/_delete -> member, when it is not simply '_' + suffix
ALIAS = {'ColCok': '_rankColCok', 'Xvalid': '_rankXvalidEqs', 'Dual': None}
DIM_PARAMS = {'_neq', '_nbfl', '_nrhs'}
NOT_COVERED = ('setXvalidUnique/_patchRHSForXvalidUnique (the cross-validation patch rewrites the inputs from inside the object) '
               'and every step guarded by _nxvalid are not part of the graph; the dimension parameters _neq/_nbfl/_nrhs are '
               'write-once (dimension lock) and are treated as constants of the object')

def strip_comments(s):
    s = re.sub(r'/\*.*?\*/', lambda m: re.sub(r'[^\n]', ' ', m.group(0)), s, flags=re.S)
    s = re.sub(r'//[^\n]*', '', s)
    return s

def match_brace(s, i, o='{', c='}'):
    assert s[i] == o
    d = 0
    for j in range(i, len(s)):
        if s[j] == o: d += 1
        elif s[j] == c:
            d -= 1
            if d == 0: return j
    raise TranslationError('unbalanced %s at %d' % (o, i))

def functions(src, cls='KrigingCalcul'):
    out = {}
    for m in re.finditer(r'([A-Za-z_][\w:<>\*& ]*?)\s*\b%s::(~?\w+)\s*\(' % cls, src):
        name = m.group(2)
        p = match_brace(src, m.end() - 1, '(', ')')
        k = p + 1
        # constructor initialiser list / const qualifier
        while k < len(src) and src[k] != '{' and src[k] != ';': k += 1
        if k >= len(src) or src[k] == ';': continue
        e = match_brace(src, k)
        if name in out and name != cls and cls == 'KrigingCalcul': raise TranslationError('function %s defined twice' % name)
        if name in out and cls != 'KrigingCalcul': out[name] = ('', '<overloaded>'); continue
        out[name] = (src[m.end():p], src[k + 1:e])
    return out

# ------------------------------------------------------------------ statements
def parse_block(s):
    """list of statements: ('if', cond, then_list, else_list) | ('for', head, body_list) | ('stmt', text) | ('block', list)"""
    out = []; i = 0; n = len(s)
    def skip(i):
        while i < n and s[i] in ' \t\r\n': i += 1
        return i
    def one(i):
        i = skip(i)
        if i >= n: return None, i
        if s[i] == '{':
            e = match_brace(s, i); return ('block', parse_block(s[i + 1:e])), e + 1
        m = re.match(r'(if|for|while|switch|do)\b', s[i:])
        if m:
            kw = m.group(1)
            if kw not in ('if', 'for'): raise TranslationError('unsupported control statement: ' + kw)
            j = skip(i + len(kw))
            if s[j] != '(': raise TranslationError('malformed ' + kw)
            e = match_brace(s, j, '(', ')')
            head = s[j + 1:e].strip()
            body, k = one(e + 1)
            if body is None: raise TranslationError('missing body of ' + kw)
            body = body[1] if body[0] == 'block' else [body]
            if kw == 'for': return ('for', head, body), k
            k2 = skip(k)
            if re.match(r'else\b', s[k2:]):
                eb, k3 = one(k2 + 4)
                eb = eb[1] if eb[0] == 'block' else [eb]
                return ('if', head, body, eb), k3
            return ('if', head, body, []), k
        # plain statement up to ';' at depth 0
        d = 0; j = i
        while j < n:
            ch = s[j]
            if ch in '([{': d += 1
            elif ch in ')]}': d -= 1
            elif ch == ';' and d == 0: break
            j += 1
        if j >= n: raise TranslationError('statement without ; : ' + s[i:i + 60])
        return ('stmt', ' '.join(s[i:j].split())), j + 1
    while True:
        st, i = one(i)
        if st is None: break
        if st[0] == 'block': out.extend(st[1])
        else: out.append(st)
    return out

def flat_text(stmts):
    out = []
    for s in stmts:
        if s[0] == 'stmt': out.append(s[1])
        elif s[0] == 'for': out.append(s[1] + ' ' + flat_text(s[2]))
        elif s[0] == 'if': out.append(s[1] + ' ' + flat_text(s[2]) + ' ' + flat_text(s[3]))
    return ' ; '.join(out)

def always_returns(stmts):
    if not stmts: return False
    l = stmts[-1]
    if l[0] == 'stmt': return bool(re.match(r'return\b', l[1]))
    if l[0] == 'if': return always_returns(l[2]) and always_returns(l[3])
    return False

# ------------------------------------------------------------------ conditions over parameters
def parse_cond(text, members):
    """tiny boolean language: returns nested tuple ('par',name) | ('empty',name) | ('not',a) | ('and',a,b) | ('or',a,b)"""
    toks = re.findall(r'\|\||&&|!|\(|\)|_\w+\s*->\s*empty\s*\(\s*\)|_\w+\s*(?:>|<=)\s*0|_\w+', text)
    if ''.join(toks).replace(' ', '') != text.replace(' ', ''):
        raise TranslationError('condition not understood: ' + text)
    pos = [0]
    def peek(): return toks[pos[0]] if pos[0] < len(toks) else None
    def eat(): pos[0] += 1; return toks[pos[0] - 1]
    def p_or():
        a = p_and()
        while peek() == '||': eat(); a = ('or', a, p_and())
        return a
    def p_and():
        a = p_not()
        while peek() == '&&': eat(); a = ('and', a, p_not())
        return a
    def p_not():
        t = peek()
        if t == '!': eat(); return ('not', p_not())
        if t == '(':
            eat(); a = p_or()
            if eat() != ')': raise TranslationError('condition not understood: ' + text)
            return a
        eat()
        m = re.match(r'(_\w+)\s*->\s*empty', t)
        if m:
            if members.get(m.group(1)) != 'in': raise TranslationError('empty() on a non-input: ' + text)
            return ('empty', m.group(1))
        m = re.match(r'(_\w+)\s*(>|<=)\s*0', t)
        if m:
            if members.get(m.group(1)) != 'par': raise TranslationError('comparison on a non-parameter: ' + text)
            return ('par', m.group(1)) if m.group(2) == '>' else ('not', ('par', m.group(1)))
        if members.get(t) != 'par': raise TranslationError('condition on something that is not a scalar parameter: ' + text)
        return ('par', t)
    a = p_or()
    if pos[0] != len(toks): raise TranslationError('condition not understood: ' + text)
    return a

def norm_pc(c):
    """(not a, b) -> (a, not b); duplicates removed"""
    out = []
    for a, b in c:
        while a[0] == 'not': a, b = a[1], not b
        if (a, b) not in out: out.append((a, b))
    return out

def cond_reads(a, pc):
    """members read when evaluating a under pc, each with the condition under which C++ evaluates it"""
    if a[0] in ('par', 'empty'): return [(pc, a[1])]
    if a[0] == 'not': return cond_reads(a[1], pc)
    if a[0] == 'and': return cond_reads(a[1], pc) + cond_reads(a[2], pc + [(a[1], True)])
    if a[0] == 'or': return cond_reads(a[1], pc) + cond_reads(a[2], pc + [(a[1], False)])
    raise TranslationError('condition: ' + str(a))

def cond_members(a):
    if a[0] in ('par', 'empty'): return [a[1]]
    out = []
    for x in a[1:]: out += cond_members(x)
    return out

# ------------------------------------------------------------------ the translator proper
class KC:
    def __init__(self, repo):
        self.repo = repo
        rd = lambda p: strip_comments(open(os.path.join(repo, p)).read())
        self.cpp = rd('src/Estimation/KrigingCalcul.cpp')
        self.hpp = rd('include/Estimation/KrigingCalcul.hpp')
        self.funcs = functions(self.cpp)
        self.members = {}      # name -> 'in' | 'par' | 'node' | 'scratch' | 'excluded'
        self.order = []
        self._members()
        self.invert_fallible = self._invert_fallible(rd)
        self.sites = []        # fallible call sites (node, text)
        self.notes = []
        self._build()

    def _members(self):
        m = re.search(r'class\s+\w+\s+KrigingCalcul\b', self.hpp)
        b = self.hpp.index('{', m.end()); e = match_brace(self.hpp, b)
        body = self.hpp[b + 1:e]
        for line in body.split(';'):
            line = ' '.join(line.split())
            line = re.sub(r'^(private|public|protected)\s*:\s*', '', line)
            line = re.sub(r'^(private|public|protected)\s*:\s*', '', line)
            if '(' in line or not line: continue
            mm = re.match(r'^(const\s+)?([\w:<>]+)\s*(\*?)\s*(_\w+)$', line)
            if not mm:
                if re.search(r'\b_\w+$', line): raise TranslationError('member declaration not understood: ' + line)
                continue
            const, typ, ptr, name = mm.groups()
            if name in EXCLUDED_MEMBERS: kind = 'excluded'
            elif name in SCRATCH: kind = 'scratch'
            elif const and ptr: kind = 'in'
            elif typ in ('int', 'bool') and not ptr: kind = 'par'
            elif ptr or typ.startswith('Vector'): kind = 'node'
            else: raise TranslationError('member of unknown kind: ' + line)
            self.members[name] = kind; self.order.append(name)
        self.vec_nodes = set()
        for line in body.split(';'):
            mm = re.match(r'^\s*(?:(?:private|public)\s*:\s*)*(Vector\w+)\s+(_\w+)\s*$', ' '.join(line.split()))
            if mm and self.members.get(mm.group(2)) in ('node', 'scratch'): self.vec_nodes.add(mm.group(2))

    def _invert_fallible(self, rd):
        """X->invert() on a dense square matrix: AMatrix::invert -> isSquare test -> _invert (virtual)
        -> MatrixSquareSymmetric::_invert -> AMatrixDense::_invert.  It is infallible iff those bodies are the known ones."""
        try:
            am = functions(rd('src/Matrix/AMatrix.cpp'), 'AMatrix')['invert'][1]
            ad = functions(rd('src/Matrix/AMatrixDense.cpp'), 'AMatrixDense')['_invert'][1]
            ms = functions(rd('src/Matrix/MatrixSquareSymmetric.cpp'), 'MatrixSquareSymmetric')['_invert'][1]
        except (KeyError, OSError):
            return True
        norm = lambda t: ''.join(t.split())
        ok = (re.fullmatch(r'if\(!isSquare\(\)\)\{messerr\("[^"]*"\);return1;\}return_invert\(\);', norm(am)) and
              norm(ms) == 'returnAMatrixDense::_invert();' and
              norm(ad) == '_eigenMatrix=_eigenMatrix.inverse();return0;')
        return not ok

    def suffix_member(self, suf):
        if suf in ALIAS: return ALIAS[suf]
        return '_' + suf

    # -------------------------------------------------------------- needs
    def _need_input(self, name, stmts):
        """`if (!_isPresentXxx("..", _M)) return 1; return 0;`  -> member tested"""
        if len(stmts) == 2 and stmts[0][0] == 'if' and stmts[1] == ('stmt', 'return 0'):
            m = re.fullmatch(r'!\s*_isPresent(?:Matrix|Vector|IVector)\s*\(\s*"[^"]*"\s*,\s*(_\w+)\s*\)', stmts[0][1])
            if m and stmts[0][2] == [('stmt', 'return 1')] and not stmts[0][3]:
                return m.group(1)
        return None

    def member_refs(self, text):
        return [t for t in re.findall(r'(?<![\w.>])_[A-Za-z]\w*', text) if t in self.members]

    def _steps(self, owner, stmts, pc, steps, st, depth=0):
        """append steps of a statement list executed under path condition pc; returns the pc in force after the list
        (an `if (c) return 0;` adds (c,false) to everything that follows)."""
        M = self.members
        for s in stmts:
            if s[0] == 'for':
                # a loop may only touch the node's own (already published) member and scalar parameters
                txt = s[1] + ' ' + flat_text(s[2])
                if re.search(r'\breturn\b|_need\w+|_delete\w+', txt): raise TranslationError('%s: control flow inside a loop' % owner)
                for t in self.member_refs(txt):
                    if M[t] == 'par': st['params'].add(t)
                    elif t == st['self'] and st['published']: pass
                    else: raise TranslationError('%s: loop touches %s' % (owner, t))
                continue
            if s[0] == 'if':
                cond, th, el = s[1], s[2], s[3]
                # 1. `if (_needX()) return 1;`
                m = re.fullmatch(r'(_need\w+|_patch\w+)\s*\((.*)\)', cond)
                if m and th == [('stmt', 'return 1')] and not el:
                    f = m.group(1)
                    if f in INLINE:
                        self._inline(owner, f, pc, steps, st, depth)
                    elif f.startswith('_need'):
                        tgt = self.suffix_member(f[5:])
                        if tgt is None or tgt not in M: raise TranslationError('%s: %s has no member' % (owner, f))
                        if f not in self.funcs: raise TranslationError('%s calls undefined %s' % (owner, f))
                        steps.append((pc, ('need', tgt)))
                    else: raise TranslationError('%s: call of %s in a condition' % (owner, f))
                    continue
                # 2. fallible library call `if (X->invert()) return 1;`
                m = re.fullmatch(r'(\w+)\s*(?:->|\.)\s*invert\s*\(\s*\)', cond)
                if m and th == [('stmt', 'return 1')] and not el:
                    if m.group(1) in M and M[m.group(1)] == 'node' and m.group(1) != st['self']:
                        raise TranslationError('%s inverts a foreign member %s' % (owner, m.group(1)))
                    if self.invert_fallible:
                        self.sites.append((owner, cond)); steps.append((pc, ('fall', len(self.sites) - 1)))
                    continue
                # 3. condition over parameters
                if any(x in EXCLUDED_MEMBERS for x in re.findall(r'_\w+', cond)):
                    self.notes.append('%s: branch on %s dropped (not modelled)' % (owner, cond)); continue
                a = parse_cond(cond, M)
                for cpc, t in cond_reads(a, pc):      # short-circuit evaluation: b of `a && b` is read only when a holds
                    if M[t] == 'par': st['params'].add(t)
                    else: steps.append((cpc, ('read', t)))
                if th == [('stmt', 'return 0')] and not el:
                    steps.append((pc + [(a, True)], ('ret0',)))
                    pc = pc + [(a, False)]; continue
                if th == [('stmt', 'return 1')] and not el:
                    steps.append((pc + [(a, True)], ('fail',)))
                    pc = pc + [(a, False)]; continue
                self._steps(owner, th, pc + [(a, True)], steps, st, depth + 1)
                self._steps(owner, el, pc + [(a, False)], steps, st, depth + 1)
                r1, r2 = always_returns(th), always_returns(el)
                if r1 and r2: return pc
                if r1: pc = pc + [(a, False)]
                elif r2: pc = pc + [(a, True)]
                continue
            text = s[1]
            if text == 'return 0':
                steps.append((pc, ('ret0',))); return pc
            if text == 'return 1':
                steps.append((pc, ('fail',))); return pc
            if re.match(r'return\b', text): raise TranslationError('%s: unexpected %s' % (owner, text))
            if re.search(r'\b(_need\w+|_delete\w+|set\w+|resetLinked\w+)\s*\(', text):
                raise TranslationError('%s: call not in the `if (f()) return 1;` form: %s' % (owner, text))
            # assignment / in-place update / local declaration
            m = re.match(r'(_\w+)\s*=(?!=)', text)
            target = m.group(1) if m and m.group(1) in M else None
            rhs = text[m.end():] if target else text
            if target:
                k = M[target]
                if k == 'scratch': st['scratch_written'].add(target); st['scratch_pending_w'] = target
                elif k == 'node': pass
                else: raise TranslationError('%s assigns %s (%s)' % (owner, target, k))
            m2 = re.match(r'(_\w+)\s*(?:->|\.)\s*\w+\s*\(', text)
            inplace = m2.group(1) if (m2 and not target and m2.group(1) in M and M[m2.group(1)] == 'node') else None
            reads = []
            for t in self.member_refs(rhs if target else text):
                k = M[t]
                if k == 'par': st['params'].add(t)
                elif k == 'scratch':
                    st['scratch_events'].append((pc, ('R', t)))      # whether a write precedes it is decided in Coq (C10_kc_scratch_dead)
                elif k == 'excluded': raise TranslationError('%s reads excluded member %s' % (owner, t))
                elif t == st['self'] and (st['published'] or t == inplace): pass     # own member after publication
                elif t == inplace and t != st['self']: raise TranslationError('%s modifies foreign member %s in place' % (owner, t))
                else: reads.append(t)
            for t in reads:
                if (pc, ('read', t)) not in steps or True: steps.append((pc, ('read', t)))
            if target and M[target] == 'scratch':
                st['scratch_events'].append((pc, ('W', target)))
            if target and M[target] == 'node':
                steps.append((pc, ('pub', target)))
                if target == st['self']: st['published'] = True
            if inplace and inplace == st['self'] and not st['published']:
                raise TranslationError('%s updates %s in place before assigning it' % (owner, inplace))
        return pc

    def _inline(self, owner, f, pc, steps, st, depth):
        if f not in self.funcs: raise TranslationError('inlined helper %s not found' % f)
        body = parse_block(self.funcs[f][1])
        inner = []
        sub = dict(st); sub['published'] = st['published']
        # inside the helper `return 1` = failure of the caller's step, `return 0` = go on with the caller
        if not body or body[-1] != ('stmt', 'return 0'): raise TranslationError('helper %s does not end with return 0' % f)
        p = self._steps(owner + '/' + f, body[:-1], pc, inner, st, depth + 1)
        for c, x in inner:
            if x[0] == 'ret0': raise TranslationError('early `return 0` inside inlined helper ' + f)
        # a top-level `if (c) return 1;` of the helper restricts the rest of the helper only; we keep that restriction
        # for the rest of the caller as well (the caller returns 1 in that case anyway)
        steps.extend(inner)

    def _need_node(self, name, stmts):
        tgt = self.suffix_member(name[5:])
        M = self.members
        if not stmts or stmts[0][0] != 'if': raise TranslationError('%s: no guard' % name)
        g = stmts[0]
        m = re.fullmatch(r'(_\w+)\s*!=\s*nullptr', g[1]) or re.fullmatch(r'!\s*(_\w+)\s*\.\s*empty\s*\(\s*\)', g[1])
        if not (m and g[2] == [('stmt', 'return 0')] and not g[3]): raise TranslationError('%s: first statement is not the cache guard' % name)
        guard = m.group(1)
        if M.get(guard) != 'node': raise TranslationError('%s guards on %s which is not a cached member' % (name, guard))
        st = {'self': tgt, 'published': False, 'params': set(), 'scratch_written': set(), 'scratch_events': []}
        steps = []
        if not stmts[-1] == ('stmt', 'return 0'): raise TranslationError('%s does not end with return 0' % name)
        self._steps(name, stmts[1:-1], [], steps, st)
        return {'guard': guard, 'params': sorted(st['params'], key=self.order.index), 'steps': steps, 'scratch': st['scratch_events']}

    # -------------------------------------------------------------- deletes / setters / getters
    def _delete(self, name, stmts):
        calls, deleted, nulled, cleared, parw = [], [], [], [], []
        only_scratch_cond = False
        for s in stmts:
            if s[0] == 'if':
                if s[2] == [('stmt', 'return')] and not s[3]:
                    parse_cond(s[1], self.members); only_scratch_cond = True; continue
                raise TranslationError('%s: conditional statement' % name)
            if s[0] != 'stmt': raise TranslationError('%s: loop' % name)
            t = s[1]
            m = re.fullmatch(r'(_delete\w+)\s*\(\s*\)', t)
            if m:
                if m.group(1) not in self.funcs: raise TranslationError('%s calls undefined %s' % (name, m.group(1)))
                calls.append(m.group(1)); continue
            m = re.fullmatch(r'delete\s+(_\w+)', t)
            if m: deleted.append(m.group(1)); continue
            m = re.fullmatch(r'(_\w+)\s*=\s*nullptr', t)
            if m: nulled.append(m.group(1)); continue
            m = re.fullmatch(r'(_\w+)\s*\.\s*clear\s*\(\s*\)', t)
            if m: cleared.append(m.group(1)); continue
            m = re.fullmatch(r'(_\w+)\s*=\s*0', t)
            if m and self.members.get(m.group(1)) in ('par', 'excluded'): parw.append(m.group(1)); continue
            raise TranslationError('%s: statement not understood: %s' % (name, t))
        if sorted(deleted) != sorted(nulled): raise TranslationError('%s: delete without reset to nullptr (or the converse): %s / %s' % (name, deleted, nulled))
        frees = []
        for x in deleted + cleared:
            k = self.members.get(x)
            if k == 'node': frees.append(x)
            elif k in ('scratch', 'excluded'): pass
            else: raise TranslationError('%s frees %s (%s)' % (name, x, k))
        if only_scratch_cond and frees: raise TranslationError('%s: conditional return in a delete that frees cached members' % name)
        return {'calls': calls, 'frees': frees, 'parw': [p for p in parw if self.members[p] == 'par']}

    def _setter(self, name, stmts, is_reset):
        resets, writes, dims = [], [], []
        seen_other = [False]
        def walk(L, top):
            for s in L:
                if s[0] == 'if':
                    m = re.fullmatch(r'!\s*_checkDimension(?:Vector|Matrix)\s*\((.*)\)', s[1])
                    if m:
                        for p in re.findall(r'&\s*(_\w+)', m.group(1)):
                            if self.members.get(p) != 'par': raise TranslationError('%s: &%s' % (name, p))
                            if p not in dims: dims.append(p)
                        seen_other[0] = True
                        if s[2] != [('stmt', 'return 1')] or s[3]: raise TranslationError('%s: dimension check without return 1' % name)
                        continue
                    if re.search(r'\b_\w+\s*\(', s[1]): raise TranslationError('%s: call in condition %s' % (name, s[1]))
                    seen_other[0] = True
                    walk(s[2], False); walk(s[3], False); continue
                if s[0] == 'for': raise TranslationError('%s: loop' % name)
                t = s[1]
                m = re.fullmatch(r'(resetLinked\w+|_delete\w+)\s*\(\s*\)', t)
                if m:
                    if seen_other[0] or not top: raise TranslationError('%s: %s is not executed first and unconditionally' % (name, m.group(1)))
                    resets.append(m.group(1)); continue
                seen_other[0] = True
                m = re.match(r'(_\w+)\s*=(?!=)', t)
                if m and m.group(1) in self.members:
                    k = self.members[m.group(1)]
                    if k not in ('in', 'par'): raise TranslationError('%s writes %s (%s)' % (name, m.group(1), k))
                    if m.group(1) not in writes: writes.append(m.group(1))
                    continue
                if re.match(r'(return\b|messerr\s*\(|int \w+ =|\(void\))', t): continue
                raise TranslationError('%s: statement not understood: %s' % (name, t))
        walk(stmts, True)
        dels = []
        for r in resets:
            if r.startswith('_delete'): dels.append(r); continue
            if r not in self.funcs: raise TranslationError('%s calls undefined %s' % (name, r))
            for s in parse_block(self.funcs[r][1]):
                m = s[0] == 'stmt' and re.fullmatch(r'(_delete\w+)\s*\(\s*\)', s[1])
                if not m: raise TranslationError('%s: statement not understood: %s' % (r, s))
                dels.append(m.group(1))
        return {'resets': dels, 'writes': writes, 'dims': dims}

    def _getter(self, name, stmts):
        br = []
        def walk(L, pc):
            for i, s in enumerate(L):
                if s[0] == 'if':
                    c = s[1]
                    m = re.fullmatch(r'(_need\w+)\s*\(\s*\)', c)
                    if m:
                        if not (len(s[2]) == 1 and re.match(r'return\b', s[2][0][1]) and not s[3]): raise TranslationError(name + ': need without return')
                        nxt = L[i + 1] if i + 1 < len(L) else None
                        mm = nxt and nxt[0] == 'stmt' and re.fullmatch(r'return\s+(_\w+)(?:\s*->\s*getDiagonal\s*\(\s*\))?', nxt[1])
                        if not mm: raise TranslationError(name + ': need not followed by the return of a member')
                        br.append((pc, self.suffix_member(m.group(1)[5:]), mm.group(1)))
                        continue
                    if re.fullmatch(r'!?\s*_validForDual\s*\(\s*\)', c):
                        a = ('par', '_flagDual')      # _validForDual() == !_flagDual
                        neg = c.replace(' ', '').startswith('!')
                        # `if (!_validForDual()) return` : what follows runs under !_flagDual ; `if (_validForDual()) return`: under _flagDual
                        pc = pc + [(a, not neg)]
                        continue
                    a = parse_cond(c, self.members)
                    walk(s[2], pc + [(a, True)]); walk(s[3], pc + [(a, False)])
                    if s[2] and s[2][-1][0] == 'stmt' and s[2][-1][1].startswith('return'): pc = pc + [(a, False)]
                    continue
                if s[0] == 'stmt' and re.match(r'return\b', s[1]): continue
                raise TranslationError('%s: statement not understood: %s' % (name, s))
        walk(stmts, [])
        return br

    def _build(self):
        M = self.members
        self.inneeds, self.nodes, self.dels, self.setters, self.getters = {}, {}, {}, {}, {}
        for name, (args, body) in self.funcs.items():
            if name in EXCLUDED_FUNCS or name in INLINE: continue
            stmts = parse_block(body)
            if name.startswith('_need'):
                tgt = self.suffix_member(name[5:])
                if tgt is None or tgt not in M: raise TranslationError('%s: no member for this name' % name)
                if M[tgt] == 'excluded': continue
                if M[tgt] == 'in':
                    chk = self._need_input(name, stmts)
                    if chk is None: raise TranslationError('%s: not a presence test' % name)
                    if M.get(chk) != 'in': raise TranslationError('%s tests %s' % (name, chk))
                    self.inneeds[tgt] = chk
                elif M[tgt] == 'node': self.nodes[tgt] = self._need_node(name, stmts)
                else: raise TranslationError('%s: need of a %s' % (name, M[tgt]))
            elif name.startswith('_delete'):
                self.dels[name] = self._delete(name, stmts)
            elif name.startswith('set'):
                self.setters[name] = self._setter(name, stmts, False)
            elif name.startswith('resetLinked'):
                self.setters[name] = self._setter(name, stmts, True)
            elif name.startswith('get'):
                self.getters[name] = self._getter(name, stmts)
            else:
                raise TranslationError('function %s is of no known category' % name)
        for n in M:
            if M[n] == 'node' and n not in self.nodes: raise TranslationError('cached member %s has no _need function' % n)
        # parameters written by deletes count as writes of the setters that reach them
        # topological order (dependents first); cycles are a translation error
        deps = {n: [x[1] for c, x in b['steps'] if x[0] in ('need', 'read') and M[x[1]] == 'node' and x[1] != n] for n, b in self.nodes.items()}
        order, mark = [], {}
        def visit(n, stack):
            if mark.get(n) == 2: return
            if mark.get(n) == 1: raise TranslationError('cyclic needs: ' + ' -> '.join(stack + [n]))
            mark[n] = 1
            for d in deps[n]: visit(d, stack + [n])
            mark[n] = 2; order.append(n)
        for n in self.order:
            if M[n] == 'node': visit(n, [])
        self.topo = order[::-1]     # dependents first
        self.ins = [n for n in self.order if M[n] == 'in']
        self.pars = [n for n in self.order if M[n] == 'par']
        self.nodeids = [n for n in self.order if M[n] == 'node']
        # delete functions are identified with the member they are named after
        self.delname = {}
        for d in self.dels:
            tgt = self.suffix_member(d[7:])
            self.delname[d] = tgt

    # -------------------------------------------------------------- output
    def mem(self, n):
        k = self.members[n]
        if k == 'in': return 'MIn %d' % self.ins.index(n)
        if k == 'par': return 'MPar %d' % self.pars.index(n)
        if k == 'node': return 'MNode %d' % self.nodeids.index(n)
        raise TranslationError('no id for ' + n)

    def aexp(self, a):
        if a[0] == 'par': return '(APar %d)' % self.pars.index(a[1])
        if a[0] == 'empty': return '(AEmpty %d)' % self.ins.index(a[1])
        if a[0] == 'not': return '(ANot %s)' % self.aexp(a[1])
        return '(%s %s %s)' % ({'and': 'AAnd', 'or': 'AOr'}[a[0]], self.aexp(a[1]), self.aexp(a[2]))

    def pc(self, c): return '[' + '; '.join('(%s, %s)' % (self.aexp(a), 'true' if b else 'false') for a, b in norm_pc(c)) + ']'

    def step(self, x):
        if x[0] == 'need': return 'SNeed (%s)' % self.mem(x[1])
        if x[0] == 'read': return 'SRead (%s)' % self.mem(x[1])
        if x[0] == 'pub': return 'SPub %d' % self.nodeids.index(x[1])
        if x[0] == 'fall': return 'SFall %d' % x[1]
        if x[0] == 'fail': return 'SFail'
        if x[0] == 'ret0': return 'SRet0'
        raise TranslationError(str(x))

    def delid(self, d):
        """delete functions are numbered in order of definition"""
        return list(self.dels).index(d)

    def coq(self):
        L = []
        w = L.append
        w('(* GENERATED by translators/C10_kcgraph.py from src/Estimation/KrigingCalcul.cpp + include/Estimation/KrigingCalcul.hpp.')
        w('   Regenerated by bin/check C10 on every run; do not edit. *)')
        w('From Coq Require Import List.')
        w('From Gst Require Import C10.Model.')
        w('Import ListNotations.')
        w('')
        w('(* pointer inputs : ' + ', '.join('%d=%s' % (i, n) for i, n in enumerate(self.ins)) + ' *)')
        w('(* parameters     : ' + ', '.join('%d=%s' % (i, n) for i, n in enumerate(self.pars)) + ' *)')
        w('(* cached nodes   : ' + ', '.join('%d=%s' % (i, n) for i, n in enumerate(self.nodeids)) + ' *)')
        w('(* delete functions: ' + ', '.join('%d=%s' % (i, n) for i, n in enumerate(self.dels)) + ' *)')
        w('(* setters        : ' + ', '.join('%d=%s' % (i, n) for i, n in enumerate(self.setters)) + ' *)')
        w('(* X->invert() can fail: %s ; fallible call sites: %s *)' % (self.invert_fallible, self.sites))
        w('')
        w('Definition kc_inneeds : list (nat * nat) := [' + '; '.join('(%d, %d)' % (self.ins.index(i), self.ins.index(c)) for i, c in self.inneeds.items()) + '].')
        w('')
        w('Definition kc_nodes : list (nat * body) := [')
        rows = []
        for n in self.topo:
            b = self.nodes[n]
            steps = ';\n       '.join('(%s, %s)' % (self.pc(c), self.step(x)) for c, x in b['steps'])
            rows.append('  (* _need%s *)\n  (%d, {| b_guard := Some %d; b_params := [%s];\n     b_steps := [\n       %s] |})' % (
                n[1:], self.nodeids.index(n), self.nodeids.index(b['guard']), '; '.join(str(self.pars.index(p)) for p in b['params']), steps))
        w(';\n'.join(rows)); w('].'); w('')
        w('Definition kc_dels : list (nat * delfn) := [')
        rows = []
        for d, v in self.dels.items():
            tgt = self.delname[d]
            own = 'Some (%s)' % self.mem(tgt) if (tgt in self.members and self.members[tgt] in ('in', 'par', 'node')) else 'None'
            rows.append('  (* %s *) (%d, {| d_own := %s; d_calls := [%s]; d_frees := [%s] |})' % (
                d, self.delid(d), own, '; '.join(str(self.delid(c)) for c in v['calls']), '; '.join(str(self.nodeids.index(f)) for f in v['frees'])))
        w(';\n'.join(rows)); w('].'); w('')
        w('Definition kc_setters : list (nat * setter) := [')
        rows = []
        for i, (s, v) in enumerate(self.setters.items()):
            wr = list(v['writes'])
            rows.append('  (* %s ; dimension-locked: %s *) (%d, {| s_writes := [%s]; s_resets := [%s] |})' % (
                s, ' '.join(v['dims']), i, '; '.join(self.mem(x) for x in wr), '; '.join(str(self.delid(d)) for d in v['resets'])))
        w(';\n'.join(rows)); w('].'); w('')
        w('(* dimension parameters a setter fixes through _checkDimension* (write-once; constants of the object in the theorems) *)')
        w('Definition kc_dims : list (nat * list mem) := [' + '; '.join('(%d, [%s])' % (i, '; '.join(self.mem(x) for x in v['dims']))
                                                                for i, (s, v) in enumerate(self.setters.items())) + '].')
        w('')
        sc = [n for n in self.order if self.members[n] == 'scratch']
        w('(* scratch members (recomputed on every use): ' + ', '.join('%d=%s' % (i, n) for i, n in enumerate(sc)) + ' ; per _need body, in order: writes and reads *)')
        w('Definition kc_scratch : list (nat * list (pc * sev)) := [' + '; '.join(
            '(%d, [%s])' % (self.nodeids.index(n), '; '.join('(%s, %s %d)' % (self.pc(c), 'SW' if e[0] == 'W' else 'SR', sc.index(e[1])) for c, e in self.nodes[n]['scratch']))
            for n in self.topo if self.nodes[n]['scratch']) + '].')
        w('')
        w('Definition KCGraph : graph := {| g_inneeds := kc_inneeds; g_nodes := kc_nodes; g_dels := kc_dels; g_setters := kc_setters |}.')
        w('')
        w('(* getters: name, (path condition, member needed, member returned) *)')
        for g, br in self.getters.items():
            w('(* %s: %s *)' % (g, '; '.join('%s need %s return %s' % (self.pc(c), a, b) for c, a, b in br)))
        w('Definition kc_getters : list (nat * nat) := [' + '; '.join(sorted(set('(%d, %d)' % (self.nodeids.index(a), self.nodeids.index(b))
            for br in self.getters.values() for c, a, b in br if self.members.get(a) == 'node' and self.members.get(b) == 'node'))) + '].')
        return '\n'.join(L) + '\n'

    def table(self):
        def cj(a):
            return list(a) if a[0] in ('par', 'empty') else [a[0]] + [cj(x) for x in a[1:]]
        return {'inputs': self.ins, 'params': self.pars, 'nodes': self.nodeids, 'topo': self.topo,
                'dels': list(self.dels), 'setters': list(self.setters),
                'setter_info': self.setters, 'del_info': self.dels, 'inneeds': self.inneeds,
                'getters': {g: [[[[cj(a), b] for a, b in norm_pc(c)], x, y] for c, x, y in br] for g, br in self.getters.items()},
                'node_info': {n: {'guard': b['guard'], 'params': b['params'],
                                  'steps': [[[[cj(a), p] for a, p in norm_pc(c)], list(x)] for c, x in b['steps']]} for n, b in self.nodes.items()},
                'invert_fallible': self.invert_fallible, 'sites': self.sites, 'notes': self.notes, 'not_covered': NOT_COVERED}

def translate(repo):
    kc = KC(repo)
    return kc.coq(), kc.table()

if __name__ == '__main__':
    repo = sys.argv[1] if len(sys.argv) > 1 else '/repo'
    out = sys.argv[2] if len(sys.argv) > 2 else None
    try:
        text, tab = translate(repo)
    except TranslationError as e:
        print('TRANSLATION ERROR:', e); sys.exit(1)
    if out: open(out, 'w').write(text)
    else: print(text)

#!/usr/bin/env python3
"""C10 carriers (3)/(6): member caches of the neighbourhood classes -> coq/C10/gen/NeighCache.v

From include/Neigh/{ANeigh,Neigh*}.hpp and src/Neigh/{ANeigh,Neigh*}.cpp, for every concrete class S (with ANeigh's members
and methods, S's overrides winning):
  * for each member function: members read / written directly, member functions called, use of the target index iech_out
  * the closure of select(): fields written there are caches:
       scratch   every member function of the closure that touches it writes it first   (_T1, _T2, _movingInd ...)
       output    written, never read in the closure                                     (_flagIsUnchanged)
       memo      the rest (_nbghMemo, _iechMemo): ONE keyed field, key = target when _isSameTarget compares it
    fields built by a setter with .init(...) and read in the closure are eager caches   (_ball)
  * inputs: members read by the closure / by the builders and written only by public setters
  * setters: public member functions writing inputs, with the fields they clear / rebuild (transitively)
  * hasChanged(): policy under which the memorised ranks are handed out without search
FAILS CLOSED on a hasChanged() body of unknown shape, a missing select()/_isSameTarget, or a class without header.
"""
import re, sys, os, glob

class TranslationError(Exception):
    pass

CLASSES = ['NeighMoving', 'NeighUnique', 'NeighBench', 'NeighCell', 'NeighImage']
SKIP_METHODS = re.compile(r'^(toString|_deserialize|_serialize|_getNFName|create\w*|dumpToNF|display|summary|clone|operator\W*|_display|_neighCompress)$')
WRITE = r'(?:\s*(?:\[[^\]]*\]\s*)*(?:=(?!=)|\+=|-=|\+\+|--)|\s*\.\s*(?:push_back|clear|resize|insert|erase|init|assign|fill|emplace_back|swap|setFFFF|setIech|setTarget|set\w*)\s*\()'

def strip(s):
    s = re.sub(r'/\*.*?\*/', lambda m: re.sub(r'[^\n]', ' ', m.group(0)), s, flags=re.S)
    s = re.sub(r'//[^\n]*', '', s)
    return re.sub(r'"(?:[^"\\\n]|\\.)*"', '""', s)

def match(s, i, o, c):
    d = 0
    for j in range(i, len(s)):
        if s[j] == o: d += 1
        elif s[j] == c:
            d -= 1
            if d == 0: return j
    raise TranslationError('unbalanced')

def class_info(repo, cls):
    hp = glob.glob(os.path.join(repo, 'include', 'Neigh', cls + '.hpp'))
    if not hp: raise TranslationError('header of %s not found' % cls)
    h = strip(open(hp[0]).read())
    m = re.search(r'class\s+\w+\s+%s\b[^{]*\{' % cls, h)
    if not m: raise TranslationError('class %s not found' % cls)
    b = m.end() - 1; e = match(h, b, '{', '}')
    body = h[b + 1:e]
    members = []; methods = {}; public = set()
    mode = 'private'; i = 0; d = 0
    # statements at depth 0 of the class body
    start = 0; j = 0; pd = 0
    while j < len(body):
        ch = body[j]
        if ch == '(': pd += 1
        elif ch == ')': pd -= 1
        elif ch == '{' and pd == 0:
            k = match(body, j, '{', '}')
            st = body[start:k + 1]; start = k + 1; j = k
            mm = re.search(r'(~?\w+)\s*\(([^()]*)\)\s*(?:const\s*)?(?:override\s*)?\{(.*)\}\s*$', ' '.join(st.split()), re.S)
            mo = re.findall(r'\b(public|private|protected)\s*:', st)
            if mo: mode = mo[-1]
            if mm:
                methods[mm.group(1)] = (mm.group(2), mm.group(3))
                if mode == 'public': public.add(mm.group(1))
        elif ch == ';' and pd == 0:
            st = ' '.join(body[start:j].split()); start = j + 1
            mo = re.findall(r'\b(public|private|protected)\s*:', st)
            if mo: mode = mo[-1]
            st = re.sub(r'\b(public|private|protected)\s*:', '', st).strip()
            if '(' in st:
                mm = re.search(r'(~?\w+)\s*\(', st)
                if mm and mode == 'public': public.add(mm.group(1))
            else:
                mm = re.match(r'^(?:mutable\s+)?(?:const\s+)?[\w:<>\*& ]+?[\s\*&]+(_\w+)$', st)
                if mm: members.append(mm.group(1))
        j += 1
    cp = os.path.join(repo, 'src', 'Neigh', cls + '.cpp')
    if not os.path.exists(cp): raise TranslationError('%s.cpp not found' % cls)
    c = strip(open(cp).read())
    for mm in re.finditer(r'\b%s::(~?\w+)\s*\(' % cls, c):
        p = match(c, mm.end() - 1, '(', ')')
        k = p + 1
        while k < len(c) and c[k] not in '{;': k += 1
        if k >= len(c) or c[k] == ';': continue
        e2 = match(c, k, '{', '}')
        methods[mm.group(1)] = (' '.join(c[mm.end():p].split()), ' '.join(c[k + 1:e2].split()))
    return members, methods, public

def analyse_method(args, body, members, allmethods):
    reads, writes, calls = [], [], set()
    first = {}
    for m in re.finditer(r'(?<![\w.>])(_[A-Za-z]\w*)\b', body):
        n = m.group(1)
        if n not in members: continue
        after = body[m.end():m.end() + 40]
        before = body[max(0, m.start() - 60):m.start()]
        w = bool(re.match(WRITE, after)) or bool(re.search(r'InPlace\s*\([^()]*,\s*$', before)) or before.rstrip().endswith('++') or before.rstrip().endswith('--')
        (writes if w else reads).append(n)
        first.setdefault(n, 'W' if w else 'R')
    for m in re.finditer(r'(?<![\w.>:])(\w+)\s*\(', body):
        if m.group(1) in allmethods: calls.add(m.group(1))
    for m in re.finditer(r'\bANeigh::(\w+)\s*\(', body):
        if 'ANeigh::' + m.group(1) in allmethods: calls.add('ANeigh::' + m.group(1))
        elif m.group(1) in allmethods: calls.add(m.group(1))
    uses_target = bool(re.search(r'\biech_out\b', re.sub(r'DECLARE_UNUSED\s*\([^)]*\)', '', body))) and 'iech_out' in args
    return {'reads': set(reads), 'writes': set(writes), 'calls': calls, 'first': first, 'target': uses_target}

def policy_of(body):
    b = ''.join(body.split())
    b = re.sub(r'DECLARE_UNUSED\(\w+\);', '', b)
    empty = r'\(?_iechMemo<0\|\|_isNbghMemoEmpty\(\)\)?'
    if re.fullmatch(r'(if\(%s\)returntrue;)?returntrue;' % empty, b): return 'PAlways', None
    if re.fullmatch(r'return%s;' % empty, b): return 'PIfMemoEmpty', None
    if re.fullmatch(r'return\(?_iechMemo<0\|\|_isNbghMemoEmpty\(\)\|\|getFlagXvalid\(\)\)?;', b): return 'PIfMemoEmpty', 'xvalid-escape'
    m = re.fullmatch(r'if\(%s\)returntrue;return(!?)(\w+)\(iech_out\);' % empty, b)
    if m: return ('PDiffGroup' if m.group(1) else 'PSameGroup'), m.group(2)
    m = re.fullmatch(r'if\(_iechMemo<0\|\|_isNbghMemoEmpty\(\)\|\|getFlagXvalid\(\)\)returntrue;return(!?)(\w+)\(iech_out\);', b)
    if m: return ('PDiffGroup' if m.group(1) else 'PSameGroup'), 'xvalid-escape'
    raise TranslationError('hasChanged() of unknown shape: ' + body[:120])

def translate(repo):
    bm, bmeth, bpub = class_info(repo, 'ANeigh')
    out = []
    for cls in CLASSES:
        sm, smeth, spub = class_info(repo, cls)
        members = list(dict.fromkeys(bm + sm))
        methods = dict(bmeth); methods.update(smeth)
        for k, v in bmeth.items():          # the base version stays reachable through ANeigh::name(...)
            if k in smeth: methods['ANeigh::' + k] = v
        methods = {k: v for k, v in methods.items() if not SKIP_METHODS.match(k.split('::')[-1]) and k.split('::')[-1] not in (cls, 'ANeigh', '~' + cls, '~ANeigh')}
        public = (bpub | spub) & set(methods)
        for need in ('select', '_isSameTarget', '_checkUnchanged', 'hasChanged', 'getNeigh', 'attach', 'setIsChanged'):
            if need not in methods: raise TranslationError('%s: %s not found' % (cls, need))
        A = {n: analyse_method(a, b, set(members), set(methods)) for n, (a, b) in methods.items()}
        def closure(roots):
            seen = set(); todo = list(roots)
            while todo:
                x = todo.pop()
                if x in seen or x not in A: continue
                seen.add(x); todo += list(A[x]['calls'])
            return seen
        C = closure(['select'])
        wr = set().union(*[A[m]['writes'] for m in C]); rd = set().union(*[A[m]['reads'] for m in C])
        outputs = sorted(x for x in wr if x not in rd)
        scratch = sorted(x for x in wr if x in rd and all(A[m]['first'].get(x, 'W') == 'W' for m in C))
        memo = sorted(x for x in wr if x not in outputs and x not in scratch)
        if '_nbghMemo' not in memo: raise TranslationError('%s: _nbghMemo is not recognised as the memo of select()' % cls)
        # eager fields: built with .init( by a setter, read in the closure
        eager = {}
        for n, (a, b) in methods.items():
            for mm in re.finditer(r'(_\w+)\s*\.\s*init\s*\(', b):
                if mm.group(1) in members: eager.setdefault(mm.group(1), set()).add(n)
        eager = {f: bs for f, bs in eager.items() if f in rd}
        caches = set(memo) | set(eager) | set(scratch) | set(outputs)
        inputs = sorted((rd | set().union(*[A[m]['reads'] for f in eager for m in closure(eager[f])])) - caches, key=members.index)
        # where does the target index matter for the ranks?  never / only under the cross-validation flag / always
        def uses_outside_xvalid(name):
            a, b = methods[name]
            if 'iech_out' not in a: return False
            b = re.sub(r'DECLARE_UNUSED\s*\([^)]*\)', '', b)
            while True:        # drop the statements guarded by `if (getFlagXvalid())`
                mm = re.search(r'if\s*\(\s*getFlagXvalid\(\)\s*\)\s*', b)
                if not mm: break
                k = mm.end()
                if k < len(b) and b[k] == '{': e = match(b, k, '{', '}')
                else: e = b.find(';', k)
                if e < 0: break
                b = b[:mm.start()] + b[e + 1:]
            b = re.sub(r'\b(%s)\s*\([^()]*\biech_out\b[^()]*\)' % '|'.join(re.escape(x) for x in methods if '::' not in x), '', b)   # passed along
            return bool(re.search(r'\biech_out\b', b))
        gcl = closure(['getNeigh'])
        any_use = any(A[m]['target'] for m in gcl)
        outside = any(uses_outside_xvalid(m) for m in gcl if m != '_xvalid')
        target_use = 'never' if not any_use else ('always' if outside else 'xvalid')
        pol, grp = policy_of(methods['hasChanged'][1])
        target_matters = target_use == 'always' or (target_use == 'xvalid' and grp != 'xvalid-escape')
        if pol == 'PDiffGroup':      # inside a group the ranks depend on the target only through the cross-validation exclusion
            target_matters = any(re.search(r'\b_xvalid\s*\(', methods[m][1]) for m in gcl) and grp != 'xvalid-escape'
        same = methods['_isSameTarget'][1]
        keyed_on_target = bool(re.search(r'iech_out\s*!=\s*_iechMemo|_iechMemo\s*!=\s*iech_out', same))
        key = ['target'] if keyed_on_target and pol != 'PIfMemoEmpty' else []
        innames = inputs + ['target']
        fields = [('memo', False, [i for i in inputs if i in rd] + (['target'] if target_matters or key else []), sorted(eager), key)]
        for f, bs in sorted(eager.items()):
            fields.append((f, True, sorted(set().union(*[A[m]['reads'] for m in closure(bs)]) & set(inputs), key=members.index), [], []))
        setters = []
        for n in sorted(public):
            if n == 'select': continue
            cl = closure([n])
            w = set().union(*[A[m]['writes'] for m in cl]) & set(inputs)
            clears = any(re.search(r'_nbghMemo\s*\.\s*clear\s*\(|_iechMemo\s*=\s*-\s*1\b', methods[m][1]) for m in cl)      # either one invalidates the memo
            rebuilds = sorted(f for f, bs in eager.items() if cl & bs)
            if not w and not clears and not rebuilds: continue
            setters.append((n, sorted(w, key=members.index), ['memo'] if clears else [], rebuilds))
        setters.append(('select', ['target'], [], []))
        # scratch events, per member function of the closure, in textual order
        sc_events = []
        for x in scratch:
            for m in sorted(C):
                seq = []
                for mm in re.finditer(r'(?<![\w.>])%s\b' % re.escape(x), methods[m][1]):
                    after = methods[m][1][mm.end():mm.end() + 40]; before = methods[m][1][max(0, mm.start() - 60):mm.start()]
                    w = bool(re.match(WRITE, after)) or bool(re.search(r'InPlace\s*\([^()]*,\s*$', before))
                    seq.append('W' if w else 'R')
                if seq: sc_events.append((x, m, seq))
        out.append({'cls': cls, 'inputs': innames, 'fields': fields, 'setters': setters, 'policy': pol, 'group': grp, 'target_matters': target_matters, 'target_use': target_use,
                    'scratch': scratch, 'outputs': outputs, 'memo': memo, 'sc_events': sc_events})
    L = ['(* GENERATED by translators/C10_neighgraph.py from include/Neigh and src/Neigh. Do not edit. *)',
         'From Coq Require Import List String.', 'From Gst Require Import C10.Model C10.ModelMemo C10.ModelCache.', 'Import ListNotations.', 'Open Scope string_scope.', '']
    rows = []
    for r in out:
        ix = {n: i for i, n in enumerate(r['inputs'])}
        fid = {f[0]: i for i, f in enumerate(r['fields'])}
        L.append('(* %s: inputs %s ; fields %s (memo = %s) ; scratch %s ; outputs %s ; hasChanged: %s %s *)' % (
            r['cls'], ', '.join('%d=%s' % (i, n) for i, n in enumerate(r['inputs'])), ', '.join('%d=%s' % (i, f[0]) for i, f in enumerate(r['fields'])),
            '+'.join(r['memo']), ' '.join(r['scratch']) or '-', ' '.join(r['outputs']) or '-', r['policy'], (r['group'] or '') + ' ; target index used: ' + r['target_use']))
        L.append('(* setters: %s *)' % ', '.join('%d=%s' % (i, s[0]) for i, s in enumerate(r['setters'])))
        fl = '; '.join('{| cf_id := %d; cf_eager := %s; cf_deps_in := [%s]; cf_deps_f := [%s]; cf_key := [%s] |}' % (
            fid[f[0]], 'true' if f[1] else 'false', '; '.join(str(ix[i]) for i in f[2]), '; '.join(str(fid[g]) for g in f[3]), '; '.join(str(ix[i]) for i in f[4])) for f in r['fields'])
        sl = '; '.join('(%d, {| cs_writes := [%s]; cs_clears := [%s]; cs_rebuilds := [%s] |})' % (
            i, '; '.join(str(ix[w]) for w in s[1]), '; '.join(str(fid[c]) for c in s[2]), '; '.join(str(fid[c]) for c in s[3])) for i, s in enumerate(r['setters']))
        L.append('Definition tab_%s : ctable := {| ct_fields := [%s];\n  ct_setters := [%s] |}.' % (r['cls'], fl, sl))
        rows.append('("%s", tab_%s, %s, %s)' % (r['cls'], r['cls'], r['policy'], 'true' if r['target_matters'] else 'false'))
    L.append('')
    L.append('Definition neigh_tables : list (string * ctable * npolicy * bool) := [' + '; '.join(rows) + '].')
    L.append('')
    L.append('(* scratch members: per member function of the closure of select(), its accesses in textual order *)')
    L.append('Definition neigh_scratch : list (string * list (pc * sev)) := [' + ';\n  '.join(
        '("%s::%s %s", [%s])' % (r['cls'], m, x, '; '.join('([], %s 0)' % ('SW' if e == 'W' else 'SR') for e in seq))
        for r in out for x, m, seq in r['sc_events']) + '].')
    return '\n'.join(L) + '\n', out

if __name__ == '__main__':
    repo = sys.argv[1] if len(sys.argv) > 1 else '/repo'
    try: text, tab = translate(repo)
    except TranslationError as e:
        print('TRANSLATION ERROR:', e); sys.exit(1)
    if len(sys.argv) > 2: open(sys.argv[2], 'w').write(text)
    else: print(text)

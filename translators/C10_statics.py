#!/usr/bin/env python3
"""C10 (3)/(6): inventory of the variables with static storage duration reachable from the modelled entry points
-> coq/C10/gen/Statics.v

Scanned: src/Estimation, src/Neigh, src/Model, src/Covariances, src/Variogram, src/Basic/{Law,OptDbg,OptCustom,OptCst}.cpp
For each variable declared `static` (file scope or function scope), each definition of a static data member
(`T Class::_x = ...;`) and each plain global: where it is written, and a classification decided by checkable criteria
   SConst     declared const/constexpr, or never written after its initialiser
   SRng       the generator cells of Law.cpp (theorems C10_rng_*, correspondence kinds 60/61)
   SOption    written only inside functions that are setters of a global option (name set*/define*/undefine*/reset*/...)
   SHook      exists only under #ifdef GSTLEARN_VERIF
   SLocal     every function that reads it has written it before on every path (dominating write in the same function)
   SCross     written by one function and read by another one called later in the same entry point (work area across a
              call): no theorem; the check must hold a correspondence carrier for its file (history vs fresh process)
   SUnknown   none of the above: the inventory theorem fails (fail closed)
"""
import re, sys, os, glob

class TranslationError(Exception):
    pass

DIRS = ['src/Estimation', 'src/Neigh', 'src/Model', 'src/Covariances', 'src/Variogram']
FILES = ['src/Basic/Law.cpp', 'src/Basic/OptDbg.cpp', 'src/Basic/OptCustom.cpp', 'src/Basic/OptCst.cpp']
RNG = {('src/Basic/Law.cpp', 'Random_value'), ('src/Basic/Law.cpp', 'Random_gen')}
OPTION_SETTER = re.compile(r'(^|_)(set|define|undefine|reset|setAll|defineAll|undefineAll|setReference|setCurrentIndex|law_set_old_style|set_keypair|setMultiThread)', re.I)

def strip(s):
    s = re.sub(r'/\*.*?\*/', lambda m: re.sub(r'[^\n]', ' ', m.group(0)), s, flags=re.S)
    s = re.sub(r'//[^\n]*', '', s)
    s = re.sub(r'"(?:[^"\\\n]|\\.)*"', '""', s)
    return s

def brace_stack(src):
    """for every offset: tuple of offsets of the open braces enclosing it"""
    out = [None] * (len(src) + 1); st = []
    for i, ch in enumerate(src):
        out[i] = tuple(st)
        if ch == '{': st.append(i)
        elif ch == '}' and st: st.pop()
    out[len(src)] = tuple(st)
    return out

def functions(src, stack):
    """(name, start of body, end) of the function definitions at depth 0"""
    out = []
    for m in re.finditer(r'([A-Za-z_~][\w:~]*)\s*\(', src):
        if stack[m.start()]: continue
        j = m.end() - 1; d = 0
        while j < len(src):
            if src[j] == '(': d += 1
            elif src[j] == ')':
                d -= 1
                if d == 0: break
            j += 1
        k = j + 1
        while k < len(src) and (src[k].isspace() or src[k:k + 5] == 'const' or src[k:k + 8] == 'override' or src[k:k + 8] == 'noexcept'):
            k += 5 if src[k:k + 5] == 'const' else (8 if src[k:k + 8] in ('override', 'noexcept') else 1)
        if k < len(src) and src[k] == ':':          # constructor initialiser list
            while k < len(src) and src[k] != '{' and src[k] != ';': k += 1
        if k >= len(src) or src[k] != '{': continue
        d = 0; e = k
        while e < len(src):
            if src[e] == '{': d += 1
            elif src[e] == '}':
                d -= 1
                if d == 0: break
            e += 1
        name = m.group(1)
        if name in ('if', 'for', 'while', 'switch', 'return', 'sizeof', 'catch'): continue
        out.append((name, k, e))
    return out

WRITE = r'(?:\s*(?:\[[^\]]*\]\s*)*(?:=(?!=)|\+=|-=|\*=|/=|\+\+|--)|\s*\.\s*(?:push_back|clear|resize|insert|erase|seed|assign|fill|emplace_back|swap)\s*\()'

def analyse(repo, path):
    raw = open(os.path.join(repo, path), errors='replace').read()
    # mark the GSTLEARN_VERIF regions
    hook = [False] * (len(raw) + 1)
    for m in re.finditer(r'#ifdef\s+GSTLEARN_VERIF(.*?)#endif', raw, re.S):
        for i in range(m.start(), m.end()): hook[i] = True
    src = strip(raw)
    stack = brace_stack(src)
    fns = functions(src, stack)
    def fn_at(pos):
        for n, a, b in fns:
            if a <= pos <= b: return n, a, b
        return None
    decls = []
    # static declarations (any depth), static data member definitions and plain globals (depth 0)
    DECL = re.compile(r'[ \t]*(static\s+)?((?:const\s+|constexpr\s+|thread_local\s+)*[\w:<>,\*& ]+?)\s+((?:\w+::)?\*?\w+(?:\s*\[[^\]]*\])*(?:\s*,\s*\*?\w+(?:\s*\[[^\]]*\])*)*)\s*(=[^;]*)?;')
    cands = []
    pos = 0
    for line in src.split('\n'):
        st = line.lstrip()
        if st.startswith('static ') or (st and not stack[pos] and re.match(r'[A-Za-z_]', st) and '(' not in st.split('=')[0]):
            cands.append(pos)
        pos += len(line) + 1
    def decl_matches():
        for c in cands:
            end = src.find(';', c)
            if end < 0 or end - c > 3000: continue
            m = DECL.match(src, c, end + 1)
            if m and m.end() == end + 1: yield m
    for m in decl_matches():
        isstatic = bool(m.group(1)); typ = m.group(2).strip(); names = m.group(3)
        depth0 = not stack[m.start()]
        if not isstatic and not depth0: continue
        if re.match(r'(return|delete|using|typedef|namespace|class|struct|enum|template|extern|friend|goto|else|case|throw|new)\b', typ): continue
        if '(' in typ or ')' in typ: continue
        if not isstatic:
            # plain global or static member definition at depth 0; skip statements of macros / forward declarations
            if not re.match(r'^[\w:<>,\*& ]+$', typ) or typ in ('public', 'private'): continue
        inside = fn_at(m.start())
        for nm in names.split(','):
            nm = re.sub(r'\s*\[.*$', '', nm.strip()).lstrip('*')
            if not re.match(r'^(?:\w+::)?\w+$', nm) or nm.endswith('operator'): continue
            t0 = re.sub(r'<[^<>]*(<[^<>]*>)?[^<>]*>', '', typ)      # template arguments do not make the object const
            const = bool(re.search(r'\b(const|constexpr)\b', t0)) and '*' not in t0
            decls.append({'name': nm, 'type': typ, 'const': const, 'pos': m.start(), 'end': m.end(), 'fn': inside[0] if inside else None,
                          'fnrange': (inside[1], inside[2]) if inside else None, 'hook': hook[m.start()]})
    hdr_src = ''
    hp = glob.glob(os.path.join(repo, 'include', '**', os.path.basename(path).replace('.cpp', '.hpp')), recursive=True)
    if hp: hdr_src = strip(open(hp[0], errors='replace').read())
    rows = []
    for d in decls:
        nm = d['name']; short = nm.split('::')[-1]
        lo, hi = d['fnrange'] if d['fnrange'] else (0, len(src))
        pat = re.compile(r'(?<![\w.>:])(?:%s)\b' % '|'.join(sorted({re.escape(nm), re.escape(short)}, key=len, reverse=True)))
        occ = [m.start() for m in pat.finditer(src, lo, hi) if not (d['pos'] <= m.start() < d['end'])]
        writes = []; reads = []; rmw = set()
        for o in occ:
            end = pat.match(src, o).end()
            if re.match(WRITE, src[end:end + 40]) or src[max(0, o - 2):o] in ('++', '--') or re.search(r'&\s*$', src[max(0, o - 3):o]) \
               or re.search(r'&\s*\w+\s*[:=]\s*$', src[max(0, o - 40):o]):      # `for (auto &e : X)` / `T& r = X`: a mutable alias
                writes.append(o)
                if re.match(r'\s*(?:\[[^\]]*\]\s*)*(?:\+=|-=|\*=|/=|\+\+|--)', src[end:end + 40]) or src[max(0, o - 2):o] in ('++', '--'):
                    reads.append(o); rmw.add(o)       # x++, x += ... read the previous value
            else: reads.append(o)
        writers = sorted(set((fn_at(o) or ('<file scope>',))[0] for o in writes))
        if '::' in nm and hdr_src:      # inline members of the header writing a static data member
            for m in re.finditer(r'(\w+)\s*\([^()]*\)\s*(?:const\s*)?\{([^{}]*)\}', hdr_src):
                if re.search(r'(?<![\w.>])%s\b%s' % (re.escape(short), WRITE), m.group(2)):
                    writers.append(nm.split('::')[0] + '::' + m.group(1)); writes.append(-1)
            writers = sorted(set(writers))
        if d['hook']: cls = 'SHook'
        elif d['const'] or not writes: cls = 'SConst'
        elif (path, short) in RNG: cls = 'SRng'
        elif d['fn'] is None and all(OPTION_SETTER.search(w.split('::')[-1]) and not w.split('::')[-1].startswith('_') for w in writers): cls = 'SOption'
        else:
            # dominated reads: a write earlier in the same function whose enclosing blocks enclose the read too
            exposed = []
            for r in reads:
                f = fn_at(r)
                if f is None: exposed.append(('<file scope>', r)); continue
                ok = any(w >= 0 and w not in rmw and f[1] <= w < r and stack[w] == stack[r][:len(stack[w])] for w in writes)
                if not ok: exposed.append((f[0], r))
            if not exposed: cls = 'SLocal'
            elif d['fn'] is None: cls = 'SCross'
            else: cls = 'SUnknown'      # a function-local static read before being written: keeps a value from call to call
        rows.append((path, nm, d['type'], cls, writers, d['fn'] or ''))
    return rows

def dkrcht_shape(repo):
    """st_dkrcht has the modelled shape (coq/C10/ModelRng.v dk_step), it is reached only through mvndst, and mvndst resets
    DKRCHT_OLDS before integrating"""
    src = strip(open(os.path.join(repo, 'src/Basic/MathFunc.cpp'), errors='replace').read())
    m = re.search(r'static void st_dkrcht\s*\([^)]*\)\s*\{', src)
    if not m: return False
    d = 0; e = m.end() - 1
    for j in range(e, len(src)):
        if src[j] == '{': d += 1
        elif src[j] == '}':
            d -= 1
            if d == 0: e = j; break
    body = ''.join(src[m.end():e].split())
    body = re.sub(r'staticintprime\[80\]=\{[\d,]*\};', '', body)
    want = ('inti__1;doubled__1;staticdoublepsqt[80];staticinti,n[49],hisum;staticdoublern;--quasi;'
            'if(*s!=DKRCHT_OLDS||*s<1){DKRCHT_OLDS=*s;n[0]=0;hisum=0;i__1=*s;for(i=1;i<=i__1;++i){rn=(double)prime[i-1];psqt[i-1]=sqrt(rn);}}'
            'i__1=hisum;for(i=0;i<=i__1;++i){++n[i];if(n[i]<2){gotoL10;}n[i]=0;}++hisum;if(hisum>48){hisum=0;}n[hisum]=1;'
            'L10:rn=0.;for(i=hisum;i>=0;--i){rn=n[i]+rn*2;}i__1=*s;for(i=1;i<=i__1;++i){d__1=rn*psqt[i-1];quasi[i]=fmod(d__1,c_b11);}')
    if body != want: return False
    # call chain: st_dkrcht <- st_dksmrc <- st_dkbvrc <- mvndst only, and the reset precedes the call in mvndst
    if len(re.findall(r'\bst_dkrcht\s*\(', src)) != 2 or len(re.findall(r'\bst_dksmrc\s*\(', src)) < 2: return False
    callers = set()
    stack = brace_stack(src); fns = functions(src, stack)
    for name, a, b in fns:
        t = src[a:b]
        if re.search(r'\bst_dkbvrc\s*\(', t) and name != 'st_dkbvrc': callers.add(name)
        if re.search(r'\bst_dksmrc\s*\(', t) and name not in ('st_dksmrc', 'st_dkbvrc'): return False
    if callers != {'mvndst'}: return False
    mv = [src[a:b] for name, a, b in fns if name == 'mvndst'][0]
    r = re.search(r'DKRCHT_OLDS\s*=\s*0\s*;', mv); c = re.search(r'\bst_dkbvrc\s*\(', mv)
    return bool(r and c and r.start() < c.start() and len(re.findall(r'DKRCHT_OLDS', src)) == 4)

def law_shapes(repo):
    """law_set_random_seed stores every positive seed and, in the new style, re-seeds the engine - unconditionally;
    law_uniform advances Random_value in the old style only and draws from the engine otherwise"""
    src = strip(open(os.path.join(repo, 'src/Basic/Law.cpp'), errors='replace').read())
    def body(name):
        m = re.search(r'\b%s\s*\([^)]*\)\s*\{' % name, src)
        if not m: return None
        d = 0
        for j in range(m.end() - 1, len(src)):
            if src[j] == '{': d += 1
            elif src[j] == '}':
                d -= 1
                if d == 0: return ''.join(src[m.end():j].split())
        return None
    b = body('void law_set_random_seed')
    seed_ok = b is not None and re.sub(r'VERIF_RNG_EVENT\([^)]*\);', '', b) == 'if(seed>0){Random_value=seed;if(!Random_Old_Style)Random_gen.seed((unsigned)seed);}'
    u = body('double law_uniform')
    uni_ok = u is not None and re.sub(r'VERIF_RNG_EVENT\([^)]*\);', '', u) == (
        'doublevalue=0.;if(Random_Old_Style){unsignedintrandom_product;random_product=Random_factor*Random_value;Random_value=random_product%Random_congruent;'
        'if(Random_value==0)Random_value=1;value=(double)Random_value/(double)Random_congruent;value=mini+value*(maxi-mini);}'
        'else{std::uniform_real_distribution<double>d{mini,maxi};value=d(Random_gen);}return(value);')
    return seed_ok, uni_ok

def translate(repo):
    files = list(FILES)
    for d in DIRS: files += [os.path.relpath(p, repo) for p in sorted(glob.glob(os.path.join(repo, d, '*.cpp')))]
    rows = []
    for f in files:
        if not os.path.exists(os.path.join(repo, f)): raise TranslationError('%s not found' % f)
        rows += analyse(repo, f)
    # the integration code of mvndst (translated Fortran, every local is static)
    dk_ok = dkrcht_shape(repo)
    for r in analyse(repo, 'src/Basic/MathFunc.cpp'):
        f, nm, typ, cls, writers, fn = r
        if cls == 'SConst': rows.append(r); continue
        if fn == 'st_dkrcht' or nm == 'DKRCHT_OLDS': cls = 'SReset' if dk_ok else 'SUnknown'
        elif cls == 'SUnknown': cls = 'SCarry'
        rows.append((f, nm, typ, cls, writers, fn))
    seen = set(); out = []
    for r in rows:
        k = (r[0], r[1], r[5])
        if k in seen: continue
        seen.add(k); out.append(r)
    L = ['(* GENERATED by translators/C10_statics.py. Do not edit. *)', 'From Coq Require Import List String.', 'From Gst Require Import C10.ModelMemo.',
         'Import ListNotations.', 'Open Scope string_scope.', '',
         '(* file, variable (function for a local static), class ; writers in comment *)',
         'Definition statics : list (string * string * sclass) := [']
    L.append(';\n'.join('  ("%s", "%s%s", %s) (* %s ; written by: %s *)' % (f, n, ('@' + fn) if fn else '', c, t, ', '.join(w) or '-') for f, n, t, c, w, fn in out))
    L.append('].')
    L.append('')
    L.append('(* st_dkrcht has the shape modelled by dk_step, is reached through mvndst only, and mvndst sets DKRCHT_OLDS = 0 first *)')
    L.append('Definition dkrcht_reset_at_entry : bool := %s.' % ('true' if dk_ok else 'false'))
    seed_ok, uni_ok = law_shapes(repo)
    L.append('')
    L.append('(* law_set_random_seed has the modelled shape (set_seed2: every positive seed is stored and, in the new style, given to the')
    L.append('   engine, without any other condition); law_uniform has the modelled shape (draw / draw2) *)')
    L.append('Definition law_seed_shape : bool := %s.' % ('true' if seed_ok else 'false'))
    L.append('Definition law_uniform_shape : bool := %s.' % ('true' if uni_ok else 'false'))
    return '\n'.join(L) + '\n', [{'file': f, 'name': n, 'type': t, 'class': c, 'writers': w, 'fn': fn} for f, n, t, c, w, fn in out]

if __name__ == '__main__':
    repo = sys.argv[1] if len(sys.argv) > 1 else '/repo'
    try: text, tab = translate(repo)
    except TranslationError as e:
        print('TRANSLATION ERROR:', e); sys.exit(1)
    if len(sys.argv) > 2: open(sys.argv[2], 'w').write(text)
    else: print(text)

#!/usr/bin/env python3
"""C15 translator: the turbo-meshing simplex tables -> coq/C15/gen/MSS.v

Sources read (statement by statement, FAILS CLOSED on anything it does not understand):
  src/Mesh/Delaunay.cpp     int MSS(int ndim, int ipol, int icas, int icorn, int idim)
        constexpr int S1D[..][..][..][..] = {...};  S2D, S3D            -> Definition S1D/S2D/S3D (nested lists of Z)
        the negative-index guard and the dispatch  ndim==1 / ndim==2 / else   -> Definition mss
  src/Mesh/MeshETurbo.cpp   void MeshETurbo::_setNumberElementPerCell()       -> Definition nper_cell
                            int  MeshETurbo::_getPolarized(indg)              -> Definition polarized
The generated file holds data and table look-ups only; the theorems about it (C15_simplices_tile, ...) are in
coq/C15/Proofs_tile.v and are re-checked on every run against the regenerated file.
"""
import re, os, sys

class TranslationError(Exception):
    pass

def strip_comments(s):
    s = re.sub(r'/\*.*?\*/', lambda m: re.sub(r'[^\n]', ' ', m.group(0)), s, flags=re.S)
    return re.sub(r'//[^\n]*', '', s)

def match(s, i, o='{', c='}'):
    d = 0
    for j in range(i, len(s)):
        if s[j] == o: d += 1
        elif s[j] == c:
            d -= 1
            if d == 0: return j
    raise TranslationError('unbalanced braces')

def function_body(src, header_re, what):
    m = re.search(header_re, src)
    if not m: raise TranslationError('%s: definition not found' % what)
    b = src.index('{', m.end() - 1)
    e = match(src, b)
    return src[b + 1:e]

def parse_nested(text):
    """ '{ { 0, 1 }, { 1, 0 } }' -> nested python lists of ints """
    toks = re.findall(r'[{},]|-?\d+', text)
    if ''.join(toks) != re.sub(r'\s+', '', text): raise TranslationError('initializer holds something else than braces and integers: %r' % text[:60])
    pos = 0
    def item():
        nonlocal pos
        if toks[pos] == '{':
            pos += 1; out = []
            while True:
                if toks[pos] == '}': pos += 1; return out
                out.append(item())
                if toks[pos] == ',': pos += 1
                elif toks[pos] != '}': raise TranslationError('initializer syntax')
        v = int(toks[pos]); pos += 1; return v
    r = item()
    if pos != len(toks): raise TranslationError('trailing tokens in initializer')
    return r

def shape(x):
    if isinstance(x, int): return ()
    shapes = set(shape(y) for y in x)
    if len(shapes) != 1: raise TranslationError('ragged initializer')
    return (len(x),) + shapes.pop()

def coq_list(x):
    if isinstance(x, int): return str(x) if x >= 0 else '(%d)' % x
    return '[' + '; '.join(coq_list(y) for y in x) + ']'

IDX = {'0': '0%nat', '1': '1%nat', 'ipol': 'ipol', 'icas': 'icas', 'icorn': 'icorn', 'idim': 'idim'}

def translate(repo):
    dl = strip_comments(open(os.path.join(repo, 'src/Mesh/Delaunay.cpp')).read())
    body = function_body(dl, r'\bint\s+MSS\s*\(\s*int\s+ndim\s*,\s*int\s+ipol\s*,\s*int\s+icas\s*,\s*int\s+icorn\s*,\s*int\s+idim\s*\)\s*\{', 'MSS')
    tables = {}
    rest = body
    for m in re.finditer(r'(?:static\s+)?(?:constexpr|const)\s+int\s+(S[123]D)\s*((?:\[\s*\d+\s*\])+)\s*=\s*', body):
        name = m.group(1); dims = tuple(int(d) for d in re.findall(r'\d+', m.group(2)))
        b = m.end()
        if body[b] != '{': raise TranslationError('%s: initializer expected' % name)
        e = match(body, b)
        val = parse_nested(body[b:e + 1])
        if shape(val) != dims: raise TranslationError('%s: declared dimensions %s, initializer %s' % (name, dims, shape(val)))
        if len(dims) != 4: raise TranslationError('%s: 4 index levels expected' % name)
        if name in tables: raise TranslationError('%s defined twice' % name)
        tables[name] = val
        after = body[e + 1:].lstrip()
        if not after.startswith(';'): raise TranslationError('%s: ";" expected after initializer' % name)
        rest = rest.replace(body[m.start():e + 1], ' ', 1)
    if set(tables) != {'S1D', 'S2D', 'S3D'}: raise TranslationError('tables found: %s' % sorted(tables))
    # what remains: guard + dispatch, token by token
    norm = ' '.join(rest.replace(';', ' ; ').split())
    norm = re.sub(r'\s*;\s*', ';', norm).lstrip(';')
    pat = (r'^int ival = 0;if \(ipol < 0 \|\| icorn < 0 \|\| icas < 0 \|\| idim < 0\) return ival;'
           r'if \(ndim == 1\) \{ ival = S1D((?:\[\w+\]){4}); \}'
           r' ?else if \(ndim == 2\) \{ ival = S2D((?:\[\w+\]){4}); \}'
           r' ?else \{ ival = S3D((?:\[\w+\]){4}); \}'
           r' ?return \(?ival\)?;$')
    norm2 = norm.replace(';}', '; }').replace('{ival', '{ ival')
    mm = re.match(pat, norm2)
    if not mm: raise TranslationError('MSS: guard/dispatch not in the expected form: %r' % norm2[:400])
    look = []
    for g in mm.groups():
        idx = re.findall(r'\[(\w+)\]', g)
        for t in idx:
            if t not in IDX: raise TranslationError('MSS: unexpected index expression %r' % t)
        look.append([IDX[t] for t in idx])
    # number of simplices per cell
    mt = strip_comments(open(os.path.join(repo, 'src/Mesh/MeshETurbo.cpp')).read())
    nb = ' '.join(function_body(mt, r'\bvoid\s+MeshETurbo::_setNumberElementPerCell\s*\(\s*\)\s*\{', '_setNumberElementPerCell').split())
    mn = re.match(r'^int ndim = getNDim\(\); if \(ndim == 1\) _nPerCell = (\d+); else if \(ndim == 2\) _nPerCell = (\d+); else if \(ndim == 3\) _nPerCell = (\d+);$', nb)
    if not mn: raise TranslationError('_setNumberElementPerCell not in the expected form: %r' % nb[:200])
    nper = [int(x) for x in mn.groups()]
    pb = ' '.join(function_body(mt, r'\bint\s+MeshETurbo::_getPolarized\s*\(\s*const\s+constvectint\s+indg\s*\)\s*const\s*\{', '_getPolarized').split())
    mp = re.match(r'^int ndim = getNDim\(\); if \(! ?_isPolarized\) return ?\(0\); if \(ndim != 2\) return ?\(0\); '
                  r'if \(\(indg\[0\] \+ indg\[1\]\) % 2 == 1\) return ?\((\d)\); return ?\((\d)\);$', pb)
    if not mp: raise TranslationError('_getPolarized not in the expected form: %r' % pb[:300])
    pol_odd, pol_even = int(mp.group(1)), int(mp.group(2))
    out = []
    out.append('(* GENERATED by translators/C15_mss.py from src/Mesh/Delaunay.cpp (MSS) and src/Mesh/MeshETurbo.cpp')
    out.append('   (_setNumberElementPerCell, _getPolarized). Do not edit: regenerated and re-checked on every run. *)')
    out.append('From Coq Require Import List ZArith.')
    out.append('Import ListNotations.')
    out.append('Local Open Scope Z_scope.')
    out.append('')
    for name in ('S1D', 'S2D', 'S3D'):
        out.append('(* %s[ipol][icas][icorn][idim], dimensions %s *)' % (name, 'x'.join(str(d) for d in shape(tables[name]))))
        out.append('Definition %s : list (list (list (list Z))) :=' % name)
        out.append('  ' + coq_list(tables[name]) + '.')
        out.append('')
    out.append('Definition nth4 (t : list (list (list (list Z)))) (a b c d : nat) : Z :=')
    out.append('  nth d (nth c (nth b (nth a t []) []) []) 0.')
    out.append('')
    out.append('(* int MSS(ndim, ipol, icas, icorn, idim); indices are naturals here, the negative guard returns 0 in C++ *)')
    out.append('Definition mss (ndim ipol icas icorn idim : nat) : Z :=')
    out.append('  match ndim with')
    out.append('  | 1%%nat => nth4 S1D %s' % ' '.join(look[0]))
    out.append('  | 2%%nat => nth4 S2D %s' % ' '.join(look[1]))
    out.append('  | _ => nth4 S3D %s' % ' '.join(look[2]))
    out.append('  end.')
    out.append('')
    out.append('(* MeshETurbo::_setNumberElementPerCell (other dimensions leave _nPerCell = 0) *)')
    out.append('Definition nper_cell (ndim : nat) : nat :=')
    out.append('  match ndim with 1%%nat => %d%%nat | 2%%nat => %d%%nat | 3%%nat => %d%%nat | _ => 0%%nat end.' % tuple(nper))
    out.append('')
    out.append('(* MeshETurbo::_getPolarized: 0 unless polarized and ndim = 2; then by the parity of indg[0]+indg[1]')
    out.append('   (C++ "%": the remainder has the sign of the dividend, so a negative odd sum is not "== 1") *)')
    out.append('Definition polarized (flag : bool) (ndim : nat) (indg : list Z) : nat :=')
    out.append('  if negb flag then 0%nat else')
    out.append('  match ndim with')
    out.append('  | 2%%nat => if Z.eqb (Z.rem (nth 0 indg 0 + nth 1 indg 0) 2) 1 then %d%%nat else %d%%nat' % (pol_odd, pol_even))
    out.append('  | _ => 0%nat')
    out.append('  end.')
    out.append('')
    text = '\n'.join(out)
    return text, {'S1D': tables['S1D'], 'S2D': tables['S2D'], 'S3D': tables['S3D'], 'nper': nper, 'lookup': look,
                  'pol': (pol_odd, pol_even)}

if __name__ == '__main__':
    repo = sys.argv[1] if len(sys.argv) > 1 else '/repo'
    text, tab = translate(repo)
    if len(sys.argv) > 2:
        os.makedirs(os.path.dirname(sys.argv[2]), exist_ok=True)
        open(sys.argv[2], 'w').write(text)
    else:
        sys.stdout.write(text)

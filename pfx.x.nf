NeighUnique
2 # Space Dimension

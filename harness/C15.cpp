// C15 harness: projections on turbo / standard meshes, precision operators in both forms, conditional solves.
//   (9 ndim angles)                                   -> (M)                      rotation matrix built by Grid::setRotationByAngles
//   (0 nx dx x0 rot pol sel pts)                      -> (nrows ncols rows apex)  ProjMatrix on a MeshETurbo
//   (1 ndim apices meshes pts)                        -> (nrows ncols rows)       ProjMatrix on a MeshEStandard
//   (2 mesh cov v dest)                               -> (n S lambda coeffs free cs training Q diagfree diagcs ... addToDest of both forms)
//   (15 mesh cov pts z nugget guess)                   -> every public solve entry point (SPDEOp / SPDEOpMatrix kriging[WithGuess], LinearOpCGSolver solve[WithGuess], evalInverse) on one system
//   (13 mesh (cov ...) pts z vars ptsout)              -> conditional solves, one variance per datum, 1-2 structures, Cholesky / CG, API with locator V
//   (11 meshA meshB ptsA ptsB nullflag v y d1 d2)     -> ProjMulti (2 x 2 blocks of ProjMatrix): blocks, mesh2point / point2mesh / add variants
//   (5 nx dx x0 conv nodeRes gext v y dst)            -> ProjConvolution: shifts, resolution grid, mesh2point / point2mesh / add variants
//   (4 nx dx x0 rot pol sel pts)                      -> (-1) when resetFromTurbo fails | (napices nmeshes (turbo rows) (standard rows))
//   (3 mesh cov pts z var ptsout)                     -> solves through Cholesky / conjugate gradient, kriging both ways
// mesh = (0 nx dx x0 rot pol sel) | (1 ndim apices meshes);  cov = (param sill ranges angles)
#include "sx.hpp"
#include <algorithm>
#include <functional>
#define private public
#define protected public
#include "Mesh/AMesh.hpp"
#include "Mesh/MeshETurbo.hpp"
#include "Mesh/MeshEStandard.hpp"
#include "LinearOp/ProjMatrix.hpp"
#include "LinearOp/ProjConvolution.hpp"
#include "LinearOp/ProjMulti.hpp"
#include "LinearOp/ProjMultiMatrix.hpp"
#include "LinearOp/PrecisionOpMulti.hpp"
#include "LinearOp/PrecisionOpMultiMatrix.hpp"
#include "LinearOp/SPDEOp.hpp"
#include "LinearOp/SPDEOpMatrix.hpp"
#include "LinearOp/MatrixSquareSymmetricSim.hpp"
#include "LinearOp/LinearOpCGSolver.hpp"
#include "LinearOp/ShiftOpCs.hpp"
#include "LinearOp/PrecisionOp.hpp"
#include "LinearOp/PrecisionOpCs.hpp"
#include "LinearOp/PrecisionOpMultiConditional.hpp"
#include "LinearOp/PrecisionOpMultiConditionalCs.hpp"
#include "Polynomials/APolynomial.hpp"
#include "Polynomials/ClassicalPolynomial.hpp"
#include "API/SPDE.hpp"
#include "API/SPDEParam.hpp"
#undef private
#undef protected
#include "Basic/Grid.hpp"
#include "Basic/Law.hpp"
#include "Basic/NamingConvention.hpp"
#include "Matrix/MatrixSparse.hpp"
#include "Matrix/MatrixRectangular.hpp"
#include "Matrix/MatrixInt.hpp"
#include "Covariances/CovAniso.hpp"
#include "Model/Model.hpp"
#include "Basic/FunctionalSpirale.hpp"
#include "Space/ASpaceObject.hpp"
#include "Space/SpaceRN.hpp"
#include "Db/Db.hpp"
#include "Db/DbGrid.hpp"
#include "Enum/ELoadBy.hpp"
#include "Enum/ECov.hpp"
#include "Enum/ESpaceType.hpp"
#include "geoslib_define.h"

typedef std::vector<double> VD;
static VectorDouble toVD(const VD& v) { VectorDouble r(v.size()); for (size_t i = 0; i < v.size(); i++) r[i] = v[i]; return r; }
static VectorInt toVI(const std::vector<int>& v) { VectorInt r(v.size()); for (size_t i = 0; i < v.size(); i++) r[i] = v[i]; return r; }
static std::vector<int> deep_i(const VectorInt& v) { std::vector<int> r(v.size()); for (size_t i = 0; i < v.size(); i++) r[i] = v.getVector()[i]; return r; }
static VD deep(const VectorDouble& v) { VD r(v.size()); for (size_t i = 0; i < v.size(); i++) r[i] = v.getVector()[i]; return r; }

static Db* makeDb(const Sx& pts, int ndim, const VD* z = nullptr, const VD* verr = nullptr) {
  int n = (int) pts.size();
  int ncol = ndim + (z ? 1 : 0) + (verr ? 1 : 0);
  VectorDouble tab((size_t) n * ncol);
  for (int i = 0; i < n; i++) {
    for (int d = 0; d < ndim; d++) tab[(size_t) d * n + i] = pts[i][d].d();
    if (z) tab[(size_t) ndim * n + i] = (*z)[i];
    if (verr) tab[(size_t) (ndim + 1) * n + i] = (*verr)[i];
  }
  VectorString names, locs;
  for (int d = 0; d < ndim; d++) { names.push_back("x" + std::to_string(d + 1)); locs.push_back("x" + std::to_string(d + 1)); }
  if (z) { names.push_back("z"); locs.push_back("z1"); }
  if (verr) { names.push_back("verr"); locs.push_back("v1"); }
  return Db::createFromSamples(n, ELoadBy::COLUMN, tab, names, locs, false);
}

// (nx dx x0 rot pol sel) starting at position p of the list
static MeshETurbo* makeTurbo(const Sx& c, size_t p) {
  std::vector<int> nx = c[p].vi(); VD dx = c[p + 1].vd(), x0 = c[p + 2].vd();
  int ndim = (int) nx.size();
  VD cm;
  if (c[p + 3].size() > 0) { for (int j = 0; j < ndim; j++) for (int i = 0; i < ndim; i++) cm.push_back(c[p + 3][i][j].d()); }
  else { for (int j = 0; j < ndim; j++) for (int i = 0; i < ndim; i++) cm.push_back(i == j ? 1. : 0.); }
  bool pol = c[p + 4].b();
  VD sel; for (auto& s : c[p + 5].l) sel.push_back(s.i() != 0 ? 1. : 0.);
  MeshETurbo* mesh = new MeshETurbo();
  if (mesh->initFromGridByMatrix(toVI(nx), toVD(dx), toVD(x0), toVD(cm), toVD(sel), pol, false)) { delete mesh; return nullptr; }
  return mesh;
}
static MeshEStandard* makeStandard(const Sx& c, size_t p) {
  int ndim = (int) c[p].i();
  VectorDouble ap; for (auto& a : c[p + 1].l) for (int d = 0; d < ndim; d++) ap.push_back(a[d].d());
  VectorInt ms; for (auto& m : c[p + 2].l) for (auto& k : m.l) ms.push_back((int) k.i());
  MeshEStandard* mesh = new MeshEStandard();
  mesh->reset(ndim, ndim + 1, ap, ms, false, false);
  return mesh;
}
static AMesh* makeMesh(const Sx& m) {
  if (m[0].i() == 0) return makeTurbo(m, 1);
  return makeStandard(m, 1);
}
static std::string projOut(const ProjMatrix& P) {
  std::ostringstream o;
  int nr = P.getNRows(), nc = P.getNCols();
  o << nr << " " << nc << " (";
  for (int i = 0; i < nr; i++) {
    o << (i ? " " : "") << "(";
    bool first = true;
    for (int j = 0; j < nc; j++) { double v = P.getValue(i, j); if (v != 0.) { o << (first ? "" : " ") << "(" << j << " " << sx_d(v) << ")"; first = false; } }
    o << ")";
  }
  o << ")";
  return o.str();
}
static std::string denseOut(const MatrixSparse* M) {
  std::string s = "(";
  for (int i = 0; i < M->getNRows(); i++) { VD r; for (int j = 0; j < M->getNCols(); j++) r.push_back(M->getValue(i, j)); s += (i ? " " : "") + sx_vd(r); }
  return s + ")";
}
static Model* makeModel(const Sx& cv, int ndim) {
  defineDefaultSpace(ESpaceType::RN, ndim);
  double param = cv[0].d(), sill = cv[1].d();
  VD ranges = cv[2].vd(), angles = cv[3].vd();
  Model* model = Model::createFromParam(ECov::MATERN, 1., sill, param, toVD(ranges), VectorDouble(), toVD(angles), nullptr, true);
  // optional non-stationary anisotropy angle (2-D): spiral (a b c d sx sy); the functional must outlive the model
  if (cv.size() >= 5 && cv[4].size() == 6 && ndim == 2) {
    VD sp = cv[4].vd();
    FunctionalSpirale* spir = new FunctionalSpirale(sp[0], sp[1], sp[2], sp[3], sp[4], sp[5]);
    model->getCova(0)->makeAngleNoStatFunctional(spir);
  }
  return model;
}

static std::string run(const Sx& c) {
  long long kind = c[0].i();
  std::ostringstream o;
  if (kind == 9) {
    int ndim = (int) c[1].i();
    Grid g(ndim);
    g.setRotationByAngles(toVD(c[2].vd()));
    VD rm = deep(g.getRotMat());   // column-major
    o << "((";
    for (int i = 0; i < ndim; i++) { VD r; for (int j = 0; j < ndim; j++) r.push_back(rm[j * ndim + i]); o << (i ? " " : "") << sx_vd(r); }
    o << "))";
  } else if (kind == 0) {
    MeshETurbo* mesh = makeTurbo(c, 1);
    if (!mesh) return "(-997 2)";
    int ndim = mesh->getNDim();
    Db* db = makeDb(c[7], ndim);
    ProjMatrix P(db, mesh);
    o << "(" << projOut(P) << " (";
    for (int i = 0; i < mesh->getNApices(); i++) o << (i ? " " : "") << sx_vd(deep(mesh->getApexCoordinates(i)));
    o << "))";
    delete db; delete mesh;
  } else if (kind == 1) {
    MeshEStandard* mesh = makeStandard(c, 1);
    Db* db = makeDb(c[4], mesh->getNDim());
    ProjMatrix P(db, mesh);
    o << "(" << projOut(P) << ")";
    delete db; delete mesh;
  } else if (kind == 15) {
    // every public solve entry point on one kriging system: (15 mesh cov pts z nugget guesses)
    //   -> (n ndat Q A-rows S lambda coeffs ((label solution) ...)); labels are character codes
    AMesh* mesh = makeMesh(c[1]);
    if (!mesh) return "(-997 2)";
    int ndim = mesh->getNDim();
    Model* model = makeModel(c[2], ndim);
    double nug = c[5].d();
    model->addCovFromParam(ECov::NUGGET, 0., nug);
    VD z = c[4].vd();
    int ndat = (int) z.size();
    Db* dat = makeDb(c[3], ndim, &z);
    ProjMatrix A(dat, mesh);
    PrecisionOpCs Qc(mesh, model->getCova(0), false);
    PrecisionOp Qf(mesh, model->getCova(0), false);
    int n = Qc.getSize();
    VectorMeshes meshes = { mesh };
    auto AM = ProjMultiMatrix::createFromDbAndMeshes(dat, meshes);
    MatrixSparse* invnoise = buildInvNugget(dat, model);
    VectorDouble Z = dat->getColumnsActiveAndDefined(ELoc::Z);
    std::vector<std::pair<std::string, VD>> res;
    auto put = [&](const std::string& lab, const VectorDouble& v) { res.push_back({lab, deep(v)}); };
    auto putv = [&](const std::string& lab, const std::vector<double>& v) { res.push_back({lab, VD(v.begin(), v.end())}); };
    // matrix (Cholesky) operator
    PrecisionOpMultiMatrix QopM(model, meshes);
    SPDEOpMatrix opM(&QopM, &AM, invnoise);
    VectorDouble xchol = opM.kriging(Z);
    put("SPDEOpMatrix::kriging:VectorDouble", xchol);
    { std::vector<double> o1(n); opM.kriging(constvect(Z.data(), Z.size()), vect(o1.data(), n)); putv("SPDEOpMatrix::kriging:span", o1); }
    // matrix-free operator
    PrecisionOpMulti QopF(model, meshes);
    MatrixSquareSymmetricSim invnoisep(invnoise);
    SPDEOp opF(&QopF, &AM, &invnoisep);
    opF.setMaxIterations(2000); opF.setTolerance(1e-10);
    opM.setMaxIterations(2000); opM.setTolerance(1e-10);
    put("SPDEOp::kriging:VectorDouble", opF.kriging(Z));
    { std::vector<double> o1(n); opF.kriging(constvect(Z.data(), Z.size()), vect(o1.data(), n)); putv("SPDEOp::kriging:span", o1); }
    // guesses: zero, given (random), half the solution, the solution, constant
    std::vector<std::pair<std::string, VectorDouble>> guesses;
    VectorDouble g0(n, 0.), g1(n), g2(n), g3 = xchol, g4(n, 1.);
    for (int i = 0; i < n; i++) { g1[i] = ((int) c[6].size() > 0) ? c[6][i % c[6].size()].d() : 0.5; g2[i] = 0.5 * xchol[i]; }
    guesses = { {"zero", g0}, {"random", g1}, {"half", g2}, {"exact", g3}, {"constant", g4} };
    // right-hand side of the system, for the solver called directly
    std::vector<double> rhs(n, 0.);
    { std::vector<double> w(ndat); for (int k = 0; k < ndat; k++) w[k] = z[k] / nug; A.point2mesh(constvect(w.data(), ndat), vect(rhs.data(), n)); }
    LinearOpCGSolver<SPDEOp> solver(&opF);
    solver.setMaxIterations(2000); solver.setTolerance(1e-10);
    { VectorDouble r(rhs.size()), o1(n); for (int i = 0; i < n; i++) r[i] = rhs[i]; solver.solve(r, o1); put("LinearOpCGSolver::solve:VectorDouble", o1); }
    { std::vector<double> o1(n); solver.solve(constvect(rhs.data(), n), vect(o1.data(), n)); putv("LinearOpCGSolver::solve:span", o1); }
    { std::vector<double> o1(n); Eigen::Map<const Eigen::VectorXd> rm(rhs.data(), n); Eigen::Map<Eigen::VectorXd> om(o1.data(), n); solver.solve(rm, om); putv("LinearOpCGSolver::solve:EigenMap", o1); }
    for (auto& g : guesses) {
      put("SPDEOp::krigingWithGuess:VectorDouble:" + g.first, opF.krigingWithGuess(Z, g.second));
      { std::vector<double> o1(n); opF.krigingWithGuess(constvect(Z.data(), Z.size()), constvect(g.second.data(), n), vect(o1.data(), n)); putv("SPDEOp::krigingWithGuess:span:" + g.first, o1); }
      put("SPDEOpMatrix::krigingWithGuess:VectorDouble:" + g.first, opM.krigingWithGuess(Z, g.second));
      { std::vector<double> o1(n); solver.solveWithGuess(constvect(rhs.data(), n), constvect(g.second.data(), n), vect(o1.data(), n)); putv("LinearOpCGSolver::solveWithGuess:span:" + g.first, o1); }
      { std::vector<double> o1(n); Eigen::Map<const Eigen::VectorXd> rm(rhs.data(), n), gm(g.second.data(), n); Eigen::Map<Eigen::VectorXd> om(o1.data(), n);
        solver.solveWithGuess(rm, gm, om); putv("LinearOpCGSolver::solveWithGuess:EigenMap:" + g.first, o1); }
      // the hand-written conjugate gradient of ALinearOpMulti with a user initial value
      { PrecisionOpMultiConditional Mf; Mf.push_back(&Qf, &A); Mf.setVarianceData(nug); Mf.setUserInitialValue(true); Mf.setNIterMax(2000); Mf.setEps(1e-14);
        std::vector<std::vector<double>> b(1, rhs), x(1, std::vector<double>(g.second.getVector().begin(), g.second.getVector().end()));
        Mf.evalInverse(b, x); putv("PrecisionOpMultiConditional::evalInverse:userInitialValue:" + g.first, x[0]); }
    }
    { PrecisionOpMultiConditional Mf; Mf.push_back(&Qf, &A); Mf.setVarianceData(nug); Mf.setNIterMax(2000); Mf.setEps(1e-14);
      std::vector<std::vector<double>> b(1, rhs), x(1, std::vector<double>(n)); Mf.evalInverse(b, x); putv("PrecisionOpMultiConditional::evalInverse:cold", x[0]); }
    { PrecisionOpMultiConditionalCs Mc; Mc.push_back(&Qc, &A); Mc.setVarianceData(nug); Mc.makeReady();
      std::vector<std::vector<double>> b(1, rhs), x(1, std::vector<double>(n)); Mc.evalInverse(b, x); putv("PrecisionOpMultiConditionalCs::evalInverse", x[0]); }
    o << "(" << n << " " << ndat << " " << denseOut(Qc.getQ()) << " (" << projOut(A) << ") " << denseOut(Qc.getShiftOp()->getS())
      << " " << sx_vd(deep(Qc.getShiftOp()->getLambdas())) << " " << sx_vd(deep(Qc.getCoeffs())) << " (";
    for (size_t k = 0; k < res.size(); k++) {
      o << (k ? " " : "") << "((";
      for (size_t t = 0; t < res[k].first.size(); t++) o << (t ? " " : "") << (int) res[k].first[t];
      o << ") " << sx_vd(res[k].second) << ")";
    }
    o << "))";
    delete invnoise; delete dat; delete model; delete mesh;
  } else if (kind == 13) {
    // conditional solves with one variance per datum and one or two structures on the same meshing:
    // (13 mesh (cov ...) pts z vars ptsout)
    AMesh* mesh = makeMesh(c[1]);
    if (!mesh) return "(-997 2)";
    int ndim = mesh->getNDim();
    int ncov = (int) c[2].size();
    Model* model = makeModel(c[2][0], ndim);
    for (int k = 1; k < ncov; k++) {
      const Sx& cv = c[2][k];
      model->addCovFromParam(ECov::MATERN, 1., cv[1].d(), cv[0].d(), toVD(cv[2].vd()), VectorDouble(), toVD(cv[3].vd()), true);
    }
    VD z = c[4].vd(), vars = c[5].vd();
    int ndat = (int) z.size();
    Db* dat = makeDb(c[3], ndim, &z, &vars);
    Db* dout = makeDb(c[6], ndim);
    ProjMatrix A(dat, mesh);
    std::vector<PrecisionOp*> Qf; std::vector<PrecisionOpCs*> Qc;
    PrecisionOpMultiConditional Mf; PrecisionOpMultiConditionalCs Mc;
    for (int k = 0; k < ncov; k++) {
      Qf.push_back(new PrecisionOp(mesh, model->getCova(k), false));
      Qc.push_back(new PrecisionOpCs(mesh, model->getCova(k), false));
      Mf.push_back(Qf[k], &A); Mc.push_back(Qc[k], &A);
    }
    Mf.setVarianceDataVector(toVD(vars)); Mc.setVarianceDataVector(toVD(vars)); Mc.makeReady();
    int n = Qf[0]->getSize();
    std::vector<double> zz(z.begin(), z.end());
    std::vector<std::vector<double>> rhs = Mc.computeRhs(zz);
    std::vector<std::vector<double>> xc(ncov, std::vector<double>(n)), xf(ncov, std::vector<double>(n));
    Mc.evalInverse(rhs, xc);
    Mf.evalInverse(rhs, xf);
    double quad_c = Mc.computeQuadratic(zz), quad_f = Mf.computeQuadratic(zz);
    double logdet_c = Mc.computeLogDetOp(1);
    // through the API: the variances come from the locator V of the data
    int ip1 = krigingSPDE(dat, dout, model, nullptr, true, false, mesh, 1, SPDEParam(), 0, false, false, NamingConvention("KC"));
    VD kc = deep(dout->getColumnByUID(ip1));
    int ip0 = krigingSPDE(dat, dout, model, nullptr, true, false, mesh, 0, SPDEParam(), 0, false, false, NamingConvention("KF"));
    VD kf = deep(dout->getColumnByUID(ip0));
    SPDE s1(model, dat, dat, ESPDECalcMode::KRIGING, mesh, 1), s0(model, dat, dat, ESPDECalcMode::KRIGING, mesh, 0);
    law_set_random_seed(1234);
    double ll1 = s1.computeLogLikelihood(1, false);
    double ll0 = s0.computeLogLikelihood(1, false);
    double q1 = s1.computeQuad(), q0 = s0.computeQuad();
    double ld1 = s1.computeLogDet(1);
    VD vapi = deep(s1._precisionsKrig->getAllVarianceData());
    ProjMatrix Aout(dout, mesh);
    o << "(" << n << " " << ndat << " " << ncov << " (";
    for (int k = 0; k < ncov; k++)
      o << (k ? " " : "") << "(" << denseOut(Qc[k]->getQ()) << " " << denseOut(Qc[k]->getShiftOp()->getS()) << " "
        << sx_vd(deep(Qc[k]->getShiftOp()->getLambdas())) << " " << sx_vd(deep(Qc[k]->getCoeffs())) << " "
        << sx_vd(VD(rhs[k].begin(), rhs[k].end())) << " " << sx_vd(VD(xc[k].begin(), xc[k].end())) << " " << sx_vd(VD(xf[k].begin(), xf[k].end())) << ")";
    o << ") (" << projOut(A) << ") (" << projOut(Aout) << ") " << sx_d(quad_c) << " " << sx_d(quad_f) << " " << sx_d(logdet_c)
      << " " << sx_vd(kc) << " " << sx_vd(kf) << " " << sx_d(q1) << " " << sx_d(q0) << " " << sx_d(ld1) << " " << sx_vd(vapi)
      << " " << Mf.getLogStats()._inverseCGNIter << ")";
    for (auto q : Qf) delete q; for (auto q : Qc) delete q;
    delete dat; delete dout; delete model; delete mesh;
  } else if (kind == 11) {
    // ProjMulti: 2 variables x 2 latent fields; (11 meshA meshB ptsA ptsB nullflag v y d1 d2)
    MeshETurbo* mA = makeTurbo(c[1], 0); MeshETurbo* mB = makeTurbo(c[2], 0);
    if (!mA || !mB) return "(-997 2)";
    int ndim = mA->getNDim();
    Db* dA = makeDb(c[3], ndim); Db* dB = makeDb(c[4], ndim);
    ProjMatrix* P[2][2] = { { new ProjMatrix(dA, mA), new ProjMatrix(dA, mB) }, { new ProjMatrix(dB, mA), new ProjMatrix(dB, mB) } };
    int nullflag = (int) c[5].i();      // 1: block (1,0) absent; 2: block (0,1) absent
    std::vector<std::vector<const IProjMatrix*>> projs(2, std::vector<const IProjMatrix*>(2));
    for (int i = 0; i < 2; i++) for (int j = 0; j < 2; j++) projs[i][j] = P[i][j];
    if (nullflag == 1) projs[1][0] = nullptr;
    if (nullflag == 2) projs[0][1] = nullptr;
    ProjMulti pm(projs, true);
    int nap = pm.getApexNumber(), npt = pm.getPointNumber();
    auto fill = [](const Sx& l, int n) { std::vector<double> r(n); int m = (int) l.size(); for (int i = 0; i < n; i++) r[i] = m ? l[i % m].d() : 1.; return r; };
    std::vector<double> v = fill(c[6], nap), y = fill(c[7], npt), a1 = fill(c[8], npt), a2 = fill(c[9], nap);
    std::vector<double> d1 = a1, d2 = a2, m2p(npt), p2m(nap);
    pm.mesh2point(constvect(v.data(), nap), vect(m2p.data(), npt));
    pm.point2mesh(constvect(y.data(), npt), vect(p2m.data(), nap));
    pm.addMesh2point(constvect(v.data(), nap), vect(a1.data(), npt));
    pm.addPoint2mesh(constvect(y.data(), npt), vect(a2.data(), nap));
    o << "(" << nap << " " << npt << " (";
    for (int i = 0; i < 2; i++) for (int j = 0; j < 2; j++) o << ((i || j) ? " " : "") << "(" << projOut(*P[i][j]) << ")";
    o << ") " << sx_vd(v) << " " << sx_vd(y) << " " << sx_vd(m2p) << " " << sx_vd(p2m)
      << " " << sx_vd(d1) << " " << sx_vd(a1) << " " << sx_vd(d2) << " " << sx_vd(a2) << ")";
    for (int i = 0; i < 2; i++) for (int j = 0; j < 2; j++) delete P[i][j];
    delete dA; delete dB; delete mA; delete mB;
  } else if (kind == 5) {
    // ProjConvolution on a small seismic grid: (5 nx dx x0 conv nodeRes gext v y dst)
    std::vector<int> nx = c[1].vi(); VD dx = c[2].vd(), x0 = c[3].vd(), cv = c[4].vd();
    std::vector<int> nres = c[5].vi(); VD gext = c[6].vd();
    int ndim = (int) nx.size();
    defineDefaultSpace(ESpaceType::RN, ndim);
    DbGrid* seis = DbGrid::create(toVI(nx), toVD(dx), toVD(x0));
    ProjConvolution pc(toVD(cv), seis, toVI(nres), toVD(gext));
    if (pc._shiftVector.empty() || pc._gridRes2D == nullptr) { delete seis; return "(-1)"; }
    int nap = pc.getApexNumber(), npt = pc.getPointNumber();
    auto fill = [](const Sx& l, int n) { std::vector<double> r(n); int m = (int) l.size(); for (int i = 0; i < n; i++) r[i] = m ? l[i % m].d() : 1.; return r; };
    std::vector<double> v = fill(c[7], nap), y = fill(c[8], npt);
    std::vector<double> m2p(npt), p2m(nap), a1 = fill(c[9], npt), a2 = fill(c[9], nap);
    std::vector<double> d1 = a1, d2 = a2;
    pc.mesh2point(constvect(v.data(), nap), vect(m2p.data(), npt));
    pc.point2mesh(constvect(y.data(), npt), vect(p2m.data(), nap));
    pc.addMesh2point(constvect(v.data(), nap), vect(a1.data(), npt));
    pc.addPoint2mesh(constvect(y.data(), npt), vect(a2.data(), nap));
    o << "(" << nap << " " << npt << " " << sx_vi(deep_i(pc._shiftVector)) << " " << sx_vi(deep_i(pc._gridRes2D->getNXs()))
      << " " << sx_vd(deep(pc._gridRes2D->getDXs())) << " " << sx_vd(deep(pc._gridRes2D->getX0s()))
      << " " << sx_vd(v) << " " << sx_vd(y) << " " << sx_vd(m2p) << " " << sx_vd(p2m)
      << " " << sx_vd(d1) << " " << sx_vd(a1) << " " << sx_vd(d2) << " " << sx_vd(a2) << ")";
    delete seis;
  } else if (kind == 4) {
    // MeshEStandard::resetFromTurbo on a fresh object, then the projection of the same samples on both meshings
    MeshETurbo* mesh = makeTurbo(c, 1);
    if (!mesh) return "(-997 2)";
    int ndim = mesh->getNDim();
    Db* db = makeDb(c[7], ndim);
    MeshEStandard ms;
    bool thrown = false;
    try { if (ms.resetFromTurbo(*mesh, false) != 0) thrown = true; } catch (...) { thrown = true; }
    if (thrown) o << "(-1)";
    else {
      ProjMatrix P(db, mesh);
      ProjMatrix P2(db, &ms);
      o << "(" << ms.getNApices() << " " << ms.getNMeshes() << " (" << projOut(P) << ") (" << projOut(P2) << "))";
    }
    delete db; delete mesh;
  } else if (kind == 2) {
    AMesh* mesh = makeMesh(c[1]);
    if (!mesh) return "(-997 2)";
    int ndim = mesh->getNDim();
    Model* model = makeModel(c[2], ndim);
    CovAniso* cova = model->getCova(0);
    PrecisionOp Qf(mesh, cova, false);
    PrecisionOpCs Qc(mesh, cova, false);
    int n = Qf.getSize();
    VD v = c[3].vd();
    if ((int) v.size() != n) { v.assign(n, 0.); for (int i = 0; i < n; i++) v[i] = (i < (int) c[3].size()) ? c[3][i].d() : 1. / (1 + i); }
    VectorDouble vin = toVD(v), out1, out2, out3;
    Qf.evalDirect(vin, out1);
    Qc.evalDirect(vin, out2);
    Qf.setTraining(true);
    Qf.evalDirect(vin, out3);
    Qf.setTraining(false);
    VectorDouble coeffs = Qf.getCoeffs();
    VectorDouble coeffs2 = Qc.getCoeffs();
    // addToDest of both forms on the same non-zero destination
    VD dst = c[4].vd();
    std::vector<double> d1(n), d2(n);
    for (int i = 0; i < n; i++) d1[i] = d2[i] = (i < (int) dst.size()) ? dst[i] : 1.;
    VD dst0(d1.begin(), d1.end());
    Qf.addToDest(constvect(v.data(), n), vect(d1.data(), n));
    Qc.addToDest(constvect(v.data(), n), vect(d2.data(), n));
    // the two operators are built independently: S, Lambda of both are reported (they must coincide)
    o << "(" << n << " " << denseOut(Qf.getShiftOp()->getS()) << " " << sx_vd(deep(Qf.getShiftOp()->getLambdas()))
      << " " << sx_vd(deep(coeffs)) << " " << sx_vd(deep(out1)) << " " << sx_vd(deep(out2)) << " " << sx_vd(deep(out3))
      << " " << denseOut(Qc.getQ()) << " " << sx_vd(deep(Qf.extractDiag())) << " " << sx_vd(deep(Qc.extractDiag()))
      << " " << denseOut(Qc.getShiftOp()->getS()) << " " << sx_vd(deep(Qc.getShiftOp()->getLambdas())) << " " << sx_vd(deep(coeffs2))
      << " " << sx_vd(v) << " " << sx_vd(dst0) << " " << sx_vd(VD(d1.begin(), d1.end())) << " " << sx_vd(VD(d2.begin(), d2.end()));
    // inputs of the finite-element assembly: anisotropy (inverse rotation matrix, scales), mesh topology and corners, TildeC, correc, sill
    {
      const MatrixSquareGeneral& am = cova->getAnisoInvMat();
      o << " (";
      for (int i = 0; i < ndim; i++) { VD r; for (int j = 0; j < ndim; j++) r.push_back(am.getValue(i, j)); o << (i ? " " : "") << sx_vd(r); }
      o << ") " << sx_vd(deep(cova->getScales())) << " (";
      int nc = mesh->getNApexPerMesh();
      for (int im = 0; im < mesh->getNMeshes(); im++) {
        o << (im ? " " : "") << "((";
        for (int ic = 0; ic < nc; ic++) o << (ic ? " " : "") << mesh->getApex(im, ic);
        o << ") (";
        for (int ic = 0; ic < nc; ic++) { VD r; for (int d = 0; d < ndim; d++) r.push_back(mesh->getCoor(im, ic, d)); o << (ic ? " " : "") << sx_vd(r); }
        o << "))";
      }
      o << ") " << sx_vd(deep(Qf.getShiftOp()->_TildeC)) << " " << sx_d(cova->getCorrec()) << " " << sx_d(cova->getSill(0, 0));
      // per-mesh anisotropy when the model is non-stationary (read on the covariance the shift operator works with)
      o << " (";
      auto cvs = Qf.getShiftOp()->_cova;
      if (cvs->isNoStatForAnisotropy()) {
        for (int im = 0; im < mesh->getNMeshes(); im++) {
          cvs->updateCovByMesh(im, true);
          const MatrixSquareGeneral& am2 = cvs->getAnisoInvMat();
          o << (im ? " " : "") << "((";
          for (int i = 0; i < ndim; i++) { VD r; for (int j = 0; j < ndim; j++) r.push_back(am2.getValue(i, j)); o << (i ? " " : "") << sx_vd(r); }
          o << ") " << sx_vd(deep(cvs->getScales())) << ")";
        }
      }
      o << ")";
    }
    o << ")";
    delete model; delete mesh;
  } else if (kind == 3) {
    AMesh* mesh = makeMesh(c[1]);
    if (!mesh) return "(-997 2)";
    int ndim = mesh->getNDim();
    Model* model = makeModel(c[2], ndim);
    CovAniso* cova = model->getCova(0);
    VD z = c[4].vd();
    double var = c[5].d();
    Db* dat = makeDb(c[3], ndim, &z);
    Db* dout = makeDb(c[6], ndim);
    int ndat = (int) z.size();
    ProjMatrix A(dat, mesh);
    PrecisionOp Qf(mesh, cova, false);
    PrecisionOpCs Qc(mesh, cova, false);
    int n = Qf.getSize();
    // conditional operators
    PrecisionOpMultiConditional Mf; Mf.push_back(&Qf, &A); Mf.setVarianceData(var);
    PrecisionOpMultiConditionalCs Mc; Mc.push_back(&Qc, &A); Mc.setVarianceData(var); Mc.makeReady();
    std::vector<double> zz(z.begin(), z.end());
    std::vector<std::vector<double>> rhs = Mc.computeRhs(zz);
    std::vector<std::vector<double>> xc(1, std::vector<double>(n)), xf(1, std::vector<double>(n));
    Mc.evalInverse(rhs, xc);
    Mf.evalInverse(rhs, xf);
    double quad_c = Mc.computeQuadratic(zz);
    double quad_f = Mf.computeQuadratic(zz);
    double logdet_c = Mc.computeLogDetOp(1);
    // single-operator inverse: Cholesky vs (no CG for a single PrecisionOp: Chebyshev approximation) -> only Cholesky reported
    std::vector<double> b1(n), y1(n);
    for (int i = 0; i < n; i++) b1[i] = rhs[0][i];
    Qc.evalInverse(constvect(b1.data(), b1.size()), y1);
    // kriging through the API, both modes, on the user mesh
    int ip1 = krigingSPDE(dat, dout, model, nullptr, true, false, mesh, 1, SPDEParam(), 0, false, false, NamingConvention("KC"));
    VD kc = deep(dout->getColumnByUID(ip1));
    int ip0 = krigingSPDE(dat, dout, model, nullptr, true, false, mesh, 0, SPDEParam(), 0, false, false, NamingConvention("KF"));
    VD kf = deep(dout->getColumnByUID(ip0));
    // quadratic term of the likelihood through the API in both modes
    SPDE s1(model, dat, dat, ESPDECalcMode::KRIGING, mesh, 1), s0(model, dat, dat, ESPDECalcMode::KRIGING, mesh, 0);
    // computeLogLikelihood prepares the working data (computeQuad alone reads an empty _workingData)
    law_set_random_seed(1234);
    double ll1 = s1.computeLogLikelihood(1, false);
    double ll0 = s0.computeLogLikelihood(1, false);
    double q1 = s1.computeQuad(), q0 = s0.computeQuad();
    double ld1 = s1.computeLogDet(1);
    double var_api = s1._precisionsKrig->getVarianceData(0);
    ProjMatrix Aout(dout, mesh);
    // krigingSPDENew (SPDEOp / SPDEOpMatrix) in both modes: model with an explicit nugget = var_api, output Db with a Z locator
    VD kn1, kn0;
    // nugget well above the floor eps * total sill that buildInvNugget applies
    double var_new = var + c[2][1].d() / 8.;
    {
      Model* model2 = makeModel(c[2], ndim);
      model2->addCovFromParam(ECov::NUGGET, 0., var_new);
      VD zero(c[6].size(), 0.);
      Db* dout2 = makeDb(c[6], ndim, &zero);
      VectorMeshes meshes = { mesh };
      kn1 = deep(krigingSPDENew(dat, dout2, model2, meshes, 1));
      kn0 = deep(krigingSPDENew(dat, dout2, model2, meshes, 0));
      delete dout2; delete model2;
    }
    o << "(" << n << " " << ndat << " " << denseOut(Qc.getQ()) << " (" << projOut(A) << ") " << sx_vd(VD(rhs[0].begin(), rhs[0].end()))
      << " " << sx_vd(VD(xc[0].begin(), xc[0].end())) << " " << sx_vd(VD(xf[0].begin(), xf[0].end()))
      << " " << sx_d(quad_c) << " " << sx_d(quad_f) << " " << sx_d(logdet_c) << " " << sx_vd(VD(y1.begin(), y1.end()))
      << " " << sx_vd(kc) << " " << sx_vd(kf) << " " << sx_d(q1) << " " << sx_d(q0) << " " << sx_d(ld1) << " " << sx_d(var_api) << " " << sx_d(ll1) << " " << sx_d(ll0)
      << " (" << projOut(Aout) << ") " << Mf.getLogStats()._inverseCGNIter << " " << sx_vd(kn1) << " " << sx_vd(kn0) << " " << sx_d(var_new);
    // operator pieces for the exact kriging system of the model, and the projection matrix applied both ways
    {
      VectorDouble lamv = Qc.getShiftOp()->getLambdas();
      VectorDouble m2p(ndat), p2m(n);
      VectorDouble zv = toVD(z);
      A.mesh2point(lamv, m2p);
      A.point2mesh(zv, p2m);
      o << " " << denseOut(Qc.getShiftOp()->getS()) << " " << sx_vd(deep(lamv)) << " " << sx_vd(deep(Qc.getCoeffs()))
        << " " << sx_vd(deep(m2p)) << " " << sx_vd(deep(p2m));
    }
    o << ")";
    delete dat; delete dout; delete model; delete mesh;
  } else o << "(-997 1)";
  return o.str();
}
int main(int argc, char** argv) { return sx_main(argc, argv, run); }

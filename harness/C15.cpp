// C15 harness: projections on turbo / standard meshes, precision operators in both forms, conditional solves.
//   (9 ndim angles)                                   -> (M)                      rotation matrix built by Grid::setRotationByAngles
//   (0 nx dx x0 rot pol sel pts)                      -> (nrows ncols rows apex)  ProjMatrix on a MeshETurbo
//   (1 ndim apices meshes pts)                        -> (nrows ncols rows)       ProjMatrix on a MeshEStandard
//   (2 mesh cov v dest)                               -> (n S lambda coeffs free cs training Q diagfree diagcs ... addToDest of both forms)
//   (4 nx dx x0 rot pol sel pts)                      -> (-1) when resetFromTurbo fails | (napices nmeshes (turbo rows) (standard rows))
//   (3 mesh cov pts z var ptsout)                     -> solves through Cholesky / conjugate gradient, kriging both ways
// mesh = (0 nx dx x0 rot pol sel) | (1 ndim apices meshes);  cov = (param sill ranges angles)
#include "sx.hpp"
#include <algorithm>
#include <functional>
#define private public
#define protected public
#include "Mesh/AMesh.hpp"
#include "Mesh/MeshETurbo.hpp"
#include "Mesh/MeshEStandard.hpp"
#include "LinearOp/ProjMatrix.hpp"
#include "LinearOp/ShiftOpCs.hpp"
#include "LinearOp/PrecisionOp.hpp"
#include "LinearOp/PrecisionOpCs.hpp"
#include "LinearOp/PrecisionOpMultiConditional.hpp"
#include "LinearOp/PrecisionOpMultiConditionalCs.hpp"
#include "Polynomials/APolynomial.hpp"
#include "Polynomials/ClassicalPolynomial.hpp"
#include "API/SPDE.hpp"
#include "API/SPDEParam.hpp"
#undef private
#undef protected
#include "Basic/Grid.hpp"
#include "Basic/Law.hpp"
#include "Basic/NamingConvention.hpp"
#include "Matrix/MatrixSparse.hpp"
#include "Matrix/MatrixRectangular.hpp"
#include "Matrix/MatrixInt.hpp"
#include "Covariances/CovAniso.hpp"
#include "Model/Model.hpp"
#include "Space/ASpaceObject.hpp"
#include "Space/SpaceRN.hpp"
#include "Db/Db.hpp"
#include "Db/DbGrid.hpp"
#include "Enum/ELoadBy.hpp"
#include "Enum/ECov.hpp"
#include "Enum/ESpaceType.hpp"
#include "geoslib_define.h"

typedef std::vector<double> VD;
static VectorDouble toVD(const VD& v) { VectorDouble r(v.size()); for (size_t i = 0; i < v.size(); i++) r[i] = v[i]; return r; }
static VectorInt toVI(const std::vector<int>& v) { VectorInt r(v.size()); for (size_t i = 0; i < v.size(); i++) r[i] = v[i]; return r; }
static VD deep(const VectorDouble& v) { VD r(v.size()); for (size_t i = 0; i < v.size(); i++) r[i] = v.getVector()[i]; return r; }

static Db* makeDb(const Sx& pts, int ndim, const VD* z = nullptr) {
  int n = (int) pts.size();
  int ncol = ndim + (z ? 1 : 0);
  VectorDouble tab((size_t) n * ncol);
  for (int i = 0; i < n; i++) {
    for (int d = 0; d < ndim; d++) tab[(size_t) d * n + i] = pts[i][d].d();
    if (z) tab[(size_t) ndim * n + i] = (*z)[i];
  }
  VectorString names, locs;
  for (int d = 0; d < ndim; d++) { names.push_back("x" + std::to_string(d + 1)); locs.push_back("x" + std::to_string(d + 1)); }
  if (z) { names.push_back("z"); locs.push_back("z1"); }
  return Db::createFromSamples(n, ELoadBy::COLUMN, tab, names, locs, false);
}

// (nx dx x0 rot pol sel) starting at position p of the list
static MeshETurbo* makeTurbo(const Sx& c, size_t p) {
  std::vector<int> nx = c[p].vi(); VD dx = c[p + 1].vd(), x0 = c[p + 2].vd();
  int ndim = (int) nx.size();
  VD cm;
  if (c[p + 3].size() > 0) { for (int j = 0; j < ndim; j++) for (int i = 0; i < ndim; i++) cm.push_back(c[p + 3][i][j].d()); }
  else { for (int j = 0; j < ndim; j++) for (int i = 0; i < ndim; i++) cm.push_back(i == j ? 1. : 0.); }
  bool pol = c[p + 4].b();
  VD sel; for (auto& s : c[p + 5].l) sel.push_back(s.i() != 0 ? 1. : 0.);
  MeshETurbo* mesh = new MeshETurbo();
  if (mesh->initFromGridByMatrix(toVI(nx), toVD(dx), toVD(x0), toVD(cm), toVD(sel), pol, false)) { delete mesh; return nullptr; }
  return mesh;
}
static MeshEStandard* makeStandard(const Sx& c, size_t p) {
  int ndim = (int) c[p].i();
  VectorDouble ap; for (auto& a : c[p + 1].l) for (int d = 0; d < ndim; d++) ap.push_back(a[d].d());
  VectorInt ms; for (auto& m : c[p + 2].l) for (auto& k : m.l) ms.push_back((int) k.i());
  MeshEStandard* mesh = new MeshEStandard();
  mesh->reset(ndim, ndim + 1, ap, ms, false, false);
  return mesh;
}
static AMesh* makeMesh(const Sx& m) {
  if (m[0].i() == 0) return makeTurbo(m, 1);
  return makeStandard(m, 1);
}
static std::string projOut(const ProjMatrix& P) {
  std::ostringstream o;
  int nr = P.getNRows(), nc = P.getNCols();
  o << nr << " " << nc << " (";
  for (int i = 0; i < nr; i++) {
    o << (i ? " " : "") << "(";
    bool first = true;
    for (int j = 0; j < nc; j++) { double v = P.getValue(i, j); if (v != 0.) { o << (first ? "" : " ") << "(" << j << " " << sx_d(v) << ")"; first = false; } }
    o << ")";
  }
  o << ")";
  return o.str();
}
static std::string denseOut(const MatrixSparse* M) {
  std::string s = "(";
  for (int i = 0; i < M->getNRows(); i++) { VD r; for (int j = 0; j < M->getNCols(); j++) r.push_back(M->getValue(i, j)); s += (i ? " " : "") + sx_vd(r); }
  return s + ")";
}
static Model* makeModel(const Sx& cv, int ndim) {
  defineDefaultSpace(ESpaceType::RN, ndim);
  double param = cv[0].d(), sill = cv[1].d();
  VD ranges = cv[2].vd(), angles = cv[3].vd();
  return Model::createFromParam(ECov::MATERN, 1., sill, param, toVD(ranges), VectorDouble(), toVD(angles), nullptr, true);
}

static std::string run(const Sx& c) {
  long long kind = c[0].i();
  std::ostringstream o;
  if (kind == 9) {
    int ndim = (int) c[1].i();
    Grid g(ndim);
    g.setRotationByAngles(toVD(c[2].vd()));
    VD rm = deep(g.getRotMat());   // column-major
    o << "((";
    for (int i = 0; i < ndim; i++) { VD r; for (int j = 0; j < ndim; j++) r.push_back(rm[j * ndim + i]); o << (i ? " " : "") << sx_vd(r); }
    o << "))";
  } else if (kind == 0) {
    MeshETurbo* mesh = makeTurbo(c, 1);
    if (!mesh) return "(-997 2)";
    int ndim = mesh->getNDim();
    Db* db = makeDb(c[7], ndim);
    ProjMatrix P(db, mesh);
    o << "(" << projOut(P) << " (";
    for (int i = 0; i < mesh->getNApices(); i++) o << (i ? " " : "") << sx_vd(deep(mesh->getApexCoordinates(i)));
    o << "))";
    delete db; delete mesh;
  } else if (kind == 1) {
    MeshEStandard* mesh = makeStandard(c, 1);
    Db* db = makeDb(c[4], mesh->getNDim());
    ProjMatrix P(db, mesh);
    o << "(" << projOut(P) << ")";
    delete db; delete mesh;
  } else if (kind == 4) {
    // MeshEStandard::resetFromTurbo on a fresh object, then the projection of the same samples on both meshings
    MeshETurbo* mesh = makeTurbo(c, 1);
    if (!mesh) return "(-997 2)";
    int ndim = mesh->getNDim();
    Db* db = makeDb(c[7], ndim);
    MeshEStandard ms;
    bool thrown = false;
    try { if (ms.resetFromTurbo(*mesh, false) != 0) thrown = true; } catch (...) { thrown = true; }
    if (thrown) o << "(-1)";
    else {
      ProjMatrix P(db, mesh);
      ProjMatrix P2(db, &ms);
      o << "(" << ms.getNApices() << " " << ms.getNMeshes() << " (" << projOut(P) << ") (" << projOut(P2) << "))";
    }
    delete db; delete mesh;
  } else if (kind == 2) {
    AMesh* mesh = makeMesh(c[1]);
    if (!mesh) return "(-997 2)";
    int ndim = mesh->getNDim();
    Model* model = makeModel(c[2], ndim);
    CovAniso* cova = model->getCova(0);
    PrecisionOp Qf(mesh, cova, false);
    PrecisionOpCs Qc(mesh, cova, false);
    int n = Qf.getSize();
    VD v = c[3].vd();
    if ((int) v.size() != n) { v.assign(n, 0.); for (int i = 0; i < n; i++) v[i] = (i < (int) c[3].size()) ? c[3][i].d() : 1. / (1 + i); }
    VectorDouble vin = toVD(v), out1, out2, out3;
    Qf.evalDirect(vin, out1);
    Qc.evalDirect(vin, out2);
    Qf.setTraining(true);
    Qf.evalDirect(vin, out3);
    Qf.setTraining(false);
    VectorDouble coeffs = Qf.getCoeffs();
    VectorDouble coeffs2 = Qc.getCoeffs();
    // addToDest of both forms on the same non-zero destination
    VD dst = c[4].vd();
    std::vector<double> d1(n), d2(n);
    for (int i = 0; i < n; i++) d1[i] = d2[i] = (i < (int) dst.size()) ? dst[i] : 1.;
    VD dst0(d1.begin(), d1.end());
    Qf.addToDest(constvect(v.data(), n), vect(d1.data(), n));
    Qc.addToDest(constvect(v.data(), n), vect(d2.data(), n));
    // the two operators are built independently: S, Lambda of both are reported (they must coincide)
    o << "(" << n << " " << denseOut(Qf.getShiftOp()->getS()) << " " << sx_vd(deep(Qf.getShiftOp()->getLambdas()))
      << " " << sx_vd(deep(coeffs)) << " " << sx_vd(deep(out1)) << " " << sx_vd(deep(out2)) << " " << sx_vd(deep(out3))
      << " " << denseOut(Qc.getQ()) << " " << sx_vd(deep(Qf.extractDiag())) << " " << sx_vd(deep(Qc.extractDiag()))
      << " " << denseOut(Qc.getShiftOp()->getS()) << " " << sx_vd(deep(Qc.getShiftOp()->getLambdas())) << " " << sx_vd(deep(coeffs2))
      << " " << sx_vd(v) << " " << sx_vd(dst0) << " " << sx_vd(VD(d1.begin(), d1.end())) << " " << sx_vd(VD(d2.begin(), d2.end())) << ")";
    delete model; delete mesh;
  } else if (kind == 3) {
    AMesh* mesh = makeMesh(c[1]);
    if (!mesh) return "(-997 2)";
    int ndim = mesh->getNDim();
    Model* model = makeModel(c[2], ndim);
    CovAniso* cova = model->getCova(0);
    VD z = c[4].vd();
    double var = c[5].d();
    Db* dat = makeDb(c[3], ndim, &z);
    Db* dout = makeDb(c[6], ndim);
    int ndat = (int) z.size();
    ProjMatrix A(dat, mesh);
    PrecisionOp Qf(mesh, cova, false);
    PrecisionOpCs Qc(mesh, cova, false);
    int n = Qf.getSize();
    // conditional operators
    PrecisionOpMultiConditional Mf; Mf.push_back(&Qf, &A); Mf.setVarianceData(var);
    PrecisionOpMultiConditionalCs Mc; Mc.push_back(&Qc, &A); Mc.setVarianceData(var); Mc.makeReady();
    std::vector<double> zz(z.begin(), z.end());
    std::vector<std::vector<double>> rhs = Mc.computeRhs(zz);
    std::vector<std::vector<double>> xc(1, std::vector<double>(n)), xf(1, std::vector<double>(n));
    Mc.evalInverse(rhs, xc);
    Mf.evalInverse(rhs, xf);
    double quad_c = Mc.computeQuadratic(zz);
    double quad_f = Mf.computeQuadratic(zz);
    double logdet_c = Mc.computeLogDetOp(1);
    // single-operator inverse: Cholesky vs (no CG for a single PrecisionOp: Chebyshev approximation) -> only Cholesky reported
    std::vector<double> b1(n), y1(n);
    for (int i = 0; i < n; i++) b1[i] = rhs[0][i];
    Qc.evalInverse(constvect(b1.data(), b1.size()), y1);
    // kriging through the API, both modes, on the user mesh
    int ip1 = krigingSPDE(dat, dout, model, nullptr, true, false, mesh, 1, SPDEParam(), 0, false, false, NamingConvention("KC"));
    VD kc = deep(dout->getColumnByUID(ip1));
    int ip0 = krigingSPDE(dat, dout, model, nullptr, true, false, mesh, 0, SPDEParam(), 0, false, false, NamingConvention("KF"));
    VD kf = deep(dout->getColumnByUID(ip0));
    // quadratic term of the likelihood through the API in both modes
    SPDE s1(model, dat, dat, ESPDECalcMode::KRIGING, mesh, 1), s0(model, dat, dat, ESPDECalcMode::KRIGING, mesh, 0);
    // computeLogLikelihood prepares the working data (computeQuad alone reads an empty _workingData)
    law_set_random_seed(1234);
    double ll1 = s1.computeLogLikelihood(1, false);
    double ll0 = s0.computeLogLikelihood(1, false);
    double q1 = s1.computeQuad(), q0 = s0.computeQuad();
    double ld1 = s1.computeLogDet(1);
    double var_api = s1._precisionsKrig->getVarianceData(0);
    ProjMatrix Aout(dout, mesh);
    // krigingSPDENew (SPDEOp / SPDEOpMatrix) in both modes: model with an explicit nugget = var_api, output Db with a Z locator
    VD kn1, kn0;
    // nugget well above the floor eps * total sill that buildInvNugget applies
    double var_new = var + c[2][1].d() / 8.;
    {
      Model* model2 = makeModel(c[2], ndim);
      model2->addCovFromParam(ECov::NUGGET, 0., var_new);
      VD zero(c[6].size(), 0.);
      Db* dout2 = makeDb(c[6], ndim, &zero);
      VectorMeshes meshes = { mesh };
      kn1 = deep(krigingSPDENew(dat, dout2, model2, meshes, 1));
      kn0 = deep(krigingSPDENew(dat, dout2, model2, meshes, 0));
      delete dout2; delete model2;
    }
    o << "(" << n << " " << ndat << " " << denseOut(Qc.getQ()) << " (" << projOut(A) << ") " << sx_vd(VD(rhs[0].begin(), rhs[0].end()))
      << " " << sx_vd(VD(xc[0].begin(), xc[0].end())) << " " << sx_vd(VD(xf[0].begin(), xf[0].end()))
      << " " << sx_d(quad_c) << " " << sx_d(quad_f) << " " << sx_d(logdet_c) << " " << sx_vd(VD(y1.begin(), y1.end()))
      << " " << sx_vd(kc) << " " << sx_vd(kf) << " " << sx_d(q1) << " " << sx_d(q0) << " " << sx_d(ld1) << " " << sx_d(var_api) << " " << sx_d(ll1) << " " << sx_d(ll0)
      << " (" << projOut(Aout) << ") " << Mf.getLogStats()._inverseCGNIter << " " << sx_vd(kn1) << " " << sx_vd(kn0) << " " << sx_d(var_new) << ")";
    delete dat; delete dout; delete model; delete mesh;
  } else o << "(-997 1)";
  return o.str();
}
int main(int argc, char** argv) { return sx_main(argc, argv, run); }

// C20 harness: PolyElem::inside, Polygons::inside, db_polygon on the same cases as the Coq model.
#include "sx.hpp"
#include "Polygon/PolyElem.hpp"
#include "Polygon/Polygons.hpp"
#include "Db/Db.hpp"
#include "Basic/NamingConvention.hpp"
#include "geoslib_define.h"

static Polygons makePolygons(const Sx& pes) {
  Polygons P;
  for (auto& pe : pes.l) {
    VectorDouble x, y;
    for (auto& p : pe[0].l) { x.push_back(p[0].d()); y.push_back(p[1].d()); }
    PolyElem e(x, y, pe[1].d(TEST), pe[2].d(TEST));
    P.addPolyElem(e);
  }
  return P;
}
static std::string run(const Sx& c) {
  long long kind = c[0].i();
  std::ostringstream o;
  if (kind == 0) {
    VectorDouble x, y;
    for (auto& p : c[1].l) { x.push_back(p[0].d()); y.push_back(p[1].d()); }
    PolyElem e(x, y);
    VectorDouble q = { c[2][0].d(), c[2][1].d() };
    o << "(" << (e.inside(q) ? 1 : 0) << ")";
  } else if (kind == 1) {
    Polygons P = makePolygons(c[2]);
    VectorDouble q = { c[3][0].d(), c[3][1].d() };
    if (!c[4].l.empty()) q.push_back(c[4].d());
    o << "(" << (P.inside(q, c[1].b()) ? 1 : 0) << ")";
  } else if (kind == 3) {
    // history of edits on one Polygons object, then one query
    Polygons P;
    for (auto& op : c[2].l) {
      if (op[0].i() == 0) {
        VectorDouble x, y;
        for (auto& p : op[1][0].l) { x.push_back(p[0].d()); y.push_back(p[1].d()); }
        P.addPolyElem(PolyElem(x, y, op[1][1].d(TEST), op[1][2].d(TEST)));
      } else {
        int ipol = (int) op[1].i();
        if (ipol < 0 || ipol >= P.getPolyElemNumber()) continue;
        VectorDouble x, y;
        for (auto& p : op[2].l) { x.push_back(p[0].d()); y.push_back(p[1].d()); }
        P.setX(ipol, x); P.setY(ipol, y);
      }
    }
    VectorDouble q = { c[3][0].d(), c[3][1].d() };
    if (!c[4].l.empty()) q.push_back(c[4].d());
    o << "(" << (P.inside(q, c[1].b()) ? 1 : 0) << ")";
  } else if (kind == 2) {
    bool flag_sel = c[1].b(), flag_period = c[2].b(), nested = c[3].b();
    Polygons P = makePolygons(c[4]);
    int n = (int) c[5].size();
    bool has_z = n > 0 && !c[5][0][3].l.empty();
    VectorDouble tab;  // by column: sel, x, y, (z)
    int ncol = has_z ? 4 : 3;
    tab.resize((size_t) n * ncol);
    for (int i = 0; i < n; i++) {
      tab[i] = c[5][i][0].b() ? 1. : 0.;
      tab[n + i] = c[5][i][1].d(); tab[2 * n + i] = c[5][i][2].d();
      if (has_z) tab[3 * n + i] = c[5][i][3].d();
    }
    VectorString names = {"sel", "x", "y"}; if (has_z) names.push_back("z");
    VectorString locs = {"sel", "x1", "x2"}; if (has_z) locs.push_back("x3");
    Db* db = Db::createFromSamples(n, ELoadBy::COLUMN, tab, names, locs, false);
    db_polygon(db, &P, flag_sel, flag_period, nested);
    int last = db->getColumnNumber() - 1;
    VectorDouble r = db->getColumnByColIdx(last, false, false);
    o << "((";
    for (int i = 0; i < n; i++) o << (i ? " " : "") << (r[i] != 0. ? 1 : 0);
    o << "))";
    delete db;
  } else if (kind == 4) {
    // convex hull of a point set: Polygons::createFromDb; each returned vertex is reported as the rank of the first data point
    // with exactly the same coordinates (-1 if there is none)
    int n = (int) c[1].size();
    VectorDouble tab((size_t) 2 * n);
    for (int i = 0; i < n; i++) { tab[i] = c[1][i][0].d(); tab[n + i] = c[1][i][1].d(); }
    Db* db = Db::createFromSamples(n, ELoadBy::COLUMN, tab, {"x", "y"}, {"x1", "x2"}, false);
    Polygons* P = Polygons::createFromDb(db, 0., false);
    if (P == nullptr || P->getPolyElemNumber() != 1) o << "(-1)";
    else {
      VectorDouble hx = P->getX(0), hy = P->getY(0);
      o << "((";
      for (size_t k = 0; k < hx.size(); k++) {
        int r = -1;
        for (int i = 0; i < n && r < 0; i++) if (tab[i] == hx[k] && tab[n + i] == hy[k]) r = i;
        o << (k ? " " : "") << r;
      }
      o << "))";
    }
    delete P; delete db;
  } else o << "(-997 1)";
  return o.str();
}
int main(int argc, char** argv) { return sx_main(argc, argv, run); }

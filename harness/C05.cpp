// C05 harness: runs one public calculation on one Db given column by column, dumps the results.
// The check runs each calculation on (Db with selection / undefined values) and on the physically reduced Db
// (built by the check, or by Db::createReduce when asked) and compares.
//   db     = (n (col..) reduce)       col = (loc idx (v..))   v : dyadic or ()      reduce = 1: pass through Db::createReduce
//            loc: 0 none, 1 X, 2 Z, 3 V (verr), 4 F (ext. drift), 5 SEL, 6 W, 7 C (code), 8 DATE
//   model  = same layout as harness/C01.cpp
//   neigh  = (0) unique | (1 nmini nmaxi radius nsect nsmax) moving
//   op 1 : (1 ndim nvar dbin dbout model neigh)                -> (err dbout-dump)          kriging(est,std,varz)
//   op 2 : (2 ndim nvar db model neigh kfold)                  -> (err db-dump)             xvalid
//   op 3 : (3 ndim nvar db (dir..) calc flag_sample)           -> (ok (means) (vars) ((sw hh gg per ivar,jvar<=ivar) per dir))
//            dir = (npas dpas toldis tolang (codir..))
//   op 4 : (4 db (icol..) flagIso)                             -> (mono multi-mono multi-full correl varmat per-sample-dump)
//   op 5 : (5 ndim nvar db1 db2|() model ivar0 jvar0)          -> (index1 index2 M Msym Moptim Msymoptim active1)
//   op 6 : (6 ndim nvar db model ivar0 member)                 -> (M)
//   op 7 : (7 ndim nvar dbin dbout model neigh nbsimu seed nbtuba) -> (err dbout-dump)
//   op 8 : (8 db (ivar..) (nbgh..) useSel useVerr useCoord)    -> (index active nactive)
//   grid   = (nx dx x0 (col..))   col as for db (no X column: coordinates come from the grid)
//   op 20: (20 ndim dbin dbout exponent dmax|())               -> (err dbout-dump)   inverseDistance
//   op 21: (21 ndim dbin dbout neigh type order)               -> (err dbout-dump)   type 0 movingAverage 1 movingMedian 2 nearestNeighbor 3 leastSquares
//   op 22: (22 db respcol (auxcol..) flagCst)                  -> (count (coeffs) variance varres)   regression mode 0
//   op 23: (23 ndim db grid col1 col2|-1 oper)                 -> ((values per cell))  dbStatisticsPerCell; oper 0 NUM 1 MEAN 2 VAR 3 MINI 4 MAXI 5 SUM 6 COV
//   op 24: (24 ndim dbin dbout col dist_type dmax flag_ball)   -> (err dbout-dump)   migrate (point to point)
//   op 25: (25 ndim grid ((npas (grincr..))..) calc)           -> same layout as op 3    variogram on a grid
//   op 26: (26 ndim nvar db calc (nxx..) (dxx..))              -> (ok (column..))        db_vmap on points (no FFT)
//   op 27: (27 ndim db dir lagmax varmax lagnb varnb)          -> (ok (column..))        db_vcloud
//   op 28: (28 db)                                             -> (err (eigval) (mean) (sigma))   PCA::pca_compute
//   op 29: (29 db nbpoly)                                      -> (err (psihn))          AnamHermite::fitFromLocator
#include "sx.hpp"
#include <sstream>
#include "Db/Db.hpp"
#include "Model/Model.hpp"
#include "Neigh/NeighUnique.hpp"
#include "Neigh/NeighMoving.hpp"
#include "Estimation/CalcKriging.hpp"
#include "Simulation/CalcSimuTurningBands.hpp"
#include "Variogram/Vario.hpp"
#include "Variogram/VarioParam.hpp"
#include "Variogram/DirParam.hpp"
#include "Stats/Classical.hpp"
#include "Matrix/Table.hpp"
#include "Matrix/MatrixRectangular.hpp"
#include "Matrix/MatrixSquareSymmetric.hpp"
#include "Space/ASpaceObject.hpp"
#include "Covariances/CovCalcMode.hpp"
#include "Enum/ECov.hpp"
#include "Enum/EKrigOpt.hpp"
#include "Enum/ECalcVario.hpp"
#include "Enum/ECalcMember.hpp"
#include "Enum/EStatOption.hpp"
#include "Db/DbGrid.hpp"
#include "Estimation/CalcSimpleInterpolation.hpp"
#include "Calculators/CalcMigrate.hpp"
#include "Stats/Regression.hpp"
#include "Stats/PCA.hpp"
#include "Variogram/VMap.hpp"
#include "Variogram/VCloud.hpp"
#include "Anamorphosis/AnamHermite.hpp"
#include "Basic/OptDbg.hpp"
#include "Basic/VectorHelper.hpp"
#include "geoslib_define.h"

static const char* COVS[] = {"NUGGET", "SPHERICAL", "EXPONENTIAL", "GAUSSIAN", "CUBIC", "LINEAR"};
static const ELoc& locOf(long long k) {
  switch (k) {
    case 1: return ELoc::X; case 2: return ELoc::Z; case 3: return ELoc::V; case 4: return ELoc::F;
    case 5: return ELoc::SEL; case 6: return ELoc::W; case 7: return ELoc::C; case 8: return ELoc::DATE;
    default: return ELoc::UNKNOWN;
  }
}
static int codeOf(const ELoc& l) {
  if (l == ELoc::X) return 1; if (l == ELoc::Z) return 2; if (l == ELoc::V) return 3; if (l == ELoc::F) return 4;
  if (l == ELoc::SEL) return 5; if (l == ELoc::W) return 6; if (l == ELoc::C) return 7; if (l == ELoc::DATE) return 8;
  return 0;
}
static const char* PFX[] = {"k", "x", "z", "v", "f", "sel", "w", "code", "date"};

static Db* makeDb(const Sx& d) {
  int n = (int) d[0].i();
  VectorDouble tab; VectorString names; std::vector<std::pair<long long, int>> locs;
  int nk = 0;
  for (auto& col : d[1].l) {
    long long lc = col[0].i(); int idx = (int) col[1].i();
    auto v = col[2].vd(TEST);
    if ((int) v.size() != n) throw std::runtime_error("column length");
    tab.insert(tab.end(), v.begin(), v.end());
    names.push_back(std::string(PFX[lc]) + std::to_string(lc == 0 ? ++nk : idx + 1));
    locs.push_back({lc, idx});
  }
  Db* db = Db::createFromSamples(n, ELoadBy::COLUMN, tab, names, VectorString(), false);
  if (db == nullptr) throw std::runtime_error("createFromSamples");
  for (size_t k = 0; k < names.size(); k++) if (locs[k].first != 0) db->setLocator(names[k], locOf(locs[k].first), locs[k].second);
  if (d.size() > 2 && d[2].b()) {
    Db* red = Db::createReduce(db);
    delete db; db = red;
  }
  return db;
}

static DbGrid* makeGrid(const Sx& g) {
  VectorInt nx = g[0].vi(); VectorDouble dx = g[1].vd(), x0 = g[2].vd();
  int n = 1; for (auto k : nx) n *= k;
  VectorDouble tab; VectorString names; std::vector<std::pair<long long, int>> locs; int nk = 0;
  for (auto& col : g[3].l) {
    long long lc = col[0].i(); int idx = (int) col[1].i();
    auto v = col[2].vd(TEST);
    if ((int) v.size() != n) throw std::runtime_error("grid column length");
    tab.insert(tab.end(), v.begin(), v.end());
    names.push_back(std::string(PFX[lc]) + std::to_string(lc == 0 ? ++nk : idx + 1));
    locs.push_back({lc, idx});
  }
  DbGrid* db = DbGrid::create(nx, dx, x0, VectorDouble(), ELoadBy::COLUMN, tab, names, VectorString(), false, true);
  if (db == nullptr) throw std::runtime_error("DbGrid::create");
  for (size_t k = 0; k < names.size(); k++) if (locs[k].first != 0) db->setLocator(names[k], locOf(locs[k].first), locs[k].second);
  return db;
}
static std::string varioDump(const Vario* v, int ndir, int nvar) {
  std::ostringstream o;
  o << "(1 " << sx_vd(v->getMeans()) << " " << sx_vd(v->getVars()) << " (";
  for (int idir = 0; idir < ndir; idir++) {
    o << "(";
    for (int ivar = 0; ivar < nvar; ivar++) for (int jvar = 0; jvar <= ivar; jvar++)
      o << "(" << sx_vd(v->getSwVec(idir, ivar, jvar, false)) << " " << sx_vd(v->getHhVec(idir, ivar, jvar, false)) << " "
        << sx_vd(v->getGgVec(idir, ivar, jvar, false, false, false)) << ")";
    o << ")";
  }
  o << "))";
  return o.str();
}

static std::string dumpDb(const Db* db) {
  std::ostringstream o; o << "(" << db->getSampleNumber() << " (";
  for (int icol = 0; icol < db->getColumnNumber(); icol++) {
    ELoc l = ELoc::UNKNOWN; int item = 0;
    db->getLocatorByColIdx(icol, &l, &item);
    o << (icol ? " " : "") << "(" << codeOf(l) << " " << item << " " << sx_vd(db->getColumnByColIdx(icol, false, false)) << ")";
  }
  o << "))";
  return o.str();
}

static Model* makeModel(const Sx& m, int ndim, int nvar) {
  Model* model = nullptr;
  for (auto& s : m[0].l) {
    ECov type = ECov::fromKey(COVS[s[0].i()]);
    double range = s[1].d();
    VectorDouble ranges = s[2].vd(), angles = s[3].vd(), sills = s[4].vd();
    if (model == nullptr) { CovContext ctxt(nvar, ndim); model = Model::create(ctxt); }
    model->addCovFromParam(type, range, 1., 1., ranges, sills, angles, true);
  }
  int order = (int) m[1].i(); int nfex = (int) m[2].i();
  if (order >= 0) model->setDriftIRF(order, nfex);
  VectorDouble means = m[3].vd();
  if (!means.empty()) model->setMeans(means);
  return model;
}
static ANeigh* makeNeigh(const Sx& s, bool xvalid) {
  if (s[0].i() == 0) return NeighUnique::create(xvalid);
  int nsect = s.size() > 4 ? (int) s[4].i() : 1;
  int nsmax = s.size() > 5 ? (int) s[5].i() : ITEST;
  return NeighMoving::create(xvalid, (int) s[2].i(), s[3].d(TEST), (int) s[1].i(), nsect, nsmax);
}
static std::string matStr(const AMatrix& M) {
  std::ostringstream o; o << "(";
  for (int i = 0; i < M.getNRows(); i++) { o << (i ? " " : "") << "("; for (int j = 0; j < M.getNCols(); j++) o << (j ? " " : "") << sx_d(M.getValue(i, j, false)); o << ")"; }
  o << ")"; return o.str();
}
static std::string vviStr(const VectorVectorInt& v) {
  std::ostringstream o; o << "("; for (size_t i = 0; i < v.size(); i++) o << (i ? " " : "") << sx_vi(v[i]); o << ")"; return o.str();
}
static ECalcVario calcOf(long long k) {
  switch (k) {
    case 0: return ECalcVario::VARIOGRAM; case 1: return ECalcVario::COVARIANCE; case 3: return ECalcVario::MADOGRAM; case 5: return ECalcVario::POISSON;
    case 9: return ECalcVario::COVARIANCE_NC; case 10: return ECalcVario::ORDER4;
    default: throw std::runtime_error("calc code");
  }
}

static std::string run(const Sx& c) {
  long long op = c[0].i();
  std::ostringstream o;
  if (op == 1 || op == 2 || op == 7) {
    int ndim = (int) c[1].i(), nvar = (int) c[2].i();
    defineDefaultSpace(ESpaceType::RN, ndim);
    Db* dbin = makeDb(c[3]);
    Db* dbout = (op == 2) ? dbin : makeDb(c[4]);
    const Sx& ms = (op == 2) ? c[4] : c[5];
    const Sx& ns = (op == 2) ? c[5] : c[6];
    Model* model = makeModel(ms, ndim, nvar);
    ANeigh* neigh = makeNeigh(ns, op == 2);
    int err;
    if (op == 1) err = kriging(dbin, dbout, model, neigh, EKrigOpt::POINT, true, true, true);
    else if (op == 2) err = xvalid(dbin, model, neigh, c[6].b(), 1, 1, 0);
    else err = simtub(dbin, dbout, model, neigh, (int) c[7].i(), (int) c[8].i(), (int) c[9].i());
    o << "(" << err << " " << dumpDb(dbout) << ")";
    if (dbout != dbin) delete dbout;
    delete dbin; delete model; delete neigh;
    return o.str();
  }
  if (op == 3) {
    int ndim = (int) c[1].i(), nvar = (int) c[2].i();
    defineDefaultSpace(ESpaceType::RN, ndim);
    Db* db = makeDb(c[3]);
    VarioParam vp;
    for (auto& d : c[4].l) {
      DirParam dp((int) d[0].i(), d[1].d(), d[2].d(), d[3].d(), 0, 0, TEST, TEST, 0., VectorDouble(), d[4].vd(), TEST);
      vp.addDir(dp);
    }
    Vario* v = Vario::computeFromDb(vp, db, calcOf(c[5].i()), c[6].b());
    if (v == nullptr) { delete db; return "(0 () () ())"; }
    o << "(1 " << sx_vd(v->getMeans()) << " " << sx_vd(v->getVars()) << " (";
    for (int idir = 0; idir < (int) c[4].size(); idir++) {
      o << "(";
      for (int ivar = 0; ivar < nvar; ivar++) for (int jvar = 0; jvar <= ivar; jvar++)
        o << "(" << sx_vd(v->getSwVec(idir, ivar, jvar, false)) << " " << sx_vd(v->getHhVec(idir, ivar, jvar, false)) << " "
          << sx_vd(v->getGgVec(idir, ivar, jvar, false, false, false)) << ")";
      o << ")";
    }
    o << "))";
    delete v; delete db;
    return o.str();
  }
  if (op == 4) {
    Db* db = makeDb(c[1]);
    VectorString names; for (auto& k : c[2].l) names.push_back(db->getNameByColIdx((int) k.i()));
    bool iso = c[3].b();
    std::vector<EStatOption> opers = {EStatOption::NUM, EStatOption::MEAN, EStatOption::VAR, EStatOption::MINI, EStatOption::MAXI, EStatOption::SUM, EStatOption::STDV};
    Table t = dbStatisticsMono(db, names, opers, iso);
    o << "(" << matStr(t) << " (";
    std::vector<EStatOption> mo = {EStatOption::NUM, EStatOption::MEAN, EStatOption::VAR, EStatOption::MINI, EStatOption::MAXI, EStatOption::PLUS, EStatOption::MOINS, EStatOption::ZERO};
    for (auto& op1 : mo) { Table tm = dbStatisticsMulti(db, names, op1, true); o << matStr(tm) << " "; }
    o << ") (";
    for (auto& op1 : mo) { Table tm = dbStatisticsMulti(db, names, op1, false); o << matStr(tm) << " "; }
    o << ") ";
    Table tc = dbStatisticsCorrel(db, names, iso);
    o << matStr(tc) << " ";
    if (db->getLocNumber(ELoc::Z) > 0) { MatrixSquareSymmetric vm = dbVarianceMatrix(db); o << matStr(vm) << " "; } else o << "() ";
    // per-sample statistics written into new columns
    int iptr = db->addColumnsByConstant(6, TEST);
    std::vector<EStatOption> so = {EStatOption::NUM, EStatOption::MEAN, EStatOption::VAR, EStatOption::MINI, EStatOption::MAXI, EStatOption::SUM};
    dbStatisticsVariables(db, names, so, iptr);
    o << dumpDb(db) << ")";
    delete db;
    return o.str();
  }
  if (op == 5) {
    int ndim = (int) c[1].i(), nvar = (int) c[2].i();
    defineDefaultSpace(ESpaceType::RN, ndim);
    Db* db1 = makeDb(c[3]);
    Db* db2 = c[4].size() > 0 ? makeDb(c[4]) : nullptr;
    Model* model = makeModel(c[5], ndim, nvar);
    int ivar0 = (int) c[6].i(), jvar0 = (int) c[7].i();
    VectorInt iv = ivar0 >= 0 ? VectorInt{ivar0} : VH::sequence(nvar);
    VectorInt jv = jvar0 >= 0 ? VectorInt{jvar0} : VH::sequence(nvar);
    o << "(" << vviStr(db1->getMultipleRanksActive(iv)) << " " << vviStr((db2 ? db2 : db1)->getMultipleRanksActive(jv)) << " ";
    o << matStr(model->evalCovMatrix(db1, db2, ivar0, jvar0)) << " ";
    o << matStr(model->evalCovMatrixSymmetric(db1, ivar0)) << " ";
    o << matStr(model->evalCovMatrixOptim(db1, db2, ivar0, jvar0)) << " ";
    o << matStr(model->evalCovMatrixSymmetricOptim(db1, ivar0)) << " ";
    VectorInt act; for (int i = 0; i < db1->getSampleNumber(); i++) act.push_back(db1->isActive(i) ? 1 : 0);
    o << sx_vi(act) << ")";
    delete db1; if (db2) delete db2; delete model;
    return o.str();
  }
  if (op == 6) {
    int ndim = (int) c[1].i(), nvar = (int) c[2].i();
    defineDefaultSpace(ESpaceType::RN, ndim);
    Db* db = makeDb(c[3]);
    Model* model = makeModel(c[4], ndim, nvar);
    ECalcMember member = c[6].i() == 0 ? ECalcMember::LHS : ECalcMember::RHS;
    o << "(" << matStr(model->evalDriftMatrix(db, (int) c[5].i(), VectorInt(), member)) << ")";
    delete db; delete model;
    return o.str();
  }
  if (op == 8) {
    Db* db = makeDb(c[1]);
    VectorInt act; for (int i = 0; i < db->getSampleNumber(); i++) act.push_back(db->isActive(i) ? 1 : 0);
    o << "(" << vviStr(db->getMultipleRanksActive(c[2].vi(), c[3].vi(), c[4].b(), c[5].b(), c[6].b())) << " " << sx_vi(act) << " "
      << db->getSampleNumber(true) << ")";
    delete db;
    return o.str();
  }
  if (op == 20 || op == 21 || op == 24) {
    int ndim = (int) c[1].i();
    defineDefaultSpace(ESpaceType::RN, ndim);
    Db* dbin = makeDb(c[2]); Db* dbout = makeDb(c[3]);
    int err = 0;
    if (op == 20) err = inverseDistance(dbin, dbout, c[4].d(), false, c[5].d(TEST));
    else if (op == 21) {
      ANeigh* neigh = makeNeigh(c[4], false);
      long long ty = c[5].i();
      if (ty == 0) err = movingAverage(dbin, dbout, neigh);
      else if (ty == 1) err = movingMedian(dbin, dbout, neigh);
      else if (ty == 2) err = nearestNeighbor(dbin, dbout);
      else err = leastSquares(dbin, dbout, neigh, (int) c[6].i());
      delete neigh;
    }
    else err = migrate(dbin, dbout, dbin->getNameByColIdx((int) c[4].i()), (int) c[5].i(), c[6].vd(), false, false, c[7].b());
    o << "(" << err << " " << dumpDb(dbout) << ")";
    delete dbin; delete dbout;
    return o.str();
  }
  if (op == 22) {
    Db* db = makeDb(c[1]);
    VectorString aux; for (auto& k : c[3].l) aux.push_back(db->getNameByColIdx((int) k.i()));
    Regression r = regression(db, db->getNameByColIdx((int) c[2].i()), aux, 0, c[4].b());
    o << "(" << r.getCount() << " " << sx_vd(r.getCoeffs()) << " " << sx_d(r.getVariance()) << " " << sx_d(r.getVarres()) << ")";
    delete db;
    return o.str();
  }
  if (op == 23) {
    int ndim = (int) c[1].i();
    defineDefaultSpace(ESpaceType::RN, ndim);
    Db* db = makeDb(c[2]); DbGrid* g = makeGrid(c[3]);
    static const EStatOption* OPS[] = {&EStatOption::NUM, &EStatOption::MEAN, &EStatOption::VAR, &EStatOption::MINI, &EStatOption::MAXI, &EStatOption::SUM, &EStatOption::COV};
    String n1 = db->getNameByColIdx((int) c[4].i());
    String n2 = c[5].i() >= 0 ? db->getNameByColIdx((int) c[5].i()) : String();
    VectorDouble r = dbStatisticsPerCell(db, g, *OPS[c[6].i()], n1, n2);
    o << "(" << sx_vd(r) << ")";
    delete db; delete g;
    return o.str();
  }
  if (op == 25) {
    int ndim = (int) c[1].i();
    defineDefaultSpace(ESpaceType::RN, ndim);
    DbGrid* g = makeGrid(c[2]);
    int nvar = g->getLocNumber(ELoc::Z);
    VarioParam vp;
    for (auto& gd : c[3].l) { DirParam* dp = DirParam::createFromGrid(g, (int) gd[0].i(), gd[1].vi()); vp.addDir(*dp); delete dp; }
    Vario* v = Vario::computeFromDb(vp, g, calcOf(c[4].i()));
    if (v == nullptr) { delete g; return "(0 () () ())"; }
    std::string r = varioDump(v, (int) c[3].size(), nvar);
    delete v; delete g;
    return r;
  }
  if (op == 26 || op == 27) {
    int ndim = (int) c[1].i();
    defineDefaultSpace(ESpaceType::RN, ndim);
    DbGrid* m = nullptr; Db* db = nullptr; int nkeep = 0;
    if (op == 26) {
      int nvar = (int) c[2].i(); db = makeDb(c[3]);
      m = db_vmap(db, calcOf(c[4].i()), c[5].vi(), c[6].vd(), 0, false);
      nkeep = nvar * (nvar + 1);
    } else {
      db = makeDb(c[2]); const Sx& d = c[3];
      DirParam dp((int) d[0].i(), d[1].d(), d[2].d(), d[3].d(), 0, 0, TEST, TEST, 0., VectorDouble(), d[4].vd(), TEST);
      VarioParam vp; vp.addDir(dp);
      m = db_vcloud(db, &vp, c[4].d(TEST), c[5].d(TEST), (int) c[6].i(), (int) c[7].i());
      nkeep = 1;
    }
    if (m == nullptr) { delete db; return "(0 ())"; }
    int nc = m->getColumnNumber();
    o << "(1 (";
    for (int k = nc - nkeep; k < nc; k++) o << sx_vd(m->getColumnByColIdx(k, false, false)) << " ";
    o << "))";
    delete m; delete db;
    return o.str();
  }
  if (op == 28) {
    Db* db = makeDb(c[1]);
    PCA pca;
    int err = pca.pca_compute(db, false);
    o << "(" << err << " " << sx_vd(pca.getEigVals()) << " " << sx_vd(pca.getMeans()) << " " << sx_vd(pca.getSigmas()) << ")";
    delete db;
    return o.str();
  }
  if (op == 29) {
    Db* db = makeDb(c[1]);
    AnamHermite* anam = AnamHermite::create((int) c[2].i());
    int err = anam->fitFromLocator(db, ELoc::Z);
    o << "(" << err << " " << sx_vd(anam->getPsiHns()) << ")";
    delete anam; delete db;
    return o.str();
  }
  return "(-997 1)";
}
int main(int argc, char** argv) { OptDbg::reset(); return sx_main(argc, argv, run); }

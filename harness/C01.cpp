// C01/C02 harness: drives KrigingSystem on a generated case, dumps per target the system, the outputs and
// the covariance oracle values (the model's covariance function evaluated on exactly the pairs the system uses).
#include "sx.hpp"
#include <sstream>
#define private public
#define protected public
#include "Estimation/KrigingSystem.hpp"
#undef private
#undef protected
#include "Estimation/CalcKriging.hpp"
#include "Db/Db.hpp"
#include "Db/DbGrid.hpp"
#include "Model/Model.hpp"
#include "Neigh/NeighUnique.hpp"
#include "Neigh/NeighMoving.hpp"
#include "Space/ASpaceObject.hpp"
#include "Space/SpacePoint.hpp"
#include "Covariances/CovCalcMode.hpp"
#include "Drifts/DriftList.hpp"
#include "Drifts/ADrift.hpp"
#include "Drifts/DriftF.hpp"
#include "Enum/ECov.hpp"
#include "Enum/EKrigOpt.hpp"
#include "Basic/OptDbg.hpp"
#include "geoslib_define.h"

static const char* COVS[] = {"NUGGET", "SPHERICAL", "EXPONENTIAL", "GAUSSIAN", "CUBIC", "LINEAR"};

struct Built { Db* dbin; Db* dbout; Model* model; ANeigh* neigh; int ndim, nvar, nfex; };

// case layout: (ndim nvar dbin dbout model neigh calcul options)
static Db* makeDb(const Sx& d, int ndim, int nvar, int nfex, bool isIn) {
  // d = (coords[ndim][n] z[nvar][n] verr[nvar][n]|() fext[nfex][n] sel[n]|())
  int n = (int) d[0][0].size();
  VectorDouble tab; VectorString names, locs;
  for (int i = 0; i < ndim; i++) { auto v = d[0][i].vd(TEST); tab.insert(tab.end(), v.begin(), v.end()); names.push_back("x" + std::to_string(i + 1)); locs.push_back("x" + std::to_string(i + 1)); }
  if (isIn) for (int i = 0; i < nvar; i++) { auto v = d[1][i].vd(TEST); tab.insert(tab.end(), v.begin(), v.end()); names.push_back("z" + std::to_string(i + 1)); locs.push_back("z" + std::to_string(i + 1)); }
  if (isIn && d[2].size() > 0) for (int i = 0; i < nvar; i++) { auto v = d[2][i].vd(TEST); tab.insert(tab.end(), v.begin(), v.end()); names.push_back("v" + std::to_string(i + 1)); locs.push_back("v" + std::to_string(i + 1)); }
  for (int i = 0; i < nfex; i++) { auto v = d[3][i].vd(TEST); tab.insert(tab.end(), v.begin(), v.end()); names.push_back("f" + std::to_string(i + 1)); locs.push_back("f" + std::to_string(i + 1)); }
  if (d[4].size() > 0) { for (auto& x : d[4].l) tab.push_back(x.b() ? 1. : 0.); names.push_back("sel"); locs.push_back("sel"); }
  return Db::createFromSamples(n, ELoadBy::COLUMN, tab, names, locs, false);
}

static Model* makeModel(const Sx& m, int ndim, int nvar) {
  // m = (structs drift_order nfex means) ; struct = (type range ranges|() angles|() sills[nvar*nvar])
  Model* model = nullptr;
  for (auto& s : m[0].l) {
    ECov type = ECov::fromKey(COVS[s[0].i()]);
    double range = s[1].d();
    VectorDouble ranges = s[2].vd(), angles = s[3].vd(), sills = s[4].vd();
    if (model == nullptr) {
      CovContext ctxt(nvar, ndim);
      model = Model::create(ctxt);
    }
    model->addCovFromParam(type, range, 1., 1., ranges, sills, angles, true);
  }
  int order = (int) m[1].i(); int nfex = (int) m[2].i();
  if (order >= 0) model->setDriftIRF(order, nfex);
  VectorDouble means = m[3].vd();
  if (!means.empty()) model->setMeans(means);
  return model;
}

static std::string matStr(const AMatrix& M, int nr, int nc) {
  std::ostringstream o; o << "(";
  for (int i = 0; i < nr; i++) { o << (i ? " " : "") << "("; for (int j = 0; j < nc; j++) o << (j ? " " : "") << sx_d(M.getValue(i, j, false)); o << ")"; }
  o << ")"; return o.str();
}

static std::string run(const Sx& c) {
  int ndim = (int) c[0].i(), nvar = (int) c[1].i();
  defineDefaultSpace(ESpaceType::RN, ndim);
  int nfex = (int) c[4][2].i();
  Db* dbin = makeDb(c[2], ndim, nvar, nfex, true);
  Db* dbout;
  if (c[3].size() > 5 && c[3][5].size() > 0) {
    // block kriging needs a grid: (nx dx x0)
    VectorInt nx = c[3][5][0].vi(); VectorDouble dx = c[3][5][1].vd(), x0 = c[3][5][2].vd();
    dbout = DbGrid::create(nx, dx, x0);
  } else dbout = makeDb(c[3], ndim, nvar, nfex, false);
  Model* model = makeModel(c[4], ndim, nvar);
  auto mkNeigh = [&]() -> ANeigh* {
    if (c[5][0].i() == 0) return NeighUnique::create();
    NeighMoving* nm = NeighMoving::create(false, (int) c[5][2].i(), c[5][3].d(), (int) c[5][1].i());
    if (c[5].size() > 4 && c[5][4].size() > 0) nm->setDistCont(c[5][4].d());   // continuous moving neighbourhood
    return nm;
  };
  ANeigh* neigh = mkNeigh();
  EKrigOpt calcul = EKrigOpt::POINT; VectorInt ndiscs;
  if (c[6][0].i() == 1) { calcul = EKrigOpt::BLOCK; for (size_t i = 1; i < c[6].size(); i++) ndiscs.push_back((int) c[6][i].i()); }
  // options: (flag_std flag_varz)
  std::ostringstream o; o << "(";
  // drift description harvested from the implementation
  o << "(";
  if (model->getDriftList() != nullptr) {
    const DriftList* dl = model->getDriftList();
    for (int il = 0; il < dl->getDriftNumber(); il++) {
      const ADrift* d = dl->getDrift(il);
      const DriftF* df = dynamic_cast<const DriftF*>(d);
      if (df != nullptr) o << "(1 " << df->getRankFex() << ")";
      else o << "(0 " << sx_vi(d->getPowers()) << ")";
    }
  }
  o << ") ";
  int iptrEst = dbout->addColumnsByConstant(nvar, TEST);
  int iptrStd = dbout->addColumnsByConstant(nvar, TEST);
  int iptrVarZ = dbout->addColumnsByConstant(nvar, TEST);
  // every target alone, on a fresh system and a fresh neighbourhood object: the sequence below must give the same outputs
  // (no state may survive from one target to the next)
  std::vector<VectorDouble> alone(c[7].size());
  {
    int jEst = dbout->addColumnsByConstant(nvar, TEST), jStd = dbout->addColumnsByConstant(nvar, TEST), jVarZ = dbout->addColumnsByConstant(nvar, TEST);
    for (size_t k = 0; k < c[7].size(); k++) {
      int it = (int) c[7][k].i();
      ANeigh* ng = mkNeigh();
      KrigingSystem ks(dbin, dbout, model, ng);
      bool ok1 = !ks.updKrigOptEstim(jEst, jStd, jVarZ) && !ks.setKrigOptCalcul(calcul, ndiscs, false) && ks.isReady();
      if (ok1) { ks.estimate(it); ks.conclusion(); }
      for (int v = 0; v < nvar; v++) { alone[k].push_back(dbout->getArray(it, jEst + v)); alone[k].push_back(dbout->getArray(it, jStd + v)); alone[k].push_back(dbout->getArray(it, jVarZ + v)); }
      delete ng;
    }
  }
  KrigingSystem ksys(dbin, dbout, model, neigh);
  bool ok = true;
  if (ksys.updKrigOptEstim(iptrEst, iptrStd, iptrVarZ)) ok = false;
  if (ok && ksys.setKrigOptCalcul(calcul, ndiscs, false)) ok = false;
  if (ok && !ksys.isReady()) ok = false;
  o << (ok ? 1 : 0) << " (";
  if (ok) {
    CovCalcMode mLHS(ECalcMember::LHS), mRHS(ECalcMember::RHS), mVAR(ECalcMember::VAR);
    size_t kt = 0;
    for (auto& t : c[7].l) {
      int it = (int) t.i();
      int err = ksys.estimate(it);
      o << "(" << it << " " << err << " " << sx_vi(ksys._nbgh) << " " << ksys._nred << " ";
      int nred = ksys._nred, nech = (int) ksys._nbgh.size();
      bool active = dbout->isActive(it);
      // reduced system as used by the code
      bool have = active && nech > 0 && ksys._lhs != nullptr && ksys._lhs->getNRows() >= nred && ksys._rhs != nullptr && ksys._rhs->getNRows() >= nred;
      if (have) {
        VectorInt fl; for (auto f : ksys._flag) fl.push_back(f);
        o << sx_vi(fl) << " " << matStr(*ksys._lhs, nred, nred) << " " << matStr(*ksys._rhs, nred, nvar) << " ";
        if (ksys._wgt.getNRows() >= nred) o << matStr(ksys._wgt, nred, nvar); else o << "()";
        o << " ";
        if (ksys._zam.getNRows() >= nred) o << matStr(ksys._zam, nred, 1); else o << "()";
        o << " " << matStr(ksys._var0, nvar, nvar) << " ";
      } else o << "() () () () () () ";
      // outputs
      o << "(";
      for (int v = 0; v < nvar; v++) o << (v ? " " : "") << sx_d(dbout->getArray(it, iptrEst + v));
      o << ") (";
      for (int v = 0; v < nvar; v++) o << (v ? " " : "") << sx_d(dbout->getArray(it, iptrStd + v));
      o << ") (";
      for (int v = 0; v < nvar; v++) o << (v ? " " : "") << sx_d(dbout->getArray(it, iptrVarZ + v));
      o << ") ";
      // oracle: the model's covariance function on the pairs of the neighbourhood and on (sample, target [+ discretisation offsets])
      std::vector<SpacePoint> ps;
      for (int i = 0; i < nech; i++) { VectorDouble x(ndim); for (int d = 0; d < ndim; d++) x[d] = dbin->getCoordinate(ksys._nbgh[i], d); ps.emplace_back(x); }
      VectorDouble x0(ndim); for (int d = 0; d < ndim; d++) x0[d] = dbout->getCoordinate(it, d);
      bool coordsok = true; for (int i = 0; i < nech; i++) for (int d = 0; d < ndim; d++) if (FFFF(ps[i].getCoord(d))) coordsok = false;
      o << "(";
      for (int i = 0; i < nech; i++) { o << "("; for (int j = 0; j <= i; j++) { o << "(";
        for (int a = 0; a < nvar; a++) { o << "("; for (int b = 0; b < nvar; b++) {
          bool okp = true; for (int d = 0; d < ndim; d++) if (FFFF(ps[i].getCoord(d)) || FFFF(ps[j].getCoord(d))) okp = false;
          o << (b ? " " : "") << (okp ? sx_d(model->eval(ps[i], ps[j], a, b, &mLHS)) : std::string("(0 0)")); } o << ")"; }
        o << ")"; } o << ")"; }
      o << ") (";
      std::vector<VectorDouble> offs;
      if (calcul == EKrigOpt::BLOCK) { for (int k = 0; k < ksys._getNDisc(); k++) offs.push_back(ksys._getDISC1Vec(k)); }
      else offs.push_back(VectorDouble(ndim, 0.));
      for (int i = 0; i < nech; i++) { o << "("; for (auto& off : offs) { VectorDouble xt(x0); for (int d = 0; d < ndim; d++) xt[d] += off[d]; SpacePoint pt(xt);
        o << "("; for (int a = 0; a < nvar; a++) { o << "("; for (int b = 0; b < nvar; b++) {
          bool okp = true; for (int d = 0; d < ndim; d++) if (FFFF(ps[i].getCoord(d))) okp = false;
          o << (b ? " " : "") << (okp ? sx_d(model->eval(ps[i], pt, a, b, &mRHS)) : std::string("(0 0)")); } o << ")"; }
        o << ")"; } o << ")"; }
      o << ") (";
      { SpacePoint pt(x0); for (int a = 0; a < nvar; a++) { o << "("; for (int b = 0; b < nvar; b++) o << (b ? " " : "") << sx_d(model->eval(pt, pt, a, b, &mVAR)); o << ")"; } }
      o << ") (";
      // block: the pairs of discretisation points used for the block variance (first set regular, second set randomised)
      if (calcul == EKrigOpt::BLOCK) {
        int nd = ksys._getNDisc();
        for (int i = 0; i < nd; i++) for (int j = 0; j < nd; j++) {
          SpacePoint p1(ksys._getDISC1Vec(i)), p2(ksys._getDISC2Vec(j));
          o << "("; for (int a = 0; a < nvar; a++) { o << "("; for (int b = 0; b < nvar; b++) o << (b ? " " : "") << sx_d(model->eval(p1, p2, a, b, &mVAR)); o << ")"; } o << ")";
        }
      }
      o << ") " << sx_vd(alone[kt]) << " (";
      // the two sets of discretisation points themselves (block kriging): checked against the regular discretisation of the cell
      if (calcul == EKrigOpt::BLOCK) {
        int nd = ksys._getNDisc();
        o << "("; for (int i = 0; i < nd; i++) o << sx_vd(ksys._getDISC1Vec(i)); o << ") (";
        for (int i = 0; i < nd; i++) o << sx_vd(ksys._getDISC2Vec(i)); o << ")";
      }
      o << "))"; kt++;
    }
    ksys.conclusion();
  }
  o << "))";
  delete dbin; delete dbout; delete model; delete neigh;
  return o.str();
}
int main(int argc, char** argv) { OptDbg::reset(); return sx_main(argc, argv, run); }

// C06 harness: NeighMoving selection (standard and ball-tree paths) and ball-tree KNN queries,
// on the same cases as the Coq model (coq/C06/Run.v).
#include "sx.hpp"
#include <cstring>
#include <map>
#include <set>
#include <memory>
#include <functional>
#include <algorithm>
#include <fstream>
#include <complex>
#include <array>
#include <span>
#include <unordered_map>
#include <unordered_set>
#include <limits>
#include <numeric>
#include <random>
#include <list>
#include <deque>
#include <Eigen/Dense>
#include <Eigen/Sparse>
#define private public
#define protected public
#include "Db/Db.hpp"
#include "Neigh/NeighMoving.hpp"
#include "Tree/Ball.hpp"
#include "Tree/KNN.hpp"
#include "Space/ASpaceObject.hpp"
#include "Space/SpaceTarget.hpp"
#include "Space/SpacePoint.hpp"
#include "Enum/ESpaceType.hpp"
#include "Basic/VectorHelper.hpp"
#include "Geometry/BiTargetCheckBench.hpp"
#include "Geometry/BiTargetCheckCode.hpp"
#undef private
#undef protected

static std::string xname(int d) { return "x" + std::to_string(d + 1); }

// (0 (ndim nmini nmaxi nsect nsmax) radius coeffs angles (xvalid kfold hascode useball leaf) checkers samples target harvest)
// sample = (sel coords vars code fext), () = undefined value
static std::string run_moving(const Sx& c) {
  std::vector<int> ints = c[1].vi();
  int ndim = ints[0], nmini = ints[1], nmaxi = ints[2], nsect = ints[3], nsmax = ints[4];
  double radius = c[2].d(TEST);
  VectorDouble coeffs, angles;
  for (auto& x : c[3].l) coeffs.push_back(x.d());
  for (auto& x : c[4].l) angles.push_back(x.d());
  std::vector<int> fl = c[5].vi();
  bool xvalid = fl[0], kfold = fl[1], hascode = fl[2], useball = fl[3]; int leaf = fl[4];
  const Sx& smp = c[7];
  int n = (int) smp.size();
  int nvar = n > 0 ? (int) smp[0][2].size() : 0;
  defineDefaultSpace(ESpaceType::RN, ndim);

  VectorDouble tab; VectorString names, locs;
  int nfex = n > 0 && smp[0].size() > 4 ? (int) smp[0][4].size() : 0;
  for (int d = 0; d < ndim; d++) { for (int i = 0; i < n; i++) tab.push_back(smp[i][1][d].d(TEST)); names.push_back(xname(d)); locs.push_back(xname(d)); }
  for (int f = 0; f < nfex; f++) { for (int i = 0; i < n; i++) tab.push_back(smp[i][4][f].d(TEST)); names.push_back("e" + std::to_string(f + 1)); locs.push_back("f" + std::to_string(f + 1)); }
  for (int v = 0; v < nvar; v++) { for (int i = 0; i < n; i++) tab.push_back(smp[i][2][v].d(TEST)); names.push_back("v" + std::to_string(v + 1)); locs.push_back("z" + std::to_string(v + 1)); }
  for (int i = 0; i < n; i++) tab.push_back(smp[i][0].b() ? 1. : 0.); names.push_back("s"); locs.push_back("sel");
  if (hascode) { for (int i = 0; i < n; i++) tab.push_back(smp[i][3].d(TEST)); names.push_back("c"); locs.push_back("code"); }
  Db* dbin = Db::createFromSamples(n, ELoadBy::COLUMN, tab, names, locs, false);

  VectorDouble tt; VectorString tn, tl;
  for (int d = 0; d < ndim; d++) { tt.push_back(c[8][0][d].d()); tn.push_back(xname(d)); tl.push_back(xname(d)); }
  tt.push_back(c[8][1].d(TEST)); tn.push_back("c"); tl.push_back("code");
  Db* dbout = Db::createFromSamples(1, ELoadBy::COLUMN, tt, tn, tl, false);

  NeighMoving* nb = NeighMoving::create(xvalid, nmaxi, radius, nmini, nsect, nsmax, coeffs, angles);
  nb->setFlagKFold(kfold);
  for (auto& k : c[6].l) {
    if (k[0].i() == 1) nb->addBiTargetCheck(BiTargetCheckBench::create((int) k[1].i(), k[2].d()));
    else nb->addBiTargetCheck(BiTargetCheckCode::create((int) k[1].i(), k[2].d()));
  }
  if (useball) nb->setBallSearch(true, leaf);
  std::ostringstream o;
  if (nb->attach(dbin, dbout)) { delete nb; delete dbin; delete dbout; return "(-997 2)"; }
  VectorInt ranks;
  nb->select(0, ranks);
  o << "(" << sx_vi(ranks) << " ";
  // harvest: rotation matrix, sector of every sample (as _moving computes it), eligible list of the ball path
  o << sx_vd(nb->_biPtDist->_anisoRotMat) << " (";
  SpaceTarget T1(nb->_T1), T2(nb->_T2);
  dbout->getSampleAsSTInPlace(0, T1);
  if (nb->getFlagSector())
    for (int i = 0; i < n; i++) {
      dbin->getSampleAsSTInPlace(i, T2);
      (void) nb->_biPtDist->isOK(T1, T2);
      VectorDouble incr = nb->_biPtDist->getIncr();
      o << (i ? " " : "") << nb->_movingSectorDefine(incr[0], incr[1]);
    }
  o << ") ";
  if (useball) { VectorInt el = nb->getBall().getIndices(T1, nmaxi); o << sx_vi(el); } else o << "()";
  o << " (" << (nb->_biPtDist->_flagRotation ? 1 : 0) << " " << nb->_biPtDist->_ndim << " " << (nb->getFlagSector() ? 1 : 0) << ") ";
  // summary of the same target (Number, MaxDist, MinDist, NbNESect, NbCESect), asked last: it re-enters select()
  { VectorDouble tab = nb->summary(0); o << sx_vd(tab) << ")"; }
  delete nb; delete dbin; delete dbout;
  return o.str();
}

// (1 metric leaf points queries [opts])  queries = ((coords k) ...)  opts = (ctor spacemode)
//   ctor: 0 = Ball(data**, n, nf), 1 = Ball(VectorVectorDouble), 2 = Ball(Db*), 3 = Ball() + init(Db*)
//   spacemode: 0 = defineDefaultSpace(RN, nf), 1 = defineDefaultSpace(RN, 2) (the library's initial default space),
//              2 = defineDefaultSpace is not called at all (such cases come first in the file)
static std::string run_knn(const Sx& c) {
  int metric = (int) c[1].i(), leaf = (int) c[2].i();
  const Sx& pts = c[3];
  int ctor = c.size() > 5 ? (int) c[5][0].i() : 0;
  int spacemode = c.size() > 5 ? (int) c[5][1].i() : 0;
  int n = (int) pts.size(); int nf = n > 0 ? (int) pts[0].size() : 0;
  VectorVectorDouble data(nf);
  for (int j = 0; j < nf; j++) for (int i = 0; i < n; i++) data[j].push_back(pts[i][j].d());
  if (spacemode == 0) defineDefaultSpace(ESpaceType::RN, nf);
  else if (spacemode == 1) defineDefaultSpace(ESpaceType::RN, 2);
  bool space_ok = ((int) getDefaultSpaceDimension() == nf);
  std::vector<std::vector<double>> rows(n, std::vector<double>(nf));
  std::vector<const double*> rp(n);
  for (int i = 0; i < n; i++) { for (int j = 0; j < nf; j++) rows[i][j] = pts[i][j].d(); rp[i] = rows[i].data(); }
  Ball* pball = nullptr; Db* db = nullptr;
  if (ctor == 0) pball = new Ball(rp.data(), n, nf, nullptr, leaf, metric);
  else if (ctor == 1) pball = new Ball(data, nullptr, leaf, metric);
  else {
    VectorDouble tab; VectorString names, locs;
    for (int j = 0; j < nf; j++) { for (int i = 0; i < n; i++) tab.push_back(data[j][i]); names.push_back(xname(j)); locs.push_back(xname(j)); }
    db = Db::createFromSamples(n, ELoadBy::COLUMN, tab, names, locs, false);
    if (ctor == 2) pball = new Ball(db, nullptr, leaf, metric, false);
    else { pball = new Ball(); pball->init(db, nullptr, leaf, metric, false); }
  }
  Ball& ball = *pball;
  std::ostringstream o;
  o << "(";
  bool first = true;
  for (auto& q : c[4].l) {
    VectorDouble x; for (auto& v : q[0].l) x.push_back(v.d());
    int k = (int) q[1].i();
    KNN knn = ball.queryOneAsVD(x, k);
    VectorInt id = knn.getIndices(0); VectorDouble d = knn.getDistances(0);
    // the other entry points must give the same indices: queryOne, queryAsVVD, queryOneInPlace, getIndices(SpacePoint)
    std::ostringstream v;
    { KNN k1 = ball.queryOne(x.data(), nf, k); v << sx_vi(k1.getIndices(0)) << " "; }
    { VectorVectorDouble t(nf); for (int j = 0; j < nf; j++) t[j].push_back(x[j]); KNN k2 = ball.queryAsVVD(t, k); v << sx_vi(k2.getIndices(0)) << " "; }
    { VectorInt ii; VectorDouble dd; (void) ball.queryOneInPlace(x, k, ii, dd, 0); v << sx_vi(ii) << " "; }
    if (space_ok) { SpacePoint P(x); v << sx_vi(ball.getIndices(P, k)); } else v << "(-2)";
    if (!first) o << " "; first = false;
    if (k > n) o << "((-1) " << sx_vi(id) << " " << (k == 1 ? ball.queryClosest(x) : -1) << " (" << v.str() << "))";
    else o << "(" << sx_vd(d) << " " << sx_vi(id) << " " << (k == 1 ? ball.queryClosest(x) : -1) << " (" << v.str() << "))";
  }
  o << ")";
  delete pball; delete db;
  return o.str();
}

static std::string run(const Sx& c) {
  long long kind = c[0].i();
  if (kind == 0) return run_moving(c);
  if (kind == 1) return run_knn(c);
  return "(-997 1)";
}
int main(int argc, char** argv) { return sx_main(argc, argv, run); }

// C12 harness: Vario::computeFromDb -> getSwVec/getHhVec/getGgVec on the same cases as the Coq model.
//   kind 0 : (0 ndim calc flag_sample (hasSel hasW hasDate nvar) samples dirs dates prime)
//            prime = 1: before a by-sample computation, set the library's static IDIRLOC to 0 (see below)
//            sample = ((x..) sel w date (z..))   w,date,z_k : dyadic or ()      sel : 0/1
//            dir    = (npas dpas toldis tolang psmin (codir..) bench cylrad idate)   bench,cylrad : dyadic or ()
//            result = ( ( psmin_impl maxdist ( (sw..) (hh..) (gg..) (gg_swapped..) ) per (ivar, jvar<=ivar) ) per direction )
//   kind 1 : (1 calc (nx..) (dx..) (x0..) nvar cells hasSel gdirs norder)   cells = ((sel (z..))..)  gdirs = ((npas (grincr..))..)
//            grid-specialised algorithm (norder > 0: generalised variogram of that order); result = one block list per direction
//   kind 3 : (3 calc (nx..) nvar cells hasSel (nxx..))                         db_vmap on a grid (no FFT)
//   kind 7 : (7 calc (nx..) nvar cells hasSel (nxx..))                         db_vmap on a grid with flag_FFT = true
//   kind 4 : (4 calc ndim nvar hasSel hasW samples (nxx..) (dxx..))            db_vmap on points (radius 0)
//            result = ( ((Nb..) (Var..)) per variable pair )
//   kind 5 : (5 ndim hasSel samples dir lagnb varnb dx0 dx1)                   db_vcloud: counts per cell (() = empty)
//   kind 6 : (6 norder (nx..) (dx..) (x0..) cells hasSel dir)                   generalised variogram along lines (DbGrid with a code, ordinary direction)
//   kind 9 : (9 (tolang..))  -> psmin as computed by the library for each angular tolerance
#include "sx.hpp"
#include "Db/Db.hpp"
#include "Db/DbGrid.hpp"
#include "Variogram/Vario.hpp"
#include "Variogram/VarioParam.hpp"
#include "Variogram/DirParam.hpp"
#include "Variogram/VMap.hpp"
#include "Variogram/VCloud.hpp"
#include "Basic/NamingConvention.hpp"
#include "Geometry/GeometryHelper.hpp"
#include "Space/ASpaceObject.hpp"
#include "Space/ASpace.hpp"
#include "Enum/ECalcVario.hpp"
#include "Enum/ESpaceType.hpp"
#include "Basic/VectorHelper.hpp"
#include "geoslib_define.h"

static ECalcVario calcOf(long long k) {
  switch (k) {
    case 0: return ECalcVario::VARIOGRAM;
    case 1: return ECalcVario::COVARIANCE;
    case 2: return ECalcVario::COVARIOGRAM;
    case 3: return ECalcVario::MADOGRAM;
    case 4: return ECalcVario::RODOGRAM;
    case 5: return ECalcVario::POISSON;
    case 9: return ECalcVario::COVARIANCE_NC;
    case 10: return ECalcVario::ORDER4;
    case 6: return ECalcVario::GENERAL1;
    case 7: return ECalcVario::GENERAL2;
    case 8: return ECalcVario::GENERAL3;
    default: throw std::runtime_error("calc code");
  }
}

static void dumpDir(std::ostringstream& o, const Vario* v, int idir, int nvar) {
  for (int ivar = 0; ivar < nvar; ivar++)
    for (int jvar = 0; jvar <= ivar; jvar++) {
      o << "(" << sx_vd(v->getSwVec(idir, ivar, jvar, false)) << " " << sx_vd(v->getHhVec(idir, ivar, jvar, false)) << " "
        << sx_vd(v->getGgVec(idir, ivar, jvar, false, false, false)) << " " << sx_vd(v->getGgVec(idir, jvar, ivar, false, false, false)) << ")";
    }
}

static std::string run(const Sx& c) {
  long long kind = c[0].i();
  std::ostringstream o;
  if (kind == 9) {
    o << "(";
    for (auto& t : c[1].l) o << sx_d(GeometryHelper::getCosineAngularTolerance(t.d())) << " ";
    o << ")";
    return o.str();
  }
  if (kind == 0) {
    int ndim = (int) c[1].i();
    ECalcVario calc = calcOf(c[2].i());
    bool flag_sample = c[3].b();
    bool hasSel = c[4][0].b(), hasW = c[4][1].b(), hasDate = c[4][2].b();
    int nvar = (int) c[4][3].i();
    const Sx& ss = c[5];
    int n = (int) ss.size();
    defineDefaultSpace(ESpaceType::RN, ndim);
    VectorString names; std::vector<std::pair<ELoc, int>> locs;
    for (int d = 0; d < ndim; d++) { names.push_back("x" + std::to_string(d + 1)); locs.push_back({ELoc::X, d}); }
    if (hasSel) { names.push_back("sel"); locs.push_back({ELoc::SEL, 0}); }
    if (hasW) { names.push_back("wgt"); locs.push_back({ELoc::W, 0}); }
    if (hasDate) { names.push_back("date"); locs.push_back({ELoc::DATE, 0}); }
    for (int k = 0; k < nvar; k++) { names.push_back("z" + std::to_string(k + 1)); locs.push_back({ELoc::Z, k}); }
    int ncol = (int) names.size();
    VectorDouble tab((size_t) n * ncol);
    for (int i = 0; i < n; i++) {
      int col = 0;
      for (int d = 0; d < ndim; d++) tab[(size_t) (col++) * n + i] = ss[i][0][d].d();
      if (hasSel) tab[(size_t) (col++) * n + i] = ss[i][1].b() ? 1. : 0.;
      if (hasW) tab[(size_t) (col++) * n + i] = ss[i][2].d(TEST);
      if (hasDate) tab[(size_t) (col++) * n + i] = ss[i][3].d(TEST);
      for (int k = 0; k < nvar; k++) tab[(size_t) (col++) * n + i] = ss[i][4][k].d(TEST);
    }
    Db* db = Db::createFromSamples(n, ELoadBy::COLUMN, tab, names, VectorString(), false);
    if (db == nullptr) return "(-997 2)";
    for (int k = 0; k < ncol; k++) db->setLocator(names[k], locs[k].first, locs[k].second);
    VectorDouble dates = c[7].vd();
    VarioParam vp(0., dates);
    VectorDouble psm, maxd;
    for (auto& d : c[6].l) {
      VectorDouble brk; if (d.size() > 9) brk = d[9].vd();
      DirParam dp((int) d[0].i(), d[1].d(), d[2].d(), d[3].d(), 0, (int) d[8].i(), d[6].d(TEST), d[7].d(TEST), 0.,
                  brk, d[5].vd(), TEST);
      vp.addDir(dp);
      psm.push_back(GeometryHelper::getCosineAngularTolerance(dp.getTolAngle()));
      maxd.push_back(dp.getMaximumDistance());
    }
    if ((flag_sample || calc == ECalcVario::COVARIOGRAM) && c.size() > 8 && c[8].b()) {
      // _calculateGeneralSolution2 never assigns the file-static IDIRLOC used by _setResult: make its value
      // deterministic (0) by running a one-direction ordinary variogram in which one pair is evaluated
      VectorDouble t2((size_t) 2 * (ndim + 1), 0.); t2[1] = 1.; t2[(size_t) 2 * ndim + 1] = 1.;
      VectorString n2; for (int d = 0; d < ndim; d++) n2.push_back("x" + std::to_string(d + 1)); n2.push_back("z1");
      Db* db2 = Db::createFromSamples(2, ELoadBy::COLUMN, t2, n2, VectorString(), false);
      for (int d = 0; d < ndim; d++) db2->setLocator(n2[d], ELoc::X, d);
      db2->setLocator("z1", ELoc::Z, 0);
      VarioParam vp2; DirParam dp2(2, 1.); vp2.addDir(dp2);
      Vario* v2 = Vario::computeFromDb(vp2, db2, ECalcVario::VARIOGRAM);
      delete v2; delete db2;
    }
    Vario* v = Vario::computeFromDb(vp, db, calc, flag_sample);
    if (v == nullptr) { delete db; return "(-996 1)"; }
    o << "(";
    for (int idir = 0; idir < (int) c[6].size(); idir++) {
      o << "(" << sx_d(psm[idir]) << " " << sx_d(maxd[idir]) << " ";
      dumpDir(o, v, idir, nvar);
      o << ")";
    }
    o << ")";
    delete v; delete db;
    return o.str();
  }
  if (kind == 1 || kind == 3 || kind == 7) {
    int off = 0;
    ECalcVario calc = calcOf(c[1].i());
    VectorInt nx = c[2].vi();
    VectorDouble dx, x0;
    if (kind == 1) { dx = c[3].vd(); x0 = c[4].vd(); off = 2; }
    int ndim = (int) nx.size();
    int nvar = (int) c[3 + off].i();
    const Sx& cells = c[4 + off];
    bool hasSel = c[5 + off].b();
    defineDefaultSpace(ESpaceType::RN, ndim);
    int n = 1; for (int d = 0; d < ndim; d++) n *= nx[d];
    if ((int) cells.size() != n) return "(-997 3)";
    VectorString names; std::vector<std::pair<ELoc, int>> locs;
    if (hasSel) { names.push_back("sel"); locs.push_back({ELoc::SEL, 0}); }
    for (int k = 0; k < nvar; k++) { names.push_back("z" + std::to_string(k + 1)); locs.push_back({ELoc::Z, k}); }
    int ncol = (int) names.size();
    VectorDouble tab((size_t) n * ncol);
    for (int i = 0; i < n; i++) {
      int col = 0;
      if (hasSel) tab[(size_t) (col++) * n + i] = cells[i][0].b() ? 1. : 0.;
      for (int k = 0; k < nvar; k++) tab[(size_t) (col++) * n + i] = cells[i][1][k].d(TEST);
    }
    DbGrid* g = DbGrid::create(nx, dx, x0, VectorDouble(), ELoadBy::COLUMN, tab, names, VectorString(), false, true);
    if (g == nullptr) return "(-997 4)";
    for (int k = 0; k < ncol; k++) g->setLocator(names[k], locs[k].first, locs[k].second);
    if (kind == 1) {
      int norder = (int) c[9].i();
      if (norder > 0) calc = calcOf(5 + norder);
      VarioParam vp;
      for (auto& gd : c[8].l) { DirParam* dp = DirParam::createFromGrid(g, (int) gd[0].i(), gd[1].vi()); vp.addDir(*dp); delete dp; }
      Vario* v = Vario::computeFromDb(vp, g, calc);
      if (v == nullptr) { delete g; return "(-996 2)"; }
      o << "(";
      for (int idir = 0; idir < (int) c[8].size(); idir++) { o << "("; dumpDir(o, v, idir, nvar); o << ")"; }
      o << ")";
      delete v; delete g;
      return o.str();
    }
    VectorInt nxx = c[6].vi();
    DbGrid* m = db_vmap(g, calc, nxx, VectorDouble(), 0, kind == 7);
    if (m == nullptr) { delete g; return "(-996 4)"; }
    int nvs2 = nvar * (nvar + 1) / 2; int nc = m->getColumnNumber();
    o << "(";
    for (int k = 0; k < nvs2; k++)
      o << "(" << sx_vd(m->getColumnByColIdx(nc - nvs2 + k, false, false)) << " " << sx_vd(m->getColumnByColIdx(nc - 2 * nvs2 + k, false, false)) << ")";
    o << ")";
    delete m; delete g;
    return o.str();
  }
  if (kind == 6) {
    int norder = (int) c[1].i();
    VectorInt nx = c[2].vi(); VectorDouble dx = c[3].vd(), x0 = c[4].vd();
    int ndim = (int) nx.size();
    const Sx& cells = c[5]; bool hasSel = c[6].b();
    defineDefaultSpace(ESpaceType::RN, ndim);
    int n = 1; for (int d = 0; d < ndim; d++) n *= nx[d];
    if ((int) cells.size() != n) return "(-997 3)";
    VectorString names; std::vector<std::pair<ELoc, int>> locs;
    if (hasSel) { names.push_back("sel"); locs.push_back({ELoc::SEL, 0}); }
    names.push_back("code"); locs.push_back({ELoc::C, 0});
    names.push_back("z1"); locs.push_back({ELoc::Z, 0});
    int ncol = (int) names.size();
    VectorDouble tab((size_t) n * ncol);
    for (int i = 0; i < n; i++) {
      int col = 0;
      if (hasSel) tab[(size_t) (col++) * n + i] = cells[i][0].b() ? 1. : 0.;
      tab[(size_t) (col++) * n + i] = 1.;
      tab[(size_t) (col++) * n + i] = cells[i][1][0].d(TEST);
    }
    DbGrid* g = DbGrid::create(nx, dx, x0, VectorDouble(), ELoadBy::COLUMN, tab, names, VectorString(), false, true);
    if (g == nullptr) return "(-997 4)";
    for (int k = 0; k < ncol; k++) g->setLocator(names[k], locs[k].first, locs[k].second);
    const Sx& d = c[7];
    DirParam dp((int) d[0].i(), d[1].d(), d[2].d(), d[3].d(), 0, 0, d[6].d(TEST), d[7].d(TEST), 0., VectorDouble(), d[5].vd(), TEST);
    VarioParam vp; vp.addDir(dp);
    Vario* v = Vario::computeFromDb(vp, g, calcOf(5 + norder));
    if (v == nullptr) { delete g; return "(-996 7)"; }
    o << "("; dumpDir(o, v, 0, 1); o << ")";
    delete v; delete g;
    return o.str();
  }
  if (kind == 4 || kind == 5) {
    int ndim, nvar; bool hasSel, hasW; const Sx* ssp;
    ECalcVario calc = ECalcVario::VARIOGRAM;
    if (kind == 4) { calc = calcOf(c[1].i()); ndim = (int) c[2].i(); nvar = (int) c[3].i(); hasSel = c[4].b(); hasW = c[5].b(); ssp = &c[6]; }
    else { ndim = (int) c[1].i(); nvar = 1; hasSel = c[2].b(); hasW = false; ssp = &c[3]; }
    const Sx& ss = *ssp;
    int n = (int) ss.size();
    defineDefaultSpace(ESpaceType::RN, ndim);
    VectorString names; std::vector<std::pair<ELoc, int>> locs;
    for (int d = 0; d < ndim; d++) { names.push_back("x" + std::to_string(d + 1)); locs.push_back({ELoc::X, d}); }
    if (hasSel) { names.push_back("sel"); locs.push_back({ELoc::SEL, 0}); }
    if (hasW) { names.push_back("wgt"); locs.push_back({ELoc::W, 0}); }
    for (int k = 0; k < nvar; k++) { names.push_back("z" + std::to_string(k + 1)); locs.push_back({ELoc::Z, k}); }
    int ncol = (int) names.size();
    VectorDouble tab((size_t) n * ncol);
    for (int i = 0; i < n; i++) {
      int col = 0;
      for (int d = 0; d < ndim; d++) tab[(size_t) (col++) * n + i] = ss[i][0][d].d();
      if (hasSel) tab[(size_t) (col++) * n + i] = ss[i][1].b() ? 1. : 0.;
      if (hasW) tab[(size_t) (col++) * n + i] = ss[i][2].d(TEST);
      for (int k = 0; k < nvar; k++) tab[(size_t) (col++) * n + i] = ss[i][4][k].d(TEST);
    }
    Db* db = Db::createFromSamples(n, ELoadBy::COLUMN, tab, names, VectorString(), false);
    if (db == nullptr) return "(-997 2)";
    for (int k = 0; k < ncol; k++) db->setLocator(names[k], locs[k].first, locs[k].second);
    if (kind == 4) {
      DbGrid* m = db_vmap(db, calc, c[7].vi(), c[8].vd(), 0, false);
      if (m == nullptr) { delete db; return "(-996 5)"; }
      int nvs2 = nvar * (nvar + 1) / 2; int nc = m->getColumnNumber();
      o << "(";
      for (int k = 0; k < nvs2; k++)
        o << "(" << sx_vd(m->getColumnByColIdx(nc - nvs2 + k, false, false)) << " " << sx_vd(m->getColumnByColIdx(nc - 2 * nvs2 + k, false, false)) << ")";
      o << ")";
      delete m; delete db;
      return o.str();
    }
    const Sx& d = c[4];
    DirParam dp((int) d[0].i(), d[1].d(), d[2].d(), d[3].d(), 0, 0, d[6].d(TEST), d[7].d(TEST), 0., VectorDouble(), d[5].vd(), TEST);
    VarioParam vp; vp.addDir(dp);
    int lagnb = (int) c[5].i(), varnb = (int) c[6].i();
    DbGrid* m = db_vcloud(db, &vp, lagnb * c[7].d(), varnb * c[8].d(), lagnb, varnb);
    if (m == nullptr) { delete db; return "(-996 6)"; }
    o << "(" << sx_vd(m->getColumnByColIdx(m->getColumnNumber() - 1, false, false)) << ")";
    delete m; delete db;
    return o.str();
  }
  return "(-997 1)";
}
int main(int argc, char** argv) { return sx_main(argc, argv, run); }

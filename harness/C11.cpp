// C11 harness: matrix classes (MatrixRectangular / MatrixSquareGeneral / MatrixSquareSymmetric / MatrixSparse with both
// back-ends), CholeskyDense, VectorNumT / VectorHelper on the same cases as the Coq model (coq/C11/Run.v).
// Every case runs in a forked child: an Eigen assertion (abort), a segmentation fault or a time-out of the library
// becomes the result (-996 signal) instead of taking the whole run down.
#include "sx.hpp"
#include <unistd.h>
#include <sys/wait.h>
#include <signal.h>
#include <cstring>
#include <omp.h>
#define private public
#define protected public
#include "Matrix/AMatrix.hpp"
#include "Matrix/AMatrixDense.hpp"
#include "Matrix/MatrixRectangular.hpp"
#include "Matrix/MatrixSquareGeneral.hpp"
#include "Matrix/MatrixSquareSymmetric.hpp"
#include "Matrix/MatrixSparse.hpp"
#include "Matrix/NF_Triplet.hpp"
#include "LinearOp/CholeskyDense.hpp"
#include "LinearOp/CholeskySparse.hpp"
#include "Basic/VectorHelper.hpp"
#include "Basic/VectorNumT.hpp"
#include "geoslib_define.h"
#undef private
#undef protected

static void set_threads(int n) {
  if (n <= 0) return;
  setMultiThread(n);            // read by AMatrixDense::_allocate / MatrixSparse::_allocate (omp_set_num_threads)
  omp_set_num_threads(n);
  Eigen::setNbThreads(n);
}
static std::string outM(const AMatrix& M) {
  std::ostringstream o; o << "(0 " << M.getNRows() << " " << M.getNCols() << " " << sx_vd(M.getValues()) << ")"; return o.str();
}
static std::string outV(const VectorDouble& v) { return "(0 " + sx_vd(v) + ")"; }
static std::string outD(double x) { return "(0 " + sx_d(x) + ")"; }
static std::string outI(long long x) { std::ostringstream o; o << "(0 " << x << ")"; return o.str(); }
static std::string outVI(const VectorInt& v) { return "(0 " + sx_vi(v) + ")"; }

static AMatrixDense* mkDense(int st, const Sx& m) {
  int nr = (int) m[0].i(), nc = (int) m[1].i();
  AMatrixDense* M;
  if (st == 0) M = new MatrixRectangular(nr, nc);
  else if (st == 1) M = new MatrixSquareGeneral(nr);
  else M = new MatrixSquareSymmetric(nr);
  size_t k = 0;
  for (int j = 0; j < nc; j++) for (int i = 0; i < nr; i++) M->setValue(i, j, m[2][k++].d());
  return M;
}
static MatrixSparse* mkSparse(int be, const Sx& s) {
  int nr = (int) s[0].i(), nc = (int) s[1].i();
  NF_Triplet T;
  for (auto& t : s[2].l) T.add((int) t[0].i(), (int) t[1].i(), t[2].d());
  if (s[3].b()) T.force(nr, nc);
  return MatrixSparse::createFromTriplet(T, nr, nc, be);
}
static VectorInt vint(const Sx& s) { VectorInt r; for (auto& x : s.l) r.push_back((int) x.i()); return r; }

static std::string run_dense(const Sx& c) {
  int st = (int) c[2].i(); bool gen = c[3].b(); long long op = c[4].i();
  AMatrixDense* M = mkDense(st, c[5]);
  const int A0 = 6;   // first argument
  switch (op) {
  case 1: return outD(M->getValue((int) c[A0].i(), (int) c[A0 + 1].i()));
  case 2: M->setValue((int) c[A0].i(), (int) c[A0 + 1].i(), c[A0 + 2].d()); return outM(*M);
  case 3: return outV(gen ? M->AMatrix::getRow((int) c[A0].i()) : M->getRow((int) c[A0].i()));
  case 4: return outV(gen ? M->AMatrix::getColumn((int) c[A0].i()) : M->getColumn((int) c[A0].i()));
  case 5: { VectorDouble t = c[A0 + 1].vd(); if (gen) M->AMatrix::setRow((int) c[A0].i(), t); else M->setRow((int) c[A0].i(), t); return outM(*M); }
  case 6: { VectorDouble t = c[A0 + 1].vd(); if (gen) M->AMatrix::setColumn((int) c[A0].i(), t); else M->setColumn((int) c[A0].i(), t); return outM(*M); }
  case 7: return outV(M->getDiagonal((int) c[A0].i()));
  case 8: { VectorDouble t = c[A0].vd(); if (gen) M->AMatrix::setDiagonal(t); else M->setDiagonal(t); return outM(*M); }
  case 9: M->transposeInPlace(); return outM(*M);
  case 10: if (gen) M->AMatrix::addScalar(c[A0].d()); else M->addScalar(c[A0].d()); return outM(*M);
  case 11: if (gen) M->AMatrix::prodScalar(c[A0].d()); else M->prodScalar(c[A0].d()); return outM(*M);
  case 12: { VectorDouble v = c[A0].vd(); if (gen) M->AMatrix::multiplyRow(v); else M->multiplyRow(v); return outM(*M); }
  case 13: { VectorDouble v = c[A0].vd(); if (gen) M->AMatrix::multiplyColumn(v); else M->multiplyColumn(v); return outM(*M); }
  case 14: { VectorDouble v = c[A0].vd(); if (gen) M->AMatrix::divideRow(v); else M->divideRow(v); return outM(*M); }
  case 15: { VectorDouble v = c[A0].vd(); if (gen) M->AMatrix::divideColumn(v); else M->divideColumn(v); return outM(*M); }
  case 16: { AMatrixDense* Y = mkDense(0, c[A0]);
             if (gen) M->AMatrix::addMatInPlace(*Y, c[A0 + 1].d(), c[A0 + 2].d()); else M->addMatInPlace(*Y, c[A0 + 1].d(), c[A0 + 2].d());
             return outM(*M); }
  case 17: { AMatrixDense* m1 = c[A0 + 1].l.empty() ? nullptr : mkDense(0, c[A0 + 1]);
             AMatrixDense* m2 = c[A0 + 3].l.empty() ? nullptr : mkDense(0, c[A0 + 3]);
             AMatrixDense* m3 = c[A0 + 5].l.empty() ? nullptr : mkDense(0, c[A0 + 5]);
             M->linearCombination(c[A0].d(), m1, c[A0 + 2].d(), m2, c[A0 + 4].d(), m3); return outM(*M); }
  case 18: { VectorDouble x = c[A0].vd(), y = c[A0 + 1].vd(); M->prodMatVecInPlace(x, y, c[A0 + 2].b()); return outV(y); }
  case 19: { VectorDouble x = c[A0].vd(), y = c[A0 + 1].vd(); M->prodVecMatInPlace(x, y, c[A0 + 2].b()); return outV(y); }
  case 20: { VectorDouble x = c[A0].vd(); return outV(M->prodMatVec(x, c[A0 + 1].b())); }
  case 21: { VectorDouble x = c[A0].vd(); return outV(M->prodVecMat(x, c[A0 + 1].b())); }
  case 22: { AMatrixDense* X = mkDense(0, c[A0]); AMatrixDense* Y = mkDense(0, c[A0 + 1]);
             if (gen) M->AMatrix::prodMatMatInPlace(X, Y, c[A0 + 2].b(), c[A0 + 3].b()); else M->prodMatMatInPlace(X, Y, c[A0 + 2].b(), c[A0 + 3].b());
             return outM(*M); }
  case 23: { AMatrixDense* A = mkDense(0, c[A0]); AMatrixDense* Mm = mkDense(0, c[A0 + 1]);
             if (gen) M->AMatrix::prodNormMatMatInPlace(A, Mm, c[A0 + 2].b()); else M->prodNormMatMatInPlace(A, Mm, c[A0 + 2].b());
             return outM(*M); }
  case 24: { AMatrixDense* A = mkDense(0, c[A0]); VectorDouble v = c[A0 + 1].vd();
             if (gen) M->AMatrix::prodNormMatVecInPlace(*A, v, c[A0 + 2].b()); else M->prodNormMatVecInPlace(*A, v, c[A0 + 2].b());
             return outM(*M); }
  case 25: { MatrixRectangular* R = MatrixRectangular::sample(M, vint(c[A0]), vint(c[A0 + 1]), c[A0 + 2].b(), c[A0 + 3].b());
             return R == nullptr ? std::string("(0)") : outM(*R); }
  case 26: { AMatrixDense* A = mkDense(0, c[A0]);
             ((MatrixRectangular*) M)->unsample(A, vint(c[A0 + 1]), vint(c[A0 + 2]), c[A0 + 3].b(), c[A0 + 4].b()); return outM(*M); }
  case 27: { AMatrixDense* X = mkDense(0, c[A0]); M->copyReduce(X, vint(c[A0 + 1]), vint(c[A0 + 2])); return outM(*M); }
  case 28: return outI(M->isSymmetric() ? 1 : 0);
  case 30: return outD(((AMatrixSquare*) M)->trace());
  case 31: return outD(((AMatrixSquare*) M)->normVec(c[A0].vd()));
  case 32: ((AMatrixSquare*) M)->prodByDiagInPlace((int) c[A0].i(), c[A0 + 1].vd()); return outM(*M);
  case 33: ((AMatrixSquare*) M)->prodDiagByVector(c[A0].vd()); return outM(*M);
  }
  return "(-997 1)";
}

static std::string run_sparse(const Sx& c) {
  int be = (int) c[2].i(); long long op = c[3].i();
  const int A0 = 5;
  if (op == 40) { AMatrixDense* D = mkDense(0, c[4]); MatrixSparse* S = createFromAnyMatrix(D, be); return outM(*S); }
  MatrixSparse* S = mkSparse(be, c[4]);
  switch (op) {
  case 0: return outM(*S);
  case 1: return outD(S->getValue((int) c[A0].i(), (int) c[A0 + 1].i()));
  case 9: S->transposeInPlace(); return outM(*S);
  case 90: { MatrixSparse* T = S->transpose(); return outM(*T); }
  case 10: S->addScalar(c[A0].d()); return outM(*S);
  case 11: S->prodScalar(c[A0].d()); return outM(*S);
  case 12: S->multiplyRow(c[A0].vd()); return outM(*S);
  case 13: S->multiplyColumn(c[A0].vd()); return outM(*S);
  case 14: S->divideRow(c[A0].vd()); return outM(*S);
  case 15: S->divideColumn(c[A0].vd()); return outM(*S);
  case 16: { MatrixSparse* Y = mkSparse(be, c[A0]); S->addMatInPlace(*Y, c[A0 + 1].d(), c[A0 + 2].d()); return outM(*S); }
  case 18: { VectorDouble x = c[A0].vd(), y = c[A0 + 1].vd(); S->prodMatVecInPlace(x, y, c[A0 + 2].b()); return outV(y); }
  case 19: { VectorDouble x = c[A0].vd(), y = c[A0 + 1].vd(); S->prodVecMatInPlace(x, y, c[A0 + 2].b()); return outV(y); }
  case 20: { VectorDouble x = c[A0].vd(); return outV(S->prodMatVec(x, c[A0 + 1].b())); }
  case 21: { VectorDouble x = c[A0].vd(); return outV(S->prodVecMat(x, c[A0 + 1].b())); }
  case 22: { MatrixSparse* X = mkSparse(be, c[A0]); MatrixSparse* Y = mkSparse(be, c[A0 + 1]);
             S->prodMatMatInPlace(X, Y, c[A0 + 2].b(), c[A0 + 3].b()); return outM(*S); }
  case 23: { MatrixSparse* A = mkSparse(be, c[A0]); MatrixSparse* Mm = mkSparse(be, c[A0 + 1]);
             S->prodNormMatMatInPlace(A, Mm, c[A0 + 2].b()); return outM(*S); }
  case 24: { MatrixSparse* A = mkSparse(be, c[A0]); S->prodNormMatVecInPlace(A, c[A0 + 1].vd(), c[A0 + 2].b()); return outM(*S); }
  }
  return "(-997 1)";
}

static std::string outOV(const VectorDouble& v) { return "(0 " + sx_vd(v) + ")"; }
static std::string run_vec(const Sx& c) {
  long long op = c[1].i();
  switch (op) {
  case 1: { VectorDouble v = c[2].vd(); return outD(v.sum()); }
  case 2: { VectorDouble v = c[2].vd(); return outD(v.maximum()); }
  case 3: { VectorDouble v = c[2].vd(); return outD(v.minimum()); }
  case 4: { VectorDouble v = c[2].vd(); return outD(v.mean()); }
  case 5: { VectorDouble v = c[2].vd(); return outD(v.norm()); }
  case 6: { VectorDouble a = c[2].vd(), b = c[3].vd(); return outD(a.innerProduct(b)); }
  case 7: { long long k = c[2].i(); VectorDouble a = c[3].vd(), b = c[4].vd();
            if (k == 0) a.add(b); else if (k == 1) a.subtract(b); else if (k == 2) a.multiply(b); else a.divide(b);
            return outV(a); }
  case 8: { long long k = c[2].i(); VectorDouble v = c[3].vd(TEST);
            if (k == 0) return outD(VH::maximum(v)); if (k == 1) return outD(VH::minimum(v)); if (k == 2) return outD(VH::mean(v));
            return outD(VH::cumul(v)); }
  case 9: { VectorDouble a = c[2].vd(), b = c[3].vd(); return outD(VH::innerProduct(a, b)); }
  case 10: { long long k = c[2].i(); VectorDouble a = c[3].vd(), b = c[4].vd();
             if (k == 0) return outV(VH::add(a, b)); if (k == 1) return outV(VH::subtract(a, b));
             if (k == 2) { VH::multiplyInPlace(a, b); return outV(a); }
             VH::divideInPlace(a, b); return outV(a); }
  case 11: { VectorDouble v = c[2].vd(); return outV(VH::cumsum(v, c[3].b(), c[4].b())); }
  case 12: return outVI(VH::sequence((int) c[2].i(), (int) c[3].i(), (int) c[4].i()));
  case 13: return outV(VH::sequence(c[2].d(), c[3].d(), c[4].d(), c[5].d()));
  case 14: { VectorDouble v = c[2].vd(TEST); return outVI(VH::orderRanks(v, c[3].b(), (int) c[4].i())); }
  case 15: { VectorDouble v = c[2].vd(TEST); return outVI(VH::sortRanks(v, c[3].b(), (int) c[4].i())); }
  case 16: { VectorInt ranks = vint(c[3]); VectorDouble v = c[4].vd(TEST);
             VH::arrangeInPlace(c[2].b() ? 1 : 0, ranks, v, c[5].b(), (int) c[6].i());
             return "(0 " + sx_vi(ranks) + " " + sx_vd(v) + ")"; }
  case 19: { VectorDouble src = c[2].vd(), dest = c[3].vd(); VH::addInPlace(constvect(src.data(), src.size()), vect(dest.data(), dest.size())); return outV(dest); }
  case 17: { VectorDouble v = c[2].vd(); return outV(VH::unique(v)); }
  case 18: { VectorDouble v = c[2].vd(); return outV(VH::sort(v, c[3].b())); }
  }
  return "(-997 1)";
}

static std::string run_solve(const Sx& c) {
  long long op = c[2].i();
  if (op >= 1 && op <= 5) {
    AMatrixDense* A = mkDense(2, c[3]); int n = A->getNRows();
    CholeskyDense ch((MatrixSquareSymmetric*) A);
    VectorDouble x = c[5].vd(), y(n, 7.);     // the wrappers must overwrite vecout
    int err = 0;
    if (op == 1) err = ch.LX(x, y); else if (op == 2) err = ch.LtX(x, y); else if (op == 3) err = ch.InvLX(x, y);
    else if (op == 4) err = ch.InvLtX(x, y); else err = ch.solve(x, y);
    if (err) return "(1)";
    return outV(y);
  }
  if (op == 6 || op == 7) {
    AMatrixDense* A = mkDense(2, c[3]); CholeskyDense ch((MatrixSquareSymmetric*) A);
    return outV(op == 6 ? ch.getLowerTriangle() : ch.getUpperTriangleInverse());
  }
  if (op == 8) {
    AMatrixDense* A = mkDense(2, c[4]); CholeskyDense ch((MatrixSquareSymmetric*) A);
    AMatrixDense* R = mkDense(0, c[6]); MatrixRectangular X(3, 2); X.fill(7.);
    ch.matProductInPlace((int) c[3].i(), *(MatrixRectangular*) R, X);
    return outM(X);
  }
  if (op == 12) { MatrixSquareSymmetric* S = MatrixSquareSymmetric::createFromTLTU((int) c[3].i(), c[4].vd()); return outM(*S); }
  if (op == 13) { MatrixSquareSymmetric* S = MatrixSquareSymmetric::createFromTriangle((int) c[3].i(), (int) c[4].i(), c[5].vd()); return outM(*S); }
  if (op == 10 || op == 11) {
    AMatrixDense* T = mkDense(1, c[3]); int n = T->getNRows();
    MatrixSquareGeneral self(n);
    VectorDouble b = c[4].vd(), x(n, 0.);
    int err = (op == 10) ? self._forwardLU(*(MatrixSquareGeneral*) T, b.data(), x.data())
                         : self._backwardLU(*(MatrixSquareGeneral*) T, b.data(), x.data());
    if (err) return "(1)";
    return outV(x);
  }
  return "(-997 1)";
}

// impl-only cases: products large enough for Eigen's parallel kernels (5) and factorisations / inverses (6)
static std::string run_large(const Sx& c) {
  int st = (int) c[2].i(); bool tx = c[5].b(), ty = c[6].b();
  if (st == 0) {
    AMatrixDense* X = mkDense(0, c[3]); AMatrixDense* Y = mkDense(0, c[4]);
    int nr = tx ? X->getNCols() : X->getNRows(), nc = ty ? Y->getNRows() : Y->getNCols();
    MatrixRectangular R(nr, nc); R.prodMatMatInPlace(X, Y, tx, ty); return outM(R);
  }
  int be = st == 4 ? 1 : 0;
  AMatrixDense* Xd = mkDense(0, c[3]); AMatrixDense* Yd = mkDense(0, c[4]);
  NF_Triplet Tx = Xd->getMatrixToTriplet(), Ty = Yd->getMatrixToTriplet();
  Tx.force(Xd->getNRows(), Xd->getNCols()); Ty.force(Yd->getNRows(), Yd->getNCols());
  MatrixSparse* X = MatrixSparse::createFromTriplet(Tx, Xd->getNRows(), Xd->getNCols(), be);
  MatrixSparse* Y = MatrixSparse::createFromTriplet(Ty, Yd->getNRows(), Yd->getNCols(), be);
  int nr = tx ? X->getNCols() : X->getNRows(), nc = ty ? Y->getNRows() : Y->getNCols();
  MatrixSparse R(nr, nc, be); R.prodMatMatInPlace(X, Y, tx, ty); return outM(R);
}
static std::string run_factor(const Sx& c) {
  long long op = c[2].i(); int st = (int) c[3].i();
  if (st <= 2) {
    AMatrixDense* A = mkDense(st, c[4]); int n = A->getNRows();
    if (op == 1) { int e = A->invert(); if (e) return "(1)"; return outM(*A); }
    if (op == 2) { VectorDouble b = c[5].vd(), x(n, 0.); int e = A->solve(b, x); return "(0 " + sx_vd(x) + " " + std::to_string(e) + ")"; }
    if (op == 3) { MatrixSquareSymmetric* S = (MatrixSquareSymmetric*) A; if (S->computeEigen(c[5].b())) return "(1)";
                   return "(0 " + sx_vd(S->getEigenValues()) + " " + sx_vd(S->getEigenVectors()->getValues()) + ")"; }
    if (op == 4) { CholeskyDense ch((MatrixSquareSymmetric*) A); return "(0 " + sx_vd(ch.getLowerTriangle()) + " " + sx_d(ch.computeLogDeterminant()) + ")"; }
    if (op == 5) { CholeskyDense ch((MatrixSquareSymmetric*) A); VectorDouble b = c[5].vd(), x(n, 3.), s(n, 3.), l(n, 3.);
                   if (ch.solve(b, x) || ch.InvLtX(b, s) || ch.LX(b, l)) return "(1)";
                   return "(0 " + sx_vd(x) + " " + sx_vd(s) + " " + sx_vd(l) + ")"; }
  } else {
    int be = st == 4 ? 1 : 0;
    AMatrixDense* D = mkDense(0, c[4]); int n = D->getNRows();
    NF_Triplet T = D->getMatrixToTriplet();   // as createFromAnyMatrix does (no forced element: the last diagonal term is non-zero)
    MatrixSparse* A = MatrixSparse::createFromTriplet(T, n, n, be);
    if (op == 1) { int e = A->invert(); if (e) return "(1)"; return outM(*A); }
    if (op == 2) { VectorDouble b = c[5].vd(), x(n, 0.); int e = A->solve(b, x); return "(0 " + sx_vd(x) + " " + std::to_string(e) + ")"; }
    if (op == 5) { CholeskySparse ch(A); VectorDouble b = c[5].vd(), x(n, 3.), s(n, 3.), l(n, 3.);
                   if (ch.solve(b, x) || ch.InvLtX(b, s) || ch.LX(b, l)) return "(1)";
                   VectorDouble lt(n, 3.); ch.LtX(b, lt);
                   return "(0 " + sx_vd(x) + " " + sx_vd(s) + " " + sx_vd(l) + " " + sx_vd(lt) + " " + sx_d(ch.computeLogDeterminant()) + ")"; }
  }
  return "(-997 1)";
}


// sessions: a pool of matrices, a short sequence of in-place operations whose matrix operands are pool INDICES (so the
// same object can be passed twice, or the receiver itself as an operand); the receiver is printed after every step.
// Step results are streamed to the parent ("S|r1|r2|...|E") so that the steps before a crash are kept.
static int g_fd = -1;
static void emit(const std::string& s) { size_t off = 0; while (off < s.size()) { ssize_t w = write(g_fd, s.data() + off, s.size() - off); if (w <= 0) break; off += (size_t) w; } }
static std::string run_session(const Sx& c) {
  int fam = (int) c[2].i();            // 0 dense classes, 1 MatrixSparse(csparse), 2 MatrixSparse(Eigen)
  emit("S|");
  if (fam == 0) {
    std::vector<AMatrixDense*> P;
    for (auto& e : c[3].l) P.push_back(mkDense((int) e[0].i(), e[1]));
    for (auto& st : c[4].l) {
      long long op = st[0].i(); bool gen = st[1].b(); AMatrixDense* R = P[(size_t) st[2].i()];
      AMatrixDense* X = P[(size_t) st[3].i()]; AMatrixDense* Y = P[(size_t) st[4].i()];
      bool tx = st[5].b(), ty = st[6].b(); VectorDouble v = st[7].vd(); double c1 = st[8].d(), c2 = st[9].d();
      std::string r;
      try {
        switch (op) {
        case 22: if (gen) R->AMatrix::prodMatMatInPlace(X, Y, tx, ty); else R->prodMatMatInPlace(X, Y, tx, ty); break;
        case 220: if (gen) R->AMatrix::prodMatMatInPlace(R, Y, false, ty); else R->prodMatInPlace(Y, ty); break;
        case 23: if (gen) R->AMatrix::prodNormMatMatInPlace(X, Y, tx); else R->prodNormMatMatInPlace(X, Y, tx); break;
        case 24: if (gen) R->AMatrix::prodNormMatVecInPlace(*X, v, tx); else R->prodNormMatVecInPlace(*X, v, tx); break;
        case 16: if (gen) R->AMatrix::addMatInPlace(*X, c1, c2); else R->addMatInPlace(*X, c1, c2); break;
        case 17: R->linearCombination(c1, X, c2, Y); break;
        case 9: R->transposeInPlace(); break;
        case 10: if (gen) R->AMatrix::addScalar(c1); else R->addScalar(c1); break;
        case 11: if (gen) R->AMatrix::prodScalar(c1); else R->prodScalar(c1); break;
        case 12: if (gen) R->AMatrix::multiplyRow(v); else R->multiplyRow(v); break;
        case 13: if (gen) R->AMatrix::multiplyColumn(v); else R->multiplyColumn(v); break;
        default: emit("(-997 1)|"); continue;
        }
        r = outM(*R);
      } catch (...) { r = "(1)"; }
      emit(r + "|");
    }
  } else if (fam == 3) {
    // mixed pool: dense classes and sparse matrices, every call through the AMatrix interface
    std::vector<AMatrix*> P;
    for (auto& e : c[3].l) { int k = (int) e[0].i(); if (k <= 2) P.push_back(mkDense(k, e[1])); else P.push_back(mkSparse(k == 4 ? 1 : 0, e[1])); }
    for (auto& st : c[4].l) {
      long long op = st[0].i(); AMatrix* R = P[(size_t) st[2].i()];
      AMatrix* X = P[(size_t) st[3].i()]; AMatrix* Y = P[(size_t) st[4].i()];
      bool tx = st[5].b(), ty = st[6].b(); double c1 = st[8].d(), c2 = st[9].d();
      std::string r;
      try {
        switch (op) {
        case 22: R->prodMatMatInPlace(X, Y, tx, ty); break;
        case 220: R->prodMatInPlace(Y, ty); break;
        case 23: R->prodNormMatMatInPlace(X, Y, tx); break;
        case 16: R->addMatInPlace(*X, c1, c2); break;
        case 17: R->linearCombination(c1, X, c2, Y); break;
        default: emit("(-997 1)|"); continue;
        }
        r = outM(*R);
      } catch (...) { r = "(1)"; }
      emit(r + "|");
    }
  } else {
    int be = fam == 2 ? 1 : 0;
    std::vector<MatrixSparse*> P;
    for (auto& e : c[3].l) P.push_back(mkSparse(be, e));
    for (auto& st : c[4].l) {
      long long op = st[0].i(); MatrixSparse* R = P[(size_t) st[2].i()];
      MatrixSparse* X = P[(size_t) st[3].i()]; MatrixSparse* Y = P[(size_t) st[4].i()];
      bool tx = st[5].b(), ty = st[6].b(); VectorDouble v = st[7].vd(); double c1 = st[8].d(), c2 = st[9].d();
      std::string r;
      try {
        switch (op) {
        case 22: R->prodMatMatInPlace(X, Y, tx, ty); break;
        case 220: R->prodMatInPlace(Y, ty); break;
        case 23: R->prodNormMatMatInPlace(X, Y, tx); break;
        case 16: R->addMatInPlace(*X, c1, c2); break;
        case 9: R->transposeInPlace(); break;
        case 11: R->prodScalar(c1); break;
        case 12: R->multiplyRow(v); break;
        case 13: R->multiplyColumn(v); break;
        default: emit("(-997 1)|"); continue;
        }
        r = outM(*R);
      } catch (...) { r = "(1)"; }
      emit(r + "|");
    }
  }
  emit("E");
  return "";
}

static std::string run_case(const Sx& c) {
  long long kind = c[0].i();
  if (kind != 3) set_threads((int) c[1].i());
  try {
    if (kind == 1) return run_dense(c);
    if (kind == 2) return run_sparse(c);
    if (kind == 3) return run_vec(c);
    if (kind == 4) return run_solve(c);
    if (kind == 5) return run_large(c);
    if (kind == 6) return run_factor(c);
    if (kind == 7) return run_session(c);
  } catch (...) { return "(1)"; }
  return "(-997 0)";
}

// fork per case
static std::string run(const Sx& c) {
  int fd[2]; if (pipe(fd) != 0) return "(-995 0)";
  fflush(stdout); fflush(stderr);
  pid_t p = fork();
  if (p < 0) return "(-995 1)";
  if (p == 0) {
    close(fd[0]); alarm(60); g_fd = fd[1];
    std::string r;
    try { r = run_case(c); } catch (...) { r = "(1)"; }
    size_t off = 0; while (off < r.size()) { ssize_t w = write(fd[1], r.data() + off, r.size() - off); if (w <= 0) break; off += (size_t) w; }
    close(fd[1]); _exit(0);
  }
  close(fd[1]);
  std::string r; char buf[65536]; ssize_t k;
  while ((k = read(fd[0], buf, sizeof buf)) > 0) r.append(buf, (size_t) k);
  close(fd[0]);
  int st = 0; waitpid(p, &st, 0);
  if (r.rfind("S|", 0) == 0) {
    // streamed session: keep the completed steps, mark the step that did not complete
    std::ostringstream o; o << "(0"; size_t pos = 2; bool done = false;
    while (pos < r.size()) {
      size_t bar = r.find('|', pos);
      if (bar == std::string::npos) { done = (r.substr(pos) == "E"); break; }
      o << " " << r.substr(pos, bar - pos); pos = bar + 1;
    }
    if (!done) o << " (-996 " << (WIFSIGNALED(st) ? WTERMSIG(st) : 0) << ")";
    o << ")"; return o.str();
  }
  if (WIFSIGNALED(st)) { std::ostringstream o; o << "(-996 " << WTERMSIG(st) << ")"; return o.str(); }
  if (!WIFEXITED(st) || WEXITSTATUS(st) != 0 || r.empty()) { std::ostringstream o; o << "(-996 " << -WEXITSTATUS(st) << ")"; return o.str(); }
  return r;
}
int main(int argc, char** argv) { return sx_main(argc, argv, run); }

// C03 harness: closed forms (ACovFunc::evalCov), anisotropic structures (CovAniso::eval / eval0), sums of structures
// (Model::eval, eval0, evalIvarIpas, evalCovMatrixSymmetric) and the acceptance of structures per space dimension
// (CovFactory::getCovList, CovAniso constructor, CovAniso::isConsistent) on the same cases as the Coq model.
#include "sx.hpp"
#include <sstream>
#include "Covariances/CovAniso.hpp"
#include "Covariances/CovFactory.hpp"
#include "Covariances/CovContext.hpp"
#include "Covariances/ACovFunc.hpp"
#include "Covariances/CovCalcMode.hpp"
#include "Model/Model.hpp"
#include "Db/Db.hpp"
#include "Space/SpaceRN.hpp"
#include "Space/SpacePoint.hpp"
#include "Space/ASpaceObject.hpp"
#include "Matrix/MatrixSquareSymmetric.hpp"
#include "Basic/AException.hpp"
#include "Enum/ECov.hpp"
#include "Enum/ECalcMember.hpp"
#include "geoslib_define.h"

static std::string mat(const AMatrix& M, int nr, int nc) {
  std::ostringstream o; o << "(";
  for (int i = 0; i < nr; i++) { o << (i ? " " : "") << "("; for (int j = 0; j < nc; j++) o << (j ? " " : "") << sx_d(M.getValue(i, j, false)); o << ")"; }
  o << ")"; return o.str();
}
static std::string strSx(const std::string& s) { std::ostringstream o; o << "("; for (size_t i = 0; i < s.size(); i++) o << (i ? " " : "") << (int) (unsigned char) s[i]; o << ")"; return o.str(); }

static CovCalcMode* makeMode(const Sx& m) {
  if (m.size() == 0) return nullptr;
  bool all = m[3].size() == 0;
  VectorInt act; if (!all) act = m[3][0].vi();
  return new CovCalcMode(ECalcMember::LHS, m[0].b(), m[1].b(), (int) m[2].i(), all, act);
}

// struct = (type param path (vals) rotspec (sill rows))
static CovAniso* makeCova(const Sx& s, const CovContext& ctxt, int ndim, int nvar) {
  ECov type = ECov::fromValue((int) s[0].i());
  double param = s[1].d();
  int path = (int) s[2].i();
  VectorDouble vals = s[3].vd();
  const Sx& rs = s[4];
  VectorDouble angles; VectorDouble rotm;
  if (rs.size() == 2 && rs[0].i() == 0) angles = rs[1].vd();
  if (rs.size() == 2 && rs[0].i() == 1) rotm = rs[1].vd();
  MatrixSquareSymmetric sill(nvar);
  for (int i = 0; i < nvar; i++) for (int j = 0; j < nvar; j++) sill.setValue(i, j, s[5][i][j].d());
  CovAniso* c = nullptr;
  if (path == 6) {
    c = new CovAniso(type, vals[0], param, s[5][0][0].d(), ctxt, true);
    if (nvar > 1) c->setSill(sill);
    if (!angles.empty()) c->setAnisoAngles(angles);
  } else if (path == 7) {
    if (nvar == 1) c = CovAniso::createAnisotropic(ctxt, type, vals, s[5][0][0].d(), param, angles, true);
    else c = CovAniso::createAnisotropicMulti(ctxt, type, vals, sill, param, angles, true);
  } else {
    c = new CovAniso(type, ctxt);
    c->setParam(param);
    switch (path) {
      case 0: c->setScales(vals); break;
      case 1: c->setRanges(vals); break;
      case 2: c->setRangeIsotropic(vals[0]); break;
      case 3: c->setScale(vals[0]); break;
      case 4: c->setRotationAnglesAndRadius(angles, vals, VectorDouble()); break;
      case 5: c->setRotationAnglesAndRadius(angles, VectorDouble(), vals); break;
      default: throw std::runtime_error("path");
    }
    if (path != 4 && path != 5 && !angles.empty()) c->setAnisoAngles(angles);
    if (nvar == 1) c->setSill(s[5][0][0].d()); else c->setSill(sill);
  }
  if (c != nullptr && !rotm.empty()) c->setAnisoRotation(rotm);
  return c;
}

static std::string run(const Sx& c) {
  long long kind = c[0].i();
  std::ostringstream o;
  if (kind == 0) {
    // (0 type ndim param field (h...))
    int ndim = (int) c[2].i();
    CovContext ctxt(1, ndim);
    ACovFunc* f = nullptr;
    int ok = 1;
    try {
      f = CovFactory::createCovFunc(ECov::fromValue((int) c[1].i()), ctxt);
      if (f == nullptr) ok = 0;
      else {
        if (f->hasParam()) f->setParam(c[3].d());
        f->setField(c[4].d());
      }
    } catch (...) { ok = 0; }
    o << "(" << ok;
    if (ok) {
      o << " " << sx_d(f->evalCov(0.)) << " " << sx_d(f->getScadef()) << " " << sx_d(f->getParMax()) << " "
        << (long long) f->getMaxNDim() << " " << f->getMinOrder() << " " << f->hasRange() << " " << (f->hasParam() ? 1 : 0) << " (";
      bool first = true;
      for (auto& h : c[5].l) { o << (first ? "" : " ") << sx_d(f->evalCov(h.d())); first = false; }
      o << ")";
    }
    o << ")";
    delete f;
  } else if (kind == 1) {
    int ndim = (int) c[1].i(), nvar = (int) c[2].i();
    defineDefaultSpace(ESpaceType::RN, ndim);
    SpaceRN space(ndim);
    CovContext ctxt(nvar, &space);
    Model* model = Model::create(ctxt);
    std::vector<CovAniso*> covs;
    int ok = 1;
    try {
      for (auto& s : c[3].l) {
        if (s[2].i() == 8) {
          VectorDouble sills; for (int i = 0; i < nvar; i++) for (int j = 0; j < nvar; j++) sills.push_back(s[5][i][j].d());
          VectorDouble angles; if (s[4].size() == 2 && s[4][0].i() == 0) angles = s[4][1].vd();
          model->addCovFromParam(ECov::fromValue((int) s[0].i()), 0., 0., s[1].d(), s[3].vd(), sills, angles, true);
          covs.push_back(nullptr);
        } else {
          CovAniso* cv = makeCova(s, ctxt, ndim, nvar);
          if (cv == nullptr) { ok = 0; break; }
          model->addCov(cv);
          covs.push_back(cv);
        }
      }
      if (ok && model->getCovaNumber() != (int) c[3].size()) ok = 0;
    } catch (const std::exception& e) { ok = 0; } catch (...) { ok = 0; }
    o << "(" << ok;
    if (ok) {
      CovCalcMode* mode = makeMode(c[4]);
      // what the implementation derived for every structure
      o << " (";
      for (int is = 0; is < model->getCovaNumber(); is++) {
        const CovAniso* cv = model->getCova(is);
        o << (is ? " " : "") << "(" << sx_vd(cv->getScales()) << " " << mat(cv->getAnisoRotMat(), ndim, ndim) << " "
          << sx_d(cv->getCova()->getContext().getField()) << " " << sx_d(cv->getScadef()) << " " << sx_d(cv->getCova()->evalCov(0.)) << " "
          << mat(cv->getSill(), nvar, nvar) << " " << (cv->isConsistent(&space) ? 1 : 0) << " " << sx_vd(cv->getRanges()) << " " << sx_d(cv->getParam()) << ")";
      }
      o << ") (";
      bool first = true;
      for (auto& q : c[5].l) {
        SpacePoint p1(q[0].vd(), -1, &space), p2(q[1].vd(), -1, &space);
        int iv = (int) q[2].i(), jv = (int) q[3].i();
        double a = model->eval(p1, p2, iv, jv, mode);
        double b = model->getCova(0)->eval(p1, p2, iv, jv, mode);
        o << (first ? "" : " ") << "(" << sx_d(a) << " " << sx_d(b) << ")"; first = false;
      }
      o << ") (";
      for (int i = 0; i < nvar; i++) for (int j = 0; j < nvar; j++) o << ((i + j) ? " " : "") << sx_d(model->eval0(i, j, mode));
      o << ") ";
      int n = (int) c[6].size();
      if (n > 0) {
        VectorDouble tab((size_t) n * ndim); VectorString names, locs;
        for (int d = 0; d < ndim; d++) { names.push_back("x" + std::to_string(d + 1)); locs.push_back("x" + std::to_string(d + 1)); for (int i = 0; i < n; i++) tab[(size_t) d * n + i] = c[6][i][d].d(); }
        Db* db = Db::createFromSamples(n, ELoadBy::COLUMN, tab, names, locs, false);
        MatrixSquareSymmetric M = model->evalCovMatrixSymmetric(db, -1, VectorInt(), mode);
        if (M.getNRows() == n * nvar) o << mat(M, n * nvar, n * nvar); else o << "(-1)";
        delete db;
      } else o << "()";
      o << " (";
      first = true;
      for (auto& st : c[7].l) {
        double v = model->evalIvarIpas(st[0].d(), st[1].vd(), (int) st[2].i(), (int) st[3].i(), mode);
        o << (first ? "" : " ") << sx_d(v); first = false;
      }
      o << ")";
      delete mode;
    }
    o << ")";
    for (auto p : covs) delete p;
    delete model;
  } else if (kind == 3 || kind == 4) {
    // (3 type param scale degree (alpha...)) : ACovFunc::evalCovOnSphere ; (4 type param scale n) : evalSpectrumOnSphere
    CovContext ctxt(1, 2);
    ACovFunc* f = nullptr; int ok = 1;
    try {
      f = CovFactory::createCovFunc(ECov::fromValue((int) c[1].i()), ctxt);
      if (f == nullptr) ok = 0; else if (f->hasParam()) f->setParam(c[2].d());
      if (ok && kind == 4 && c.size() > 5 && c[5].size() > 0 && f->hasMarkovCoeffs()) f->setMarkovCoeffs(c[5].vd());
    } catch (...) { ok = 0; }
    o << "(" << ok;
    if (ok) {
      double scale = c[3].d(); int n = (int) c[4].i();
      o << " " << (f->hasCovOnSphere() ? 1 : 0) << " " << (f->hasSpectrumOnSphere() ? 1 : 0) << " ";
      if (kind == 3) {
        o << "(";
        bool first = true;
        for (auto& a : c[5].l) { double v = f->hasCovOnSphere() ? f->evalCovOnSphere(a.d(), scale, n) : TEST; o << (first ? "" : " ") << sx_d(v); first = false; }
        o << ")";
      } else {
        VectorDouble sp = f->hasSpectrumOnSphere() ? f->evalSpectrumOnSphere(n, scale) : VectorDouble();
        o << sx_vd(sp);
      }
    }
    o << ")";
    delete f;
  } else if (kind == 2) {
    // (2 ndim order (codes to construct)): acceptance of every structure in that space dimension
    int ndim = (int) c[1].i();
    defineDefaultSpace(ESpaceType::RN, ndim);
    SpaceRN space(ndim);
    CovContext ctxt(1, &space);
    VectorString names = CovFactory::getCovList(ctxt, (int) c[2].i());
    o << "((";
    for (size_t i = 0; i < names.size(); i++) o << (i ? " " : "") << strSx(names[i]);
    o << ") (";
    bool first = true;
    auto it = ECov::getIterator();
    while (it.hasNext()) {
      bool wanted = false; for (auto& w : c[3].l) if (w.i() == it.getValue()) wanted = true;
      if (*it != ECov::UNKNOWN && *it != ECov::FUNCTION && wanted) {
        int made = 0, cons = 0, finite = -1; std::string nm;
        try {
          CovAniso cv(*it, ctxt);
          made = 1; cons = cv.isConsistent(&space) ? 1 : 0; nm = cv.getCovName();
          SpacePoint p1(VectorDouble(ndim, 0.), -1, &space), p2(VectorDouble(ndim, 0.25), -1, &space);
          double v = cv.eval(p1, p2);
          finite = (std::isfinite(v) && std::fabs(v) < 1.e29) ? 1 : 0;
        } catch (...) { made = 0; }
        o << (first ? "" : " ") << "(" << it.getValue() << " " << made << " " << cons << " " << finite << " " << strSx(nm) << ")"; first = false;
      }
      it.toNext();
    }
    o << "))";
  } else o << "(-997 1)";
  return o.str();
}
int main(int argc, char** argv) { return sx_main(argc, argv, run); }

// sx.hpp — s-expression case format shared by all C++ harnesses (integers only; doubles as (mantissa exponent)).
#pragma once
#include <string>
#include <vector>
#include <cmath>
#include <cstdio>
#include <cstdlib>
#include <iostream>
#include <sstream>
#include <stdexcept>
struct Sx {
  bool atom = false; long long v = 0; std::vector<Sx> l;
  const Sx& operator[](size_t i) const { if (atom || i >= l.size()) throw std::runtime_error("sx index"); return l[i]; }
  size_t size() const { return l.size(); }
  long long i() const { if (!atom) throw std::runtime_error("sx atom expected"); return v; }
  bool b() const { return i() != 0; }
  // (m e) -> m*2^e ; () -> NA value given
  double d(double na = 1.234e30) const {
    if (atom) throw std::runtime_error("sx dyadic expected");
    if (l.empty()) return na;
    return std::ldexp((double) l.at(0).i(), (int) l.at(1).i());
  }
  std::vector<double> vd(double na = 1.234e30) const { std::vector<double> r; for (auto& x : l) r.push_back(x.d(na)); return r; }
  std::vector<int> vi() const { std::vector<int> r; for (auto& x : l) r.push_back((int) x.i()); return r; }
  std::string str() const { std::string s; for (auto& x : l) s.push_back((char) x.i()); return s; }
};
inline Sx sx_parse_at(const std::string& s, size_t& p) {
  while (p < s.size() && (s[p] == ' ' || s[p] == '\t' || s[p] == '\r')) p++;
  if (p >= s.size()) throw std::runtime_error("sx eof");
  Sx r;
  if (s[p] == '(') {
    p++;
    for (;;) {
      while (p < s.size() && (s[p] == ' ' || s[p] == '\t' || s[p] == '\r')) p++;
      if (p >= s.size()) throw std::runtime_error("sx unclosed");
      if (s[p] == ')') { p++; break; }
      r.l.push_back(sx_parse_at(s, p));
    }
  } else {
    size_t st = p;
    while (p < s.size() && s[p] != ' ' && s[p] != '(' && s[p] != ')' && s[p] != '\t' && s[p] != '\r') p++;
    r.atom = true; r.v = std::stoll(s.substr(st, p - st));
  }
  return r;
}
inline Sx sx_parse(const std::string& s) { size_t p = 0; return sx_parse_at(s, p); }
// exact printing of a double as (m e); NA / non-finite -> ()
inline std::string sx_d(double x) {
  if (!std::isfinite(x) || x > 1.0e30 && x < 1.3e30) return "()";
  if (x == 0.) return "(0 0)";
  int e; double f = std::frexp(x, &e);
  long long m = (long long) std::ldexp(f, 53); e -= 53;
  while ((m % 2) == 0 && m != 0) { m /= 2; e++; }
  std::ostringstream o; o << "(" << m << " " << e << ")"; return o.str();
}
inline std::string sx_vd(const std::vector<double>& v) { std::string s = "("; for (size_t i = 0; i < v.size(); i++) { if (i) s += " "; s += sx_d(v[i]); } return s + ")"; }
template <class T> inline std::string sx_vi(const T& v) { std::ostringstream o; o << "("; bool f = true; for (auto x : v) { if (!f) o << " "; f = false; o << (long long) x; } o << ")"; return o.str(); }
// main loop helper: calls f(case) -> string for each line of the file given as argv[1]
template <class F> int sx_main(int argc, char** argv, F f) {
  if (argc < 2) { fprintf(stderr, "usage: %s cases.sx\n", argv[0]); return 2; }
  FILE* in = fopen(argv[1], "r"); if (!in) { perror("open"); return 2; }
  // results go to the file given as argv[2] (else stdout) so library chatter cannot corrupt them
  FILE* out = argc >= 3 ? fopen(argv[2], "w") : stdout; if (!out) { perror("open out"); return 2; }
  std::string line; int c;
  for (;;) {
    line.clear();
    while ((c = fgetc(in)) != EOF && c != '\n') line.push_back((char) c);
    if (line.empty() && c == EOF) break;
    if (line.empty() || line[0] == '#') continue;
    std::string r;
    try { r = f(sx_parse(line)); }
    catch (const std::exception& e) { r = std::string("(-997 0)"); fprintf(stderr, "harness exception: %s\n", e.what()); }
    fprintf(out, "%s\n", r.c_str()); fflush(out);
    if (c == EOF) break;
  }
  return 0;
}

// C10 harness: history independence. One case per line; first atom = carrier/kind.
//   42  KrigingCalcul driven by an op list; every get is also asked to a FRESH object holding the same inputs
//   (other kinds are added below: 50 VectorT programs, 60 RNG, 70 covariance optimisation cache, 80 kriging calls)
#include "sx.hpp"
#include <map>
#include <algorithm>
#include <memory>
#include <functional>
#include <unistd.h>
#include <signal.h>
#include <sys/wait.h>
#define private public
#define protected public
#include "Estimation/KrigingCalcul.hpp"
#include "Covariances/ACov.hpp"
#include "Covariances/CovAniso.hpp"
#include "Covariances/ACovAnisoList.hpp"
#include "Neigh/ANeigh.hpp"
#undef private
#undef protected
#include "Basic/VectorNumT.hpp"
#include "Basic/Law.hpp"
#include "Matrix/MatrixSquareSymmetric.hpp"
#include "Matrix/MatrixRectangular.hpp"
#include "geoslib_define.h"

// ------------------------------------------------------------------ process isolation
// run f in a child; returns what it wrote to fd; crashed = child did not exit(0)
static std::string in_child(const std::function<void(int)>& f, bool& crashed, int seconds = 30) {
  int p[2]; if (pipe(p) != 0) { crashed = true; return ""; }
  fflush(stdout); fflush(stderr);
  pid_t pid = fork();
  if (pid == 0) {
    close(p[0]); alarm(seconds);
    try { f(p[1]); } catch (const std::exception& e) { fprintf(stderr, "child exception: %s\n", e.what()); _exit(3); } catch (...) { fprintf(stderr, "child exception\n"); _exit(3); }
    close(p[1]); fflush(stdout); _exit(0);
  }
  close(p[1]);
  std::string out; char buf[4096]; ssize_t n;
  while ((n = read(p[0], buf, sizeof buf)) > 0) out.append(buf, (size_t) n);
  close(p[0]);
  int st = 0; waitpid(pid, &st, 0);
  crashed = !(WIFEXITED(st) && WEXITSTATUS(st) == 0);
  return out;
}
static void wr(int fd, const std::string& s) { size_t o = 0; while (o < s.size()) { ssize_t n = write(fd, s.data() + o, s.size() - o); if (n <= 0) _exit(4); o += (size_t) n; } }

// ------------------------------------------------------------------ 42: KrigingCalcul
struct Pool {
  std::vector<std::unique_ptr<VectorDouble>> vd;
  std::vector<std::unique_ptr<VectorInt>> vi;
  std::vector<std::unique_ptr<MatrixSquareSymmetric>> ms;
  std::vector<std::unique_ptr<MatrixRectangular>> mr;
  std::map<const void*, int> id; int next = 1;
  const VectorDouble* vec(const Sx& flag, const Sx& v) {
    if (!flag.b()) return nullptr;
    vd.emplace_back(new VectorDouble(v.vd())); id[vd.back().get()] = next++; return vd.back().get();
  }
  const VectorInt* ivec(const Sx& flag, const Sx& v) {
    if (!flag.b()) return nullptr;
    vi.emplace_back(new VectorInt()); for (auto& x : v.l) vi.back()->push_back((int) x.i());
    id[vi.back().get()] = next++; return vi.back().get();
  }
  // matrix = (nrows ncols (row-major values))
  const MatrixSquareSymmetric* sym(const Sx& flag, const Sx& m) {
    if (!flag.b()) return nullptr;
    int n = (int) m[0].i(); ms.emplace_back(new MatrixSquareSymmetric(n));
    for (int i = 0; i < n; i++) for (int j = 0; j <= i; j++) ms.back()->setValue(i, j, m[2][(size_t) (i * n + j)].d());
    id[ms.back().get()] = next++; return ms.back().get();
  }
  const MatrixRectangular* rect(const Sx& flag, const Sx& m) {
    if (!flag.b()) return nullptr;
    int nr = (int) m[0].i(), nc = (int) m[1].i(); mr.emplace_back(new MatrixRectangular(nr, nc));
    for (int i = 0; i < nr; i++) for (int j = 0; j < nc; j++) mr.back()->setValue(i, j, m[2][(size_t) (i * nc + j)].d());
    id[mr.back().get()] = next++; return mr.back().get();
  }
  int of(const void* p) { if (!p) return -1; auto it = id.find(p); return it == id.end() ? -2 : it->second; }
};

static std::string matS(const AMatrix* m) {
  if (m == nullptr) return "(1 ())";
  std::string s = "(0 ("; s += std::to_string(m->getNRows()) + " " + std::to_string(m->getNCols());
  for (int i = 0; i < m->getNRows(); i++) for (int j = 0; j < m->getNCols(); j++) s += " " + sx_d(m->getValue(i, j));
  return s + "))";
}
static std::string vecS(const VectorDouble& v) {
  if (v.empty()) return "(1 ())";
  std::string s = "(0 ("; for (size_t i = 0; i < v.size(); i++) { if (i) s += " "; s += sx_d(v[i]); } return s + "))";
}
static std::string kc_get(KrigingCalcul& K, int g) {
  switch (g) {
    case 0: return vecS(K.getEstimation());
    case 1: return vecS(K.getStdv());
    case 2: return vecS(K.getVarianceZstar());
    case 3: return vecS(K.getPostMean());
    case 4: return matS(K.getPostCov());
    case 5: return matS(K.getLambda0());
    case 6: return matS(K.getMu());
    case 7: return matS(K.getY0());
    case 8: return matS(K.getY0p());
    case 9: return matS(K.getX0p());
    case 10: return matS(K.getSigma0p());
    case 11: return matS(K.getLambda());
    case 12: return matS(K.getStdvMat());
    case 13: return matS(K.getVarianceZstarMat());
    case 14: return matS(K.getX0());
    case 15: return matS(K.getSigma0());
  }
  return "(3 ())";
}
// state of the object: identities of the 11 pointer inputs, 7 parameters, 21 cached members (1 = present)
static std::string kc_state(KrigingCalcul& K, Pool& P) {
  std::ostringstream o;
  o << "(" << P.of(K._Sigma00) << " " << P.of(K._Sigma) << " " << P.of(K._Sigma0) << " " << P.of(K._X) << " " << P.of(K._X0) << " "
    << P.of(K._PriorCov) << " " << P.of(K._Z) << " " << P.of(K._PriorMean) << " " << P.of(K._Means) << " " << P.of(K._Zp) << " "
    << P.of(K._rankColCok) << ") ("
    << K._neq << " " << K._nbfl << " " << K._nrhs << " " << K._ncck << " " << (K._flagSK ? 1 : 0) << " " << (K._flagBayes ? 1 : 0) << " "
    << (K._flagDual ? 1 : 0) << ") ("
    << !K._Zstar.empty() << " " << !K._Beta.empty() << " " << (K._LambdaSK != nullptr) << " " << (K._LambdaUK != nullptr) << " "
    << (K._MuUK != nullptr) << " " << (K._Stdv != nullptr) << " " << (K._VarZSK != nullptr) << " " << (K._VarZUK != nullptr) << " "
    << (K._XtInvSigma != nullptr) << " " << (K._Y0 != nullptr) << " " << (K._InvSigmaSigma0 != nullptr) << " " << (K._InvSigma != nullptr) << " "
    << (K._Sigmac != nullptr) << " " << (K._InvPriorCov != nullptr) << " " << (K._Sigma00pp != nullptr) << " " << (K._Sigma00p != nullptr) << " "
    << (K._Sigma0p != nullptr) << " " << (K._X0p != nullptr) << " " << (K._Y0p != nullptr) << " " << !K._Z0p.empty() << " "
    << (K._Lambda0 != nullptr) << ")";
  return o.str();
}
static std::string kc_params(KrigingCalcul& K) {
  std::ostringstream o;
  o << "(" << K._neq << " " << K._nbfl << " " << K._nrhs << " " << K._ncck << " " << (K._flagSK ? 1 : 0) << " " << (K._flagBayes ? 1 : 0) << " "
    << (K._flagDual ? 1 : 0) << ")";
  return o.str();
}
// a fresh object given the inputs the history object holds now, asked the same question (in its own process)
static std::string kc_ids(KrigingCalcul& K, Pool& P) {
  std::ostringstream o;
  o << "(" << P.of(K._Sigma00) << " " << P.of(K._Sigma) << " " << P.of(K._Sigma0) << " " << P.of(K._X) << " " << P.of(K._X0) << " "
    << P.of(K._PriorCov) << " " << P.of(K._Z) << " " << P.of(K._PriorMean) << " " << P.of(K._Means) << " " << P.of(K._Zp) << " "
    << P.of(K._rankColCok) << ")";
  return o.str();
}
static std::string kc_fresh(KrigingCalcul& K, int g, Pool& P) {
  bool crashed = false;
  std::string r = in_child([&](int fd) {
    KrigingCalcul F(K._flagDual);
    F.setData(K._Z, K._Means);
    F.setLHS(K._Sigma, K._X);
    F.setRHS(K._Sigma0, K._X0);
    F.setVar(K._Sigma00);
    if (K._flagBayes) F.setBayes(K._PriorMean, K._PriorCov);
    if (K._ncck > 0) F.setColCokUnique(K._Zp, K._rankColCok);
    std::string s = kc_get(F, g) + " " + kc_params(F) + " " + kc_ids(F, P);
    wr(fd, s);
  }, crashed);
  if (crashed) return "(2 ()) () ()";
  return r;
}
static std::string run_kc(const Sx& c) {
  bool crashed = false;
  std::string out = in_child([&](int fd) {
    Pool P;
    KrigingCalcul K(c[1].b());
    for (auto& op : c[2].l) {
      long long k = op[0].i();
      std::ostringstream o;
      if (k == 20) {
        int g = (int) op[1].i();
        std::string f = kc_fresh(K, g, P);
        wr(fd, " (9 " + std::to_string(g) + ")");        // marker: the history object is about to be asked
        std::string h = kc_get(K, g);
        o << " (1 " << h << " " << f << " " << kc_state(K, P) << ")";
      } else {
        int rc = 0;
        // arguments are created left to right (identities are numbered in that order)
        if (k == 10) { auto a = P.vec(op[1], op[2]); auto b = P.vec(op[3], op[4]); rc = K.setData(a, b); }
        else if (k == 11) { auto a = P.sym(op[1], op[2]); auto b = P.rect(op[3], op[4]); rc = K.setLHS(a, b); }
        else if (k == 12) { auto a = P.rect(op[1], op[2]); auto b = P.rect(op[3], op[4]); rc = K.setRHS(a, b); }
        else if (k == 13) rc = K.setVar(P.sym(op[1], op[2]));
        else if (k == 14) { auto a = P.vec(op[1], op[2]); auto b = P.ivec(op[3], op[4]); rc = K.setColCokUnique(a, b); }
        else if (k == 15) { auto a = P.vec(op[1], op[2]); auto b = P.sym(op[3], op[4]); rc = K.setBayes(a, b); }
        else if (k == 30) {
          switch ((int) op[1].i()) {
            case 0: K.resetLinkedToZ(); break; case 1: K.resetLinkedToLHS(); break; case 2: K.resetLinkedToRHS(); break;
            case 3: K.resetLinkedtoVar0(); break; case 4: K.resetLinkedToBayes(); break; case 5: K.resetLinkedToColCok(); break;
            default: K.resetLinkedToXvalid(); break;
          }
        } else rc = -9;
        o << " (0 " << rc << " " << kc_state(K, P) << ")";
      }
      wr(fd, o.str());
    }
  }, crashed, 60);
  return "(" + out + (crashed ? " (2)" : "") + ")";
}

// ------------------------------------------------------------------ 51: programs over VectorDouble handles
//  (0 h1 h2) h1 = h2 | (1 h1 h2) h1.swap(h2) | (3 h1 h2) h1 = VectorDouble(h2) | (2 code h i v n) member `code` on handle h
static std::string snap(std::vector<VectorDouble>& H) {
  std::string s = "(";
  for (size_t h = 0; h < H.size(); h++) {
    const VectorDouble& c = H[h];
    s += (h ? " (" : "(");
    for (size_t i = 0; i < c.size(); i++) { if (i) s += " "; s += std::to_string((long long) c[i]); }
    s += ")";
  }
  return s + ")";
}
static std::string run_vec(const Sx& c) {
  bool crashed = false;
  std::string out = in_child([&](int fd) {
    int nh = (int) c[1].i();
    std::vector<VectorDouble> H((size_t) nh);
    for (auto& op : c[2].l) {
      long long k = op[0].i();
      if (k == 0) H[op[1].i()] = H[op[2].i()];
      else if (k == 1) H[op[1].i()].swap(H[op[2].i()]);
      else if (k == 3) { VectorDouble tmp(H[op[2].i()]); H[op[1].i()] = tmp; }
      else {
        long long code = op[1].i(); VectorDouble& v = H[op[2].i()];
        size_t i = (size_t) op[3].i(); double x = (double) op[4].i(); size_t n = (size_t) op[5].i();
        const VectorDouble& cv = v; size_t sz = cv.size();
        switch (code) {
          case 0: v.push_back(x); break;
          case 1: if (i < sz) v[i] = x; break;
          case 2: v.fill(x, n); break;
          case 3: v.resize(n, x); break;
          case 4: v.clear(); break;
          case 5: v.add(x); break;
          case 6: v.insert(i > sz ? sz : i, x); break;
          case 7: if (i < sz) v.remove(i); break;
          case 8: { std::vector<double> w(n, x); v = w; } break;
          case 9: v.reserve(n); break;
          case 10: if (i < sz) *(v.begin() + (long) i) = x; break;
          case 11: if (i < sz) v.getVector()[i] = x; break;      // non-const receiver: picks a detaching overload if there is one
          case 12: v.getVector().push_back(x); break;
          case 13: if (i < sz) v.getVectorPtr()->at(i) = x; break;
          case 14: if (i < sz) v.setAt((int) i, x); break;
          case 15: if (i < sz) v.data()[i] = x; break;
          case 16: if (i < sz) v.at(i) = x; break;
          case 17: if (sz > 0) v.front() = x; break;
          case 19: v << x; break;
          case 20: v.push_front(x); break;
          case 21: v.resize(n); break;
          case 22: { std::vector<double> w(n, x); v.assign(w.begin(), w.end()); } break;
          default: break;
        }
      }
      wr(fd, " " + snap(H));
    }
  }, crashed);
  return "(" + out + (crashed ? " (-996)" : "") + ")";
}
// 52: Rotation::rotateDirect / rotateInverse write through outv.getVector(): is a copy of outv left alone?
#include "Geometry/Rotation.hpp"
static std::string run_rot(const Sx& c) {
  bool crashed = false;
  std::string out = in_child([&](int fd) {
    Rotation rot(2); rot.setAngles({(double) c[1].i()});
    VectorDouble in = c[2].vd();
    VectorDouble a = c[3].vd();
    VectorDouble b = a;                      // copy of a
    if (c[4].b()) rot.rotateInverse(in, b); else rot.rotateDirect(in, b);
    const VectorDouble& ca = a; const VectorDouble& cb = b;
    wr(fd, sx_vd(std::vector<double>(ca.begin(), ca.end())) + " " + sx_vd(std::vector<double>(cb.begin(), cb.end())));
  }, crashed);
  return "(" + out + (crashed ? " (-996)" : "") + ")";
}

// 53: IProjMatrix::mesh2point / point2mesh write through outv.getVector() (outv.resize() detaches only when the size changes)
#include "LinearOp/ProjMatrix.hpp"
#include "Db/Db.hpp"
#include "Mesh/MeshETurbo.hpp"
static std::string run_proj(const Sx& c) {
  bool crashed = false;
  std::string out = in_child([&](int fd) {
    MeshETurbo* mesh = MeshETurbo::create({3, 3}, {1., 1.});
    VectorDouble tab = {0.5, 1.5, 0.5, 1.25, 1., 2.};
    Db* db = Db::createFromSamples(2, ELoadBy::COLUMN, tab, {"x", "y", "z"}, {"x1", "x2", "z1"}, false);
    ProjMatrix* proj = ProjMatrix::create(db, mesh);
    bool p2m = c[1].b();
    int nin = p2m ? proj->getPointNumber() : proj->getApexNumber();
    int nout = p2m ? proj->getApexNumber() : proj->getPointNumber();
    VectorDouble in; for (int i = 0; i < nin; i++) in.push_back(1. + i);
    VectorDouble a((size_t) nout, 7.);
    VectorDouble b = a;                      // copy of a, already of the right size
    if (p2m) proj->point2mesh(in, b); else proj->mesh2point(in, b);
    const VectorDouble& ca = a; const VectorDouble& cb = b;
    wr(fd, sx_vd(std::vector<double>(ca.begin(), ca.end())) + " " + sx_vd(std::vector<double>(cb.begin(), cb.end())));
  }, crashed);
  return "(" + out + (crashed ? " (-996)" : "") + ")";
}

// ------------------------------------------------------------------ 60/61: the process-wide random generator
//  ops: (0 seed) law_set_random_seed | (1) law_uniform | (2) law_gaussian | (3 a b) law_int_uniform | (4) law_exponential
static void rng_op(const Sx& op, std::string& o) {
  long long k = op[0].i();
  double v = 0.;
  if (k == 0) law_set_random_seed((int) op[1].i());
  else if (k == 1) v = law_uniform(0., 1.);
  else if (k == 2) v = law_gaussian();
  else if (k == 3) v = (double) law_int_uniform((int) op[1].i(), (int) op[2].i());
  else if (k == 4) v = law_exponential();
  o += " (" + std::to_string(law_get_random_seed()) + " " + sx_d(v) + ")";
}
static std::string run_rng(const Sx& c, bool newstyle) {
  bool crashed = false;
  std::string out = in_child([&](int fd) {
    if (newstyle) law_set_old_style(false);
    std::string o;
    for (auto& op : c[1].l) rng_op(op, o);
    wr(fd, o);
  }, crashed);
  return "(" + out + (crashed ? " (-996)" : "") + ")";
}

// 62: both styles of the generator and the seeded procedures of the library, in one process
//  ops: (0 seed) law_set_random_seed | (1) uniform | (2) gaussian | (3 a b) int_uniform | (4) exponential | (5 b) law_set_old_style(b)
//       (6 n seed) VH::sampleRanks(n, 0.5, 0, seed) | (7 n seed) seed + law_random_path(n) | (8 n seed) Db::createFillRandom(n,..,seed)
//       (9 n seed) Db::addColumnsRandom(1, .., seed) on a Db of n samples
//  per op: the values it produced (never the state: the property is about results)
#include "Basic/VectorHelper.hpp"
static std::string run_rng2(const Sx& c) {
  bool crashed = false;
  std::string out = in_child([&](int fd) {
    std::string o;
    for (auto& op : c[1].l) {
      long long k = op[0].i();
      std::vector<double> v;
      if (k == 0) law_set_random_seed((int) op[1].i());
      else if (k == 1) v.push_back(law_uniform(0., 1.));
      else if (k == 2) v.push_back(law_gaussian());
      else if (k == 3) v.push_back((double) law_int_uniform((int) op[1].i(), (int) op[2].i()));
      else if (k == 4) v.push_back(law_exponential());
      else if (k == 5) law_set_old_style(op[1].b());
      else if (k == 6) { VectorInt r = VH::sampleRanks((int) op[1].i(), 0.5, 0, (int) op[2].i()); for (int x : r.getVector()) v.push_back(x); }
      else if (k == 7) { law_set_random_seed((int) op[2].i()); VectorInt r = law_random_path((int) op[1].i()); for (int x : r.getVector()) v.push_back(x); }
      else if (k == 8) { Db* d = Db::createFillRandom((int) op[1].i(), 2, 1, 0, 0, 0., 0., VectorDouble(), VectorDouble(), VectorDouble(), (int) op[2].i(), false);
                         for (int ic = 0; ic < d->getColumnNumber(); ic++) { VectorDouble col = d->getColumnByColIdx(ic, false, false); for (double x : col.getVector()) v.push_back(x); } delete d; }
      else if (k == 9) { VectorDouble tab((size_t) op[1].i(), 1.); Db* d = Db::createFromSamples((int) op[1].i(), ELoadBy::COLUMN, tab, {"x"}, {"x1"}, false);
                         d->addColumnsRandom(1, "New", ELoc::Z, 0, (int) op[2].i()); VectorDouble col = d->getColumnByColIdx(1, false, false); for (double x : col.getVector()) v.push_back(x); delete d; }
      o += " " + sx_vd(v);
    }
    wr(fd, o);
  }, crashed);
  return "(" + out + (crashed ? " (-996)" : "") + ")";
}

// ------------------------------------------------------------------ 70: covariance optimisation cache
#include "Model/Model.hpp"
#include "Db/Db.hpp"
#include "Covariances/CovAniso.hpp"
#include "Enum/ECov.hpp"
// db = ((x...) (y...) (z... with () for undefined))
static Db* mkdb(const Sx& d) {
  int n = (int) d[0].size();
  VectorDouble tab;
  for (auto& x : d[0].l) tab.push_back(x.d());
  for (auto& x : d[1].l) tab.push_back(x.d());
  for (auto& x : d[2].l) tab.push_back(x.d(TEST));
  return Db::createFromSamples(n, ELoadBy::COLUMN, tab, {"x", "y", "z"}, {"x1", "x2", "z1"}, false);
}
// model = ((type range_x range_y sill angle) ...) type 0 spherical 1 exponential 2 cubic
static Model* mkmodel(const Sx& m) {
  Model* model = nullptr;
  for (auto& cv : m.l) {
    const ECov& t = cv[0].i() == 0 ? ECov::SPHERICAL : (cv[0].i() == 1 ? ECov::EXPONENTIAL : ECov::CUBIC);
    VectorDouble ranges = {cv[1].d(), cv[2].d()}; VectorDouble angles = {cv[4].d(), 0.};
    if (model == nullptr) model = Model::createFromParam(t, 1., cv[3].d(), 1., ranges, VectorDouble(), angles);
    else model->addCovFromParam(t, 1., cv[3].d(), 1., ranges, VectorDouble(), angles);
  }
  return model;
}
static std::string cov_call(Model* model, std::vector<Db*>& dbs, const Sx& op) {
  long long k = op[0].i();
  if (k == 0) { MatrixRectangular r = model->evalCovMatrixOptim(dbs[op[1].i()], op[2].i() < 0 ? nullptr : dbs[op[2].i()]); return matS(r.empty() ? nullptr : &r); }
  if (k == 1) { MatrixSquareSymmetric r = model->evalCovMatrixSymmetricOptim(dbs[op[1].i()]); return matS(r.empty() ? nullptr : &r); }
  if (k == 2) { MatrixRectangular r = model->evalCovMatrix(dbs[op[1].i()], op[2].i() < 0 ? nullptr : dbs[op[2].i()]); return matS(r.empty() ? nullptr : &r); }
  return "(3 ())";
}
static std::string run_cov(const Sx& c) {
  bool crashed = false;
  std::string out = in_child([&](int fd) {
    std::vector<Db*> dbs; for (auto& d : c[2].l) dbs.push_back(mkdb(d));
    Model* model = mkmodel(c[1]);
    for (auto& op : c[3].l) {
      bool fc = false;
      std::string f = in_child([&](int fd2) { Model* fm = mkmodel(c[1]); wr(fd2, cov_call(fm, dbs, op)); }, fc);
      if (fc) f = "(2 ())";
      std::string h = cov_call(model, dbs, op);
      wr(fd, " (" + h + " " + f + ")");
    }
  }, crashed);
  return "(" + out + (crashed ? " (-996)" : "") + ")";
}

// ------------------------------------------------------------------ 80: a kriging call after a prefix of other calls
#include "Estimation/CalcKriging.hpp"
#include "Neigh/NeighMoving.hpp"
#include "Neigh/NeighUnique.hpp"
#include "Db/DbGrid.hpp"
//  (80 model dbs neighs calls observed)  call = (kind ...):
//    (0 dbin dbout neigh)  kriging          (1 db1 db2) evalCovMatrixOptim   (2 seed n) random draws
//    (3 dbin dbout neigh)  kriging with a model of another dimension (fails)  (4 dbin dbout neigh) xvalid
//  the observed call is run last; output = its result columns
#include "Estimation/CalcKriging.hpp"
static std::string krig_call(const Sx& cl, Model* model, std::vector<Db*>& dbs, std::vector<ANeigh*>& ngs, bool observe) {
  long long k = cl[0].i();
  std::ostringstream o;
  if (k == 0 || k == 3 || k == 4) {
    Db* in = dbs[cl[1].i()]; Db* outd = dbs[cl[2].i()]; ANeigh* ng = ngs[cl[3].i()];
    int ncol0 = outd->getColumnNumber();
    int rc;
    if (k == 3) { Model* bad = Model::createFromParam(ECov::SPHERICAL, 1., 1., 1., VectorDouble(), {1., 0., 0., 1.}); rc = kriging(in, outd, bad, ng); delete bad; }
    else if (k == 4) rc = xvalid(in, model, ng);
    else rc = kriging(in, outd, model, ng);
    o << "(" << rc;
    Db* res = (k == 4) ? in : outd;
    int nc = res->getColumnNumber();
    if (observe) for (int ic = (k == 4 ? 3 : ncol0); ic < nc; ic++) { VectorDouble v = res->getColumnByColIdx(ic, false, false); o << " " << sx_vd(std::vector<double>(v.begin(), v.end())); }
    o << ")";
    // remove what the call added so that the next call sees the same Db
    while (res->getColumnNumber() > (k == 4 ? 3 : ncol0)) res->deleteColumnByColIdx(res->getColumnNumber() - 1);
    // the results took the Z locator (NamingConvention): give it back to the variable so that the Db is the argument it was
    if (k == 4) res->setLocator("z", ELoc::Z, 0);
  } else if (k == 1) {
    MatrixRectangular r = model->evalCovMatrixOptim(dbs[cl[1].i()], dbs[cl[2].i()]);
    o << "(" << r.getNRows() << ")";
  } else if (k == 2) {
    law_set_random_seed((int) cl[1].i()); double s = 0.; for (int i = 0; i < (int) cl[2].i(); i++) s += law_uniform(0., 1.);
    o << "(" << (s > 0.) << ")";
  }
  return o.str();
}
static std::string run_krig(const Sx& c) {
  auto body = [&](int fd, bool with_prefix) {
    Model* model = mkmodel(c[1]);
    std::vector<Db*> dbs; for (auto& d : c[2].l) dbs.push_back(mkdb(d));
    std::vector<ANeigh*> ngs;
    for (auto& n : c[3].l) {
      if (n[0].i() == 0) ngs.push_back(NeighUnique::create());
      else ngs.push_back(NeighMoving::create(false, (int) n[1].i(), n[2].d(), 1, 1));
    }
    if (with_prefix) for (auto& cl : c[4].l) (void) krig_call(cl, model, dbs, ngs, false);
    wr(fd, krig_call(c[5], model, dbs, ngs, true));
  };
  bool c1 = false, c2 = false;
  std::string a = in_child([&](int fd) { body(fd, true); }, c1, 60);
  std::string b = in_child([&](int fd) { body(fd, false); }, c2, 60);
  return "(" + (c1 ? std::string("(-996)") : a) + " " + (c2 ? std::string("(-996)") : b) + ")";
}

// ------------------------------------------------------------------ 81: neighbourhood memo of ANeigh::select
//  (81 dbin dbout (nmaxi radius) (targets...)) -> per call (sorted ranks, isUnchanged), then per distinct target the ranks of a fresh object
static std::string sorted_ranks(VectorInt r) { std::vector<int> v(r.getVector().begin(), r.getVector().end()); std::sort(v.begin(), v.end()); return sx_vi(v); }
static std::string run_memo(const Sx& c) {
  bool crashed = false;
  std::string out = in_child([&](int fd) {
    Db* dbin = mkdb(c[1]); Db* dbout = mkdb(c[2]);
    NeighMoving* ng = NeighMoving::create(false, (int) c[3][0].i(), c[3][1].d(), 1, 1);
    ng->attach(dbin, dbout);
    std::string a = "(";
    for (auto& t : c[4].l) { VectorInt r; ng->select((int) t.i(), r); a += "(" + sorted_ranks(r) + " " + (ng->isUnchanged() ? "1" : "0") + ")"; }
    a += ") (";
    for (int t = 0; t < dbout->getSampleNumber(); t++) {
      NeighMoving* f = NeighMoving::create(false, (int) c[3][0].i(), c[3][1].d(), 1, 1);
      f->attach(dbin, dbout); VectorInt r; f->select(t, r);
      a += "(" + std::to_string(t) + " " + sorted_ranks(r) + ")"; delete f;
    }
    wr(fd, a + ")");
  }, crashed);
  return "(" + out + (crashed ? " (-996)" : "") + ")";
}

// ------------------------------------------------------------------ 83: histories on a neighbourhood object
//  (83 cls (nmaxi radius nmini nsect | width) dbin dbout same ops)  cls 0 NeighMoving 1 NeighUnique 2 NeighBench
//  ops: (0) attach  (1 t) select  (2 b) setFlagXvalid  (5 b leaf) setBallSearch  (6) setIsChanged  (7) reset
//       (9 n) setNMaxi  (10 n) setNMini
//  every select is also asked to a FRESH object of the same class brought to the same inputs (setters first, attach last)
#include "Neigh/NeighBench.hpp"
struct NgIn { bool attached = false; bool xvalid = false; bool ball = false; int leaf = 10; int nmaxi = 0, nmini = 1; VectorInt colcok; };
static ANeigh* mkneigh(const Sx& c) {
  long long cls = c[1].i();
  if (cls == 0) return NeighMoving::create(false, (int) c[2][0].i(), c[2][1].d(), (int) c[2][2].i(), (int) c[2][3].i());
  if (cls == 1) return NeighUnique::create(false);
  return NeighBench::create(false, c[2][0].d());
}
static std::string run_neigh(const Sx& c) {
  bool crashed = false;
  std::string out = in_child([&](int fd) {
    Db* dbin = mkdb(c[3]); Db* dbout = c[5].b() ? dbin : mkdb(c[4]);
    ANeigh* ng = mkneigh(c);
    NgIn in; if (c[1].i() == 0) { in.nmaxi = (int) c[2][0].i(); in.nmini = (int) c[2][2].i(); }
    for (auto& op : c[6].l) {
      long long k = op[0].i();
      if (k == 0) { ng->attach(dbin, dbout); in.attached = true; }
      else if (k == 2) { ng->setFlagXvalid(op[1].b()); in.xvalid = op[1].b(); }
      else if (k == 5) { ng->setBallSearch(op[1].b(), (int) op[2].i()); in.ball = op[1].b(); in.leaf = (int) op[2].i(); }
      else if (k == 6) ng->setIsChanged();
      else if (k == 7) { ng->reset(); in.xvalid = false; in.colcok = VectorInt(); }
      else if (k == 8) { VectorInt rk; for (auto& x : op[1].l) rk.push_back((int) x.i()); ng->setRankColCok(rk); in.colcok = rk; }
      else if (k == 9) { NeighMoving* m = dynamic_cast<NeighMoving*>(ng); if (m) { m->setNMaxi((int) op[1].i()); in.nmaxi = (int) op[1].i(); } }
      else if (k == 10) { NeighMoving* m = dynamic_cast<NeighMoving*>(ng); if (m) { m->setNMini((int) op[1].i()); in.nmini = (int) op[1].i(); } }
      else if (k == 1) {
        if (!in.attached) { wr(fd, " (-1)"); continue; }
        int t = (int) op[1].i();
        bool fc = false;
        std::string f = in_child([&](int fd2) {
          ANeigh* fr = mkneigh(c);
          fr->setFlagXvalid(in.xvalid); fr->setBallSearch(in.ball, in.leaf); fr->setRankColCok(in.colcok);
          NeighMoving* m = dynamic_cast<NeighMoving*>(fr); if (m) { m->setNMaxi(in.nmaxi); m->setNMini(in.nmini); }
          fr->attach(dbin, dbout);
          VectorInt r; fr->select(t, r); wr(fd2, sorted_ranks(r));
        }, fc);
        if (fc) f = "(-996)";
        VectorInt r; ng->select(t, r);
        wr(fd, " (" + sorted_ranks(r) + " " + f + " " + (ng->isUnchanged() ? "1" : "0") + ")");
        continue;
      }
      wr(fd, " (0)");
    }
  }, crashed);
  return "(" + out + (crashed ? " (-996)" : "") + ")";
}

// ------------------------------------------------------------------ 82: variogram calculations after a prefix of others
//  (82 dbs calls observed)  call = (kind db ndir npas dpas): 0 Vario::computeFromDb  1 db_vmap  2 db_vcloud
#include "Variogram/Vario.hpp"
#include "Variogram/VarioParam.hpp"
#include "Variogram/VMap.hpp"
#include "Variogram/VCloud.hpp"
static std::string vario_call(const Sx& cl, std::vector<Db*>& dbs, bool observe) {
  long long k = cl[0].i(); Db* db = dbs[cl[1].i()];
  std::ostringstream o; o << "(";
  if (k == 0) {
    VarioParam* vp = VarioParam::createMultiple((int) cl[2].i(), (int) cl[3].i(), cl[4].d());
    Vario* v = Vario::computeFromDb(*vp, db);
    if (v == nullptr) o << "-1";
    else if (observe) for (int id = 0; id < v->getDirectionNumber(); id++) {
      VectorDouble gg = v->getGgVec(id), sw = v->getSwVec(id);
      o << " " << sx_vd(std::vector<double>(gg.begin(), gg.end())) << " " << sx_vd(std::vector<double>(sw.begin(), sw.end()));
    }
    delete v; delete vp;
  } else if (k == 1) {
    DbGrid* g = db_vmap(db, ECalcVario::VARIOGRAM, {(int) cl[3].i(), (int) cl[3].i()}, VectorDouble(), 0, false);
    if (g == nullptr) o << "-1";
    else if (observe) for (int ic = 2; ic < g->getColumnNumber(); ic++) { VectorDouble v = g->getColumnByColIdx(ic, false, false); o << " " << sx_vd(std::vector<double>(v.begin(), v.end())); }
    delete g;
  } else {
    VarioParam* vp = VarioParam::createOmniDirection((int) cl[3].i(), cl[4].d());
    DbGrid* g = db_vcloud(db, vp, TEST, TEST, 6, 6);
    if (g == nullptr) o << "-1";
    else if (observe) for (int ic = 2; ic < g->getColumnNumber(); ic++) { VectorDouble v = g->getColumnByColIdx(ic, false, false); o << " " << sx_vd(std::vector<double>(v.begin(), v.end())); }
    delete g; delete vp;
  }
  o << ")";
  return o.str();
}
static std::string run_vario(const Sx& c) {
  auto body = [&](int fd, bool with_prefix) {
    std::vector<Db*> dbs; for (auto& d : c[1].l) dbs.push_back(mkdb(d));
    if (with_prefix) for (auto& cl : c[2].l) (void) vario_call(cl, dbs, false);
    wr(fd, vario_call(c[3], dbs, true));
  };
  bool c1 = false, c2 = false;
  std::string a = in_child([&](int fd) { body(fd, true); }, c1, 60);
  std::string b = in_child([&](int fd) { body(fd, false); }, c2, 60);
  return "(" + (c1 ? std::string("(-996)") : a) + " " + (c2 ? std::string("(-996)") : b) + ")";
}

// ------------------------------------------------------------------ 85: every target alone vs within the sequence of one call
//  (85 model dbin(x y z verr) targets(x y) (nmaxi radius distcont) mode)  mode 0 kriging, 1 kribayes (constant drift)
//  per-target state of KrigingSystem::estimate (_lhsinv, _zam, ... reused from one target to the next)
static Db* mkdb_v(const Sx& d) {
  int n = (int) d[0].size();
  VectorDouble tab;
  for (int k = 0; k < 4; k++) for (auto& x : d[k].l) tab.push_back(x.d(TEST));
  return Db::createFromSamples(n, ELoadBy::COLUMN, tab, {"x", "y", "z", "verr"}, {"x1", "x2", "z1", "v1"}, false);
}
static Db* mktargets(const Sx& t, int only) {
  VectorDouble tab; int n = 0;
  for (int k = 0; k < 2; k++) { n = 0; for (size_t i = 0; i < t[k].size(); i++) if (only < 0 || (int) i == only) { tab.push_back(t[k][i].d()); n++; } }
  return Db::createFromSamples(n, ELoadBy::COLUMN, tab, {"x", "y"}, {"x1", "x2"}, false);
}
static std::string krig_once(const Sx& c, int only) {
  Model* model = mkmodel(c[1]);
  Db* dbin = mkdb_v(c[2]); Db* dbout = mktargets(c[3], only);
  NeighMoving* ng = NeighMoving::create(false, (int) c[4][0].i(), c[4][1].d(), 1, 1);
  if (!c[4][2].l.empty()) ng->setDistCont(c[4][2].d());
  int rc;
  if (c[5].i() == 1) {
    model->setDriftIRF(0);
    MatrixSquareSymmetric pc(1); pc.setValue(0, 0, 2.);
    rc = kribayes(dbin, dbout, model, ng, {1.5}, pc);
  } else if (c[5].i() == 2) {        // linear drift: the prior mean of the drift depends on the target
    model->setDriftIRF(1);
    MatrixSquareSymmetric pc(3); pc.setValue(0, 0, 2.); pc.setValue(1, 1, 1.); pc.setValue(2, 2, 0.5);
    rc = kribayes(dbin, dbout, model, ng, {1.5, 0.5, -0.25}, pc);
  } else rc = kriging(dbin, dbout, model, ng);
  std::string o = "(" + std::to_string(rc);
  for (int ic = 2; ic < dbout->getColumnNumber(); ic++) { VectorDouble v = dbout->getColumnByColIdx(ic, false, false); o += " " + sx_vd(std::vector<double>(v.begin(), v.end())); }
  return o + ")";
}
static std::string run_seq(const Sx& c) {
  bool c1 = false, c2 = false;
  std::string a = in_child([&](int fd) { wr(fd, krig_once(c, -1)); }, c1, 60);
  std::string b = in_child([&](int fd) { std::string o; for (size_t i = 0; i < c[3][0].size(); i++) o += " " + krig_once(c, (int) i); wr(fd, o); }, c2, 120);
  return "(" + (c1 ? std::string("(-996)") : a) + " (" + (c2 ? std::string("(-996)") : b) + "))";
}
// ------------------------------------------------------------------ 86: mvndst called several times in one process
#include "Basic/MathFunc.hpp"
static std::string run_mvn(const Sx& c) {
  bool crashed = false;
  std::string out = in_child([&](int fd) {
    int n = (int) c[1].i(); int maxpts = (int) c[2].i(); int reps = (int) c[3].i();
    std::string o;
    for (int r = 0; r < reps; r++) {
      std::vector<double> lo((size_t) n, -1.), up((size_t) n, 1.5), cor((size_t) (n * (n - 1) / 2), c[4].d());
      std::vector<int> inf((size_t) n, 2);
      double err = 0., val = 0.; int inform = 0;
      mvndst(n, lo.data(), up.data(), inf.data(), cor.data(), maxpts, 1e-6, 0., &err, &val, &inform);
      o += " " + sx_d(val);
    }
    wr(fd, o);
  }, crashed, 120);
  return "(" + out + (crashed ? " (-996)" : "") + ")";
}

// 88: besselk (its locals are static): a list of (x alpha nb) calls; the observed call is the last one, also made first in a fresh process
static std::string run_bessel(const Sx& c) {
  auto one = [&](const Sx& q) { int nb = (int) q[2].i(); std::vector<double> bk((size_t) nb + 1, 0.); int rc = besselk(q[0].d(), q[1].d(), nb, bk.data()); return "(" + std::to_string(rc) + " " + sx_vd(bk) + ")"; };
  bool c1 = false, c2 = false;
  std::string a = in_child([&](int fd) { std::string o; for (auto& q : c[1].l) o = one(q); wr(fd, o); }, c1);
  std::string b = in_child([&](int fd) { wr(fd, one(c[1].l.back())); }, c2);
  return "(" + (c1 ? std::string("(-996)") : a) + " " + (c2 ? std::string("(-996)") : b) + ")";
}

// ------------------------------------------------------------------ dispatch
static std::string run(const Sx& c) {
  long long kind = c[0].i();
  if (kind == 42) return run_kc(c);
  if (kind == 51) return run_vec(c);
  if (kind == 52) return run_rot(c);
  if (kind == 53) return run_proj(c);
  if (kind == 60) return run_rng(c, false);
  if (kind == 61) return run_rng(c, true);
  if (kind == 62) return run_rng2(c);
  if (kind == 70) return run_cov(c);
  if (kind == 80) return run_krig(c);
  if (kind == 81) return run_memo(c);
  if (kind == 82) return run_vario(c);
  if (kind == 83) return run_neigh(c);
  if (kind == 85) return run_seq(c);
  if (kind == 86) return run_mvn(c);
  if (kind == 88) return run_bessel(c);
  return "(-997 1)";
}
int main(int argc, char** argv) { return sx_main(argc, argv, run); }

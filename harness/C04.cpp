// C04 harness: every (fast path, reference path) pair of property C04 is run on the same generated case.
//   mode 1  Model::evalCovMatrix / evalCovMatrixSymmetric  vs  evalCovMatrixOptim / evalCovMatrixSymmetricOptim
//   mode 2  kriging in NeighUnique  vs  NeighMoving wide enough to hold every sample
//   mode 3  xvalid in unique neighbourhood (_estimateCalculXvalidUnique)  vs  explicit leave-one-out kriging
//   mode 4  migrate(flag_ball)  vs  exhaustive;  NeighMoving ball search  vs  exhaustive _moving
//   mode 5  block kriging with one discretisation point  vs  point kriging
//   mode 6  collocated cokriging (rank_colcok)  vs  cokriging with the collocated datum appended to the data
//   mode 7  KrigingCalcul (primal / dual)  vs  KrigingSystem
// Case and result formats: see checks/C04.py.
#include "sx.hpp"
#include <sstream>
#include <cstring>
#include <map>
#include <set>
#include <memory>
#include <functional>
#include <algorithm>
#include <fstream>
#include <complex>
#include <array>
#include <span>
#include <unordered_map>
#include <unordered_set>
#include <limits>
#include <numeric>
#include <random>
#include <list>
#include <deque>
#include <Eigen/Dense>
#include <Eigen/Sparse>
#define private public
#define protected public
#include "Estimation/KrigingSystem.hpp"
#include "Estimation/KrigingCalcul.hpp"
#include "Covariances/ACov.hpp"
#include "Covariances/CovAniso.hpp"
#include "Covariances/ACovAnisoList.hpp"
#include "Neigh/NeighMoving.hpp"
#include "Neigh/NeighUnique.hpp"
#undef private
#undef protected
#include "Estimation/CalcKriging.hpp"
#include "Calculators/CalcMigrate.hpp"
#include "Db/Db.hpp"
#include "Model/Model.hpp"
#include "Space/ASpaceObject.hpp"
#include "Space/SpacePoint.hpp"
#include "Covariances/CovCalcMode.hpp"
#include "Drifts/DriftList.hpp"
#include "Drifts/ADrift.hpp"
#include "Drifts/DriftF.hpp"
#include "Enum/ECov.hpp"
#include "Enum/EKrigOpt.hpp"
#include "Basic/OptDbg.hpp"
#include "Basic/NamingConvention.hpp"
#include "Basic/Tensor.hpp"
#include "Matrix/MatrixRectangular.hpp"
#include "Matrix/MatrixSparse.hpp"
#include "Db/DbGrid.hpp"
#include "Matrix/MatrixSquareSymmetric.hpp"
#include "geoslib_define.h"

static const char* COVS[] = {"NUGGET", "SPHERICAL", "EXPONENTIAL", "GAUSSIAN", "CUBIC", "LINEAR"};

// d = (coords[ndim][n] z[nvar][n] verr[nvar][n]|() fext[nfex][n] sel[n]|())
static Db* makeDb(const Sx& d, int ndim, int nfex) {
  int n = (int) d[0][0].size();
  VectorDouble tab; VectorString names, locs;
  for (int i = 0; i < ndim; i++) { auto v = d[0][i].vd(TEST); tab.insert(tab.end(), v.begin(), v.end()); names.push_back("x" + std::to_string(i + 1)); locs.push_back("x" + std::to_string(i + 1)); }
  for (size_t i = 0; i < d[1].size(); i++) { auto v = d[1][i].vd(TEST); tab.insert(tab.end(), v.begin(), v.end()); names.push_back("z" + std::to_string(i + 1)); locs.push_back("z" + std::to_string(i + 1)); }
  for (size_t i = 0; i < d[2].size(); i++) { auto v = d[2][i].vd(TEST); tab.insert(tab.end(), v.begin(), v.end()); names.push_back("v" + std::to_string(i + 1)); locs.push_back("v" + std::to_string(i + 1)); }
  for (int i = 0; i < nfex; i++) { auto v = d[3][i].vd(TEST); tab.insert(tab.end(), v.begin(), v.end()); names.push_back("f" + std::to_string(i + 1)); locs.push_back("f" + std::to_string(i + 1)); }
  if (d[4].size() > 0) { for (auto& x : d[4].l) tab.push_back(x.b() ? 1. : 0.); names.push_back("sel"); locs.push_back("sel"); }
  return Db::createFromSamples(n, ELoadBy::COLUMN, tab, names, locs, false);
}

// m = (structs drift_order nfex means) ; struct = (type range ranges|() angles|() sills[nvar*nvar])
static Model* makeModel(const Sx& m, int ndim, int nvar) {
  Model* model = nullptr;
  for (auto& s : m[0].l) {
    ECov type = ECov::fromKey(COVS[s[0].i()]);
    double range = s[1].d();
    VectorDouble ranges = s[2].vd(), angles = s[3].vd(), sills = s[4].vd();
    if (model == nullptr) { CovContext ctxt(nvar, ndim); model = Model::create(ctxt); }
    model->addCovFromParam(type, range, 1., 1., ranges, sills, angles, true);
  }
  int order = (int) m[1].i(); int nfex = (int) m[2].i();
  if (order >= 0) model->setDriftIRF(order, nfex);
  VectorDouble means = m[3].vd();
  if (!means.empty()) model->setMeans(means);
  return model;
}

static std::string matStr(const AMatrix& M, int nr, int nc) {
  std::ostringstream o; o << "(";
  for (int i = 0; i < nr; i++) { o << (i ? " " : "") << "("; for (int j = 0; j < nc; j++) o << (j ? " " : "") << sx_d(M.getValue(i, j, false)); o << ")"; }
  o << ")"; return o.str();
}
static std::string matFull(const AMatrix& M) {
  std::ostringstream o; o << "(" << M.getNRows() << " " << M.getNCols() << " " << matStr(M, M.getNRows(), M.getNCols()) << ")"; return o.str();
}
static std::string driftsStr(const Model* model) {
  std::ostringstream o; o << "(";
  if (model->getDriftList() != nullptr) {
    const DriftList* dl = model->getDriftList();
    for (int il = 0; il < dl->getDriftNumber(); il++) {
      const ADrift* d = dl->getDrift(il);
      const DriftF* df = dynamic_cast<const DriftF*>(d);
      if (df != nullptr) o << "(1 " << df->getRankFex() << ")";
      else o << "(0 " << sx_vi(d->getPowers()) << ")";
    }
  }
  o << ")"; return o.str();
}
static std::string colStr(const Db* db, int icol0, int ncol) {
  std::ostringstream o; o << "(";
  for (int v = 0; v < ncol; v++) { o << (v ? " " : "") << "("; for (int i = 0; i < db->getSampleNumber(); i++) o << (i ? " " : "") << sx_d(db->getArray(i, icol0 + v)); o << ")"; }
  o << ")"; return o.str();
}

// ---------------------------------------------------------------------------------------------- mode 1
// (1 ndim nvar db1 db2|() model ivar0 jvar0 nbgh1 nbgh2)
static std::string run_covmat(const Sx& c) {
  int ndim = (int) c[1].i(), nvar = (int) c[2].i();
  defineDefaultSpace(ESpaceType::RN, ndim);
  Db* db1 = makeDb(c[3], ndim, 0);
  Db* db2 = c[4].size() > 0 ? makeDb(c[4], ndim, 0) : nullptr;
  int ivar0 = (int) c[6].i(), jvar0 = (int) c[7].i();
  VectorInt nbgh1 = c[8].vi(), nbgh2 = c[9].vi();
  std::ostringstream o; o << "(";
  // each call on a fresh Model object (cache-invalidation defects belong to C10)
  { Model* m = makeModel(c[5], ndim, nvar); MatrixRectangular A = m->evalCovMatrix(db1, db2, ivar0, jvar0, nbgh1, nbgh2, nullptr); o << matFull(A) << " "; delete m; }
  { Model* m = makeModel(c[5], ndim, nvar); MatrixRectangular A = m->evalCovMatrixOptim(db1, db2, ivar0, jvar0, nbgh1, nbgh2, nullptr); o << matFull(A) << " "; delete m; }
  { Model* m = makeModel(c[5], ndim, nvar); MatrixSquareSymmetric A = m->evalCovMatrixSymmetric(db1, ivar0, nbgh1, nullptr); o << matFull(A) << " "; delete m; }
  { Model* m = makeModel(c[5], ndim, nvar); MatrixSquareSymmetric A = m->evalCovMatrixSymmetricOptim(db1, ivar0, nbgh1, nullptr); o << matFull(A) << " "; delete m; }
  // sparse variants (threshold 0 and default threshold), densified; the C0 matrix used by the threshold
  // regimes in which the sparse routine had defects of its own (repaired in 9ab956e20) are exercised by mode 14, not here
  bool nonsquare = ((db2 == nullptr) && (ivar0 != jvar0 || nbgh1 != nbgh2)) || ivar0 > 0 || jvar0 > 0;
  for (int pass = 0; pass < 2; pass++) {
    if (nonsquare) { o << "() "; continue; }
    Model* m = makeModel(c[5], ndim, nvar);
    MatrixSparse* S = pass == 0 ? m->evalCovMatrixSparse(db1, db2, ivar0, jvar0, nbgh1, nbgh2, nullptr, 0.)
                                : m->evalCovMatrixSparse(db1, db2, ivar0, jvar0, nbgh1, nbgh2, nullptr);
    if (S == nullptr) o << "() "; else { o << matFull(*S) << " "; delete S; }
    delete m;
  }
  // point-wise covariance oracle: db1 x db2 and db1 x db1
  Model* m = makeModel(c[5], ndim, nvar);
  const Db* dd2 = db2 != nullptr ? db2 : db1;
  auto oracle = [&](const Db* a, const Db* b) {
    o << "(";
    for (int i = 0; i < a->getSampleNumber(); i++) { o << "(";
      VectorDouble x(ndim); for (int d = 0; d < ndim; d++) x[d] = a->getCoordinate(i, d); SpacePoint p1(x);
      for (int j = 0; j < b->getSampleNumber(); j++) { o << "(";
        VectorDouble y(ndim); for (int d = 0; d < ndim; d++) y[d] = b->getCoordinate(j, d); SpacePoint p2(y);
        for (int u = 0; u < nvar; u++) { o << "("; for (int v = 0; v < nvar; v++) o << (v ? " " : "") << sx_d(m->eval(p1, p2, u, v, nullptr)); o << ")"; }
        o << ")"; }
      o << ")"; }
    o << ") ";
  };
  oracle(db1, dd2); oracle(db1, db1);
  // per structure: inverse anisotropy tensor, then the pre-projected points of db1 as stored by the optimisation
  ACovAnisoList* cl = m->getCovAnisoListModify();
  o << "(";
  for (int is = 0; is < cl->getCovaNumber(); is++) {
    const MatrixSquareGeneral& T = cl->getCova(is)->getAniso().getTensorInverse();
    o << matStr(T, ndim, ndim);
  }
  o << ") (";
  cl->optimizationPreProcess(db1);
  for (int is = 0; is < cl->getCovaNumber(); is++) {
    o << "(";
    for (auto& p : cl->getCova(is)->_p1As) { o << "("; for (int d = 0; d < ndim; d++) o << (d ? " " : "") << sx_d(p.getCoord(d)); o << ")"; }
    o << ")";
  }
  cl->optimizationPostProcess();
  o << "))";
  delete m; delete db1; delete db2;
  return o.str();
}

// ---------------------------------------------------------------------------------------------- kriging helper
struct KOpt {
  EKrigOpt calcul = EKrigOpt::POINT; VectorInt ndiscs; VectorInt colcok; bool xvalid = false; bool c01dump = false;
};
// per target: (it err nbgh nred est std varz wgt var0)  [+ the record of harness/C01.cpp when c01dump]
static std::string krigeAll(Db* dbin, Db* dbout, Model* model, ANeigh* neigh, const KOpt& k, const VectorInt& targets, int nvar, int ndim) {
  std::ostringstream o;
  int iptrEst = dbout->addColumnsByConstant(nvar, TEST);
  int iptrStd = dbout->addColumnsByConstant(nvar, TEST);
  int iptrVarZ = dbout->addColumnsByConstant(nvar, TEST);
  KrigingSystem ksys(dbin, dbout, model, neigh);
  bool ok = true;
  if (ksys.updKrigOptEstim(iptrEst, iptrStd, iptrVarZ)) ok = false;
  if (ok && ksys.setKrigOptCalcul(k.calcul, k.ndiscs, false)) ok = false;
  if (ok && !k.colcok.empty() && ksys.setKrigOptColCok(k.colcok)) ok = false;
  if (ok && k.xvalid && ksys.setKrigOptXValid(true, false, false, false, false)) ok = false;
  if (ok && !ksys.isReady()) ok = false;
  o << "(" << (ok ? 1 : 0) << " (";
  if (ok) {
    CovCalcMode mLHS(ECalcMember::LHS), mRHS(ECalcMember::RHS), mVAR(ECalcMember::VAR);
    for (int it : targets) {
      int err = ksys.estimate(it);
      int nred = ksys._nred, nech = (int) ksys._nbgh.size();
      o << "(" << it << " " << err << " " << sx_vi(ksys._nbgh) << " " << nred << " ";
      auto outs = [&](int ip) { o << "("; for (int v = 0; v < nvar; v++) o << (v ? " " : "") << sx_d(dbout->getArray(it, ip + v)); o << ") "; };
      outs(iptrEst); outs(iptrStd); outs(iptrVarZ);
      bool active = dbout->isActive(it);
      bool have = active && !k.xvalid && nech > 0 && ksys._lhs != nullptr && ksys._lhs->getNRows() >= nred && ksys._rhs != nullptr && ksys._rhs->getNRows() >= nred && ksys._wgt.getNRows() >= nred;
      if (have) o << matStr(ksys._wgt, nred, nvar); else o << "()";
      o << " " << matStr(ksys._var0, nvar, nvar);
      if (k.xvalid) {   // the (compressed) left-hand side whose inverse the shortcut reads
        if (active && nech > 0 && ksys._lhs != nullptr && ksys._lhs->getNRows() >= nred) o << " " << matStr(*ksys._lhs, nred, nred); else o << " ()";
      }
      if (k.c01dump) {
        // same record as harness/C01.cpp (flag lhs rhs zam + covariance oracle on the pairs used)
        o << " ";
        bool haveS = have && ksys._zam.getNRows() >= nred;
        if (haveS) {
          VectorInt fl; for (auto f : ksys._flag) fl.push_back(f);
          o << sx_vi(fl) << " " << matStr(*ksys._lhs, nred, nred) << " " << matStr(*ksys._rhs, nred, nvar) << " " << matStr(ksys._zam, nred, 1) << " ";
        } else o << "() () () () ";
        std::vector<SpacePoint> ps;
        for (int i = 0; i < nech; i++) { VectorDouble x(ndim); for (int d = 0; d < ndim; d++) x[d] = dbin->getCoordinate(ksys._nbgh[i], d); ps.emplace_back(x); }
        VectorDouble x0(ndim); for (int d = 0; d < ndim; d++) x0[d] = dbout->getCoordinate(it, d);
        o << "(";
        for (int i = 0; i < nech; i++) { o << "("; for (int j = 0; j <= i; j++) { o << "(";
          for (int a = 0; a < nvar; a++) { o << "("; for (int b = 0; b < nvar; b++) o << (b ? " " : "") << sx_d(model->eval(ps[i], ps[j], a, b, &mLHS)); o << ")"; }
          o << ")"; } o << ")"; }
        o << ") (";
        SpacePoint pt(x0);
        for (int i = 0; i < nech; i++) { o << "((";
          for (int a = 0; a < nvar; a++) { o << "("; for (int b = 0; b < nvar; b++) o << (b ? " " : "") << sx_d(model->eval(ps[i], pt, a, b, &mRHS)); o << ")"; }
          o << "))"; }
        o << ") (";
        for (int a = 0; a < nvar; a++) { o << "("; for (int b = 0; b < nvar; b++) o << (b ? " " : "") << sx_d(model->eval(pt, pt, a, b, &mVAR)); o << ")"; }
        o << ")";
      }
      o << ")";
    }
    ksys.conclusion();
  }
  o << "))";
  return o.str();
}
// a moving neighbourhood with an ISOTROPIC search ellipsoid. Without coefficients BiTargetCheckDistance measures exactly two
// coordinates whatever the space dimension (out-of-range read in 1-D, horizontal distance in 3-D: C06's domain), so the
// coefficients (all 1) are given explicitly outside 2-D.
static NeighMoving* mkMoving(int ndim, int nmaxi, double radius, int nmini, bool flag_xvalid = false) {
  VectorDouble coeffs; if (ndim != 2) coeffs = VectorDouble(ndim, 1.);
  return NeighMoving::create(flag_xvalid, nmaxi, radius, nmini, 1, ITEST, coeffs);
}
static VectorInt allTargets(const Db* db) { VectorInt t; for (int i = 0; i < db->getSampleNumber(); i++) t.push_back(i); return t; }

// ---------------------------------------------------------------------------------------------- mode 2
// (2 ndim nvar dbin dbout model (nmini nmaxi radius))
static std::string run_unique_moving(const Sx& c) {
  int ndim = (int) c[1].i(), nvar = (int) c[2].i(); int nfex = (int) c[5][2].i();
  defineDefaultSpace(ESpaceType::RN, ndim);
  std::ostringstream o; o << "(";
  for (int pass = 0; pass < 2; pass++) {
    Db* dbin = makeDb(c[3], ndim, nfex); Db* dbout = makeDb(c[4], ndim, nfex); Model* model = makeModel(c[5], ndim, nvar);
    ANeigh* neigh = pass == 0 ? (ANeigh*) NeighUnique::create() : (ANeigh*) mkMoving(ndim, (int) c[6][1].i(), c[6][2].d(TEST), (int) c[6][0].i());
    if (pass == 0) o << driftsStr(model) << " ";
    KOpt k; k.c01dump = (pass == 0);
    o << krigeAll(dbin, dbout, model, neigh, k, allTargets(dbout), nvar, ndim) << (pass == 0 ? " " : "");
    delete dbin; delete dbout; delete model; delete neigh;
  }
  o << ")"; return o.str();
}

// ---------------------------------------------------------------------------------------------- mode 3
static Sx subsetDb(const Sx& d, const std::vector<int>& keep) {
  Sx r; r.l.resize(5);
  for (int part = 0; part < 4; part++) for (auto& col : d[part].l) { Sx cc; for (int i : keep) cc.l.push_back(col[i]); r.l[part].l.push_back(cc); }
  if (d[4].size() > 0) for (int i : keep) r.l[4].l.push_back(d[4][i]);
  return r;
}
// (3 ndim nvar db model (nmini nmaxi radius)|())   cross-validation in unique neighbourhood vs explicit leave-one-out
static std::string run_xvalid(const Sx& c) {
  int ndim = (int) c[1].i(), nvar = (int) c[2].i(); int nfex = (int) c[4][2].i();
  defineDefaultSpace(ESpaceType::RN, ndim);
  int n = (int) c[3][0][0].size();
  std::ostringstream o; o << "(";
  { // A: the shortcut
    Db* db = makeDb(c[3], ndim, nfex); Model* model = makeModel(c[4], ndim, nvar); ANeigh* neigh = NeighUnique::create();
    o << driftsStr(model) << " ";
    KOpt k; k.xvalid = true;
    o << krigeAll(db, db, model, neigh, k, allTargets(db), nvar, ndim) << " ";
    delete db; delete model; delete neigh;
  }
  { // C: standard cross-validation in a moving neighbourhood holding every sample (the _xvalid exclusion path)
    Db* db = makeDb(c[3], ndim, nfex); Model* model = makeModel(c[4], ndim, nvar); ANeigh* neigh = mkMoving(ndim, 10000, TEST, 1);
    KOpt k; k.xvalid = true;
    o << krigeAll(db, db, model, neigh, k, allTargets(db), nvar, ndim) << " ";
    delete db; delete model; delete neigh;
  }
  // B: explicit leave-one-out: data base without sample i, target = sample i
  o << "(";
  for (int i = 0; i < n; i++) {
    std::vector<int> keep; for (int j = 0; j < n; j++) if (j != i) keep.push_back(j);
    Sx din = subsetDb(c[3], keep); Sx dout = subsetDb(c[3], std::vector<int>{i}); dout.l[4].l.clear();
    Db* dbin = makeDb(din, ndim, nfex); Db* dbout = makeDb(dout, ndim, nfex); Model* model = makeModel(c[4], ndim, nvar); ANeigh* neigh = NeighUnique::create();
    KOpt k; k.c01dump = true;
    o << krigeAll(dbin, dbout, model, neigh, k, VectorInt{0}, nvar, ndim);
    delete dbin; delete dbout; delete model; delete neigh;
  }
  o << "))"; return o.str();
}

// ---------------------------------------------------------------------------------------------- mode 4
// (4 0 ndim db1 db2 dist_type dmax)  migrate with / without ball tree
// (4 1 ndim dbin dbout (nmini nmaxi radius leaf))  NeighMoving with / without ball search
static std::string run_ball(const Sx& c) {
  int ndim = (int) c[2].i();
  defineDefaultSpace(ESpaceType::RN, ndim);
  std::ostringstream o; o << "(";
  if (c[1].i() == 0) {
    for (int pass = 0; pass < 2; pass++) {
      Db* db1 = makeDb(c[3], ndim, 0); Db* db2 = makeDb(c[4], ndim, 0);
      int ncol = db2->getColumnNumber();
      int err = migrate(db1, db2, "z1", (int) c[5].i(), c[6].vd(), true, false, pass == 1, NamingConvention("Migrate", false));
      o << "(" << err << " ";
      if (!err && db2->getColumnNumber() > ncol) { o << "("; for (int i = 0; i < db2->getSampleNumber(); i++) o << (i ? " " : "") << sx_d(db2->getValueByColIdx(i, db2->getColumnNumber() - 1)); o << ")"; }
      else o << "()";
      o << ")" << (pass == 0 ? " " : "");
      delete db1; delete db2;
    }
  } else {
    for (int pass = 0; pass < 2; pass++) {
      Db* dbin = makeDb(c[3], ndim, 0); Db* dbout = makeDb(c[4], ndim, 0);
      // (nmini nmaxi radius leaf [nsect nsmax xvalid]) [coeffs angles]
      int nsect = c[5].size() > 4 ? (int) c[5][4].i() : 1; int nsmax = c[5].size() > 5 ? (int) c[5][5].i() : ITEST; bool xv = c[5].size() > 6 && c[5][6].b();
      VectorDouble coeffs, angles; if (c.size() > 6) { coeffs = c[6].vd(); angles = c[7].vd(); }
      NeighMoving* nb = NeighMoving::create(xv, (int) c[5][1].i(), c[5][2].d(TEST), (int) c[5][0].i(), nsect, nsmax, coeffs, angles);
      if (pass == 1) nb->setBallSearch(true, (int) c[5][3].i());
      o << "(";
      if (nb->attach(dbin, dbout)) o << "-1";
      else for (int it = 0; it < dbout->getSampleNumber(); it++) { VectorInt ranks; nb->select(it, ranks); o << sx_vi(ranks); }
      o << ")" << (pass == 0 ? " " : "");
      delete nb; delete dbin; delete dbout;
    }
  }
  o << ")"; return o.str();
}

// ---------------------------------------------------------------------------------------------- mode 5
// (5 ndim nvar dbin (nx dx x0) model neigh)   neigh = (0) | (1 nmini nmaxi radius)
static std::string run_block1(const Sx& c) {
  int ndim = (int) c[1].i(), nvar = (int) c[2].i();
  defineDefaultSpace(ESpaceType::RN, ndim);
  std::ostringstream o; o << "(";
  for (int pass = 0; pass < 2; pass++) {
    Db* dbin = makeDb(c[3], ndim, 0);
    DbGrid* dbout = DbGrid::create(c[4][0].vi(), c[4][1].vd(), c[4][2].vd());
    Model* model = makeModel(c[5], ndim, nvar);
    ANeigh* neigh = c[6][0].i() == 0 ? (ANeigh*) NeighUnique::create() : (ANeigh*) mkMoving(ndim, (int) c[6][2].i(), c[6][3].d(TEST), (int) c[6][1].i());
    KOpt k;
    if (pass == 1) { k.calcul = EKrigOpt::BLOCK; k.ndiscs = VectorInt(ndim, 1); }
    if (pass == 0) { o << driftsStr(model) << " ("; for (int i = 0; i < dbout->getSampleNumber(); i++) { o << "("; for (int d = 0; d < ndim; d++) o << (d ? " " : "") << sx_d(dbout->getCoordinate(i, d)); o << ")"; } o << ") "; }
    k.c01dump = (pass == 0);
    o << krigeAll(dbin, dbout, model, neigh, k, allTargets(dbout), nvar, ndim) << (pass == 0 ? " " : "");
    delete dbin; delete dbout; delete model; delete neigh;
  }
  o << ")"; return o.str();
}

// ---------------------------------------------------------------------------------------------- mode 6
// (6 ndim nvar dbin dbout model neigh colvars secvals)  colvars = ranks of the collocated variables; secvals[k][it] their values at the targets
static std::string run_colcok(const Sx& c) {
  int ndim = (int) c[1].i(), nvar = (int) c[2].i(); int nfex = (int) c[5][2].i();
  defineDefaultSpace(ESpaceType::RN, ndim);
  VectorInt colvars = c[7].vi();
  int nt = (int) c[4][0][0].size(), n = (int) c[3][0][0].size();
  auto mkneigh = [&]() { return c[6][0].i() == 0 ? (ANeigh*) NeighUnique::create() : (ANeigh*) mkMoving(ndim, (int) c[6][2].i(), c[6][3].d(TEST), (int) c[6][1].i()); };
  std::ostringstream o; o << "(";
  { // A: collocated option
    Db* dbin = makeDb(c[3], ndim, nfex); Db* dbout = makeDb(c[4], ndim, nfex); Model* model = makeModel(c[5], ndim, nvar); ANeigh* neigh = mkneigh();
    o << driftsStr(model) << " ";
    KOpt k; k.colcok = VectorInt(nvar, -1);
    for (size_t q = 0; q < colvars.size(); q++) {
      VectorDouble v = c[8][q].vd(TEST);
      int iuid = dbout->addColumns(v, "sec" + std::to_string(q + 1));
      k.colcok[colvars[q]] = iuid;
    }
    o << krigeAll(dbin, dbout, model, neigh, k, allTargets(dbout), nvar, ndim) << " ";
    delete dbin; delete dbout; delete model; delete neigh;
  }
  // B: the collocated datum appended to the data as an extra (heterotopic) sample, one run per target
  o << "(";
  for (int it = 0; it < nt; it++) {
    Sx din = c[3];
    for (int d = 0; d < ndim; d++) din.l[0].l[d].l.push_back(c[4][0][d][it]);
    for (int v = 0; v < nvar; v++) { Sx na; din.l[1].l[v].l.push_back(na); }
    for (size_t q = 0; q < colvars.size(); q++) din.l[1].l[colvars[q]].l.back() = c[8][q][it];
    for (auto& col : din.l[2].l) { Sx na; col.l.push_back(na); }
    for (int f = 0; f < nfex; f++) din.l[3].l[f].l.push_back(c[4][3][f][it]);
    if (din.l[4].size() > 0) { Sx one; one.atom = true; one.v = 1; din.l[4].l.push_back(one); }
    Db* dbin = makeDb(din, ndim, nfex); Db* dbout = makeDb(c[4], ndim, nfex); Model* model = makeModel(c[5], ndim, nvar); ANeigh* neigh = mkneigh();
    KOpt k; k.c01dump = true;
    o << krigeAll(dbin, dbout, model, neigh, k, VectorInt{it}, nvar, ndim);
    delete dbin; delete dbout; delete model; delete neigh;
  }
  o << "))"; return o.str();
}

// ---------------------------------------------------------------------------------------------- mode 7
static std::string vecStr(const VectorDouble& v) { return sx_vd(v); }
static std::string matPtr(const AMatrix* M) { if (M == nullptr) return "()"; return matFull(*M); }
// (7 ndim nvar dbin dbout model)   KrigingCalcul (primal and dual) fed by the Model API, vs KrigingSystem in unique neighbourhood
static std::string run_calcul(const Sx& c) {
  int ndim = (int) c[1].i(), nvar = (int) c[2].i(); int nfex = (int) c[5][2].i();
  defineDefaultSpace(ESpaceType::RN, ndim);
  std::ostringstream o; o << "(";
  {
    Db* dbin = makeDb(c[3], ndim, nfex); Db* dbout = makeDb(c[4], ndim, nfex); Model* model = makeModel(c[5], ndim, nvar); ANeigh* neigh = NeighUnique::create();
    o << driftsStr(model) << " ";
    KOpt k; k.c01dump = true;
    o << krigeAll(dbin, dbout, model, neigh, k, allTargets(dbout), nvar, ndim) << " ";
    delete dbin; delete dbout; delete model; delete neigh;
  }
  Db* dbin = makeDb(c[3], ndim, nfex); Db* dbout = makeDb(c[4], ndim, nfex);
  int nt = dbout->getSampleNumber();
  VectorDouble means = c[5][3].vd();
  bool sk = c[5][1].i() < 0;
  o << "(";
  for (int it = 0; it < nt; it++) {
    Model* model = makeModel(c[5], ndim, nvar);
    MatrixSquareSymmetric Sigma = model->evalCovMatrixSymmetric(dbin);
    MatrixRectangular X = model->evalDriftMatrix(dbin);
    MatrixRectangular Sigma0 = model->evalCovMatrix(dbin, dbout, -1, -1, VectorInt(), VectorInt{it});
    MatrixRectangular X0 = model->evalDriftMatrix(dbout, -1, VectorInt{it}, ECalcMember::RHS);
    MatrixRectangular S00r = model->evalCovMatrix(dbout, dbout, -1, -1, VectorInt{it}, VectorInt{it});
    MatrixSquareSymmetric Sigma00(S00r);
    VectorDouble Z = dbin->getMultipleValuesActive(VectorInt(), VectorInt(), sk ? means : VectorDouble());
    VectorDouble meansArg = sk ? means : VectorDouble(nvar, 0.);
    o << "(" << matFull(Sigma) << " " << matFull(X) << " " << matFull(Sigma0) << " " << matFull(X0) << " " << matFull(Sigma00) << " " << vecStr(Z) << " ";
    { // primal
      KrigingCalcul K(false);
      int e1 = K.setData(&Z, &meansArg), e2 = K.setLHS(&Sigma, &X), e3 = K.setRHS(&Sigma0, &X0), e4 = K.setVar(&Sigma00);
      o << "(" << (e1 || e2 || e3 || e4) << " " << vecStr(K.getEstimation()) << " " << vecStr(K.getStdv()) << " " << vecStr(K.getVarianceZstar()) << " ";
      const MatrixRectangular* L = K.getLambda();
      o << (L == nullptr ? 0 : 1) << " " << matPtr(L) << " ";
      // the member the accessor should have returned (read directly)
      if (K._flagSK) { K._needLambdaSK(); o << matPtr(K._LambdaSK); } else { K._needLambdaUK(); o << matPtr(K._LambdaUK); }
      o << " " << matPtr(K.getMu()) << ") ";
    }
    { // dual
      KrigingCalcul K(true);
      int e1 = K.setData(&Z, &meansArg), e2 = K.setLHS(&Sigma, &X), e3 = K.setRHS(&Sigma0, &X0);
      o << "(" << (e1 || e2 || e3) << " " << vecStr(K.getEstimation()) << " ";
      const MatrixRectangular* L = K.getLambda();
      o << (L == nullptr ? 0 : 1) << " " << matPtr(L) << ")";
    }
    o << ")";
    delete model;
  }
  o << "))";
  delete dbin; delete dbout;
  return o.str();
}

// ---------------------------------------------------------------------------------------------- mode 8
// KrigingCalcul: a SEQUENCE of setters / getters on one object; every answer is compared with a fresh object on which the same
// setters were replayed (no getter in between).  (8 ndim nvar dbin dbout modelA modelB ops)
struct KCPool {
  std::vector<MatrixSquareSymmetric> Sigma, Sigma00; MatrixRectangular X;
  std::vector<std::vector<MatrixRectangular>> Sigma0; std::vector<MatrixRectangular> X0;
  std::vector<VectorDouble> Z, Zp, PriorMean; VectorDouble Means; VectorInt rankCol; MatrixSquareSymmetric PriorCov;
  std::vector<VectorInt> xvEqs; VectorInt xvVars;
};
static int kcSet(KrigingCalcul& K, const KCPool& P, const Sx& op) {
  int code = (int) op[0].i(), a = (int) op[1].i(), b = (int) op[2].i();
  switch (code) {
    case 0: return K.setData(&P.Z[a], &P.Means);
    case 1: return K.setLHS(&P.Sigma[a], P.X.getNCols() > 0 ? &P.X : nullptr);
    case 2: return K.setRHS(&P.Sigma0[b][a], P.X0[a].getNCols() > 0 ? &P.X0[a] : nullptr);
    case 3: return K.setVar(&P.Sigma00[a]);
    case 4: return a ? K.setColCokUnique(&P.Zp[b], &P.rankCol) : K.setColCokUnique(nullptr, nullptr);
    case 5: return a ? K.setBayes(&P.PriorMean[b], &P.PriorCov) : K.setBayes(nullptr, nullptr);
    case 6: return (a < (int) P.xvEqs.size()) ? K.setXvalidUnique(&P.xvEqs[a], &P.xvVars) : 1;
  }
  return -1;
}
static std::string kcGet(KrigingCalcul& K, int g) {
  switch (g) {
    case 0: return sx_vd(K.getEstimation());
    case 1: return sx_vd(K.getStdv());
    case 2: return sx_vd(K.getVarianceZstar());
    case 3: return sx_vd(K.getPostMean());
    case 4: { const MatrixRectangular* M = K.getLambda(); return M ? sx_vd(M->getValues()) : "()"; }
    case 5: { const MatrixRectangular* M = K.getLambda0(); return M ? sx_vd(M->getValues()) : "()"; }
    case 6: { const MatrixRectangular* M = K.getMu(); return M ? sx_vd(M->getValues()) : "()"; }
    case 7: { const MatrixSquareSymmetric* M = K.getPostCov(); return M ? sx_vd(M->getValues()) : "()"; }
  }
  return "()";
}
static std::string run_kcseq(const Sx& c) {
  int ndim = (int) c[1].i(), nvar = (int) c[2].i(); int nfex = (int) c[5][2].i();
  defineDefaultSpace(ESpaceType::RN, ndim);
  Db* dbin = makeDb(c[3], ndim, nfex); Db* dbout = makeDb(c[4], ndim, nfex);
  int nt = dbout->getSampleNumber();
  bool sk = c[5][1].i() < 0;
  KCPool P;
  P.Means = sk ? VectorDouble(c[5][3].vd()) : VectorDouble(nvar, 0.);
  P.Sigma0.resize(2);
  for (int im = 0; im < 2; im++) {
    Model* model = makeModel(c[5 + im], ndim, nvar);
    P.Sigma.push_back(model->evalCovMatrixSymmetric(dbin));
    if (im == 0) P.X = model->evalDriftMatrix(dbin);
    for (int it = 0; it < nt; it++) {
      P.Sigma0[im].push_back(model->evalCovMatrix(dbin, dbout, -1, -1, VectorInt(), VectorInt{it}));
      if (im == 0) P.X0.push_back(model->evalDriftMatrix(dbout, -1, VectorInt{it}, ECalcMember::RHS));
    }
    MatrixRectangular S00r = model->evalCovMatrix(dbout, dbout, -1, -1, VectorInt{0}, VectorInt{0});
    P.Sigma00.push_back(MatrixSquareSymmetric(S00r));
    delete model;
  }
  VectorDouble Z0 = dbin->getMultipleValuesActive(VectorInt(), VectorInt(), sk ? P.Means : VectorDouble());
  VectorDouble Z1 = Z0; for (size_t i = 0; i < Z1.size(); i++) Z1[i] = -Z0[i] + 0.5 * (double) (i % 5);
  P.Z.push_back(Z0); P.Z.push_back(Z1);
  for (int k = 0; k < 2; k++) { VectorDouble zp(nvar); for (int v = 0; v < nvar; v++) zp[v] = 1.5 * (k + 1) - v; P.Zp.push_back(zp); }
  P.rankCol = VectorInt{nvar - 1};
  int nbfl = P.X.getNCols();
  for (int k = 0; k < 2; k++) { VectorDouble pm(nbfl); for (int l = 0; l < nbfl; l++) pm[l] = 0.5 * (k + 1) + l; P.PriorMean.push_back(pm); }
  P.PriorCov = MatrixSquareSymmetric(nbfl); for (int l = 0; l < nbfl; l++) P.PriorCov.setValue(l, l, 1. + l);
  // cross-validation of one isotopic sample: the equations of all its variables
  VectorVectorInt index = dbin->getMultipleRanksActive();
  for (int v = 0; v < nvar; v++) P.xvVars.push_back(v);
  for (int s = 0; s < dbin->getSampleNumber() && P.xvEqs.size() < 3; s++) {
    VectorInt eqs; int off = 0; bool all = true;
    for (int v = 0; v < nvar; v++) { auto itp = std::find(index[v].begin(), index[v].end(), s); if (itp == index[v].end()) { all = false; break; } eqs.push_back(off + (int) (itp - index[v].begin())); off += (int) index[v].size(); }
    if (all) P.xvEqs.push_back(eqs);
  }
  std::ostringstream o; o << "(" << P.X.getNCols() << " " << (int) P.xvEqs.size() << " (";
  {
    KrigingCalcul K(false);
    const Sx& ops = c[7];
    int lastSetter = -1, lastErr = 0;
    for (size_t k = 0; k < ops.size(); k++) {
      int code = (int) ops[k][0].i();
      if (code < 10) { lastErr = kcSet(K, P, ops[k]); lastSetter = code; continue; }
      std::string vp = kcGet(K, code - 10);
      KrigingCalcul F(false); int errF = 0;
      for (size_t j = 0; j < k; j++) if (ops[j][0].i() < 10) errF = kcSet(F, P, ops[j]);
      std::string vf = kcGet(F, code - 10);
      o << "(" << k << " " << lastSetter << " " << (code - 10) << " " << lastErr << " " << errF << " " << vp << " " << vf << ")";
    }
  }
  o << "))";
  delete dbin; delete dbout;
  return o.str();
}

// ---------------------------------------------------------------------------------------------- mode 9
// KrigingCalcul options on fresh objects against the plain computations of KrigingSystem
// (9 0 ndim nvar db model)                         setXvalidUnique  vs  kriging without the sample (explicit leave-one-out)
// (9 1 ndim nvar dbin dbout model colvars secvals) setColCokUnique  vs  collocated cokriging of KrigingSystem
// (9 2 ndim nvar dbin dbout model pmean pcovdiag)  setBayes         vs  kribayes (KrigingSystem, Bayesian drift)
static std::string run_kcopt(const Sx& c) {
  int sub = (int) c[1].i(), ndim = (int) c[2].i(), nvar = (int) c[3].i();
  defineDefaultSpace(ESpaceType::RN, ndim);
  std::ostringstream o; o << "(";
  if (sub == 0) {
    int nfex = (int) c[5][2].i(); bool sk = c[5][1].i() < 0; VectorDouble means = sk ? VectorDouble(c[5][3].vd()) : VectorDouble(nvar, 0.);
    int n = (int) c[4][0][0].size();
    Db* db = makeDb(c[4], ndim, nfex);
    VectorVectorInt index = db->getMultipleRanksActive();
    VectorInt vars; for (int v = 0; v < nvar; v++) vars.push_back(v);
    for (int s = 0; s < n; s++) {
      VectorInt eqs; int off = 0; bool all = db->isActive(s);
      for (int v = 0; v < nvar && all; v++) { auto itp = std::find(index[v].begin(), index[v].end(), s); if (itp == index[v].end()) { all = false; break; } eqs.push_back(off + (int) (itp - index[v].begin())); off += (int) index[v].size(); }
      if (!all) { o << "()"; continue; }
      Model* model = makeModel(c[5], ndim, nvar);
      MatrixSquareSymmetric Sigma = model->evalCovMatrixSymmetric(db);
      MatrixRectangular X = model->evalDriftMatrix(db);
      MatrixRectangular S00r = model->evalCovMatrix(db, db, -1, -1, VectorInt{s}, VectorInt{s});
      MatrixSquareSymmetric Sigma00(S00r);
      VectorDouble Z = db->getMultipleValuesActive(VectorInt(), VectorInt(), sk ? means : VectorDouble());
      KrigingCalcul K(false);
      int e1 = K.setData(&Z, &means), e2 = K.setLHS(&Sigma, X.getNCols() > 0 ? &X : nullptr), e3 = K.setVar(&Sigma00), e4 = K.setXvalidUnique(&eqs, &vars);
      o << "(" << s << " " << (e1 || e2 || e3 || e4) << " " << sx_vd(K.getEstimation()) << " " << sx_vd(K.getStdv()) << " ";
      // plain: the data base without the sample
      std::vector<int> keep; for (int j = 0; j < n; j++) if (j != s) keep.push_back(j);
      Sx din = subsetDb(c[4], keep); Sx dout = subsetDb(c[4], std::vector<int>{s}); dout.l[4].l.clear();
      Db* dbin = makeDb(din, ndim, nfex); Db* dbout = makeDb(dout, ndim, nfex); Model* model2 = makeModel(c[5], ndim, nvar); ANeigh* neigh = NeighUnique::create();
      KOpt k; k.c01dump = true;
      o << krigeAll(dbin, dbout, model2, neigh, k, VectorInt{0}, nvar, ndim) << ")";
      delete dbin; delete dbout; delete model2; delete neigh; delete model;
    }
    delete db;
  } else {
    int nfex = (int) c[6][2].i(); bool sk = c[6][1].i() < 0; VectorDouble means = sk ? VectorDouble(c[6][3].vd()) : VectorDouble(nvar, 0.);
    Db* dbin = makeDb(c[4], ndim, nfex); Db* dbout = makeDb(c[5], ndim, nfex);
    int nt = dbout->getSampleNumber();
    // plain: KrigingSystem with the option
    {
      Db* din = makeDb(c[4], ndim, nfex); Db* dout = makeDb(c[5], ndim, nfex); Model* model = makeModel(c[6], ndim, nvar); ANeigh* neigh = NeighUnique::create();
      int iptrEst = dout->addColumnsByConstant(nvar, TEST), iptrStd = dout->addColumnsByConstant(nvar, TEST), iptrVarZ = dout->addColumnsByConstant(nvar, TEST);
      KrigingSystem ksys(din, dout, model, neigh);
      bool ok = !ksys.updKrigOptEstim(iptrEst, iptrStd, iptrVarZ) && !ksys.setKrigOptCalcul(EKrigOpt::POINT, VectorInt(), false);
      if (ok && sub == 1) {
        VectorInt colcok(nvar, -1); VectorInt colvars = c[7].vi();
        for (size_t q = 0; q < colvars.size(); q++) { VectorDouble v = c[8][q].vd(TEST); colcok[colvars[q]] = dout->addColumns(v, "sec" + std::to_string(q + 1)); }
        ok = !ksys.setKrigOptColCok(colcok);
      }
      if (ok && sub == 2) {
        VectorDouble pm = c[7].vd(); VectorDouble pd = c[8].vd();
        MatrixSquareSymmetric pc((int) pd.size()); for (size_t l = 0; l < pd.size(); l++) pc.setValue((int) l, (int) l, pd[l]);
        ok = !ksys.setKrigOptBayes(true, pm, pc);
      }
      ok = ok && ksys.isReady();
      o << "(" << (ok ? 1 : 0) << " (";
      if (ok) {
        for (int it = 0; it < nt; it++) {
          ksys.estimate(it);
          o << "("; for (int ip : {iptrEst, iptrStd, iptrVarZ}) { o << "("; for (int v = 0; v < nvar; v++) o << (v ? " " : "") << sx_d(dout->getArray(it, ip + v)); o << ")"; }
          o << " " << (ksys._lhs != nullptr && ksys._nred > 0 && ksys._lhs->getNRows() >= ksys._nred ? matStr(*ksys._lhs, ksys._nred, ksys._nred) : std::string("()")) << ")";
        }
        ksys.conclusion();
      }
      o << ")) ";
      delete din; delete dout; delete model; delete neigh;
    }
    // fast: KrigingCalcul with the option, fresh object per target
    o << "(";
    for (int it = 0; it < nt; it++) {
      Model* model = makeModel(c[6], ndim, nvar);
      MatrixSquareSymmetric Sigma = model->evalCovMatrixSymmetric(dbin);
      MatrixRectangular X = model->evalDriftMatrix(dbin);
      MatrixRectangular Sigma0 = model->evalCovMatrix(dbin, dbout, -1, -1, VectorInt(), VectorInt{it});
      MatrixRectangular X0 = model->evalDriftMatrix(dbout, -1, VectorInt{it}, ECalcMember::RHS);
      MatrixRectangular S00r = model->evalCovMatrix(dbout, dbout, -1, -1, VectorInt{it}, VectorInt{it});
      MatrixSquareSymmetric Sigma00(S00r);
      VectorDouble Z = dbin->getMultipleValuesActive(VectorInt(), VectorInt(), sk ? means : VectorDouble());
      KrigingCalcul K(false);
      int err = K.setData(&Z, &means) || K.setLHS(&Sigma, X.getNCols() > 0 ? &X : nullptr) || K.setRHS(&Sigma0, X0.getNCols() > 0 ? &X0 : nullptr) || K.setVar(&Sigma00);
      VectorDouble Zp(nvar, 0.), pm; VectorInt colvars; MatrixSquareSymmetric pc;
      if (sub == 1) {
        colvars = c[7].vi(); bool alldef = true;
        for (size_t q = 0; q < colvars.size(); q++) { double v = c[8][q][it].d(TEST); if (FFFF(v)) alldef = false; Zp[colvars[q]] = v - means[colvars[q]]; }
        if (!alldef) { o << "()"; delete model; continue; }
        err = err || K.setColCokUnique(&Zp, &colvars);
      } else {
        pm = c[7].vd(); VectorDouble pd = c[8].vd();
        pc = MatrixSquareSymmetric((int) pd.size()); for (size_t l = 0; l < pd.size(); l++) pc.setValue((int) l, (int) l, pd[l]);
        err = err || K.setBayes(&pm, &pc);
      }
      o << "(" << err << " " << sx_vd(K.getEstimation()) << " " << sx_vd(K.getStdv()) << " " << sx_vd(K.getVarianceZstar());
      if (sub == 2) o << " " << matFull(Sigma) << " " << matFull(X) << " " << matFull(Sigma0) << " " << matFull(X0) << " " << matFull(Sigma00) << " " << sx_vd(Z);
      o << ")";
      delete model;
    }
    o << ")";
    delete dbin; delete dbout;
  }
  o << ")"; return o.str();
}

// ---------------------------------------------------------------------------------------------- mode 10
// (10 ndim nvar db model ivar0 nbgh)  Model::evalDriftMatrix against DriftList::evalDriftValue cell by cell
static std::string run_driftmat(const Sx& c) {
  int ndim = (int) c[1].i(), nvar = (int) c[2].i(); int nfex = (int) c[4][2].i();
  defineDefaultSpace(ESpaceType::RN, ndim);
  Db* db = makeDb(c[3], ndim, nfex); Model* model = makeModel(c[4], ndim, nvar);
  std::ostringstream o; o << "(";
  for (int member = 0; member < 2; member++) {
    MatrixRectangular M = model->evalDriftMatrix(db, (int) c[5].i(), c[6].vi(), member == 0 ? ECalcMember::LHS : ECalcMember::RHS);
    o << matFull(M) << " ";
  }
  int nfeq = model->getDriftEquationNumber();
  o << nfeq << " (";
  for (int i = 0; i < db->getSampleNumber(); i++) { o << "("; for (int v = 0; v < nvar; v++) { o << "("; for (int ib = 0; ib < nfeq; ib++) o << (ib ? " " : "") << sx_d(model->evalDriftValue(db, i, v, ib, ECalcMember::LHS)); o << ")"; } o << ")"; }
  o << "))";
  delete db; delete model; return o.str();
}

// ---------------------------------------------------------------------------------------------- mode 11
// (11 ndim nvar dbin (nx dx x0) model neigh ndiscs blex[ncell][ndim])
// block kriging with per-cell extensions (flagPerCell, BLEX columns)  vs  for every cell, block kriging with the FIXED
// discretisation on a one-cell grid whose mesh is the extension of that cell
static std::string percellOne(Db* dbin, DbGrid* dbout, Model* model, ANeigh* neigh, const VectorInt& ndiscs, bool perCell, const VectorInt& targets, int nvar) {
  std::ostringstream o;
  int iptrEst = dbout->addColumnsByConstant(nvar, TEST), iptrStd = dbout->addColumnsByConstant(nvar, TEST);
  KrigingSystem ksys(dbin, dbout, model, neigh);
  bool ok = !ksys.updKrigOptEstim(iptrEst, iptrStd, -1) && !ksys.setKrigOptCalcul(EKrigOpt::BLOCK, ndiscs, perCell) && ksys.isReady();
  o << "(" << (ok ? 1 : 0) << " (";
  if (ok) {
    for (int it : targets) {
      ksys.estimate(it);
      o << "(" << sx_vi(ksys._nbgh) << " ("; for (int v = 0; v < nvar; v++) o << (v ? " " : "") << sx_d(dbout->getArray(it, iptrEst + v));
      o << ") ("; for (int v = 0; v < nvar; v++) o << (v ? " " : "") << sx_d(dbout->getArray(it, iptrStd + v));
      o << ") " << (ksys._lhs != nullptr && ksys._nred > 0 && ksys._lhs->getNRows() >= ksys._nred ? matStr(*ksys._lhs, ksys._nred, ksys._nred) : std::string("()")) << ")";
    }
    ksys.conclusion();
  }
  o << "))";
  return o.str();
}
static std::string run_percell(const Sx& c) {
  int ndim = (int) c[1].i(), nvar = (int) c[2].i();
  defineDefaultSpace(ESpaceType::RN, ndim);
  auto mkneigh = [&]() { return c[6][0].i() == 0 ? (ANeigh*) NeighUnique::create() : (ANeigh*) mkMoving(ndim, (int) c[6][2].i(), c[6][3].d(TEST), (int) c[6][1].i()); };
  VectorInt ndiscs = c[7].vi();
  std::ostringstream o; o << "(";
  // reference: one fixed-discretisation run per cell
  int ncell; std::vector<VectorDouble> centres;
  { DbGrid* g = DbGrid::create(c[4][0].vi(), c[4][1].vd(), c[4][2].vd()); ncell = g->getSampleNumber();
    for (int i = 0; i < ncell; i++) { VectorDouble x(ndim); for (int d = 0; d < ndim; d++) x[d] = g->getCoordinate(i, d); centres.push_back(x); } delete g; }
  o << "(";
  for (int it = 0; it < ncell; it++) {
    Db* dbin = makeDb(c[3], ndim, 0); Model* model = makeModel(c[5], ndim, nvar); ANeigh* neigh = mkneigh();
    DbGrid* one = DbGrid::create(VectorInt(ndim, 1), c[8][it].vd(), centres[it]);
    o << percellOne(dbin, one, model, neigh, ndiscs, false, VectorInt{0}, nvar);
    delete dbin; delete one; delete model; delete neigh;
  }
  o << ") ";
  { // fast: one run with per-cell extensions
    Db* dbin = makeDb(c[3], ndim, 0); Model* model = makeModel(c[5], ndim, nvar); ANeigh* neigh = mkneigh();
    DbGrid* dbout = DbGrid::create(c[4][0].vi(), c[4][1].vd(), c[4][2].vd());
    for (int d = 0; d < ndim; d++) { VectorDouble col(ncell); for (int i = 0; i < ncell; i++) col[i] = c[8][i][d].d(); dbout->addColumns(col, "blex" + std::to_string(d + 1), ELoc::BLEX, d); }
    VectorInt all; for (int i = 0; i < ncell; i++) all.push_back(i);
    o << percellOne(dbin, dbout, model, neigh, ndiscs, true, all, nvar);
    delete dbin; delete dbout; delete model; delete neigh;
  }
  o << ")"; return o.str();
}

// ---------------------------------------------------------------------------------------------- mode 12
// (12 ndim nvar dbin dbout model neigh)  kriging with the pre-projection of the points (default) vs disabled on every structure
static std::string run_optimoff(const Sx& c) {
  int ndim = (int) c[1].i(), nvar = (int) c[2].i(); int nfex = (int) c[5][2].i();
  defineDefaultSpace(ESpaceType::RN, ndim);
  std::ostringstream o; o << "(";
  for (int pass = 0; pass < 2; pass++) {
    Db* dbin = makeDb(c[3], ndim, nfex); Db* dbout = makeDb(c[4], ndim, nfex); Model* model = makeModel(c[5], ndim, nvar);
    if (pass == 1) for (int is = 0; is < model->getCovaNumber(); is++) model->getCova(is)->setOptimEnabled(false);
    ANeigh* neigh = c[6][0].i() == 0 ? (ANeigh*) NeighUnique::create() : (ANeigh*) mkMoving(ndim, (int) c[6][2].i(), c[6][3].d(TEST), (int) c[6][1].i());
    if (pass == 0) o << driftsStr(model) << " ";
    KOpt k; k.c01dump = (pass == 1);
    o << krigeAll(dbin, dbout, model, neigh, k, allTargets(dbout), nvar, ndim) << (pass == 0 ? " " : "");
    delete dbin; delete dbout; delete model; delete neigh;
  }
  o << ")"; return o.str();
}

// ---------------------------------------------------------------------------------------------- mode 13
// (13 ndim nvar db ivar0 nbgh)  Db::getMultipleRanksActive for the 8 combinations (useSel useVerr useCoord), and variable by variable
static std::string run_ranks(const Sx& c) {
  int ndim = (int) c[1].i(), nvar = (int) c[2].i();
  defineDefaultSpace(ESpaceType::RN, ndim);
  Db* db = makeDb(c[3], ndim, 0);
  int ivar0 = (int) c[4].i(); VectorInt nbgh = c[5].vi();
  VectorInt ivars; if (ivar0 >= 0) ivars.push_back(ivar0); else for (int v = 0; v < nvar; v++) ivars.push_back(v);
  std::ostringstream o; o << "(";
  for (int combo = 0; combo < 8; combo++) {
    bool us = combo & 1, uv = combo & 2, uc = combo & 4;
    VectorVectorInt idx = db->getMultipleRanksActive(ivars, nbgh, us, uv, uc);
    o << "(("; for (auto& l : idx) o << sx_vi(l); o << ") (";
    for (int v : ivars) o << sx_vi(db->getRanksActive(nbgh, v, us, uv, uc));
    o << "))";
  }
  o << ")"; delete db; return o.str();
}

// ---------------------------------------------------------------------------------------------- mode 14
// (14 ndim nvar db1 model ivar0 jvar0 nbgh1 nbgh2)  evalCovMatrixSparse(db1, db1) on a layout that is not the symmetric one
// (different variables or sub-lists for rows and columns): compared with the rectangular plain matrix
static std::string run_sparse_nonsquare(const Sx& c) {
  int ndim = (int) c[1].i(), nvar = (int) c[2].i();
  defineDefaultSpace(ESpaceType::RN, ndim);
  Db* db1 = makeDb(c[3], ndim, 0);
  int ivar0 = (int) c[5].i(), jvar0 = (int) c[6].i(); VectorInt nbgh1 = c[7].vi(), nbgh2 = c[8].vi();
  std::ostringstream o; o << "(";
  { Model* m = makeModel(c[4], ndim, nvar); MatrixRectangular A = m->evalCovMatrix(db1, nullptr, ivar0, jvar0, nbgh1, nbgh2, nullptr); o << matFull(A) << " "; delete m; }
  { Model* m = makeModel(c[4], ndim, nvar); MatrixSparse* S = m->evalCovMatrixSparse(db1, nullptr, ivar0, jvar0, nbgh1, nbgh2, nullptr, 0.);
    if (S == nullptr) o << "()"; else { o << matFull(*S); delete S; } delete m; }
  o << ")"; delete db1; return o.str();
}

static std::string run(const Sx& c) {
  switch ((int) c[0].i()) {
    case 14: return run_sparse_nonsquare(c);
    case 8: return run_kcseq(c);
    case 9: return run_kcopt(c);
    case 10: return run_driftmat(c);
    case 11: return run_percell(c);
    case 12: return run_optimoff(c);
    case 13: return run_ranks(c);
    case 1: return run_covmat(c);
    case 2: return run_unique_moving(c);
    case 3: return run_xvalid(c);
    case 4: return run_ball(c);
    case 5: return run_block1(c);
    case 6: return run_colcok(c);
    case 7: return run_calcul(c);
    default: return "(-997 1)";
  }
}
int main(int argc, char** argv) { OptDbg::reset(); return sx_main(argc, argv, run); }

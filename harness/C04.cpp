// C04 harness: every (fast path, reference path) pair of property C04 is run on the same generated case.
//   mode 1  Model::evalCovMatrix / evalCovMatrixSymmetric  vs  evalCovMatrixOptim / evalCovMatrixSymmetricOptim
//   mode 2  kriging in NeighUnique  vs  NeighMoving wide enough to hold every sample
//   mode 3  xvalid in unique neighbourhood (_estimateCalculXvalidUnique)  vs  explicit leave-one-out kriging
//   mode 4  migrate(flag_ball)  vs  exhaustive;  NeighMoving ball search  vs  exhaustive _moving
//   mode 5  block kriging with one discretisation point  vs  point kriging
//   mode 6  collocated cokriging (rank_colcok)  vs  cokriging with the collocated datum appended to the data
//   mode 7  KrigingCalcul (primal / dual)  vs  KrigingSystem
// Case and result formats: see checks/C04.py.
#include "sx.hpp"
#include <sstream>
#include <cstring>
#include <map>
#include <set>
#include <memory>
#include <functional>
#include <algorithm>
#include <fstream>
#include <complex>
#include <array>
#include <span>
#include <unordered_map>
#include <unordered_set>
#include <limits>
#include <numeric>
#include <random>
#include <list>
#include <deque>
#include <Eigen/Dense>
#include <Eigen/Sparse>
#define private public
#define protected public
#include "Estimation/KrigingSystem.hpp"
#include "Estimation/KrigingCalcul.hpp"
#include "Covariances/ACov.hpp"
#include "Covariances/CovAniso.hpp"
#include "Covariances/ACovAnisoList.hpp"
#include "Neigh/NeighMoving.hpp"
#include "Neigh/NeighUnique.hpp"
#undef private
#undef protected
#include "Estimation/CalcKriging.hpp"
#include "Calculators/CalcMigrate.hpp"
#include "Db/Db.hpp"
#include "Model/Model.hpp"
#include "Space/ASpaceObject.hpp"
#include "Space/SpacePoint.hpp"
#include "Covariances/CovCalcMode.hpp"
#include "Drifts/DriftList.hpp"
#include "Drifts/ADrift.hpp"
#include "Drifts/DriftF.hpp"
#include "Enum/ECov.hpp"
#include "Enum/EKrigOpt.hpp"
#include "Basic/OptDbg.hpp"
#include "Basic/NamingConvention.hpp"
#include "Basic/Tensor.hpp"
#include "Matrix/MatrixRectangular.hpp"
#include "Matrix/MatrixSquareSymmetric.hpp"
#include "geoslib_define.h"

static const char* COVS[] = {"NUGGET", "SPHERICAL", "EXPONENTIAL", "GAUSSIAN", "CUBIC", "LINEAR"};

// d = (coords[ndim][n] z[nvar][n] verr[nvar][n]|() fext[nfex][n] sel[n]|())
static Db* makeDb(const Sx& d, int ndim, int nfex) {
  int n = (int) d[0][0].size();
  VectorDouble tab; VectorString names, locs;
  for (int i = 0; i < ndim; i++) { auto v = d[0][i].vd(TEST); tab.insert(tab.end(), v.begin(), v.end()); names.push_back("x" + std::to_string(i + 1)); locs.push_back("x" + std::to_string(i + 1)); }
  for (size_t i = 0; i < d[1].size(); i++) { auto v = d[1][i].vd(TEST); tab.insert(tab.end(), v.begin(), v.end()); names.push_back("z" + std::to_string(i + 1)); locs.push_back("z" + std::to_string(i + 1)); }
  for (size_t i = 0; i < d[2].size(); i++) { auto v = d[2][i].vd(TEST); tab.insert(tab.end(), v.begin(), v.end()); names.push_back("v" + std::to_string(i + 1)); locs.push_back("v" + std::to_string(i + 1)); }
  for (int i = 0; i < nfex; i++) { auto v = d[3][i].vd(TEST); tab.insert(tab.end(), v.begin(), v.end()); names.push_back("f" + std::to_string(i + 1)); locs.push_back("f" + std::to_string(i + 1)); }
  if (d[4].size() > 0) { for (auto& x : d[4].l) tab.push_back(x.b() ? 1. : 0.); names.push_back("sel"); locs.push_back("sel"); }
  return Db::createFromSamples(n, ELoadBy::COLUMN, tab, names, locs, false);
}

// m = (structs drift_order nfex means) ; struct = (type range ranges|() angles|() sills[nvar*nvar])
static Model* makeModel(const Sx& m, int ndim, int nvar) {
  Model* model = nullptr;
  for (auto& s : m[0].l) {
    ECov type = ECov::fromKey(COVS[s[0].i()]);
    double range = s[1].d();
    VectorDouble ranges = s[2].vd(), angles = s[3].vd(), sills = s[4].vd();
    if (model == nullptr) { CovContext ctxt(nvar, ndim); model = Model::create(ctxt); }
    model->addCovFromParam(type, range, 1., 1., ranges, sills, angles, true);
  }
  int order = (int) m[1].i(); int nfex = (int) m[2].i();
  if (order >= 0) model->setDriftIRF(order, nfex);
  VectorDouble means = m[3].vd();
  if (!means.empty()) model->setMeans(means);
  return model;
}

static std::string matStr(const AMatrix& M, int nr, int nc) {
  std::ostringstream o; o << "(";
  for (int i = 0; i < nr; i++) { o << (i ? " " : "") << "("; for (int j = 0; j < nc; j++) o << (j ? " " : "") << sx_d(M.getValue(i, j, false)); o << ")"; }
  o << ")"; return o.str();
}
static std::string matFull(const AMatrix& M) {
  std::ostringstream o; o << "(" << M.getNRows() << " " << M.getNCols() << " " << matStr(M, M.getNRows(), M.getNCols()) << ")"; return o.str();
}
static std::string driftsStr(const Model* model) {
  std::ostringstream o; o << "(";
  if (model->getDriftList() != nullptr) {
    const DriftList* dl = model->getDriftList();
    for (int il = 0; il < dl->getDriftNumber(); il++) {
      const ADrift* d = dl->getDrift(il);
      const DriftF* df = dynamic_cast<const DriftF*>(d);
      if (df != nullptr) o << "(1 " << df->getRankFex() << ")";
      else o << "(0 " << sx_vi(d->getPowers()) << ")";
    }
  }
  o << ")"; return o.str();
}
static std::string colStr(const Db* db, int icol0, int ncol) {
  std::ostringstream o; o << "(";
  for (int v = 0; v < ncol; v++) { o << (v ? " " : "") << "("; for (int i = 0; i < db->getSampleNumber(); i++) o << (i ? " " : "") << sx_d(db->getArray(i, icol0 + v)); o << ")"; }
  o << ")"; return o.str();
}

// ---------------------------------------------------------------------------------------------- mode 1
// (1 ndim nvar db1 db2|() model ivar0 jvar0 nbgh1 nbgh2)
static std::string run_covmat(const Sx& c) {
  int ndim = (int) c[1].i(), nvar = (int) c[2].i();
  defineDefaultSpace(ESpaceType::RN, ndim);
  Db* db1 = makeDb(c[3], ndim, 0);
  Db* db2 = c[4].size() > 0 ? makeDb(c[4], ndim, 0) : nullptr;
  int ivar0 = (int) c[6].i(), jvar0 = (int) c[7].i();
  VectorInt nbgh1 = c[8].vi(), nbgh2 = c[9].vi();
  std::ostringstream o; o << "(";
  // each call on a fresh Model object (cache-invalidation defects belong to C10)
  { Model* m = makeModel(c[5], ndim, nvar); MatrixRectangular A = m->evalCovMatrix(db1, db2, ivar0, jvar0, nbgh1, nbgh2, nullptr); o << matFull(A) << " "; delete m; }
  { Model* m = makeModel(c[5], ndim, nvar); MatrixRectangular A = m->evalCovMatrixOptim(db1, db2, ivar0, jvar0, nbgh1, nbgh2, nullptr); o << matFull(A) << " "; delete m; }
  { Model* m = makeModel(c[5], ndim, nvar); MatrixSquareSymmetric A = m->evalCovMatrixSymmetric(db1, ivar0, nbgh1, nullptr); o << matFull(A) << " "; delete m; }
  { Model* m = makeModel(c[5], ndim, nvar); MatrixSquareSymmetric A = m->evalCovMatrixSymmetricOptim(db1, ivar0, nbgh1, nullptr); o << matFull(A) << " "; delete m; }
  // point-wise covariance oracle: db1 x db2 and db1 x db1
  Model* m = makeModel(c[5], ndim, nvar);
  const Db* dd2 = db2 != nullptr ? db2 : db1;
  auto oracle = [&](const Db* a, const Db* b) {
    o << "(";
    for (int i = 0; i < a->getSampleNumber(); i++) { o << "(";
      VectorDouble x(ndim); for (int d = 0; d < ndim; d++) x[d] = a->getCoordinate(i, d); SpacePoint p1(x);
      for (int j = 0; j < b->getSampleNumber(); j++) { o << "(";
        VectorDouble y(ndim); for (int d = 0; d < ndim; d++) y[d] = b->getCoordinate(j, d); SpacePoint p2(y);
        for (int u = 0; u < nvar; u++) { o << "("; for (int v = 0; v < nvar; v++) o << (v ? " " : "") << sx_d(m->eval(p1, p2, u, v, nullptr)); o << ")"; }
        o << ")"; }
      o << ")"; }
    o << ") ";
  };
  oracle(db1, dd2); oracle(db1, db1);
  // per structure: inverse anisotropy tensor, then the pre-projected points of db1 as stored by the optimisation
  ACovAnisoList* cl = m->getCovAnisoListModify();
  o << "(";
  for (int is = 0; is < cl->getCovaNumber(); is++) {
    const MatrixSquareGeneral& T = cl->getCova(is)->getAniso().getTensorInverse();
    o << matStr(T, ndim, ndim);
  }
  o << ") (";
  cl->optimizationPreProcess(db1);
  for (int is = 0; is < cl->getCovaNumber(); is++) {
    o << "(";
    for (auto& p : cl->getCova(is)->_p1As) { o << "("; for (int d = 0; d < ndim; d++) o << (d ? " " : "") << sx_d(p.getCoord(d)); o << ")"; }
    o << ")";
  }
  cl->optimizationPostProcess();
  o << "))";
  delete m; delete db1; delete db2;
  return o.str();
}

static std::string run(const Sx& c) {
  switch ((int) c[0].i()) {
    case 1: return run_covmat(c);
    default: return "(-997 1)";
  }
}
int main(int argc, char** argv) { OptDbg::reset(); return sx_main(argc, argv, run); }

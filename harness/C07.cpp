// C07 harness: replays an operation history on a real Db (public API only) and prints, after EVERY operation,
// what the public getters return, in exactly the textual form of the extracted model (coq/C07/Run.v ofObs).
//   case (0 (op ...))  ->  ((obs_1 ... obs_n))
#include "sx.hpp"
#include "Db/Db.hpp"
#include "Enum/ELoc.hpp"
#include "geoslib_define.h"
#include "geoslib_io.h"

static void quiet(const char*) {}

static const ELoc& loc(long long t) { return t < 0 ? ELoc::UNKNOWN : ELoc::fromValue((int) t); }
static double val(const Sx& s) { return s.atom ? (double) s.v : TEST; }
static VectorDouble vals(const Sx& s) { VectorDouble r; for (auto& x : s.l) r.push_back(val(x)); return r; }
static VectorInt ints(const Sx& s) { VectorInt r; for (auto& x : s.l) r.push_back((int) x.i()); return r; }
static VectorString strs(const Sx& s) { VectorString r; for (auto& x : s.l) r.push_back(x.str()); return r; }

static std::string pv(double x) {
  if (FFFF(x)) return "()";
  long long i = (long long) x;
  if ((double) i != x) return "999999999";
  return std::to_string(i);
}
template <class V, class F> static std::string plist(const V& v, F f) {
  std::string s = "("; bool first = true;
  for (const auto& x : v) { if (!first) s += " "; first = false; s += f(x); }
  return s + ")";
}
static std::string pint(long long i) { return std::to_string(i); }
static std::string pcol(const VectorDouble& c) { return plist(c, [](double x) { return pv(x); }); }
static std::string pname(const String& n) {
  std::vector<int> codes; for (unsigned char ch : n) codes.push_back((int) ch);
  return plist(codes, [](int c) { return pint(c); });
}

static void apply(Db* db, const Sx& o) {
  switch (o[0].i()) {
    case 1: db->addColumnsByConstant((int) o[1].i(), val(o[2]), o[3].str(), loc(o[4].i()), (int) o[5].i(), (int) o[6].i()); break;
    case 2: db->addColumns(vals(o[1]), o[2].str(), loc(o[3].i()), (int) o[4].i()); break;
    case 3: db->addSelection(vals(o[1]), o[2].str()); break;
    case 4: db->deleteColumnByUID((int) o[1].i()); break;
    case 5: db->deleteColumnByColIdx((int) o[1].i()); break;
    case 6: db->deleteColumn(o[1].str()); break;
    case 7: db->deleteColumnsByUID(ints(o[1])); break;
    case 8: db->deleteColumnsByLocator(loc(o[1].i())); break;
    case 9: db->setLocatorByUID((int) o[1].i(), loc(o[2].i()), (int) o[3].i(), o[4].b()); break;
    case 10: db->setLocatorByColIdx((int) o[1].i(), loc(o[2].i()), (int) o[3].i(), o[4].b()); break;
    case 11: db->setLocator(o[1].str(), loc(o[2].i()), (int) o[3].i(), o[4].b()); break;
    case 12: db->setLocatorsByUID(ints(o[1]), loc(o[2].i()), (int) o[3].i(), o[4].b()); break;
    case 13: db->setLocatorsByUID((int) o[1].i(), (int) o[2].i(), loc(o[3].i()), (int) o[4].i(), o[5].b()); break;
    case 14: db->setLocatorsByColIdx(ints(o[1]), loc(o[2].i()), (int) o[3].i(), o[4].b()); break;
    case 15: db->setLocators(strs(o[1]), loc(o[2].i()), (int) o[3].i(), o[4].b()); break;
    case 16: db->clearLocators(loc(o[1].i())); break;
    case 17: db->switchLocator(loc(o[1].i()), loc(o[2].i())); break;
    case 18: db->setNameByColIdx((int) o[1].i(), o[2].str()); break;
    case 19: db->setNameByUID((int) o[1].i(), o[2].str()); break;
    case 20: db->setName(o[1].str(), o[2].str()); break;
    case 21: db->addSamples((int) o[1].i(), val(o[2])); break;
    case 22: db->deleteSample((int) o[1].i()); break;
    case 23: db->setArray((int) o[1].i(), (int) o[2].i(), val(o[3])); break;
    case 24: db->setValue(o[1].str(), (int) o[2].i(), val(o[3])); break;
    case 25: db->duplicateColumnByUID((int) o[1].i(), (int) o[2].i()); break;
    case 26: db->deleteColumnsByColIdx(ints(o[1])); break;
    case 27: db->deleteColumns(strs(o[1])); break;
    case 28: db->deleteColumnsByUIDRange((int) o[1].i(), (int) o[2].i()); break;
    case 29: db->setName(strs(o[1]), o[2].str()); break;
    case 30: db->setNameByLocator(loc(o[1].i()), o[2].str()); break;
    default: throw std::runtime_error("unknown op");
  }
}

static std::string observe(const Db* db) {
  int ncol = db->getColumnNumber();
  int nech = db->getSampleNumber(false);
  int nloc = Db::getNEloc();
  std::string s = "(";
  s += pint(ncol) + " " + pint(nech) + " " + pint(db->getSampleNumber(true));
  std::vector<int> act; for (int e = 0; e < nech; e++) act.push_back(db->isActive(e) ? 1 : 0);
  s += " " + plist(act, [](int b) { return pint(b); });
  VectorString names = db->getAllNames();
  s += " " + plist(names, [](const String& n) { return pname(n); });
  std::vector<int> u2c; for (int u = 0; u < db->getUIDMaxNumber(); u++) u2c.push_back(db->getColIdxByUID(u));
  s += " " + plist(u2c, [](int x) { return pint(x); });
  s += " " + plist(db->getAllUIDs(), [](int x) { return pint(x); });
  std::vector<int> c2u; for (int c = 0; c < ncol; c++) c2u.push_back(db->getUIDByColIdx(c));
  s += " " + plist(c2u, [](int x) { return pint(x); });
  std::vector<std::pair<int, int>> cl;
  for (int c = 0; c < ncol; c++) { ELoc t; int k; db->getLocatorByColIdx(c, &t, &k); cl.push_back({t.getValue(), k}); }
  s += " " + plist(cl, [](const std::pair<int, int>& p) { return "(" + pint(p.first) + " " + pint(p.second) + ")"; });
  std::vector<std::vector<int>> lc(nloc);
  for (int t = 0; t < nloc; t++)
    for (int k = 0; k < db->getLocatorNumber(ELoc::fromValue(t)); k++) lc[t].push_back(db->getColIdxByLocator(ELoc::fromValue(t), k));
  s += " " + plist(lc, [](const std::vector<int>& l) { return plist(l, [](int x) { return pint(x); }); });
  std::vector<VectorDouble> c0, c1, c2, c3; std::vector<int> n2c, n2u;
  for (int c = 0; c < ncol; c++) {
    c0.push_back(db->getColumnByColIdx(c, false, false));
    int u = c2u[c];
    c1.push_back(u >= 0 ? db->getColumnByUID(u, false, false) : VectorDouble());
    String nm = c < (int) names.size() ? names[c] : String();
    c2.push_back(db->getColumn(nm, false, false));
    c3.push_back(cl[c].first >= 0 ? db->getColumnByLocator(ELoc::fromValue(cl[c].first), cl[c].second, false, false) : VectorDouble());
    n2c.push_back(db->getColIdx(nm));
    n2u.push_back(db->getUID(nm));
  }
  for (auto* cc : {&c0, &c1, &c2, &c3}) s += " " + plist(*cc, [](const VectorDouble& c) { return pcol(c); });
  s += " " + plist(n2c, [](int x) { return pint(x); });
  s += " " + plist(n2u, [](int x) { return pint(x); });
  return s + ")";
}

static std::string run(const Sx& c) {
  if (c[0].i() != 0) return "(-997 1)";
  Db* db = Db::create();
  std::string out = "((";
  bool first = true;
  for (auto& o : c[1].l) {
    apply(db, o);
    if (!first) out += " ";
    first = false;
    out += observe(db);
  }
  delete db;
  return out + "))";
}
int main(int argc, char** argv) {
  redefine_message(quiet); redefine_error(quiet);
  return sx_main(argc, argv, run);
}

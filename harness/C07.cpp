// C07 harness: replays an operation history on a real Db (public API only) and prints, after EVERY operation,
// what the public getters return, in exactly the textual form of the extracted model (coq/C07/Run.v ofObs).
//   case (0 (op ...))  ->  ((obs_1 ... obs_n))
#include "sx.hpp"
#include "Db/Db.hpp"
#include "Db/DbGrid.hpp"
#include "Basic/Limits.hpp"
#include "Enum/ELoadBy.hpp"
#include "Enum/ELoc.hpp"
#include "geoslib_define.h"
#include "geoslib_io.h"

static void quiet(const char*) {}

static const ELoc& loc(long long t) { return t < 0 ? ELoc::UNKNOWN : ELoc::fromValue((int) t); }
static double val(const Sx& s) { return s.atom ? (double) s.v : TEST; }
static VectorDouble vals(const Sx& s) { VectorDouble r; for (auto& x : s.l) r.push_back(val(x)); return r; }
static VectorInt ints(const Sx& s) { VectorInt r; for (auto& x : s.l) r.push_back((int) x.i()); return r; }
static VectorString strs(const Sx& s) { VectorString r; for (auto& x : s.l) r.push_back(x.str()); return r; }

static std::string pv(double x) {
  if (FFFF(x)) return "()";
  long long i = (long long) x;
  if ((double) i != x) return "999999999";
  return std::to_string(i);
}
template <class V, class F> static std::string plist(const V& v, F f) {
  std::string s = "("; bool first = true;
  for (const auto& x : v) { if (!first) s += " "; first = false; s += f(x); }
  return s + ")";
}
static std::string pint(long long i) { return std::to_string(i); }
static std::string pcol(const VectorDouble& c) { return plist(c, [](double x) { return pv(x); }); }
static std::string pname(const String& n) {
  std::vector<int> codes; for (unsigned char ch : n) codes.push_back((int) ch);
  return plist(codes, [](int c) { return pint(c); });
}

// setColumnBy*: the library reads tab[lec] without checking its size: the vector is padded with TEST up to the
// number of samples (the model reads TEST beyond the end of its list)
static VectorDouble padded(const Sx& s, const Db* db) {
  VectorDouble r = vals(s);
  while ((int) r.size() < db->getSampleNumber()) r.push_back(TEST);
  return r;
}
static String combine(long long c) {
  static const char* k[] = {"set", "not", "or", "and", "xor"};
  return (c >= 0 && c <= 4) ? String(k[c]) : String("bogus");
}
static const char* SREF[] = {"x", "z", "v", "f", "g", "lower", "upper", "p", "w", "code", "sel"};
static VectorString locstrs(const Sx& s) {
  VectorString r;
  for (auto& x : s.l) {
    long long t = x[0].i(), n = x[1].i();
    if (t < 0 || t > 10) { r.push_back("none"); continue; }
    r.push_back(String(SREF[t]) + (n >= 0 ? std::to_string(n) : String()));
  }
  return r;
}
static VectorDouble dbl(const Sx& s) { VectorDouble r; for (auto& x : s.l) r.push_back((double) x.i()); return r; }
// creators: return the new Db (the old one is deleted by the caller)
static Db* create(const Db* cur, const Sx& o) {
  switch (o[0].i()) {
    case 50: return Db::createFromSamples((int) o[1].i(), o[2].b() ? ELoadBy::COLUMN : ELoadBy::SAMPLE, vals(o[3]),
                                          strs(o[4]), locstrs(o[5]), o[6].b());
    case 51: { int nd = (int) o[2].i(); return Db::createFromBox((int) o[1].i(), VectorDouble(nd, 0.), VectorDouble(nd, 1.), 4324, true, false, 0., 0., 0., o[3].b()); }
    case 52: { VectorDouble het; for (auto& x : o[8].l) het.push_back(x.b() ? 1. : 0.);
               return Db::createFillRandom((int) o[1].i(), (int) o[2].i(), (int) o[3].i(), (int) o[4].i(), o[5].b() ? 1 : 0,
                                           o[6].b() ? 1. : 0., o[7].b() ? 1. : 0., het, VectorDouble(), VectorDouble(), 5342, o[9].b()); }
    case 53: return DbGrid::create(ints(o[1]), dbl(o[2]), dbl(o[3]), VectorDouble(), o[4].b() ? ELoadBy::COLUMN : ELoadBy::SAMPLE,
                                   vals(o[5]), strs(o[6]), locstrs(o[7]), o[8].b(), o[9].b());
    case 54: { const DbGrid* g = dynamic_cast<const DbGrid*>(cur); if (g == nullptr) return nullptr;   // not a grid: nothing happens
               VectorVectorInt lim; for (auto& x : o[4].l) lim.push_back({(int) x[0].i(), (int) x[1].i()});
               return DbGrid::createSubGrid(g, lim, o[5].b()); }
    case 55: { DbGrid* g = const_cast<DbGrid*>(dynamic_cast<const DbGrid*>(cur)); if (g == nullptr) return nullptr;
               int before = (o[7].b() ? 1 : 0) + g->getNDim();
               DbGrid* n = o[1].b() ? DbGrid::createRefine(g, ints(o[5]), o[6].b(), o[7].b()) : DbGrid::createCoarse(g, ints(o[5]), o[6].b(), o[7].b());
               if (n == nullptr) throw std::runtime_error("coarse/refine returned null");
               // the migrated values (interpolation) are abstracted: overwritten by the marker the model uses
               for (int c = before; c < n->getColumnNumber(); c++)
                 n->setColumnByColIdx(VectorDouble(n->getSampleNumber(), 999999999.), c, false);
               return n; }
  }
  return nullptr;
}
static void apply(Db* db, const Sx& o) {
  switch (o[0].i()) {
    case 1: db->addColumnsByConstant((int) o[1].i(), val(o[2]), o[3].str(), loc(o[4].i()), (int) o[5].i(), (int) o[6].i()); break;
    case 2: db->addColumns(vals(o[1]), o[2].str(), loc(o[3].i()), (int) o[4].i()); break;
    case 3: db->addSelection(vals(o[1]), o[2].str()); break;
    case 4: db->deleteColumnByUID((int) o[1].i()); break;
    case 5: db->deleteColumnByColIdx((int) o[1].i()); break;
    case 6: db->deleteColumn(o[1].str()); break;
    case 7: db->deleteColumnsByUID(ints(o[1])); break;
    case 8: db->deleteColumnsByLocator(loc(o[1].i())); break;
    case 9: db->setLocatorByUID((int) o[1].i(), loc(o[2].i()), (int) o[3].i(), o[4].b()); break;
    case 10: db->setLocatorByColIdx((int) o[1].i(), loc(o[2].i()), (int) o[3].i(), o[4].b()); break;
    case 11: db->setLocator(o[1].str(), loc(o[2].i()), (int) o[3].i(), o[4].b()); break;
    case 12: db->setLocatorsByUID(ints(o[1]), loc(o[2].i()), (int) o[3].i(), o[4].b()); break;
    case 13: db->setLocatorsByUID((int) o[1].i(), (int) o[2].i(), loc(o[3].i()), (int) o[4].i(), o[5].b()); break;
    case 14: db->setLocatorsByColIdx(ints(o[1]), loc(o[2].i()), (int) o[3].i(), o[4].b()); break;
    case 15: db->setLocators(strs(o[1]), loc(o[2].i()), (int) o[3].i(), o[4].b()); break;
    case 16: db->clearLocators(loc(o[1].i())); break;
    case 17: db->switchLocator(loc(o[1].i()), loc(o[2].i())); break;
    case 18: db->setNameByColIdx((int) o[1].i(), o[2].str()); break;
    case 19: db->setNameByUID((int) o[1].i(), o[2].str()); break;
    case 20: db->setName(o[1].str(), o[2].str()); break;
    case 21: db->addSamples((int) o[1].i(), val(o[2])); break;
    case 22: db->deleteSample((int) o[1].i()); break;
    case 23: db->setArray((int) o[1].i(), (int) o[2].i(), val(o[3])); break;
    case 24: db->setValue(o[1].str(), (int) o[2].i(), val(o[3])); break;
    case 25: db->duplicateColumnByUID((int) o[1].i(), (int) o[2].i()); break;
    case 26: db->deleteColumnsByColIdx(ints(o[1])); break;
    case 27: db->deleteColumns(strs(o[1])); break;
    case 28: db->deleteColumnsByUIDRange((int) o[1].i(), (int) o[2].i()); break;
    case 29: db->setName(strs(o[1]), o[2].str()); break;
    case 30: db->setNameByLocator(loc(o[1].i()), o[2].str()); break;
    case 31: db->deleteSamples(ints(o[1])); break;
    case 32: db->setColumnByUID(padded(o[2], db), (int) o[1].i(), o[3].b()); break;
    case 33: db->setColumnByColIdx(padded(o[2], db), (int) o[1].i(), o[3].b()); break;
    case 34: db->setColumn(db->getUID(o[2].str()) >= 0 ? padded(o[1], db) : vals(o[1]), o[2].str(), loc(o[3].i()), (int) o[4].i(), o[5].b()); break;
    case 35: db->setValueByColIdx((int) o[1].i(), (int) o[2].i(), val(o[3])); break;
    case 36: db->setFromLocator(loc(o[1].i()), (int) o[2].i(), (int) o[3].i(), val(o[4])); break;
    case 37: { VectorVectorDouble t; for (auto& x : o[1].l) t.push_back(vals(x));
               db->addColumnsByVVD(t, o[2].str(), loc(o[3].i()), (int) o[4].i(), o[5].b()); break; }
    case 38: db->addSelection(vals(o[1]), o[2].str(), combine(o[3].i())); break;
    case 39: db->addSelectionByRanks(ints(o[1]), o[2].str(), combine(o[3].i())); break;
    case 40: { Limits lim; if (o[2].b()) lim = Limits(VectorDouble(1, val(o[3])), VectorDouble(1, val(o[4])), VectorBool(1, true), VectorBool(1, false));
               db->addSelectionByLimit(o[1].str(), lim, o[5].str(), combine(o[6].i())); break; }
    default: throw std::runtime_error("unknown op");
  }
}

static std::string observe(const Db* db) {
  int ncol = db->getColumnNumber();
  int nech = db->getSampleNumber(false);
  int nloc = Db::getNEloc();
  std::string s = "(";
  s += pint(ncol) + " " + pint(nech) + " " + pint(db->getSampleNumber(true));
  std::vector<int> act; for (int e = 0; e < nech; e++) act.push_back(db->isActive(e) ? 1 : 0);
  s += " " + plist(act, [](int b) { return pint(b); });
  VectorString names = db->getAllNames();
  s += " " + plist(names, [](const String& n) { return pname(n); });
  std::vector<int> u2c; for (int u = 0; u < db->getUIDMaxNumber(); u++) u2c.push_back(db->getColIdxByUID(u));
  s += " " + plist(u2c, [](int x) { return pint(x); });
  s += " " + plist(db->getAllUIDs(), [](int x) { return pint(x); });
  std::vector<int> c2u; for (int c = 0; c < ncol; c++) c2u.push_back(db->getUIDByColIdx(c));
  s += " " + plist(c2u, [](int x) { return pint(x); });
  std::vector<std::pair<int, int>> cl;
  for (int c = 0; c < ncol; c++) { ELoc t; int k; db->getLocatorByColIdx(c, &t, &k); cl.push_back({t.getValue(), k}); }
  s += " " + plist(cl, [](const std::pair<int, int>& p) { return "(" + pint(p.first) + " " + pint(p.second) + ")"; });
  std::vector<std::vector<int>> lc(nloc);
  for (int t = 0; t < nloc; t++)
    for (int k = 0; k < db->getLocatorNumber(ELoc::fromValue(t)); k++) lc[t].push_back(db->getColIdxByLocator(ELoc::fromValue(t), k));
  s += " " + plist(lc, [](const std::vector<int>& l) { return plist(l, [](int x) { return pint(x); }); });
  std::vector<VectorDouble> c0, c1, c2, c3; std::vector<int> n2c, n2u;
  for (int c = 0; c < ncol; c++) {
    c0.push_back(db->getColumnByColIdx(c, false, false));
    int u = c2u[c];
    c1.push_back(u >= 0 ? db->getColumnByUID(u, false, false) : VectorDouble());
    String nm = c < (int) names.size() ? names[c] : String();
    c2.push_back(db->getColumn(nm, false, false));
    c3.push_back(cl[c].first >= 0 ? db->getColumnByLocator(ELoc::fromValue(cl[c].first), cl[c].second, false, false) : VectorDouble());
    n2c.push_back(db->getColIdx(nm));
    n2u.push_back(db->getUID(nm));
  }
  for (auto* cc : {&c0, &c1, &c2, &c3}) s += " " + plist(*cc, [](const VectorDouble& c) { return pcol(c); });
  s += " " + plist(n2c, [](int x) { return pint(x); });
  s += " " + plist(n2u, [](int x) { return pint(x); });
  std::vector<VectorDouble> c4, c5;
  for (int c = 0; c < ncol; c++) { c4.push_back(db->getColumnByColIdx(c, true, false)); c5.push_back(db->getColumnByColIdx(c, true, true)); }
  for (auto* cc : {&c4, &c5}) s += " " + plist(*cc, [](const VectorDouble& c) { return pcol(c); });
  return s + ")";
}

// directed tests (no model): (2 refine delete_middle) post-condition of createCoarse/createRefine on the table side;
// (3) designation by a name that is not a valid regular expression (throws std::regex_error; informative);
// (4) addColumns(useSel) with no active sample, (5) addColumnsByVVD with fewer values than vectors on an empty Db
static std::string roles(const Db* db, bool skipRank) {
  std::string s = "("; bool first = true;
  for (int c = 0; c < db->getColumnNumber(); c++) {
    ELoc t; int k; db->getLocatorByColIdx(c, &t, &k);
    if (skipRank && c == 0) continue;
    if (t == ELoc::X) continue;
    if (!first) s += " "; first = false;
    s += "(" + pname(db->getNameByColIdx(c)) + " " + pint(t.getValue()) + " " + pint(k) + ")";
  }
  return s + ")";
}
static std::string directed(const Sx& c) {
  long long kind = c[0].i();
  if (kind == 2) {
    DbGrid* g = DbGrid::create({4, 4}, {1., 1.}, {0., 0.}, VectorDouble(), ELoadBy::COLUMN, VectorDouble(), VectorString(), VectorString(), true, true);
    g->addColumnsByConstant(1, 5., "a", ELoc::Z); g->addColumnsByConstant(1, 6., "b", ELoc::F); g->addColumnsByConstant(1, 7., "c", ELoc::V);
    if (c[2].b()) g->deleteColumn("a");
    DbGrid* n = c[1].b() ? DbGrid::createRefine(g, {2, 2}, true, true) : DbGrid::createCoarse(g, {2, 2}, true, true);
    std::string out = "(" + roles(g, true) + " " + (n ? roles(n, true) : std::string("()")) + ")";
    delete n; delete g; return out;
  }
  Db* d = Db::create();
  std::string out = "(1)";
  if (kind == 3) { d->addColumnsByConstant(1, 0., "a", ELoc::UNKNOWN, 0, 2); out = "(" + pint(d->getColIdx("a[")) + ")"; }
  if (kind == 4) { d->addColumnsByConstant(1, 0., "s", ELoc::SEL, 0, 2); d->addColumns({1.}, "b", ELoc::UNKNOWN, 0, true); out = "(" + pint(d->getColumnNumber()) + ")"; }
  if (kind == 5) { d->addColumnsByVVD({{1.}, {}}, "p", ELoc::UNKNOWN); out = "(" + pint(d->getColumnNumber()) + ")"; }
  delete d; return out;
}
static std::string run(const Sx& c) {
  if (c[0].i() >= 2) return directed(c);
  Db* db = Db::create();
  std::string out = "((";
  bool first = true;
  for (auto& o : c[1].l) {
    if (o[0].i() >= 50) {
      Db* n = create(db, o);
      if (n == nullptr && o[0].i() < 54) throw std::runtime_error("creator returned null");
      if (n != nullptr) { delete db; db = n; }
    }
    else apply(db, o);
    if (!first) out += " ";
    first = false;
    out += observe(db);
  }
  delete db;
  return out + "))";
}
int main(int argc, char** argv) {
  redefine_message(quiet); redefine_error(quiet);
  return sx_main(argc, argv, run);
}

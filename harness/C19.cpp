// C19 harness: builds two Dbs from a recipe, dumps them, runs one calculator through its public
// entry point (optionally with a failure injected after a stage by the GSTLEARN_VERIF hook of
// ACalculator::run), dumps them again.
//
// case   = (id sub (p0 p1 ...) namconv dbin dbout alias fail_after)
// namconv= (prefix varname qualifier locator loctype delim clean)
// db     = (grid (nx..) nech ((name (values..) loctype locidx) ..initial columns..) (edit ..))     [points: nx = ()]
// edit   = (0 name (values) loctype locidx) add | (1 uid) delete | (2 uid loctype locidx) set locator | (3 uid name) rename
// result = (ret last_stage before_in before_out after_in after_out)     ret: 1 success, 0 failure reported
// dump   = (grid ndim nech nuid ((uid name (values)) ...) ((uid ...) x 29 locator types))
#include "sx.hpp"
#include <memory>
#define private public
#define protected public
#include "Db/Db.hpp"
#include "Db/DbGrid.hpp"
#undef private
#undef protected
#include "Basic/NamingConvention.hpp"
#include "Basic/OptDbg.hpp"
#include "Basic/Law.hpp"
#include "Enum/ELoc.hpp"
#include "Enum/ECov.hpp"
#include "Enum/EKrigOpt.hpp"
#include "Enum/EStatOption.hpp"
#include "Enum/EMorpho.hpp"
#include "Model/Model.hpp"
#include "Space/SpaceRN.hpp"
#include "Neigh/NeighUnique.hpp"
#include "Neigh/NeighMoving.hpp"
#include "Neigh/NeighImage.hpp"
#include "Calculators/ACalculator.hpp"
#include "Calculators/CalcMigrate.hpp"
#include "Calculators/CalcStatistics.hpp"
#include "Calculators/CalcGridToGrid.hpp"
#include "Estimation/CalcKriging.hpp"
#include "Estimation/CalcSimpleInterpolation.hpp"
#include "Estimation/CalcImage.hpp"
#include "Estimation/CalcGlobal.hpp"
#include "Simulation/CalcSimuTurningBands.hpp"
#include "Simulation/CalcSimuFFT.hpp"
#include "Simulation/CalcSimuPartition.hpp"
#include "Simulation/SimuPartitionParam.hpp"
#include "Simulation/CalcSimuSubstitution.hpp"
#include "Simulation/SimuSubstitutionParam.hpp"
#include "Simulation/CalcSimuEden.hpp"
#include "Estimation/CalcKrigingFactors.hpp"
#include "Calculators/CalcSimuPost.hpp"
#include "Enum/EPostStat.hpp"
#include "Enum/EPostUpscale.hpp"
#include "Anamorphosis/AnamHermite.hpp"
#include "Anamorphosis/CalcAnamTransform.hpp"
#include "Matrix/MatrixRectangular.hpp"
#include "Matrix/MatrixSquareSymmetric.hpp"
#include "geoslib_define.h"

#ifndef GSTLEARN_VERIF
#error "the C19 harness needs the GSTLEARN_VERIF hook of ACalculator::run"
#endif

static ELoc loc_of(long long t) { return t < 0 ? ELoc::UNKNOWN : ELoc::fromValue((int) t); }

static void apply_edit(Db* db, const Sx& e) {
  long long k = e[0].i();
  if (k == 0) { VectorDouble v = e[2].vd(TEST); db->addColumns(v, e[1].str(), loc_of(e[3].i()), (int) e[4].i()); }
  else if (k == 1) db->deleteColumnByUID((int) e[1].i());
  else if (k == 2) db->setLocatorByUID((int) e[1].i(), loc_of(e[2].i()), (int) e[3].i());
  else if (k == 3) db->setNameByUID((int) e[1].i(), e[2].str());
}

static Db* build_db(const Sx& d) {
  bool grid = d[0].b();
  Db* db;
  if (grid) {
    VectorInt nx = d[1].vi();
    VectorDouble dx(nx.size(), 1.), x0(nx.size(), 0.);
    db = DbGrid::create(nx, dx, x0);
  } else {
    db = Db::createFromSamples((int) d[2].i(), ELoadBy::COLUMN, VectorDouble(), VectorString(), VectorString(), true);
  }
  for (auto& c : d[3].l) { VectorDouble v = c[1].vd(TEST); db->addColumns(v, c[0].str(), loc_of(c[2].i()), (int) c[3].i()); }
  for (auto& e : d[4].l) apply_edit(db, e);
  return db;
}

static std::string sx_s(const std::string& s) { std::ostringstream o; o << "("; for (size_t i = 0; i < s.size(); i++) o << (i ? " " : "") << (int) (unsigned char) s[i]; o << ")"; return o.str(); }

static std::string dump(const Db* db) {
  std::ostringstream o;
  o << "(" << (db->isGrid() ? 1 : 0) << " " << db->getNDim() << " " << db->getSampleNumber() << " " << db->getUIDMaxNumber() << " (";
  int ncol = db->getColumnNumber();
  for (int ic = 0; ic < ncol; ic++) {
    int uid = db->getUIDByColIdx(ic);
    VectorDouble v(db->getSampleNumber());
    for (int i = 0; i < db->getSampleNumber(); i++) v[i] = db->_array[db->_getAddress(i, ic)];
    o << (ic ? " " : "") << "(" << uid << " " << sx_s(db->getNameByColIdx(ic)) << " " << sx_vd(v) << ")";
  }
  o << ") (";
  for (int t = 0; t < Db::getNEloc(); t++) {
    const PtrGeos& p = db->_p[t];
    o << (t ? " " : "") << "(";
    for (int i = 0; i < p.getLocatorNumber(); i++) o << (i ? " " : "") << p.getLocatorByIndex(i);
    o << ")";
  }
  o << "))";
  return o.str();
}

static NamingConvention make_nc(const Sx& n) {
  return NamingConvention(n[0].str(), n[1].b(), n[2].b(), n[3].b(), loc_of(n[4].i()), n[5].str(), n[6].b());
}

// model kinds: 0: 2-D, 1 variable; 1: 3-D, 1 variable; 2: 2-D, 2 variables; 3: 2-D with anamorphosis + change of support (DGM);
//              4: 2-D, 1 variable, one external drift; 5: 1-D; 6: 2-D with anamorphosis, no change of support;
//              7: 2-D, a structure (PENTA) that the turning bands cannot simulate
static Model* make_model(long long kind, Db* dbin, std::vector<std::unique_ptr<AAnam>>& keep) {
  Model* m = nullptr;
  if (kind == 1) { SpaceRN sp(3); m = Model::createFromParam(ECov::SPHERICAL, 4., 1., 1., VectorDouble(), VectorDouble(), VectorDouble(), &sp); }
  else if (kind == 5) { SpaceRN sp(1); m = Model::createFromParam(ECov::SPHERICAL, 4., 1., 1., VectorDouble(), VectorDouble(), VectorDouble(), &sp); }
  else if (kind == 2) m = Model::createFromParam(ECov::SPHERICAL, 4., 1., 1., VectorDouble(), {2., 0.5, 0.5, 1.});
  else if (kind == 7) m = Model::createFromParam(ECov::PENTA, 4., 1.);
  else m = Model::createFromParam(ECov::SPHERICAL, 4., 1.);
  if (m != nullptr && (kind == 3 || kind == 6) && dbin != nullptr) {
    AnamHermite* an = AnamHermite::create(8);
    VectorDouble z0 = dbin->getColumnByLocator(ELoc::Z, 0, false);
    if (! z0.empty() && an->fitFromArray(z0) == 0) { if (kind == 3) an->setRCoef(0.8); m->setAnam(an); }
    keep.emplace_back(an);
  }
  if (m != nullptr && kind == 4) m->setDriftIRF(0, 1);
  return m;
}
// neigh kinds: 0 unique; 1 moving (wide); 2 moving, radius too small to reach any sample; 3 moving in a 3-D space; 4 image; -1 none
static ANeigh* make_neigh(long long kind) {
  if (kind == 0) return NeighUnique::create();
  if (kind == 1) return NeighMoving::create(false, 10, 20.);
  if (kind == 2) return NeighMoving::create(false, 10, 0.001);
  if (kind == 3) { SpaceRN sp(3); return NeighMoving::create(false, 10, 20., 1, 1, ITEST, VectorDouble(), VectorDouble(), &sp); }
  if (kind == 4) return NeighImage::create({1, 1});
  return nullptr;
}
static EKrigOpt calcul_of(long long k) { return k == 1 ? EKrigOpt::BLOCK : k == 2 ? EKrigOpt::DRIFT : k == 3 ? EKrigOpt::DGM : EKrigOpt::POINT; }

static std::string run(const Sx& c) {
  long long id = c[0].i(), sub = c[1].i();
  std::vector<long long> p; for (auto& x : c[2].l) p.push_back(x.i());
  auto P = [&](size_t i) -> long long { return i < p.size() ? p[i] : 0; };
  NamingConvention nc = make_nc(c[3]);
  bool alias = c[6].b();
  std::unique_ptr<Db> dbin(build_db(c[4]));
  std::unique_ptr<Db> dbout_own(alias ? nullptr : build_db(c[5]));
  Db* din = dbin.get();
  Db* dout = alias ? din : dbout_own.get();
  long long fail_after = c[7].i();
  std::vector<std::unique_ptr<AAnam>> keep;
  OptDbg::undefineAll();

  std::string b_in = dump(din), b_out = dump(dout);
  int ret = -1;
  verif_set_fail_after((int) fail_after);
  try {
    if (id == 0) {            // CalcKriging: p = (calcul est std varz iech0 model neigh ndisc matlc xv_est xv_std xv_varz)
      std::unique_ptr<Model> model(make_model(P(5), din, keep));
      std::unique_ptr<ANeigh> neigh(make_neigh(P(6)));
      VectorInt ndiscs; if (P(7) > 0) ndiscs = VectorInt(din->getNDim() > 0 ? din->getNDim() : 2, (int) P(7));
      if (sub == 0) {
        std::unique_ptr<MatrixRectangular> lc;
        if (P(8) > 0) { lc.reset(new MatrixRectangular((int) P(8), model->getVariableNumber())); for (int i = 0; i < (int) P(8); i++) for (int j = 0; j < model->getVariableNumber(); j++) lc->setValue(i, j, 1. + i + 2 * j); }
        ret = kriging(din, dout, model.get(), neigh.get(), calcul_of(P(0)), P(1), P(2), P(3), ndiscs, VectorInt(), lc.get(), nc) == 0;
      } else if (sub == 1) {
        // krigtest has no return code: success = the outermost calculator completed its four stages
        (void) krigtest(din, dout, model.get(), neigh.get(), (int) P(4), calcul_of(P(0)), ndiscs, false, false);
        ret = verif_get_last_stage() == 4 && fail_after != 4;
      } else if (sub == 2) {
        ret = xvalid(din, model.get(), neigh.get(), false, (int) P(9), (int) P(10), (int) P(11), VectorInt(), nc) == 0;
      } else if (sub == 3) {
        ret = test_neigh(din, dout, model.get(), neigh.get(), nc) == 0;
      } else if (sub == 4) {
        ret = kribayes(din, dout, model.get(), neigh.get(), VectorDouble(), MatrixSquareSymmetric(), P(1), P(2), nc) == 0;
      } else if (sub == 5) {
        ret = krigprof(din, dout, model.get(), neigh.get(), P(1), P(2), nc) == 0;
      }
    } else if (id == 1) {     // CalcMigrate: p = (dist_type fill inter ball loctype) ; names of the variables = aux (c[8])
      VectorString names; for (auto& s : c[8].l) names.push_back(s.str());
      if (sub == 0) ret = migrate(din, dout, names.empty() ? String("?") : names[0], (int) P(0), VectorDouble(), P(1), P(2), P(3), nc) == 0;
      else if (sub == 1) ret = migrateMulti(din, dout, names, (int) P(0), VectorDouble(), P(1), P(2), P(3), nc) == 0;
      else ret = migrateByLocator(din, dout, loc_of(P(4)), (int) P(0), VectorDouble(), P(1), P(2), P(3), nc) == 0;
    } else if (id == 2) {     // CalcStatistics: p = (oper radius) / regression: aux = (response aux1 aux2..), p = (mode flagCst)
      if (sub == 0) {
        DbGrid* g = dynamic_cast<DbGrid*>(dout);
        EStatOption op = P(0) == 1 ? EStatOption::NUM : P(0) == 2 ? EStatOption::VAR : EStatOption::MEAN;
        if (g != nullptr) ret = dbStatisticsOnGrid(din, g, op, (int) P(1), nc) == 0;
        else { // the public entry point takes a DbGrid*: drive the calculator class directly
          CalcStatistics stats; stats.setDbin(din); stats.setDbout(dout); stats.setNamingConvention(nc);
          stats.setFlagStats(true); stats.setDboutMustBeGrid(true); stats.setOper(op); stats.setRadius((int) P(1));
          ret = stats.run() ? 1 : 0;
        }
      } else {
        VectorString names; for (auto& s : c[8].l) names.push_back(s.str());
        String resp = names.empty() ? String("?") : names[0];
        VectorString aux(names.size() > 1 ? names.begin() + 1 : names.end(), names.end());
        ret = dbRegression(din, resp, aux, (int) P(0), P(1), alias ? nullptr : dout, nullptr, nc) == 0;
      }
    } else if (id == 3) {     // CalcAnamTransform: sub 0 rawToGaussianByLocator, 1 gaussianToRawByLocator, 2 rawToFactor(nfact)
      AnamHermite* an = AnamHermite::create(6);
      keep.emplace_back(an);
      bool fitted = an->fitFromLocator(din) == 0;
      (void) fitted;
      if (sub == 0) ret = an->rawToGaussianByLocator(din, nc) == 0;
      else if (sub == 1) ret = an->gaussianToRawByLocator(din, nc) == 0;
      else ret = an->rawToFactor(din, (int) P(0), nc) == 0;
    } else if (id == 4) {     // CalcSimuTurningBands: p = (nbsimu nbtuba dgm model neigh has_in)
      std::unique_ptr<Model> model(make_model(P(3), din, keep));
      std::unique_ptr<ANeigh> neigh(make_neigh(P(4)));
      ret = simtub(P(5) ? din : nullptr, dout, model.get(), neigh.get(), (int) P(0), 4321, (int) P(1), P(2), false, nc) == 0;
    } else if (id == 5) {     // CalcSimuFFT: p = (nbsimu model)
      std::unique_ptr<Model> model(make_model(P(1), nullptr, keep));
      DbGrid* g = dynamic_cast<DbGrid*>(dout);
      SimuFFTParam param;
      if (g != nullptr) ret = simfft(g, model.get(), param, (int) P(0), 4321, 0, nc) == 0;
      else ret = -2;
    } else if (id == 6) {     // CalcSimpleInterpolation: sub 0 inverseDistance, 1 nearestNeighbor, 2 movingAverage ; p = (est std model neigh)
      std::unique_ptr<Model> model(P(2) >= 0 ? make_model(P(2), din, keep) : nullptr);
      std::unique_ptr<ANeigh> neigh(make_neigh(P(3)));
      if (sub == 0) ret = inverseDistance(din, dout, 2., false, TEST, P(0), P(1), model.get(), nc) == 0;
      else if (sub == 1) ret = nearestNeighbor(din, dout, P(0), P(1), model.get(), nc) == 0;
      else ret = movingAverage(din, dout, neigh.get(), P(0), P(1), model.get(), nc) == 0;
    } else if (id == 7) {     // CalcGridToGrid: sub 0 copy, 1 shrink
      DbGrid* gi = dynamic_cast<DbGrid*>(din); DbGrid* go = dynamic_cast<DbGrid*>(dout);
      if (gi == nullptr || go == nullptr) ret = -2;
      else if (sub == 0) ret = dbg2gCopy(gi, go, nc) == 0;
      else ret = dbg2gShrink(gi, go, nc) == 0;
    } else if (id == 8) {     // CalcImage: sub 0 krimage (filter), 1 dbMorpho (p = (oper nvarMorpho)), 2 dbSmoother ; alias
      DbGrid* g = dynamic_cast<DbGrid*>(din);
      if (g == nullptr) ret = -2;
      else if (sub == 0) { std::unique_ptr<Model> model(make_model(P(0), nullptr, keep)); std::unique_ptr<NeighImage> ni(NeighImage::create({1, 1})); ret = krimage(g, model.get(), ni.get(), nc) == 0; }
      else if (sub == 1) ret = dbMorpho(g, P(0) == 1 ? EMorpho::DILATION : EMorpho::EROSION, 0.5, 1.5, 0, VectorInt(), false, false, nc) == 0;
      else { std::unique_ptr<NeighImage> ni(NeighImage::create({1, 1})); ret = dbSmoother(g, ni.get(), (int) P(0), 1., nc) == 0; }
    } else if (id == 9) {     // CalcGlobal: sub 0 global_arithmetic, 1 global_kriging ; p = (model ivar0)   (no return code)
      std::unique_ptr<Model> model(make_model(P(0), din, keep));
      DbGrid* g = dynamic_cast<DbGrid*>(dout);
      if (sub == 0 && g == nullptr) ret = -2;
      else {
        if (sub == 0) (void) global_arithmetic(din, g, model.get(), (int) P(1), false);
        else (void) global_kriging(din, dout, model.get(), (int) P(1), false);
        ret = verif_get_last_stage() == 4 && fail_after != 4;
      }
    } else if (id == 10) {    // CalcKrigingFactors: p = (calcul est std model neigh ndisc)
      std::unique_ptr<Model> model(make_model(P(3), din, keep));
      std::unique_ptr<ANeigh> neigh(make_neigh(P(4)));
      VectorInt ndiscs; if (P(5) > 0) ndiscs = VectorInt(2, (int) P(5));
      ret = krigingFactors(din, dout, model.get(), neigh.get(), calcul_of(P(0)), ndiscs, P(1), P(2), nc) == 0;
    } else if (id == 11) {    // CalcSimuPost: sub 0 in place (dbout = nullptr), 1 upscaling to the grid; aux = names
      VectorString names; for (auto& s : c[8].l) names.push_back(s.str());
      DbGrid* g = sub == 1 ? dynamic_cast<DbGrid*>(dout) : nullptr;
      if (sub == 1 && g == nullptr) ret = -2;
      else ret = simuPost(din, g, names, false, EPostUpscale::MEAN, EPostStat::fromKeys({"MEAN"}), false, VectorInt(), 0, nc) == 0;
    } else if (id == 12) {    // CalcSimuPartition (sub 0 voronoi, 1 poisson; p = (model)) / CalcSimuSubstitution (sub 2; p = (nfacies))
      DbGrid* g = dynamic_cast<DbGrid*>(dout);
      if (g == nullptr) ret = -2;
      else if (sub == 2) { SimuSubstitutionParam sp((int) P(0), P(1) > 0 ? (double) P(1) : 0.001); ret = substitution(g, sp, 4321, false, nc) == 0; }
      else {
        std::unique_ptr<Model> model(P(0) >= 0 ? make_model(P(0), nullptr, keep) : nullptr);
        SimuPartitionParam pp(10, P(1) > 0 ? (double) P(1) : 0.001);   // intensity: 0 -> (almost) surely no Poisson plane
        ret = (sub == 0 ? tessellation_voronoi(g, model.get(), pp, 4321, false, nc) : tessellation_poisson(g, model.get(), pp, 4321, false, nc)) == 0;
      }
    } else if (id == 13) {    // CalcSimuEden: p = (nfacies nfluids niter) ; aux = (name_facies name_fluid)
      DbGrid* g = dynamic_cast<DbGrid*>(dout);
      VectorString names; for (auto& s : c[8].l) names.push_back(s.str());
      if (g == nullptr || names.size() < 2) ret = -2;
      else ret = fluid_propagation(g, names[0], names[1], "", "", (int) P(0), (int) P(1), (int) P(2), VectorInt(), false, TEST, TEST, 4321, false, nc) == 0;
    } else ret = -2;
  } catch (const std::exception& e) {
    verif_set_fail_after(-1);
    fprintf(stderr, "harness: exception escaped the calculator: %s\n", e.what());
    return "(-996 0)";
  }
  verif_set_fail_after(-1);
  int last = verif_get_last_stage();
  std::ostringstream o;
  o << "(" << ret << " " << last << " " << b_in << " " << b_out << " " << dump(din) << " " << dump(dout) << ")";
  return o.str();
}
int main(int argc, char** argv) { return sx_main(argc, argv, run); }

// C14 harness: non-conditional simulators.
//  kind 1 : turning bands run (CalcSimuTurningBands through the same calls as simtub) with the C14 hook trace:
//           final simulated columns, every recorded band contribution, directions, seeds, anisotropy tensors, sills
//  kind 3 : Cholesky-based simulator (MatrixSquareSymmetricSim): factor columns, gaussian draws of a seed, outputs
//  kind 5 : covariance of a model for given increments (for the deterministic band-average evidence)
//  kinds 100.. : parts (Law generators, FFT simulator, Van der Corput, 1-D processes) - see the sections below
#include "sx.hpp"
#include <dlfcn.h>
#include <memory>
// BEGIN PART vdc_std 
#include <cmath>
#include <sstream>
#include <string>
#include <vector>
// END PART vdc_std 
// BEGIN PART proc_std 
#include <algorithm>
#include <cmath>
#include <complex>
#include <fstream>
#include <functional>
#include <iostream>
#include <list>
#include <map>
#include <memory>
#include <random>
#include <set>
#include <sstream>
#include <string>
#include <vector>
// END PART proc_std 
// BEGIN PART fft_std 
#include <algorithm>
#include <cmath>
#include <map>
#include <sstream>
#include <string>
#include <vector>
// END PART fft_std 
// BEGIN PART law_std 
#include <cmath>
#include <sstream>
#include <string>
#include <vector>
// END PART law_std 
//@STD_INCLUDES@
#define private public
#define protected public
#include "Simulation/CalcSimuTurningBands.hpp"
#include "Simulation/TurningBandDirection.hpp"
#include "Simulation/TurningBandOperate.hpp"
#include "Simulation/CalcSimuFFT.hpp"
#include "Simulation/SimuFFTParam.hpp"
#include "Simulation/SimuSpectral.hpp"
#include "LinearOp/MatrixSquareSymmetricSim.hpp"
#include "LinearOp/CholeskyDense.hpp"
#include "Matrix/MatrixSquareSymmetric.hpp"
#include "Matrix/MatrixSquareGeneral.hpp"
#include "Matrix/MatrixRectangular.hpp"
#include "Model/Model.hpp"
#include "Covariances/CovAniso.hpp"
#include "Covariances/CovContext.hpp"
#include "Basic/Tensor.hpp"
#include "Basic/Law.hpp"
#include "Basic/VectorHelper.hpp"
#include "Basic/NamingConvention.hpp"
#include "Db/Db.hpp"
#include "Db/DbGrid.hpp"
#include "Space/SpaceRN.hpp"
#include "geoslib_define.h"

// ----------------------------------------------------------------------------- hook symbols (resolved at run time)
typedef void (*fn_v)();
typedef long long (*fn_size)();
typedef int (*fn_head)(long long, int*, double*);
typedef int (*fn_data)(long long, double*, double*, int*);
static fn_v tb_start = nullptr, tb_stop = nullptr;
static fn_size tb_size = nullptr; static fn_head tb_head = nullptr; static fn_data tb_data = nullptr;
static bool hook_ok() {
  static int st = -1;
  if (st < 0) {
    tb_start = (fn_v) dlsym(RTLD_DEFAULT, "verif_tb_trace_start");
    tb_stop = (fn_v) dlsym(RTLD_DEFAULT, "verif_tb_trace_stop");
    tb_size = (fn_size) dlsym(RTLD_DEFAULT, "verif_tb_trace_size");
    tb_head = (fn_head) dlsym(RTLD_DEFAULT, "verif_tb_trace_head");
    tb_data = (fn_data) dlsym(RTLD_DEFAULT, "verif_tb_trace_data");
    st = (tb_start && tb_stop && tb_size && tb_head && tb_data) ? 1 : 0;
  }
  return st == 1;
}

static std::string matStr(const AMatrix& M) {
  std::ostringstream o; o << "(";
  for (int i = 0; i < M.getNRows(); i++) { o << (i ? " " : "") << "("; for (int j = 0; j < M.getNCols(); j++) o << (j ? " " : "") << sx_d(M.getValue(i, j, false)); o << ")"; }
  o << ")"; return o.str();
}

// model spec: ((type range param (ranges) (angles) (sills))...) (means)
static Model* c14_model(const Sx& m, int ndim, int nvar) {
  CovContext ctxt(nvar, ndim);
  Model* model = Model::create(ctxt);
  for (auto& s : m[0].l) {
    ECov type = ECov::fromValue((int) s[0].i());
    model->addCovFromParam(type, s[1].d(), 1., s[2].d(), s[3].vd(), s[5].vd(), s[4].vd(), true);
  }
  VectorDouble means = m[1].vd();
  if (!means.empty()) model->setMeans(means);
  return model;
}
// db spec: (0 ((x...) (y...) ..) (sel) )  |  (1 (nx..) (dx..) (x0..) (angles) (sel))
static Db* c14_db(const Sx& d, int ndim) {
  if (d[0].i() == 0) {
    int n = (int) d[1][0].size();
    VectorDouble tab; VectorString names, locs;
    for (int i = 0; i < ndim; i++) { auto v = d[1][i].vd(TEST); tab.insert(tab.end(), v.begin(), v.end()); names.push_back("x" + std::to_string(i + 1)); locs.push_back("x" + std::to_string(i + 1)); }
    if (!d[2].l.empty()) { for (auto& b : d[2].l) tab.push_back(b.b() ? 1. : 0.); names.push_back("sel"); locs.push_back("sel"); }
    return Db::createFromSamples(n, ELoadBy::COLUMN, tab, names, locs, false);
  }
  VectorInt nx = d[1].vi(); VectorDouble dx = d[2].vd(), x0 = d[3].vd(), ang = d[4].vd();
  DbGrid* g = DbGrid::create(nx, dx, x0, ang);
  if (!d[5].l.empty()) {
    VectorDouble sel; for (auto& b : d[5].l) sel.push_back(b.b() ? 1. : 0.);
    g->addColumns(sel, "sel", ELoc::SEL);
  }
  return g;
}

static std::string run_tb(const Sx& c) {
  if (!hook_ok()) return "(-996 0)";
  int seed = (int) c[1].i(), nbtuba = (int) c[2].i(), nbsimu = (int) c[3].i(), ndim = (int) c[4].i(), nvar = (int) c[5].i();
  std::unique_ptr<Db> db(c14_db(c[6], ndim));
  std::unique_ptr<Model> model(c14_model(c[7], ndim, nvar));
  if (!db || !model) return "(-997 1)";
  int nech = db->getSampleNumber();
  std::ostringstream o;
  CalcSimuTurningBands tb(nbsimu, nbtuba, false, seed);
  tb.setDbin(nullptr); tb.setDbout(db.get()); tb.setModel(model.get()); tb.setNeigh(nullptr);
  tb.setNamingConvention(NamingConvention("Simu"));
  tb_start();
  bool ok = tb.run();
  tb_stop();
  o << "(" << (ok ? 0 : 1) << " " << nech;
  if (!ok) { o << ")"; return o.str(); }
  // final columns: uid = _iattOut + isimu + nbsimu * jvar
  o << " (";
  for (int isimu = 0; isimu < nbsimu; isimu++) {
    o << (isimu ? " " : "") << "(";
    for (int jvar = 0; jvar < nvar; jvar++) {
      VectorDouble col = db->getColumnByUID(tb._iattOut + isimu + nbsimu * jvar, false);
      o << (jvar ? " " : "") << sx_vd(col);
    }
    o << ")";
  }
  o << ")";
  // records
  long long nr = tb_size();
  o << " (";
  for (long long r = 0; r < nr; r++) {
    int ints[12]; double dbls[2];
    tb_head(r, ints, dbls);
    int nv = ints[7], ne = ints[11];
    std::vector<double> aic(nv), tab(ne); std::vector<int> act(ne);
    tb_data(r, aic.data(), tab.data(), act.data());
    o << (r ? " " : "") << "((";
    for (int k = 0; k < 12; k++) o << (k ? " " : "") << ints[k];
    o << ") " << sx_d(dbls[0]) << " " << sx_d(dbls[1]) << " " << sx_vd(aic) << " " << sx_vd(tab) << " " << sx_vi(act) << ")";
  }
  o << ")";
  // directions
  o << " (";
  for (size_t ibs = 0; ibs < tb._codirs.size(); ibs++) {
    const TurningBandDirection& d = tb._codirs[ibs];
    VectorDouble v = { d.getAng(0), d.getAng(1), d.getAng(2), d.getScale(), d.getTmin(), d.getTmax(), d.getT00(), d.getDXP(), d.getDYP(), d.getDZP() };
    o << (ibs ? " " : "") << sx_vd(v);
  }
  o << ")";
  o << " " << sx_vi(tb._seedBands);
  // structures
  o << " (";
  for (int is = 0; is < model->getCovaNumber(); is++) {
    const CovAniso* cova = model->getCova(is);
    o << (is ? " " : "") << "(" << cova->getType().getValue() << " " << cova->hasRange() << " " << (cova->getFlagAniso() ? 1 : 0) << " "
      << (cova->getFlagRotation() ? 1 : 0) << " " << sx_d(cova->getScale()) << " " << sx_vd(cova->getScales()) << " "
      << matStr(cova->getAnisoRotMat()) << " " << matStr(cova->getAniso().getTensorInverse()) << " " << matStr(model->getSillValues(is)) << " "
      << sx_d(cova->getParam()) << ")";
  }
  o << ")";
  o << " " << sx_vd(model->getMeans());
  o << " " << sx_d(tb._field) << " " << sx_d(tb._theta);
  // coordinates of every sample as the Db gives them (for a DbGrid: through the grid rotation)
  o << " (";
  for (int idim = 0; idim < ndim; idim++) {
    VectorDouble xs(nech);
    for (int iech = 0; iech < nech; iech++) xs[iech] = db->getCoordinate(iech, idim);
    o << (idim ? " " : "") << sx_vd(xs);
  }
  o << ")";
  o << ")";
  return o.str();
}

// kind 3 : (3 n (Sigma rows) seed inverse)
static std::string run_chol(const Sx& c) {
  int n = (int) c[1].i(); int seed = (int) c[3].i(); bool inverse = c[4].b();
  MatrixSquareSymmetric S(n);
  for (int i = 0; i < n; i++) for (int j = 0; j <= i; j++) S.setValue(i, j, c[2][i][j].d());
  MatrixSquareSymmetricSim sim(&S, inverse);
  std::ostringstream o;
  if (sim._factor == nullptr || !sim._factor->isReady()) return "(1)";
  o << "(0 (";
  for (int k = 0; k < n; k++) {
    VectorDouble e(n, 0.), out;
    e[k] = 1.;
    sim.evalSimulate(e, out);
    o << (k ? " " : "") << sx_vd(out);
  }
  o << ")";
  law_set_random_seed(seed);
  VectorDouble g = VH::simulateGaussian(n);
  VectorDouble out;
  sim.evalSimulate(g, out);
  o << " " << sx_vd(g) << " " << sx_vd(out) << ")";
  return o.str();
}

// kind 5 : (5 ndim nvar modelspec ((h...)...)) -> per structure, per increment : C_is(h) for (ivar,jvar) = (0,0), sill included
static std::string run_cov(const Sx& c) {
  int ndim = (int) c[1].i(), nvar = (int) c[2].i();
  std::unique_ptr<Model> model(c14_model(c[3], ndim, nvar));
  std::ostringstream o; o << "(";
  for (int is = 0; is < model->getCovaNumber(); is++) {
    VectorDouble v;
    for (auto& h : c[4].l) v.push_back(model->getCova(is)->evalIvarIpas(1., h.vd(), 0, 0));
    o << (is ? " " : "") << sx_vd(v);
  }
  o << ")";
  return o.str();
}

// BEGIN PART vdc 
// std headers are hoisted by the merge; gstlearn headers are included with private/protected made public




// ---- part vdc (case kinds 300..349): the Van der Corput loop of CalcSimuTurningBands::_generateDirections.
// CalcSimuTurningBands::_generateDirections (src/Simulation/CalcSimuTurningBands.cpp:124-162) is private, sizes its loop
// from the model / Db and applies a RANDOM rotation (lines 166-177) to the directions before anything can be read back,
// so the radical inverses x[0], x[1] are not observable one by one through the library.  This part therefore
// recomputes the loop of lines 141-150 in C++ doubles with a VERBATIM copy of those lines; the tie between this copy
// and the real library is made elsewhere in C14 (Gram matrix of the harvested directions, which is invariant under
// the rotation).  What is checked here: double arithmetic of the loop == exact rational model (Coq VdC.vdc_loop).




// id = p - 2 and ibs = n - 1 as in the library; the body between the markers is copied from lines 141-150
static double vdc_x(int id, int ibs) {
  std::vector<double> x((size_t) (id < 1 ? 2 : id + 1), 0.);   // library: double x[2]; (id in {0,1})
  /* >>> CalcSimuTurningBands.cpp:141-150 */
      int n = 1 + ibs;
      int p = id + 2;
      x[id] = 0;
      double d = id + 2;
      while (n > 0)
      {
        x[id] += (n % p) / d;
        d *= p;
        n /= p;
      }
  /* <<< */
  return x[id];
}

static std::string run_vdc(const Sx& c) {
  long long kind = c[0].i();
  std::ostringstream o;
  if (kind == 300) {                 // (300 p n) -> (x)
    int p = (int) c[1].i(); int n = (int) c[2].i();
    if (p < 2) return "(-997 2)";
    o << "(" << sx_d(vdc_x(p - 2, n - 1)) << ")";
  } else if (kind == 301) {          // (301 p n0 k) -> ((x_n0 ... x_{n0+p^k-1}))
    int p = (int) c[1].i(); long long n0 = c[2].i(); int k = (int) c[3].i();
    if (p < 2 || n0 < 0 || k < 0 || k > 12) return "(-997 2)";
    long long P = 1; for (int i = 0; i < k; i++) P *= p;
    std::vector<double> v;
    for (long long n = n0; n < n0 + P; n++) v.push_back(vdc_x(p - 2, (int) (n - 1)));
    o << "(" << sx_vd(v) << ")";
  } else o << "(-997 1)";
  return o.str();
}
// END PART vdc 
// BEGIN PART proc 
// std headers are hoisted by the merge; gstlearn headers are included with private/protected made public














// C14 part `proc` harness: TurningBandOperate (all process evaluators), _irfProcessInit, _migrationInit,
// _dilutionInit, _spreadSpectralOnGrid, _spreadRegularOnGrid, _getOmegaPhi of CalcSimuTurningBands.
// Case kinds 400..499, see coq/C14/Run_proc.v.














#include "Simulation/TurningBandOperate.hpp"
#include "Simulation/TurningBandDirection.hpp"
#include "Simulation/CalcSimuTurningBands.hpp"


#include "Model/Model.hpp"
#include "Covariances/CovAniso.hpp"
#include "Enum/ECov.hpp"
#include "Basic/Law.hpp"
#include "geoslib_define.h"

static TurningBandOperate proc_mkop(const Sx& st) {
  TurningBandOperate op;
  op.setNt0((int) st[0].i());
  op.setFlagScaled(st[1].b());
  op.setVexp(st[2].d()); op.setTdeb(st[3].d()); op.setOmega(st[4].d()); op.setPhi(st[5].d());
  op.setOffset(st[6].d()); op.setScale(st[7].d());
  op.setT(VectorDouble(st[8].vd())); op.setV0(VectorDouble(st[9].vd()));
  op.setV1(VectorDouble(st[10].vd())); op.setV2(VectorDouble(st[11].vd()));
  return op;
}
static ECov proc_cov(long long code) {
  switch (code) {
    case 0: return ECov::SPHERICAL; case 1: return ECov::CUBIC; case 2: return ECov::EXPONENTIAL;
    case 3: return ECov::GAUSSIAN; case 4: return ECov::SINCARD; case 5: return ECov::BESSELJ;
    case 6: return ECov::LINEAR; case 7: return ECov::ORDER1_GC; case 8: return ECov::ORDER3_GC;
    case 9: return ECov::ORDER5_GC; case 10: return ECov::POWER; case 11: return ECov::SPLINE_GC;
    case 12: return ECov::STABLE; case 13: return ECov::MATERN;
  }
  throw std::runtime_error("proc cov code");
}
// guard replicated from the code: index that shotNoise*One will read
static bool proc_shot_guard(const TurningBandOperate& op, double t0, int* idx) {
  double scale = op.getScale();
  if (!op.isFlagScaled()) t0 /= scale;
  double dt = t0 - op.getTdeb() / scale;
  if (!(std::fabs(dt) < 2.0e9)) { *idx = -1; return false; }
  *idx = (int) dt;
  return *idx >= 0 && *idx < op.getTsize();
}
// the cached rank must be in [0, nt-2] (Proofs_proc_rank.rank_spec: then nothing is read outside _t)
static bool proc_rank_guard(const TurningBandOperate& op) {
  int nt = op.getTsize();
  return nt >= 2 && op.getNt0() >= 0 && op.getNt0() <= nt - 2;
}
static bool proc_irf_guard(const TurningBandOperate& op) {
  int nt = op.getTsize();
  if (!proc_rank_guard(op)) return false;
  if (op.getV0().empty()) return true;
  if ((int) op.getV0().size() < nt - 1) return false;
  if (op.getV1().empty()) return true;
  if ((int) op.getV1().size() < nt - 1) return false;
  if (op.getV2().empty()) return true;
  return (int) op.getV2().size() >= nt - 1;
}
struct ProcCalc {
  Model* model = nullptr;
  CalcSimuTurningBands* calc = nullptr;
  ProcCalc(long long code, double param, double range = 1.) {
    model = Model::createFromParam(proc_cov(code), range, 1., param, VectorDouble(), VectorDouble(), VectorDouble(), nullptr, false);
    if (model == nullptr) throw std::runtime_error("proc model");
    calc = new CalcSimuTurningBands(1, 1, false, 4324324);
    calc->setModel(model);
    calc->_codirs.clear(); calc->_codirs.resize(1);   // one band (what _resize does for nbsimu*nbtuba*ncova = 1)
    calc->_codirs[0] = TurningBandDirection();
  }
  ~ProcCalc() { delete calc; delete model; }
};
static std::string proc_val(double v) { return (v > 1.0e30 && v < 1.3e30) ? std::string("()") : sx_d(v); }

static std::string run_proc(const Sx& c) {
  long long kind = c[0].i();
  std::ostringstream o;
  if (kind == 400 || kind == 401) {
    TurningBandOperate op = proc_mkop(c[1]);
    o << "(";
    for (size_t i = 0; i < c[2].size(); i++) {
      double t0 = c[2][i].d(); int idx;
      if (i) o << " ";
      if (!proc_shot_guard(op, t0, &idx)) { o << "(0 " << idx << ")"; continue; }
      double v = (kind == 400) ? op.shotNoiseAffineOne(t0) : op.shotNoiseCubicOne(t0);
      o << "(1 " << idx << " " << sx_d(v) << ")";
    }
    o << ")";
  } else if (kind == 410 || kind == 420) {
    TurningBandOperate op = proc_mkop(c[1]);
    bool ok = (kind == 410) ? proc_rank_guard(op) : proc_irf_guard(op);
    if (!ok) return "(-2)";
    o << "(";
    for (size_t i = 0; i < c[2].size(); i++) {
      double t0 = c[2][i].d();
      if (i) o << " ";
      double v = (kind == 410) ? op.spectralOne(t0) : op.IRFProcessOne(t0);
      o << "(1 " << op.getNt0() << " " << proc_val(v) << ")";
    }
    o << ")";
  } else if (kind == 430) {
    TurningBandOperate op = proc_mkop(c[1]);
    o << "(";
    for (size_t i = 0; i < c[2].size(); i++) { if (i) o << " "; o << sx_d(op.cosineOne(c[2][i].d())); }
    o << ")";
  } else if (kind == 440) {
    ProcCalc pc(c[1].i(), 1.);
    double theta1 = c[5].d(), scale = c[6].d();
    pc.calc->_theta = 1. / theta1;
    pc.calc->_codirs[0].setScale(scale);
    TurningBandOperate op;
    op.setT(VectorDouble(c[2].vd()));
    int mem = law_get_random_seed();
    law_set_random_seed((int) c[4].i());
    double correc = pc.calc->_irfProcessInit(0, 0, op);
    law_set_random_seed(mem);
    o << "(" << sx_vd(op.getV0().getVector()) << " " << sx_vd(op.getV1().getVector()) << " "
      << sx_vd(op.getV2().getVector()) << " " << sx_d(correc * correc) << " " << sx_d(1. / pc.calc->_theta) << ")";
  } else if (kind == 450 || kind == 451) {
    ProcCalc pc(c[1].i(), c[2].d());
    TurningBandOperate op = proc_mkop(c[3]);
    int nx = (int) c[4].i(), ny = (int) c[5].i(), nz = (int) c[6].i();
    pc.calc->_codirs[0].setT00(c[7].d()); pc.calc->_codirs[0].setDXP(c[8].d());
    pc.calc->_codirs[0].setDYP(c[9].d()); pc.calc->_codirs[0].setDZP(c[10].d());
    const Sx& mk = (kind == 450) ? c[15] : c[11];
    VectorBool active; for (auto& m : mk.l) active.push_back(m.b());
    if ((int) active.size() != nx * ny * nz) throw std::runtime_error("proc mask");
    const double SENT = 7.5e5;
    VectorDouble tab(nx * ny * nz, SENT);
    // precondition guards (the model tells the same): cached rank in range for the Poisson-based processes
    ECov type = pc.model->getCovaType(0);
    o << "(";
    if (kind == 450) {
      double cxp, sxp, cyp, syp, czp, szp, c0z, s0z;
      pc.calc->_getOmegaPhi(0, op, &cxp, &sxp, &cyp, &syp, &czp, &szp, &c0z, &s0z);
      o << "(" << sx_d(c0z) << " " << sx_d(s0z) << " " << sx_d(cxp) << " " << sx_d(sxp) << " " << sx_d(cyp) << " "
        << sx_d(syp) << " " << sx_d(czp) << " " << sx_d(szp) << ") ";
      pc.calc->_spreadSpectralOnGrid(nx, ny, nz, 0, 0, op, active, tab);
    } else {
      bool poisson = !(type == ECov::SPHERICAL || type == ECov::CUBIC);
      if (poisson && !proc_irf_guard(op)) return "(-2)";
      if (!poisson) {
        // every node must fall in an existing cell
        double t0z = c[7].d();
        for (int iz = 0, ind = 0; iz < nz; iz++) { double t0y = t0z; t0z += c[10].d();
          for (int iy = 0; iy < ny; iy++) { double t0 = t0y; t0y += c[9].d();
            for (int ix = 0; ix < nx; ix++, ind++) { int idx; if (active[ind] && !proc_shot_guard(op, t0, &idx)) return "(-2)"; t0 += c[8].d(); } } }
      }
      o << "() ";
      pc.calc->_spreadRegularOnGrid(nx, ny, nz, 0, 0, op, active, tab);
    }
    o << "(";
    for (int i = 0; i < nx * ny * nz; i++) {
      if (i) o << " ";
      if (tab[i] == SENT) o << "(0)"; else o << "(1 " << proc_val(tab[i]) << ")";
    }
    o << "))";
  } else if (kind == 460 || kind == 462) {
    // (460|462 tmin tmax scale x0 x1 (xs..) seed u ...)
    ProcCalc pc(2, 1.);
    pc.calc->_codirs[0].setTmin(c[1].d()); pc.calc->_codirs[0].setTmax(c[2].d());
    TurningBandOperate op;
    int mem = law_get_random_seed();
    law_set_random_seed((int) c[7].i());
    pc.calc->_migrationInit(0, 0, c[3].d(), op);
    law_set_random_seed(mem);
    const std::vector<double>& t = op.getT().getVector();
    if (kind == 460) {
      o << "(" << sx_vd(t) << " " << sx_d(op.getVexp()) << ")";
    } else {
      // digest of a (possibly very long) vector: size, first 3, last 2, sum, non-decreasing ?, number of coincident neighbours
      // (about 1e5 points over a tiny extension: two consecutive points may round to the same double)
      size_t n = t.size(); double sum = 0.; bool incr = true; long ties = 0;
      for (size_t i = 0; i < n; i++) { sum += t[i]; if (i && !(t[i - 1] <= t[i])) incr = false; if (i && t[i - 1] == t[i]) ties++; }
      std::vector<double> first(t.begin(), t.begin() + std::min<size_t>(3, n));
      std::vector<double> last(t.end() - std::min<size_t>(2, n), t.end());
      o << "((" << n << " " << sx_vd(first) << " " << sx_vd(last) << " " << sx_d(sum) << ") " << sx_d(op.getVexp()) << " "
        << (incr ? 1 : 0) << " " << ties << ")";
    }
  } else if (kind == 461) {
    ProcCalc pc(c[1].i(), 1.);
    pc.calc->_codirs[0].setTmin(c[2].d()); pc.calc->_codirs[0].setTmax(c[3].d());
    pc.calc->_codirs[0].setScale(c[4].d());
    TurningBandOperate op;
    int mem = law_get_random_seed();
    law_set_random_seed((int) c[7].i());
    double correc = pc.calc->_dilutionInit(0, 0, op);
    law_set_random_seed(mem);
    o << "(" << sx_d(op.getTdeb()) << " " << op.getTsize() << " " << sx_vd(op.getT().getVector()) << " "
      << sx_d(correc * correc) << ")";
  } else {
    return "(-996 0)";
  }
  return o.str();
}
// END PART proc 
// BEGIN PART fft 
// std headers are hoisted by the merge; the merged harness provides #define private/protected public before the gstlearn headers






// std headers are hoisted by the merge; gstlearn headers are included with private/protected made public






// C14 / part fft : harness (kinds 200..299). Pasted into harness/C14.cpp (sx.hpp already included there).






#include "Simulation/CalcSimuFFT.hpp"
#include "Simulation/SimuFFTParam.hpp"
#include "Simulation/SimuSpectral.hpp"
#include "Model/Model.hpp"
#include "Covariances/CovAniso.hpp"
#include "Db/DbGrid.hpp"
#include "Db/Db.hpp"
#include "Basic/Law.hpp"
#include "Core/fftn.hpp"
#include "Space/ASpaceObject.hpp"
#include "Matrix/MatrixRectangular.hpp"
#include "Matrix/MatrixSquareGeneral.hpp"

static ECov fft_covtype(long long t) {
  switch (t) {
    case 1: return ECov::EXPONENTIAL;
    case 2: return ECov::SPHERICAL;
    case 3: return ECov::GAUSSIAN;
    case 4: return ECov::CUBIC;
    case 5: return ECov::MATERN;
    default: return ECov::SPHERICAL;
  }
}

// set the index state of a CalcSimuFFT by hand (what _alloc does, CalcSimuFFT.cpp:110-144)
static void fft_setdims(CalcSimuFFT& f, int ndim, int a, int b, int c) {
  f._ndim = ndim; f._nvar = 1;
  f._dims = { a, b, c };
  f._dim2 = { a / 2, b / 2, c / 2 };
  int n = a * b * c;
  f._sizes_alloc = n;
  f._cmat = VectorDouble(n, 1.); f._rnd = VectorDouble(n, 0.); f._u = VectorDouble(n, 0.); f._v = VectorDouble(n, 0.);
}

// per memory position: multiplier applied by _defineRandom to the u draw and to the v draw (1, sqrt 2 or 0),
// measured on the real _defineRandom with _cmat = 1 by replaying the generator with the same seed.
static bool fft_variance_rule(CalcSimuFFT& f, std::vector<double>& su, std::vector<double>& sv) {
  int n = f._sizes_alloc;
  VectorDouble keep = f._cmat;
  f._cmat = VectorDouble(n, 1.);
  law_set_random_seed(13579);
  f._defineRandom();
  law_set_random_seed(13579);
  std::vector<double> gu(n), gv(n);
  for (int i = 0; i < n; i++) gu[i] = 1. * law_gaussian();
  for (int i = 0; i < n; i++) gv[i] = 1. * law_gaussian();
  bool ok = true;
  su.assign(n, 1.); sv.assign(n, 1.);
  for (int i = 0; i < n; i++) {
    double s2 = gu[i]; s2 *= sqrt(2.0);
    if (f._u[i] == gu[i]) su[i] = 1.;
    else if (f._u[i] == s2) su[i] = sqrt(2.0);
    else { su[i] = f._u[i] / gu[i]; ok = false; }
    if (f._v[i] == gv[i]) sv[i] = 1.;
    else if (f._v[i] == 0.) sv[i] = 0.;
    else { sv[i] = f._v[i] / gv[i]; ok = false; }
  }
  f._cmat = keep;
  return ok;
}

static std::string run_fft(const Sx& c) {
  long long kind = c[0].i();
  std::ostringstream o;
  if (kind == 200) {
    int number = (int) c[1].i(), large = (int) c[2].i();
    int r = CalcSimuFFT::_getOptimalEvenNumber(number, large);
    VectorInt fs = CalcSimuFFT::_getFactors(number);
    o << "(" << r << " (" << sx_vi(fs) << "))";
  } else if (kind == 210) {
    int ndim = (int) c[1].i(), a = (int) c[2].i(), b = (int) c[3].i(), d = (int) c[4].i();
    int n = a * b * d;
    CalcSimuFFT f(1, false, 1234);
    fft_setdims(f, ndim, a, b, d);
    for (int i = 0; i < n; i++) { f._u[i] = i + 1; f._v[i] = 1000 + i; }
    f._defineSymmetry();
    std::vector<double> U(f._u.begin(), f._u.end()), V(f._v.begin(), f._v.end());
    // _defineRandom / _setVariance pattern
    std::vector<double> su, sv;
    bool ok = fft_variance_rule(f, su, sv);
    std::vector<int> zv, sc;
    for (int i = 0; i < n; i++) { if (sv[i] == 0.) zv.push_back(i); if (su[i] != 1.) sc.push_back(i); }
    o << "(" << sx_vd(U) << " " << sx_vd(V) << " " << sx_vi(zv) << " " << sx_vi(sc) << " " << (ok ? 1 : 0) << ")";
  } else if (kind == 220) {
    // (220 ndim (nx ny nz) covtype sill (ranges) (angles) percent alias [(dx..) (grid angles..) (x0..) (rotation matrix rows | ())])
    // the optional tail describes the geometry of the DbGrid (mesh, rotation, origin); the matrix is for the model side only
    int ndim = (int) c[1].i();
    std::vector<int> NXv = c[2].vi();
    VectorInt NX; for (int i = 0; i < ndim; i++) NX.push_back(NXv[i]);
    ECov type = fft_covtype(c[3].i());
    double sill = c[4].d();
    VectorDouble ranges; for (auto& x : c[5].l) ranges.push_back(x.d());
    VectorDouble angles; for (auto& x : c[6].l) angles.push_back(x.d());
    double percent = c[7].d();
    bool alias = c[8].b();
    defineDefaultSpace(ESpaceType::RN, ndim);
    DbGrid* g = nullptr;
    if (c.size() > 9) {
      VectorDouble DX, GA, X0;
      for (int i = 0; i < ndim; i++) { DX.push_back(c[9][i].d()); GA.push_back(c[10][i].d()); X0.push_back(c[11][i].d()); }
      g = DbGrid::create(NX, DX, X0, GA);
    } else g = DbGrid::create(NX);
    Model* model = Model::createFromParam(type, ranges[0], sill, 1., ranges, VectorDouble(), angles);
    CalcSimuFFT f(1, false, 1234);
    f.setDbout(g); f.setModel(model);
    SimuFFTParam p(alias, percent); f.setParam(p);
    if (!f._check()) { defineDefaultSpace(ESpaceType::RN, 2); return "(-997 2)"; }
    f._ndim = ndim; f._nvar = 1;
    f._alloc(); f._prepar(true);
    int n = f._sizes_alloc;
    int iuid = g->addColumnsByConstant(1, 0.);
    int nn = g->getSampleNumber();
    std::vector<double> cmat(f._cmat.begin(), f._cmat.end());
    std::vector<double> su, sv;
    bool okrule = fft_variance_rule(f, su, sv);
    std::vector<double> cov((size_t) nn * nn, 0.);
    double maxu = 0., maxv = 0.;
    for (int part = 0; part < 2; part++)
      for (int k = 0; k < n; k++) {
        for (int i = 0; i < n; i++) { f._u[i] = 0.; f._v[i] = 0.; }
        if (part == 0) f._u[k] = cmat[k] * su[k]; else f._v[k] = cmat[k] * sv[k];
        if (f._u[k] == 0. && f._v[k] == 0.) continue;
        f._defineSymmetry();
        f._final(g, iuid);
        for (int i = 0; i < n; i++) { maxu = std::max(maxu, fabs(f._u[i])); maxv = std::max(maxv, fabs(f._v[i])); }
        VectorDouble col = g->getColumnByUID(iuid);
        bool any = false; for (int i = 0; i < nn; i++) if (col[i] != 0.) any = true;
        if (!any) continue;
        for (int i = 0; i < nn; i++) { double ci = col[i]; if (ci == 0.) continue; for (int j = 0; j < nn; j++) cov[(size_t) i * nn + j] += ci * col[j]; }
      }
    // geometry of the grid as the library gives it: coordinates of every node (sample order: ix fastest)
    std::vector<double> coords;
    std::vector<VectorDouble> P(nn);
    for (int i = 0; i < nn; i++) { P[i] = g->getSampleCoordinates(i); for (int k = 0; k < ndim; k++) coords.push_back(P[i][k]); }
    auto rank = [&](int ix, int iy, int iz) { return ix + NXv[0] * (iy + (ndim >= 2 ? NXv[1] : 1) * iz); };
    // step vectors X1[j] = node(e_j) - node(0) (what _prepar computes, CalcSimuFFT.cpp:439-453); zero when the grid has one node along j
    std::vector<VectorDouble> X1(ndim, VectorDouble(ndim, 0.));
    for (int j = 0; j < ndim; j++) if (NXv[j] >= 2) {
      int r = rank(j == 0 ? 1 : 0, j == 1 ? 1 : 0, j == 2 ? 1 : 0);
      for (int k = 0; k < ndim; k++) X1[j][k] = P[r][k] - P[0][k];
    }
    // model covariances per index offset: at the real-space lag coord(b) - coord(a) (true), at the lag built with the TRANSPOSED step
    // matrix (regression form), and along the default direction at the same distance (regression: anisotropy ignored)
    int L0 = NXv[0] - 1, L1 = ndim >= 2 ? NXv[1] - 1 : 0, L2 = ndim >= 3 ? NXv[2] - 1 : 0;
    std::vector<double> ctrue, cdist, ctrans, lags;
    for (int lz = -L2; lz <= L2; lz++) for (int ly = -L1; ly <= L1; ly++) for (int lx = -L0; lx <= L0; lx++) {
      int ax = lx < 0 ? -lx : 0, ay = ly < 0 ? -ly : 0, az = lz < 0 ? -lz : 0;
      int ra = rank(ax, ay, az), rb = rank(ax + lx, ay + ly, az + lz);
      int l[3] = { lx, ly, lz };
      VectorDouble d(ndim, 0.), dt(ndim, 0.);
      double h2 = 0.;
      for (int k = 0; k < ndim; k++) { d[k] = P[rb][k] - P[ra][k]; h2 += d[k] * d[k]; lags.push_back(d[k]); }
      for (int i = 0; i < ndim; i++) for (int j = 0; j < ndim; j++) dt[i] += l[j] * X1[i][j];
      ctrue.push_back(model->evaluateOneGeneric(nullptr, d));
      ctrans.push_back(model->evaluateOneGeneric(nullptr, dt));
      cdist.push_back(model->evaluateOneIncr(sqrt(h2)));
    }
    // spectrum terms clipped by _prepar (CalcSimuFFT.cpp:538-548): they show as exact zeros of the amplitude
    int nclip = 0; for (int i = 0; i < n; i++) if (cmat[i] == 0.) nclip++;
    o << "(" << sx_vi(f._dims) << " " << sx_vi(f._shift) << " " << sx_d(maxu) << " " << sx_d(maxv) << " " << (okrule ? 1 : 0)
      << " " << sx_vd(cov) << " " << sx_vd(ctrue) << " " << sx_vd(cdist) << " " << nclip
      << " " << sx_vd(coords) << " " << sx_vd(lags) << " " << sx_vd(ctrans) << ")";
    delete g; delete model;
    defineDefaultSpace(ESpaceType::RN, 2);
  } else if (kind == 240) {
    // (240 ndim (d0 d1 d2) m isign): fftn of the unit impulse at memory position m
    int ndim = (int) c[1].i(); std::vector<int> dims = c[2].vi(); int m = (int) c[3].i(); int isign = (int) c[4].i();
    int n = 1; for (int i = 0; i < ndim; i++) n *= dims[i];
    std::vector<double> re(n, 0.), im(n, 0.); re[m] = 1.;
    int rc = fftn(ndim, dims.data(), re.data(), im.data(), isign, 1.);
    o << "(" << rc << " " << sx_vd(re) << " " << sx_vd(im) << ")";
  } else if (kind == 270) {
    // (270 omega tensor phi (coor...) gamma covtype sill (scales) (angles) mean ssill): injected spectral state, real _computeOnRn
    // (ssill = sqrt(sill) is for the model side only)
    int ns = (int) c[1].size(); int ndim = (int) c[1][0].size();
    defineDefaultSpace(ESpaceType::RN, ndim);
    ECov type = fft_covtype(c[6].i());
    double sill = c[7].d();
    VectorDouble ranges; for (auto& x : c[8].l) ranges.push_back(x.d());
    VectorDouble angles; for (auto& x : c[9].l) angles.push_back(x.d());
    // flagRange = false: 'ranges' are the theoretical scales, so that the tensor is diag(1/scale) * rotation
    Model* model = Model::createFromParam(type, ranges[0], sill, 1., ranges, VectorDouble(), angles, nullptr, false);
    if (!c[10].l.empty()) model->setMean(c[10].d());
    int np = (int) c[4].size();
    VectorDouble tab;
    for (int j = 0; j < ndim; j++) for (int i = 0; i < np; i++) tab.push_back(c[4][i][j].d());
    VectorString names, locs; for (int j = 0; j < ndim; j++) { names.push_back("x" + std::to_string(j + 1)); locs.push_back("x" + std::to_string(j + 1)); }
    Db* db = Db::createFromSamples(np, ELoadBy::COLUMN, tab, names, locs, false);
    SimuSpectral s(model);
    s._ndim = ndim; s._ns = ns; s._isPrepared = true;
    s._phi = c[3].vd(); s._gamma = c[5].vd();
    s._omega = MatrixRectangular(ns, ndim);
    for (int b = 0; b < ns; b++) for (int j = 0; j < ndim; j++) s._omega.setValue(b, j, c[1][b][j].d());
    int rc = s.compute(db, 0, false);
    VectorDouble vals = db->getColumnByColIdx(db->getColumnNumber() - 1, false, false);
    const MatrixSquareGeneral& T = model->getCova(0)->getAniso().getTensorInverse();
    std::vector<double> tv; for (int i = 0; i < ndim; i++) for (int j = 0; j < ndim; j++) tv.push_back(T.getValue(i, j));
    o << "(" << rc << " " << sx_vd(std::vector<double>(vals.begin(), vals.end())) << " " << sx_vd(tv) << ")";
    delete db; delete model;
    defineDefaultSpace(ESpaceType::RN, 2);
  } else if (kind == 271) {
    // (271 ndim covtype ns seed (sills...) (ranges) (angles) (coor...) [(nx..) (dx..) (x0..) (grid angles..)]): the real simuSpectral for several
    // sills, same seed; with the optional tail the target is the (rotated) DbGrid of that geometry, whose nodes the case lists in (coor...);
    // harvest of _omega/_gamma/_phi through SimuSpectral::simulate + compute
    int ndim = (int) c[1].i(); ECov type = fft_covtype(c[2].i()); int ns = (int) c[3].i(); int seed = (int) c[4].i();
    VectorDouble ranges; for (auto& x : c[6].l) ranges.push_back(x.d());
    VectorDouble angles; for (auto& x : c[7].l) angles.push_back(x.d());
    defineDefaultSpace(ESpaceType::RN, ndim);
    int np = (int) c[8].size();
    VectorDouble tab;
    for (int j = 0; j < ndim; j++) for (int i = 0; i < np; i++) tab.push_back(c[8][i][j].d());
    VectorString names, locs; for (int j = 0; j < ndim; j++) { names.push_back("x" + std::to_string(j + 1)); locs.push_back("x" + std::to_string(j + 1)); }
    o << "(";
    for (auto& sx : c[5].l) {
      double sill = sx.d();
      Model* model = Model::createFromParam(type, ranges[0], sill, 1., ranges, VectorDouble(), angles);
      Db* db = nullptr;
      if (c.size() > 9) {
        VectorInt NX; VectorDouble DX, X0, GA;
        for (int i = 0; i < ndim; i++) { NX.push_back((int) c[9][i].i()); DX.push_back(c[10][i].d()); X0.push_back(c[11][i].d()); GA.push_back(c[12][i].d()); }
        db = DbGrid::create(NX, DX, X0, GA);
      } else db = Db::createFromSamples(np, ELoadBy::COLUMN, tab, names, locs, false);
      // public entry point
      int rc = simuSpectral(nullptr, db, model, 1, seed, ns, 100, false);
      VectorDouble vals = db->getColumnByColIdx(db->getColumnNumber() - 1, false, false);
      // same state through the class (law_set_random_seed(seed) then simulate(ns, 0)) to harvest the private draws
      SimuSpectral s(model);
      law_set_random_seed(seed);
      int rc2 = s.simulate(ns, 0, false, 100);
      std::vector<double> om; if (rc2 == 0) for (int b = 0; b < ns; b++) for (int j = 0; j < ndim; j++) om.push_back(s._omega.getValue(b, j));
      const MatrixSquareGeneral& T = model->getCova(0)->getAniso().getTensorInverse();
      std::vector<double> tv; if (model->getCovaNumber() == 1) for (int i = 0; i < ndim; i++) for (int j = 0; j < ndim; j++) tv.push_back(T.getValue(i, j));
      o << "(" << rc << " " << rc2 << " " << sx_d(model->getSill(0, 0, 0)) << " " << sx_vd(std::vector<double>(vals.begin(), vals.end())) << " " << sx_vd(om) << " "
        << sx_vd(std::vector<double>(s._gamma.begin(), s._gamma.end())) << " " << sx_vd(std::vector<double>(s._phi.begin(), s._phi.end())) << " " << sx_vd(tv) << ")";
      delete db; delete model;
    }
    o << ")";
    defineDefaultSpace(ESpaceType::RN, 2);
  } else o << "(-997 1)";
  return o.str();
}
// END PART fft 
// BEGIN PART law 
// std headers are hoisted by the merge; gstlearn headers are included with private/protected made public




// C14 / law: harness part (case kinds 100..199): the generators of src/Basic/Law.cpp, old-style generator.
// Same case format as coq/C14/Run_law.v.  After every call the state is read with law_get_random_seed().
// The trailing ee / flip fields of the kinds 105..109 are for the model only (the library has its own compiled constant and code).




#include "Basic/Law.hpp"
#include "geoslib_define.h"

static std::string law_opt_int(int x) { return x == ITEST ? std::string("()") : std::to_string(x); }

static std::string run_law(const Sx& c)
{
  long long kind = c[0].i();
  std::ostringstream o;
  law_set_old_style(true);
  if (kind == 111)
  {
    o << "(" << sx_d(law_invcdf_gaussian(c[1].d())) << ")";
    return o.str();
  }
  int seed = (int) c[1].i();
  law_set_random_seed(seed);
  if (kind == 112)
  {
    // support of law_gamma(alpha): (112 seed N alpha b0 b1 b2 b3) -> numbers of values in ]b0,b1], ]b1,b2], ]b2,b3] among N successive
    // calls, and GV_EE as compiled (spec evaluation of the check, independent of the model)
    long long N = c[2].i(), n1 = 0, n2 = 0, n3 = 0;
    double al = c[3].d(), b0 = c[4].d(), b1 = c[5].d(), b2 = c[6].d(), b3 = c[7].d();
    for (long long i = 0; i < N; i++)
    {
      double x = law_gamma(al, 1.);
      if (x > b0 && x <= b1) n1++;
      else if (x > b1 && x <= b2) n2++;
      else if (x > b2 && x <= b3) n3++;
    }
    o << "(" << n1 << " " << n2 << " " << n3 << " " << sx_d((double) GV_EE) << ")";
    return o.str();
  }
  if (kind == 110)
  {
    VectorInt path = law_random_path((int) c[2].i());
    int st = law_get_random_seed();
    o << "(" << st << " (";
    for (size_t i = 0; i < path.size(); i++) o << (i ? " " : "") << path[i];
    o << "))";
    return o.str();
  }
  int k = (int) c[2].i();
  o << "(";
  for (int i = 0; i < k; i++)
  {
    if (i) o << " ";
    switch (kind)
    {
      case 100: { double x = law_uniform(c[3].d(), c[4].d()); o << "(" << law_get_random_seed() << " " << sx_d(x) << ")"; break; }
      case 101: { int r = law_int_uniform((int) c[3].i(), (int) c[4].i()); o << "(" << law_get_random_seed() << " " << r << ")"; break; }
      case 102: { int r = sampleInteger((int) c[3].i(), (int) c[4].i()); o << "(" << law_get_random_seed() << " " << r << ")"; break; }
      case 103: { double x = law_gaussian(c[3].d(), c[4].d()); o << "(" << law_get_random_seed() << " " << sx_d(x) << ")"; break; }
      case 104: { double x = law_exponential(c[3].d()); o << "(" << law_get_random_seed() << " " << sx_d(x) << ")"; break; }
      case 105: { double x = law_gamma(c[3].d(), 1.); o << "(" << law_get_random_seed() << " " << sx_d(x) << ")"; break; }
      case 106: { double x = law_beta1(c[3].d(), c[4].d()); o << "(" << law_get_random_seed() << " " << sx_d(x) << ")"; break; }
      case 107: { double x = law_beta2(c[3].d(), c[4].d()); o << "(" << law_get_random_seed() << " " << sx_d(x) << ")"; break; }
      case 108: { int r = law_poisson(c[3].d()); o << "(" << law_get_random_seed() << " " << law_opt_int(r) << ")"; break; }
      case 109: { int r = law_binomial((int) c[3].i(), c[4].d()); o << "(" << law_get_random_seed() << " " << r << ")"; break; }
      default: return "(-997 1)";
    }
  }
  o << ")";
  return o.str();
}
// END PART law 
//@PARTS@

static std::string run(const Sx& c) {
  long long kind = c[0].i();
  if (kind == 0) return hook_ok() ? "(1)" : "(0)";
  if (kind == 1) return run_tb(c);
  if (kind == 3) return run_chol(c);
  if (kind == 5) return run_cov(c);
  // BEGIN PART vdc_disp 
  if (kind >= 300 && kind <= 349) return run_vdc(c);
// END PART vdc_disp 
// BEGIN PART proc_disp 
  if (kind >= 400 && kind <= 499) return run_proc(c);
// END PART proc_disp 
// BEGIN PART fft_disp 
  if (kind >= 200 && kind <= 299) return run_fft(c);
// END PART fft_disp 
// BEGIN PART law_disp 
  if (kind >= 100 && kind <= 199) return run_law(c);
// END PART law_disp 
//@DISPATCH@
  return "(-997 1)";
}
int main(int argc, char** argv) { return sx_main(argc, argv, run); }

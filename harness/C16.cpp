// C16 harness: Grid / Rotation / DbGrid geometry conversions on the same cases as the Coq model (coq/C16/Run.v).
#include "sx.hpp"
#include <unistd.h>
#include <sys/wait.h>
#include <sys/select.h>
#include <signal.h>
#include <cstring>
#include <functional>
#include "Basic/Grid.hpp"
#include "Geometry/Rotation.hpp"
#include "Geometry/GeometryHelper.hpp"
#include "Matrix/MatrixSquareGeneral.hpp"
#include "Db/Db.hpp"
#include "Db/DbGrid.hpp"
#include "Basic/NamingConvention.hpp"
#include "Calculators/CalcMigrate.hpp"
#include "Enum/ELoc.hpp"
#include "Enum/ELoadBy.hpp"
#include "geoslib_define.h"
#include "geoslib_old_f.h"

typedef std::vector<double> VD;
typedef std::vector<int> VI;

static VD deep(const VectorDouble& v) { VD r(v.size()); for (size_t i = 0; i < v.size(); i++) r[i] = v.getVector()[i]; return r; }
static VI deepi(const VectorInt& v) { VI r(v.size()); for (size_t i = 0; i < v.size(); i++) r[i] = v.getVector()[i]; return r; }
static VectorDouble toVD(const VD& v) { VectorDouble r(v.size()); for (size_t i = 0; i < v.size(); i++) r[i] = v[i]; return r; }
static VectorInt toVI(const VI& v) { VectorInt r(v.size()); for (size_t i = 0; i < v.size(); i++) r[i] = v[i]; return r; }

struct GSpec { int ndim; VI nx; VD x0, dx; int mode; VD angles; std::vector<VD> M; };
static GSpec readG(const Sx& G) {
  GSpec s; s.nx = G[0].vi(); s.x0 = G[1].vd(); s.dx = G[2].vd(); s.ndim = (int) s.nx.size(); s.mode = 0;
  if (G[3].size() > 0) {
    s.mode = (int) G[3][0].i(); s.angles = G[3][1].vd();
    for (auto& r : G[3][2].l) s.M.push_back(r.vd());
  }
  return s;
}
// returns false when the rotation matrix used by the library differs from the one given in the case
static bool makeGrid(const GSpec& s, Grid& g) {
  g = Grid(s.ndim, toVI(s.nx), toVD(s.x0), toVD(s.dx));
  if (s.mode == 1) g.setRotationByAngles(toVD(s.angles));
  else if (s.mode == 2) {
    VD cm; for (int j = 0; j < s.ndim; j++) for (int i = 0; i < s.ndim; i++) cm.push_back(s.M[i][j]);
    g.setRotationByVector(toVD(cm));
  }
  if (s.mode == 0) return true;
  VD rm = deep(g.getRotMat());   // column-major
  for (int j = 0; j < s.ndim; j++) for (int i = 0; i < s.ndim; i++) if (rm[j * s.ndim + i] != s.M[i][j]) return false;
  return true;
}
static DbGrid* makeDbGrid(const GSpec& s, bool addCoor = true) {
  if (s.mode == 2) return nullptr;
  return DbGrid::create(toVI(s.nx), toVD(s.dx), toVD(s.x0), s.mode == 1 ? toVD(s.angles) : VectorDouble(),
                        ELoadBy::SAMPLE, VectorDouble(), VectorString(), VectorString(), true, addCoor);
}
static std::string matRows(const MatrixSquareGeneral& m, int n) {
  std::string s = "(";
  for (int i = 0; i < n; i++) { VD r; for (int j = 0; j < n; j++) r.push_back(m.getValue(i, j)); s += (i ? " " : "") + sx_vd(r); }
  return s + ")";
}
static bool dbMatOk(const GSpec& s, const DbGrid* db) {
  if (s.mode == 0) return !db->getGrid().isRotated();
  VD rm = deep(db->getGrid().getRotMat());
  for (int j = 0; j < s.ndim; j++) for (int i = 0; i < s.ndim; i++) if (rm[j * s.ndim + i] != s.M[i][j]) return false;
  return true;
}

// run f in a forked child with a time limit; the child writes its answer to a pipe.
// returns "" on timeout / crash (status in *why: 1 timeout, 2 crash)
static std::string inChild(int seconds, int* why, const std::function<std::string()>& f) {
  int fd[2]; *why = 0;
  if (pipe(fd) != 0) { *why = 2; return ""; }
  fflush(stdout); fflush(stderr);
  pid_t pid = fork();
  if (pid == 0) {
    close(fd[0]); alarm(seconds + 1);
    std::string r = f();
    ssize_t w = write(fd[1], r.c_str(), r.size()); (void) w;
    _exit(0);
  }
  close(fd[1]);
  std::string out; char buf[4096];
  fd_set set; struct timeval tv; tv.tv_sec = seconds; tv.tv_usec = 0;
  bool timed = false;
  for (;;) {
    FD_ZERO(&set); FD_SET(fd[0], &set);
    int rv = select(fd[0] + 1, &set, NULL, NULL, &tv);
    if (rv <= 0) { timed = true; break; }
    ssize_t n = read(fd[0], buf, sizeof buf);
    if (n <= 0) break;
    out.append(buf, (size_t) n);
  }
  close(fd[0]);
  if (timed) kill(pid, SIGKILL);
  int st = 0; waitpid(pid, &st, 0);
  if (timed) { *why = 1; return ""; }
  if (!WIFEXITED(st) || WEXITSTATUS(st) != 0 || out.empty()) { *why = 2; return ""; }
  return out;
}

// one const query on the object G (db: the DbGrid owning G, or nullptr); encodings in coq/C16/Run.v
static std::string answerQuery(const Grid& G, DbGrid* db, int ndim, const Sx& q) {
  int f = (int) q[0].i();
  std::ostringstream a;

      if (f == 0) a << sx_d(G.getCoordinate((int) q[1].i(), (int) q[2].i(), true));
      else if (f == 1) a << sx_d(db != nullptr ? db->getCoordinate((int) q[1].i(), (int) q[2].i()) : G.getCoordinate((int) q[1].i(), (int) q[2].i(), true));
      else if (f == 20) a << sx_d(G.rankToCoordinate((int) q[2].i(), (int) q[1].i()));
      else if (f == 2) { VI idx(ndim, 0); G.rankToIndice((int) q[1].i(), idx, false); a << sx_vi(idx); }
      else if (f == 3) { VI ind = q[1].vi(); a << G.indiceToRank(ind); }
      else if (f == 4) a << G.coordinateToRank(toVD(q[1].vd()), q[2].b(), q[3].d());
      else if (f == 19) a << (db != nullptr ? db->coordinateToRank(toVD(q[1].vd()), q[2].b(), q[3].d()) : G.coordinateToRank(toVD(q[1].vd()), q[2].b(), q[3].d()));
      else if (f == 5) { VectorInt idx(ndim); int err = G.coordinateToIndicesInPlace(toVD(q[1].vd()), idx, q[2].b(), q[3].d()); a << "(" << (err != 0 ? 1 : 0) << " " << sx_vi(deepi(idx)) << ")"; }
      else if (f == 6) a << sx_vd(deep(G.getCoordinatesByRank((int) q[1].i(), true)));
      else if (f == 9) a << sx_vd(deep(G.rankToCoordinates((int) q[1].i())));
      else if (f == 18) a << sx_vd(deep(db != nullptr ? db->getCoordinatesPerSample((int) q[1].i()) : G.getCoordinatesByRank((int) q[1].i(), true)));
      else if (f == 7) a << sx_vd(deep(G.getCoordinatesByIndice(toVI(q[1].vi()), true)));
      else if (f == 8) a << sx_vd(deep(G.getCoordinatesByCorner(toVI(q[1].vi()))));
      else if (f == 10) a << (G.sampleBelongsToCell(toVD(q[1].vd()), (int) q[2].i()) ? 1 : 0);
      else if (f == 11) a << sx_vi(deepi(G.getCenterIndices()));
      else if (f == 12 || f == 13 || f == 14) {
        VectorInt nx(ndim); VectorDouble dx(ndim), x0(ndim);
        for (int d = 0; d < ndim; d++) { nx[d] = -777; dx[d] = TEST; x0[d] = TEST; }
        if (f == 12) G.multiple(toVI(q[1].vi()), q[2].b(), nx, dx, x0);
        else if (f == 13) G.divider(toVI(q[1].vi()), q[2].b(), nx, dx, x0);
        else G.dilate((int) q[2].i(), toVI(q[1].vi()), nx, dx, x0);
        VI nxc = deepi(nx); bool ok = true; for (int v : nxc) if (v <= 0) ok = false;
        if (ok) a << "(1 " << sx_vi(nxc) << " " << sx_vd(deep(dx)) << " " << sx_vd(deep(x0)) << ")"; else a << "(0)";
      }
      else if (f == 15) a << sx_vd(deep(G.indicesToCoordinate(toVI(q[1].vi()), toVD(q[2].vd()))));
      else if (f == 16) a << sx_vd(deep(G.getCellCoordinatesByCorner((int) q[1].i(), toVI(q[2].vi()))));
      else if (f == 17) {
        int k = (int) q[1].i(); Grid& GI = const_cast<Grid&>(G);   // same object (it is not const itself)
        GI.iteratorInit();
        a << "("; for (int i = 0; i < k; i++) a << (i ? " " : "") << sx_vi(deepi(GI.iteratorNext())); a << ")";
      }
      else if (f == 21) { VI ind = q[1].vi(); a << sx_d(G.indiceToCoordinate((int) q[2].i(), ind, {}, true)); }
      else if (f == 22) {
        VD coor = q[1].vd(); VI pidx(ndim, 0);
        if (db != nullptr) { int pout = point_to_grid(db, coor.data(), -1, pidx.data()); a << "(" << (pout != 0 ? 1 : 0) << " " << sx_vi(pidx) << ")"; }
        else { VectorInt idx(ndim); int err = G.coordinateToIndicesInPlace(toVD(coor), idx, true, 0.); a << "(" << (err != 0 ? 1 : 0) << " " << sx_vi(deepi(idx)) << ")"; }
      }
      else a << "(-997 4)";
  return a.str();
}

static std::string run(const Sx& c) {
  long long kind = c[0].i();
  std::ostringstream o;
  if (kind == 0) {            // harvest: (0 ndim angles) -> (M flag ((c s)...))
    int n = (int) c[1].i(); VD ang = c[2].vd();
    Rotation rot(n); rot.setAngles(toVD(ang));
    o << "(" << matRows(rot.getMatrixDirect(), n) << " " << (rot.isRotated() ? 1 : 0) << " (";
    int na = (n == 2) ? 1 : (n == 3 ? 3 : 0);
    for (int k = 0; k < na; k++) { double ca, sa; GH::rotationGetSinCos(k < (int) ang.size() ? ang[k] : 0., &ca, &sa); o << (k ? " " : "") << "(" << sx_d(ca) << " " << sx_d(sa) << ")"; }
    o << "))";
  } else if (kind == 1) {     // rank <-> indices
    GSpec s = readG(c[1]); Grid g; bool mok = makeGrid(s, g);
    bool minusOne = c[2].b();
    o << "((";
    bool first = true;
    for (auto& r : c[3].l) {
      VI idx(s.ndim, 0);
      g.rankToIndice((int) r.i(), idx, minusOne);
      int back = g.indiceToRank(idx);
      o << (first ? "" : " ") << "(" << sx_vi(idx) << " " << back << ")"; first = false;
    }
    o << ") (";
    first = true;
    for (auto& iv : c[4].l) {
      VI idx = iv.vi();
      int r = g.indiceToRank(idx);
      VI back(s.ndim, 0);
      g.rankToIndice(r, back, false);
      o << (first ? "" : " ") << "(" << r << " " << sx_vi(back) << ")"; first = false;
    }
    o << ") " << (mok ? 1 : 0) << ")";
  } else if (kind == 2) {     // indices -> coordinates -> indices
    GSpec s = readG(c[1]); Grid g; bool mok = makeGrid(s, g);
    o << "(";
    bool first = true;
    for (auto& it : c[2].l) {
      VI ind = it[0].vi(); VD pc = it[1].vd(); bool fr = it[2].b(), ce = it[3].b(); double eps = it[4].d();
      VD coor(s.ndim, 0.);
      if (pc.empty()) g.indicesToCoordinateInPlace(ind, coor, {}, fr);
      else g.indicesToCoordinateInPlace(ind, coor, pc, fr);
      VectorInt idx(s.ndim);
      int err = g.coordinateToIndicesInPlace(toVD(coor), idx, ce, eps);
      VI idxc = deepi(idx);
      int rank = g.coordinateToRank(toVD(coor), ce, eps);
      VD cbi = deep(g.getCoordinatesByIndice(toVI(ind), fr));
      // the other entry points of the same computation must agree bit for bit
      bool alt = true;
      for (int d = 0; d < s.ndim; d++) {
        double v = pc.empty() ? g.indiceToCoordinate(d, ind, {}, fr) : g.indiceToCoordinate(d, ind, pc, fr);
        if (v != coor[d]) alt = false;
      }
      if (fr) {
        VD c2 = deep(g.indicesToCoordinate(toVI(ind), toVD(pc)));
        for (int d = 0; d < s.ndim; d++) if (c2[d] != coor[d]) alt = false;
      }
      VI e2 = deepi(g.coordinateToIndices(toVD(coor), ce, eps));
      if (err == 0) { for (int d = 0; d < s.ndim; d++) if ((int) e2.size() != s.ndim || e2[d] != idxc[d]) alt = false; }
      else if (!e2.empty()) alt = false;
      o << (first ? "" : " ") << "(" << sx_vd(coor) << " " << err << " " << sx_vi(idxc) << " " << rank << " " << sx_vd(cbi) << " " << (alt ? 1 : 0) << ")";
      first = false;
    }
    o << " " << (mok ? 1 : 0) << ")";
  } else if (kind == 3) {     // query points
    GSpec s = readG(c[1]); Grid g; bool mok = makeGrid(s, g);
    DbGrid* db = makeDbGrid(s, false);
    o << "(";
    bool first = true;
    for (auto& it : c[2].l) {
      VD coor = it[0].vd(); bool ce = it[1].b(); double eps = it[2].d(); int rk = (int) it[3].i(); VD dxs = it[4].vd(); VI sh = it[5].vi();
      VectorInt idx(s.ndim);
      int err = g.coordinateToIndicesInPlace(toVD(coor), idx, ce, eps);
      VI idxc = deepi(idx);
      int rank = g.coordinateToRank(toVD(coor), ce, eps);
      std::string ptg = "()";
      if (db != nullptr) {
        VI pidx(s.ndim, 0);
        int pout = point_to_grid(db, coor.data(), -1, pidx.data());
        ptg = "(" + std::to_string(pout) + " " + sx_vi(pidx) + ")";
      }
      bool bel = g.sampleBelongsToCell(toVD(coor), rk, toVD(dxs));
      int rc = g.coordinateToRank(toVD(coor), true, 0.);
      int belown = -1;
      if (rc >= 0) belown = g.sampleBelongsToCell(toVD(coor), rc) ? 1 : 0;
      VD ccc = deep(g.getCellCoordinatesByCorner(rk, toVI(sh), toVD(dxs)));
      VD cor = deep(g.getCoordinatesByCorner(toVI(sh)));
      // rank -> coordinates variants must agree
      VD rc1 = deep(g.rankToCoordinates(rk)); VD rc2 = deep(g.getCoordinatesByRank(rk, true));
      bool alt = true;
      for (int d = 0; d < s.ndim; d++) if (rc1[d] != rc2[d] || g.getCoordinate(rk, d, true) != rc1[d] || g.rankToCoordinate(d, rk) != rc1[d]) alt = false;
      o << (first ? "" : " ") << "(" << err << " " << sx_vi(idxc) << " " << rank << " " << ptg << " " << (bel ? 1 : 0) << " " << rc << " " << belown
        << " " << sx_vd(ccc) << " " << sx_vd(cor) << " " << (alt ? 1 : 0) << " " << sx_vd(rc1) << ")";
      first = false;
    }
    o << " " << (mok && (db == nullptr || dbMatOk(s, db)) ? 1 : 0) << ")";
    delete db;
  } else if (kind == 4) {     // multiple / divider / dilate
    GSpec s = readG(c[1]); Grid g; bool mok = makeGrid(s, g);
    int op = (int) c[2].i(); VI a = c[3].vi(); int b = (int) c[4].i();
    VectorInt nx(s.ndim); VectorDouble dx(s.ndim), x0(s.ndim);
    for (int d = 0; d < s.ndim; d++) { nx[d] = -777; dx[d] = TEST; x0[d] = TEST; }
    if (op == 0) g.multiple(toVI(a), b != 0, nx, dx, x0);
    else if (op == 1) g.divider(toVI(a), b != 0, nx, dx, x0);
    else g.dilate(b, toVI(a), nx, dx, x0);
    VI nxc = deepi(nx); bool ok = true; for (int v : nxc) if (v <= 0) ok = false;
    if (ok) o << "(1 " << sx_vi(nxc) << " " << sx_vd(deep(dx)) << " " << sx_vd(deep(x0)) << " " << (mok ? 1 : 0) << ")";
    else o << "(0)";
  } else if (kind == 5) {     // generateMirrorIndex in a child with a time limit
    int nx = (int) c[1].i(), ix = (int) c[2].i(); int why = 0;
    std::string r = inChild(2, &why, [&]() { return std::to_string(Grid::generateMirrorIndex(nx, ix)); });
    if (why == 0) o << "((1 " << r << "))"; else o << "((0 " << why << "))";
  } else if (kind == 6) {     // DbGrid level
    GSpec s = readG(c[1]); int op = (int) c[2].i(); int nmax = (int) c[5].i();
    DbGrid* db = makeDbGrid(s, true);
    if (db == nullptr) return "(-997 2)";
    bool mok = dbMatOk(s, db);
    DbGrid* out = nullptr;
    if (op == 1 || op == 2) {   // a variable to be migrated onto the derived grid: 1000 + rank
      int ng = db->getSampleNumber(); VectorDouble z(ng); for (int i = 0; i < ng; i++) z[i] = 1000. + i;
      db->addColumns(z, "z", ELoc::Z);
    }
    if (op == 0) out = db;
    else if (op == 1) out = DbGrid::createCoarse(db, toVI(c[3].vi()), c[4].b());
    else if (op == 2) out = DbGrid::createRefine(db, toVI(c[3].vi()), c[4].b());
    else {
      VI l0 = c[3].vi(), l1 = c[4].vi(); VectorVectorInt lim;
      for (int d = 0; d < s.ndim; d++) lim.push_back(VectorInt({l0[d], l1[d]}));
      out = DbGrid::createSubGrid(db, lim, true);
    }
    if (out == nullptr) { delete db; return "(-997 3)"; }
    int nd = out->getNDim(); int n = out->getSampleNumber(); if (n > nmax) n = nmax;
    o << "(" << sx_vi(deepi(out->getNXs())) << " " << sx_vd(deep(out->getDXs())) << " " << sx_vd(deep(out->getX0s())) << " "
      << matRows(out->getGrid().getRotation().getMatrixDirect(), nd) << " (";
    for (int r = 0; r < n; r++) { VD v; for (int d = 0; d < nd; d++) v.push_back(out->getCoordinate(r, d)); o << (r ? " " : "") << sx_vd(v); }
    o << ") (";
    std::vector<VD> cols;
    for (int d = 0; d < nd; d++) cols.push_back(deep(out->getColumnByLocator(ELoc::X, d, false, false)));
    bool has = true; for (auto& cc : cols) if ((int) cc.size() < n) has = false;
    if (has) for (int r = 0; r < n; r++) { VD v; for (int d = 0; d < nd; d++) v.push_back(cols[d][r]); o << (r ? " " : "") << sx_vd(v); }
    o << ") " << (mok ? 1 : 0) << " " << out->getSampleNumber() << " (";
    if (op == 1 || op == 2) {
      VD zc = deep(out->getColumn("z", false, false));
      for (int r = 0; r < n && r < (int) zc.size(); r++) o << (r ? " " : "") << sx_d(zc[r]);
    }
    o << "))";
    if (out != db) delete out;
    delete db;
  } else if (kind == 7) {     // migrate grid -> points: value = rank of the node the point is assigned to
    GSpec s = readG(c[1]);
    DbGrid* db = makeDbGrid(s, false);
    if (db == nullptr) return "(-997 2)";
    bool mok = dbMatOk(s, db);
    int ng = db->getSampleNumber();
    VectorDouble z(ng); for (int i = 0; i < ng; i++) z[i] = (double) i;
    db->addColumns(z, "z", ELoc::Z);
    int np = (int) c[3].size();
    VectorDouble tab((size_t) np * s.ndim);
    for (int d = 0; d < s.ndim; d++) for (int i = 0; i < np; i++) tab[(size_t) d * np + i] = c[3][i][d].d();
    VectorString names, locs;
    for (int d = 0; d < s.ndim; d++) { names.push_back("c" + std::to_string(d + 1)); locs.push_back("x" + std::to_string(d + 1)); }
    Db* dp = Db::createFromSamples(np, ELoadBy::COLUMN, tab, names, locs, false);
    int err = migrate(db, dp, "z", 1, VectorDouble(), false, false, false);
    VD r = deep(dp->getColumnByColIdx(dp->getColumnNumber() - 1, false, false));
    o << "((";
    for (int i = 0; i < np; i++) { long long v = (err == 0 && i < (int) r.size() && r[i] < 1.0e30 && std::isfinite(r[i])) ? (long long) r[i] : -1; o << (i ? " " : "") << v; }
    o << ") " << (mok ? 1 : 0) << " " << err << ")";
    delete dp; delete db;
  } else if (kind == 8) {     // iterator
    GSpec s = readG(c[1]); Grid g; bool mok = makeGrid(s, g);
    int k = (int) c[2].i(); VI ord = c[3].vi();
    auto body = [&]() {
      std::ostringstream q;
      g.iteratorInit(toVI(ord));
      q << "(";
      for (int i = 0; i < k; i++) { VI v = deepi(g.iteratorNext()); q << (i ? " " : "") << sx_vi(v); }
      q << ")";
      return q.str();
    };
    if (ord.empty()) o << "(1 " << body() << " " << (mok ? 1 : 0) << ")";
    else {
      int why = 0; std::string r = inChild(5, &why, body);
      if (why == 0) o << "(1 " << r << " " << (mok ? 1 : 0) << ")"; else o << "(0 " << why << ")";
    }
  } else if (kind == 9) {     // Rotation object: (9 n angles cs M vecs)
    int n = (int) c[1].i(); VD ang = c[2].vd();
    Rotation rot(n); rot.setAngles(toVD(ang));
    o << "(" << matRows(rot.getMatrixDirect(), n) << " " << (rot.isRotated() ? 1 : 0) << " " << matRows(rot.getMatrixInverse(), n) << " (";
    bool first = true;
    for (auto& vv : c[5].l) {
      VD v = vv.vd(), a(n, 0.), b(n, 0.), d(n, 0.);
      rot.rotateDirect(v, a); rot.rotateInverse(v, b); rot.rotateInverse(a, d);
      o << (first ? "" : " ") << "(" << sx_vd(a) << " " << sx_vd(b) << " " << sx_vd(d) << ")"; first = false;
    }
    o << ") ";
    // matrix -> angles -> matrix, as every path that rebuilds a grid from getAngles() does
    Rotation r2(n); int e2 = r2.setMatrixDirect(rot.getMatrixDirect());
    Rotation r3(n); r3.setAngles(r2.getAngles());
    o << e2 << " " << matRows(r3.getMatrixDirect(), n) << " " << sx_vd(deep(r2.getAngles())) << ")";
  } else if (kind == 10) {    // session: one object, a sequence of const queries (see coq/C16/Run.v for the encodings)
    GSpec s = readG(c[1]); Grid g0; bool mok = makeGrid(s, g0);
    DbGrid* db = makeDbGrid(s, true);
    if (db != nullptr && !dbMatOk(s, db)) mok = false;
    // every Grid query goes to the SAME object: the grid of the DbGrid when there is one
    const Grid& G = (db != nullptr) ? db->getGrid() : g0;
    o << "(";
    bool first = true;
    for (auto& q : c[2].l) {
      std::string as = answerQuery(G, db, s.ndim, q);
      o << (first ? "" : " ") << as; first = false;
    }
    o << " " << (mok ? 1 : 0) << ")";
    delete db;
  } else if (kind == 14) {    // session with mutations on one Grid object
    GSpec s = readG(c[1]); Grid g; bool mok = makeGrid(s, g);
    int ndim = s.ndim;
    auto matok = [&](const Sx& m) {
      VD rm = deep(g.getRotMat()); int n = g.getNDim();
      for (int j = 0; j < n; j++) for (int i = 0; i < n; i++) {
        double want = m.size() == 0 ? (i == j ? 1. : 0.) : m[i][j].d();
        if (rm[j * n + i] != want) return false;
      }
      return true;
    };
    o << "(";
    bool first = true;
    for (auto& q : c[2].l) {
      int f = (int) q[0].i(); std::string as = "()";
      if (f == 100) g.setX0((int) q[1].i(), q[2].d());
      else if (f == 101) g.setDX((int) q[1].i(), q[2].d());
      else if (f == 102) g.setNX((int) q[1].i(), (int) q[2].i());
      else if (f == 103) { g.setRotationByAngles(toVD(q[1].vd())); if (!matok(q[2])) mok = false; }
      else if (f == 104) { VD cm; int n = g.getNDim(); for (int j = 0; j < n; j++) for (int i = 0; i < n; i++) cm.push_back(q[2][i][j].d());
                           g.setRotationByVector(toVD(cm)); if (!matok(q[2])) mok = false; }
      else if (f == 105) { g.resetFromVector(toVI(q[1].vi()), toVD(q[2].vd()), toVD(q[3].vd()), toVD(q[4].vd())); ndim = g.getNDim(); if (!matok(q[5])) mok = false; }
      else as = answerQuery(g, nullptr, ndim, q);
      o << (first ? "" : " ") << as; first = false;
    }
    o << " " << (mok ? 1 : 0) << ")";
  } else if (kind == 16) {    // session on ONE DbGrid object: mutations, db_grid_define_coordinates and the other materialisations of node coordinates
    GSpec s = readG(c[1]);
    DbGrid* db = makeDbGrid(s, true);
    if (db == nullptr) return "(-997 2)";
    bool mok = dbMatOk(s, db);
    int ndim = s.ndim;
    { int ng = db->getSampleNumber(); VectorDouble z(ng); for (int i = 0; i < ng; i++) z[i] = 1000. + i; db->addColumns(z, "z", ELoc::Z); }
    auto rowsOf = [&](bool stored) {
      int n = db->getSampleNumber(); std::string t = "(";
      std::vector<VD> cols;
      if (stored) for (int d = 0; d < ndim; d++) cols.push_back(deep(db->getColumnByLocator(ELoc::X, d, false, false)));
      for (int r = 0; r < n; r++) { VD v; for (int d = 0; d < ndim; d++) v.push_back(stored ? (r < (int) cols[d].size() ? cols[d][r] : TEST) : db->getCoordinate(r, d)); t += (r ? " " : "") + sx_vd(v); }
      return t + ")";
    };
    o << "(";
    bool first = true;
    for (auto& q : c[2].l) {
      int f = (int) q[0].i(); std::string as = "()";
      if (f == 100) db->setX0((int) q[1].i(), q[2].d());
      else if (f == 101) db->setDX((int) q[1].i(), q[2].d());
      else if (f == 103) {
        Grid aux(ndim, db->getNXs(), db->getX0s(), db->getDXs()); aux.setRotationByAngles(toVD(q[1].vd()));
        db->gridCopyParams(4, aux);
        VD rm = deep(db->getGrid().getRotMat());
        for (int j = 0; j < ndim; j++) for (int i = 0; i < ndim; i++) { double want = q[2].size() == 0 ? (i == j ? 1. : 0.) : q[2][i][j].d(); if (rm[j * ndim + i] != want) mok = false; }
      }
      else if (f == 23) { int e = db_grid_define_coordinates(db); as = "(" + rowsOf(true) + " " + rowsOf(false) + " " + std::to_string(e) + ")"; }
      else if (f == 24) { db->generateCoordinates("g"); as = "(" + rowsOf(true) + " " + rowsOf(false) + " 0)"; }
      else if (f == 25) {
        VectorVectorDouble all = db->getAllCoordinates(false); int n = db->getSampleNumber(); as = "(";
        for (int r = 0; r < n; r++) { VD v; for (int d = 0; d < ndim; d++) v.push_back(all[d].getVector()[r]); as += (r ? " " : "") + sx_vd(v); }
        as += ")";
      }
      else if (f == 26) {
        MatrixRectangular m = db->getAllCoordinatesMat(); int n = db->getSampleNumber(); as = "(";
        for (int r = 0; r < n; r++) { VD v; for (int d = 0; d < ndim; d++) v.push_back(m.getValue(r, d)); as += (r ? " " : "") + sx_vd(v); }
        as += ")";
      }
      else if (f == 27) as = sx_vd(deep(db->getSampleCoordinates((int) q[1].i())));
      else if (f == 28) {
        if (ndim == 3) {
          int pos = (int) q[1].i(), ind = (int) q[2].i();
          VectorVectorDouble sl = db->getSlice("z", pos, ind, false);
          int d1 = (pos == 0) ? 1 : 0, d2 = (pos == 2) ? 1 : 2;
          std::string rk = "(", rw = "("; int ecr = 0;
          for (int i1 = 0; i1 < db->getNX(d1); i1++) for (int i2 = 0; i2 < db->getNX(d2); i2++, ecr++) {
            VI idx(3, 0); idx[pos] = ind; idx[d1] = i1; idx[d2] = i2;
            rk += (ecr ? " " : "") + std::to_string(db->getGrid().indiceToRank(idx));
            VD v; for (int d = 0; d < 3; d++) v.push_back(sl.size() == 4 && ecr < (int) sl[d].size() ? sl[d].getVector()[ecr] : TEST);
            rw += (ecr ? " " : "") + sx_vd(v);
          }
          as = "(" + rk + ") " + rw + "))";
        }
      }
      else as = answerQuery(db->getGrid(), db, ndim, q);
      o << (first ? "" : " ") << as; first = false;
    }
    o << " " << (mok ? 1 : 0) << ")";
    delete db;
  } else if (kind == 17) {    // createFromGridShrink (op 0, arg = deleted dimension) / createFromGridExtend (op 1, arg = count of the new dimension)
    GSpec s = readG(c[1]); int op = (int) c[2].i(); int arg = (int) c[3].i();
    DbGrid* db = makeDbGrid(s, true);
    if (db == nullptr) return "(-997 2)";
    bool mok = dbMatOk(s, db);
    DbGrid* ch = nullptr;
    if (op == 0) ch = DbGrid::createFromGridShrink(*db, VectorInt({arg}));
    else {
      int ng = db->getSampleNumber(); VectorDouble top(ng), bot(ng);
      for (int i = 0; i < ng; i++) { bot[i] = 10. + (i % 3); top[i] = 20. + (i % 5); }
      db->addColumns(bot, "bot", ELoc::UNKNOWN); db->addColumns(top, "top", ELoc::UNKNOWN);
      ch = DbGrid::createFromGridExtend(*db, {"top"}, {"bot"}, VectorInt({arg}), false, 0.);
    }
    if (ch == nullptr || ch->getNDim() == 0) { delete db; return "(-997 3)"; }
    int nd = ch->getNDim(); int n = ch->getSampleNumber(); if (n > 300) n = 300;
    o << "(" << sx_vi(deepi(ch->getNXs())) << " " << sx_vd(deep(ch->getDXs())) << " " << sx_vd(deep(ch->getX0s())) << " (";
    for (int r = 0; r < n; r++) {
      VI idx(nd, 0); ch->getGrid().rankToIndice(r, idx);
      VI pidx;   // indices of the corresponding node of the parent
      if (op == 0) { for (int d = 0, k = 0; d < s.ndim; d++) pidx.push_back(d == arg ? 0 : idx[k++]); }
      else for (int d = 0; d < s.ndim; d++) pidx.push_back(idx[d]);
      int pr = db->getGrid().indiceToRank(pidx);
      VD cc, pc; std::vector<VD> st;
      for (int d = 0, k = 0; d < s.ndim; d++) {
        if (op == 0 && d == arg) continue;
        pc.push_back(db->getCoordinate(pr, d)); cc.push_back(ch->getCoordinate(r, op == 0 ? k : d)); k++;
      }
      VD sc; for (int d = 0; d < (int) cc.size(); d++) sc.push_back(ch->getColumnByLocator(ELoc::X, d, false, false).getVector()[r]);
      o << (r ? " " : "") << "(" << sx_vd(cc) << " " << sx_vd(pc) << " " << sx_vd(sc) << ")";
    }
    o << ") " << (mok ? 1 : 0) << ")";
    delete ch; delete db;
  } else if (kind == 11 || kind == 12 || kind == 13 || kind == 15) {   // migration: 11 point->grid, 12 grid->point, 13 grid->grid, 15 grid->point interpolated
    auto vals_of = [](const Sx& v) { VectorDouble r(v.size()); for (size_t i = 0; i < v.size(); i++) r[i] = v[i].d(TEST); return r; };
    auto out_vals = [](const VD& r) { std::string t = "("; for (size_t i = 0; i < r.size(); i++) { if (i) t += " "; t += sx_d(r[i]); } return t + ")"; };
    auto make_points = [&](const Sx& ps, int ndim, bool withval) -> Db* {
      int np = (int) ps.size(); bool anysel = false;
      for (int i = 0; i < np; i++) if (!ps[i][0].b()) anysel = true;
      int ncol = ndim + (withval ? 1 : 0) + (anysel ? 1 : 0);
      VectorDouble tab((size_t) np * ncol);
      VectorString names, locs;
      for (int d = 0; d < ndim; d++) { names.push_back("c" + std::to_string(d + 1)); locs.push_back("x" + std::to_string(d + 1));
        for (int i = 0; i < np; i++) tab[(size_t) d * np + i] = ps[i][1][d].d(); }
      int col = ndim;
      if (withval) { names.push_back("v"); locs.push_back("z1"); for (int i = 0; i < np; i++) tab[(size_t) col * np + i] = ps[i][2].d(TEST); col++; }
      if (anysel) { names.push_back("sel"); locs.push_back("sel"); for (int i = 0; i < np; i++) tab[(size_t) col * np + i] = ps[i][0].b() ? 1. : 0.; }
      return Db::createFromSamples(np, ELoadBy::COLUMN, tab, names, locs, false);
    };
    GSpec s = readG(c[1]);
    DbGrid* dg = makeDbGrid(s, false);
    if (dg == nullptr) return "(-997 2)";
    bool mok = dbMatOk(s, dg);
    int err = 0; VD res; std::string extra;
    if (kind == 11) {
      int dt = (int) c[3].i(); VectorDouble dmax = toVD(c[4].vd()); int fl = (int) c[5].i();
      Db* dp = make_points(c[6], s.ndim, true);
      err = migrate(dp, dg, "v", dt, dmax, fl != 0, false, fl == 2);
      if (err == 0) res = deep(dg->getColumnByColIdx(dg->getColumnNumber() - 1, false, false));
      delete dp;
    } else if (kind == 15) {
      dg->addColumns(vals_of(c[2]), "z", ELoc::Z);
      int dt = (int) c[4].i(); VectorDouble dmax = toVD(c[5].vd());
      Db* dp = make_points(c[6], s.ndim, false);
      err = migrate(dg, dp, "z", dt, dmax, false, true, false);
      if (err == 0) res = deep(dp->getColumnByColIdx(dp->getColumnNumber() - 1, false, false));
      delete dp;
    } else if (kind == 12) {
      dg->addColumns(vals_of(c[2]), "z", ELoc::Z);
      int dt = (int) c[4].i(); VectorDouble dmax = toVD(c[5].vd());
      Db* dp = make_points(c[6], s.ndim, false);
      err = migrate(dg, dp, "z", dt, dmax, false, false, false);
      if (err == 0) res = deep(dp->getColumnByColIdx(dp->getColumnNumber() - 1, false, false));
      extra = " " + sx_vi(deepi(dg->locateDataInGrid(dp, VectorInt(), false, true))) + " " + sx_vi(deepi(dg->locateDataInGrid(dp, VectorInt(), true, true)));
      delete dp;
    } else {
      dg->addColumns(vals_of(c[2]), "z", ELoc::Z);
      GSpec s2 = readG(c[3]); DbGrid* dout = makeDbGrid(s2, false);
      if (dout == nullptr) { delete dg; return "(-997 2)"; }
      if (!dbMatOk(s2, dout)) mok = false;
      int dt = (int) c[5].i(); VectorDouble dmax = toVD(c[6].vd());
      err = migrate(dg, dout, "z", dt, dmax, c[7].b(), false, false);
      if (err == 0) res = deep(dout->getColumnByColIdx(dout->getColumnNumber() - 1, false, false));
      delete dout;
    }
    o << "(" << out_vals(res) << " " << (mok ? 1 : 0) << " " << err << extra << ")";
    delete dg;
  } else o << "(-997 1)";
  return o.str();
}
int main(int argc, char** argv) { return sx_main(argc, argv, run); }

// C13 harness: random number generator, bounded gaussian draws, Gibbs update, conditioning step,
// lithotype rule and the simulators (with the RNG trace hook of /verif/hooks/C13.patch).
#include "sx.hpp"
#include <map>
#include <sstream>
#define private public
#define protected public
#include "Basic/Law.hpp"
#include "Basic/VectorHelper.hpp"
#include "Basic/NamingConvention.hpp"
#include "Basic/OptDbg.hpp"
#include "Db/Db.hpp"
#include "Db/DbGrid.hpp"
#include "Model/Model.hpp"
#include "Neigh/NeighUnique.hpp"
#include "Estimation/KrigingSystem.hpp"
#include "Calculators/ACalcDbToDb.hpp"
#include "Simulation/CalcSimuTurningBands.hpp"
#include "Simulation/CalcSimuFFT.hpp"
#include "Simulation/SimuFFTParam.hpp"
#include "Gibbs/GibbsUMulti.hpp"
#include "Gibbs/GibbsUMultiMono.hpp"
#include "Gibbs/GibbsMMulti.hpp"
#include "LithoRule/Rule.hpp"
#include "LithoRule/RuleProp.hpp"
#include "LithoRule/Node.hpp"
#include "API/SPDE.hpp"
#include "Space/ASpaceObject.hpp"
#include "geoslib_define.h"
#include "geoslib_f.h"
#undef private
#undef protected

extern "C" {
  void verif_rng_trace_start();
  void verif_rng_trace_stop();
  long long verif_rng_trace_size();
  int verif_rng_trace_get(long long i, int* kind, long long* value, long long* count);
  int verif_rng_old_style();
}

static std::string trace_sx() {
  std::ostringstream o; o << "(";
  long long n = verif_rng_trace_size();
  for (long long i = 0; i < n; i++) {
    int k; long long v, c; verif_rng_trace_get(i, &k, &v, &c);
    o << (i ? " " : "") << "(" << k << " " << v << " " << c << ")";
  }
  o << ")"; return o.str();
}
static long long trace_draws() {
  long long n = verif_rng_trace_size(), tot = 0;
  for (long long i = 0; i < n; i++) { int k; long long v, c; verif_rng_trace_get(i, &k, &v, &c); if (k == 1) tot += c; }
  return tot;
}
// unrelated use of the generator before an entry point: positive = law_set_random_seed, negative = that many draws
static void prelude(const Sx& p) {
  for (auto& x : p.l) { long long v = x.i(); if (v > 0) law_set_random_seed((int) v); else for (long long k = 0; k < -v; k++) (void) law_uniform(); }
}
static Model* make_model(const Sx& m, int nvar = 1) {
  static const ECov types[] = { ECov::SPHERICAL, ECov::EXPONENTIAL, ECov::GAUSSIAN, ECov::CUBIC, ECov::MATERN };
  int t = (int) m[0].i(); double range = m[1].d(); double param = m[2].d();
  VectorDouble sills;
  if (nvar == 2) sills = { 1., 0.5, 0.5, 2. };
  Model* model = Model::createFromParam(types[t], range, 1., param, VectorDouble(), sills);
  if (m.size() > 3 && m[3].d() > 0.) model->addCovFromParam(ECov::NUGGET, 0., m[3].d());
  return model;
}
static DbGrid* make_grid(const Sx& g) {  // (nx ny dx dy x0 y0)
  return DbGrid::create({ (int) g[0].i(), (int) g[1].i() }, { g[2].d(), g[3].d() }, { g[4].d(), g[5].d() });
}
// points: list of (x y v1 v2 ...), locators: names for the value columns
static Db* make_points(const Sx& pts, const VectorString& vnames, const VectorString& vlocs) {
  int n = (int) pts.size(); int nv = (int) vnames.size();
  VectorDouble tab((size_t) n * (2 + nv));
  for (int i = 0; i < n; i++) for (int c = 0; c < 2 + nv; c++) tab[(size_t) c * n + i] = pts[i][c].d(TEST);
  VectorString names = { "x", "y" }; VectorString locs = { "x1", "x2" };
  for (int c = 0; c < nv; c++) { names.push_back(vnames[c]); locs.push_back(vlocs[c]); }
  return Db::createFromSamples(n, ELoadBy::COLUMN, tab, names, locs, false);
}
// optional selection: list of 0/1 flags (empty = none)
static void add_sel(Db* db, const Sx& sel) {
  if (db == nullptr || sel.atom || sel.l.empty()) return;
  VectorDouble tab; for (auto& x : sel.l) tab.push_back(x.i() ? 1. : 0.);
  db->addSelection(tab, "sel");
}
static std::string cols_sx(Db* db, int from) {
  std::ostringstream o; o << "(";
  for (int c = from; c < db->getColumnNumber(); c++) {
    if (c > from) o << " ";
    o << sx_vd(db->getColumnByColIdx(c, false, false));
  }
  o << ")"; return o.str();
}
static std::string node_sx(const Node* n) {
  std::ostringstream o;
  if (n->getOrient() == 0) { o << "(0 " << n->getFacies() << ")"; return o.str(); }
  o << "(1 " << (n->getOrient() == 1 ? 1 : 0) << " " << sx_d(n->getAllThresh()) << " "
    << (n->getR1() ? node_sx(n->getR1()) : std::string("(0 0)")) << " "
    << (n->getR2() ? node_sx(n->getR2()) : std::string("(0 0)")) << ")";
  return o.str();
}
static VectorString names_of(const Sx& s) { VectorString v; for (auto& x : s.l) v.push_back(x.str()); return v; }

static std::string run(const Sx& c) {
  long long kind = c[0].i();
  std::ostringstream o;
  defineDefaultSpace(ESpaceType::RN, 2);
  law_set_old_style(true);
  if (kind == 0) {
    // (0 seed n) : n draws of law_uniform(); state read back with law_get_random_seed after each
    int seed = (int) c[1].i(); long long n = c[2].i();
    law_set_random_seed(seed);
    long long chk = 0; bool ok = true; bool exact = true; std::vector<long long> first;
    for (long long k = 0; k < n; k++) {
      double u = law_uniform();
      long long v = law_get_random_seed();
      chk = (chk * 31 + v) % 1000000007LL;
      if (!(v > 0 && v < 20000159)) ok = false;
      if (u != (double) v / 20000159.) exact = false;
      if (!(u > 0. && u < 1.) && v > 0 && v < 20000159) exact = false;
      if (k < 8) first.push_back(v);
    }
    o << "(" << law_get_random_seed() << " " << chk << " " << (ok ? 1 : 0) << " " << sx_vi(first) << " " << (exact ? 1 : 0) << ")";
  } else if (kind == 6) {
    int seed = (int) c[1].i(); double mini = c[2].d(), maxi = c[3].d(); int imin = (int) c[4].i(), imax = (int) c[5].i(); int n = (int) c[6].i();
    law_set_random_seed(seed);
    VectorDouble us; std::vector<long long> is;
    for (int k = 0; k < n; k++) us.push_back(law_uniform(mini, maxi));
    for (int k = 0; k < n; k++) is.push_back(law_int_uniform(imin, imax));
    o << "(" << sx_vd(us) << " " << sx_vi(is) << " " << law_get_random_seed() << ")";
  } else if (kind == 1) {
    int seed = (int) c[1].i(); double binf = c[2].d(TEST), bsup = c[3].d(TEST);
    law_set_random_seed(seed);
    verif_rng_trace_start();
    double x = law_gaussian_between_bounds(binf, bsup);
    verif_rng_trace_stop();
    o << "(0 " << sx_d(x) << " " << trace_draws() << " " << law_get_random_seed() << ")";
  } else if (kind == 2) {
    // GibbsMulti::getSimulate on a one-sample Db with bounds
    int seed = (int) c[1].i(); double yk = c[2].d(), sk = c[3].d(); double vmin = c[4].d(TEST), vmax = c[5].d(TEST);
    VectorDouble tab = { 0., 0., vmin, vmax };
    Db* db = Db::createFromSamples(1, ELoadBy::COLUMN, tab, { "x", "y", "lo", "up" }, { "x1", "x2", "lower1", "upper1" }, false);
    Model* model = Model::createFromParam(ECov::SPHERICAL, 10., 1.);
    GibbsUMulti gibbs(db, model);
    gibbs.init(1, 1, 0, 1, seed, 0, true);
    VectorVectorDouble y = gibbs.allocY();
    verif_rng_trace_start();
    double v = gibbs.getSimulate(y, yk, sk, 0, 0, 0, 0, 5);
    verif_rng_trace_stop();
    o << "(0 " << sx_d(v) << " " << trace_draws() << " " << law_get_random_seed() << ")";
    delete db; delete model;
  } else if (kind == 12) {
    // (12 variant seed yk sk vmin vmax): one site of the Gibbs sampler = _isConstraintTight + getSimulate
    // variant 0: GibbsUMulti, 1: GibbsMMulti (moving), 2: GibbsUMultiMono
    int variant = (int) c[1].i(); int seed = (int) c[2].i(); double yk = c[3].d(), sk = c[4].d(); double vmin = c[5].d(TEST), vmax = c[6].d(TEST);
    VectorDouble tab = { 0., 0., vmin, vmax };
    Db* db = Db::createFromSamples(1, ELoadBy::COLUMN, tab, { "x", "y", "lo", "up" }, { "x1", "x2", "lower1", "upper1" }, false);
    Model* model = Model::createFromParam(ECov::SPHERICAL, 10., 1.);
    AGibbs* gibbs = nullptr;
    if (variant == 0) gibbs = new GibbsUMulti(db, model);
    else if (variant == 1) gibbs = new GibbsMMulti(db, model);
    else { std::vector<Model*> mv; mv.push_back(model); gibbs = new GibbsUMultiMono(db, mv, 0.); }
    gibbs->init(1, 1, 0, 1, seed, 0, true);
    VectorVectorDouble y = gibbs->allocY();
    verif_rng_trace_start();
    double v;
    if (!gibbs->_isConstraintTight(0, 0, &v)) v = gibbs->getSimulate(y, yk, sk, 0, 0, 0, 0, 5);
    verif_rng_trace_stop();
    o << "(0 " << sx_d(v) << " " << trace_draws() << " " << law_get_random_seed() << ")";
    delete gibbs; delete db; delete model;
  } else if (kind == 8) {
    o << "(" << Db::getSimRank((int) c[1][0].i(), (int) c[1][1].i(), (int) c[1][2].i(), (int) c[1][3].i(), (int) c[1][4].i()) << ")";
  } else if (kind == 7) {
    // (7 nbsimu nvar icase z row) : CalcSimuTurningBands::_difference on one sample
    int nbsimu = (int) c[1].i(), nvar = (int) c[2].i(), icase = (int) c[3].i();
    VectorDouble z = c[4].vd(TEST), row = c[5].vd(TEST);
    VectorDouble tab = { 0., 0. }; VectorString names = { "x", "y" }, locs = { "x1", "x2" };
    for (int v = 0; v < nvar; v++) { tab.push_back(z[v]); names.push_back("z" + std::to_string(v)); locs.push_back("z" + std::to_string(v + 1)); }
    Db* db = Db::createFromSamples(1, ELoadBy::COLUMN, tab, names, locs, false);
    int nitem = (int) row.size();
    db->addColumnsByConstant(nitem, 0., "Simu", ELoc::SIMU);
    for (int k = 0; k < nitem; k++) db->setFromLocator(ELoc::SIMU, 0, k, row[k]);
    Model* model = make_model(sx_parse("(0 (10 0) (1 0))"), nvar);
    CalcSimuTurningBands situba(nbsimu, 10, false, 1234);
    situba.setModel(model);
    situba._setNvar(nvar, true);
    situba._difference(db, model, icase, false, false, false);
    VectorDouble out; for (int k = 0; k < nitem; k++) out.push_back(db->getFromLocator(ELoc::SIMU, 0, k));
    o << "(0 " << sx_vd(out) << ")";
    delete db; delete model;
  } else if (kind == 9) {
    // (9 nbsimu nvar icase eps2 data targets): CalcSimuTurningBands::_updateData2ToTarget, point output
    // data: (active (x y) (z1..)) ; targets: (active (x y) row)
    int nbsimu = (int) c[1].i(), nvar = (int) c[2].i(), icase = (int) c[3].i();
    const Sx& data = c[5]; const Sx& tgs = c[6];
    int n = (int) data.size(), nt = (int) tgs.size(); int nitem = (int) tgs[0][2].size();
    VectorDouble tab((size_t) n * (3 + nvar)); VectorString names = { "sel", "x", "y" }, locs = { "sel", "x1", "x2" };
    for (int v = 0; v < nvar; v++) { names.push_back("z" + std::to_string(v)); locs.push_back("z" + std::to_string(v + 1)); }
    for (int i = 0; i < n; i++) {
      tab[i] = data[i][0].b() ? 1. : 0.; tab[n + i] = data[i][1][0].d(); tab[2 * n + i] = data[i][1][1].d();
      for (int v = 0; v < nvar; v++) tab[(size_t) (3 + v) * n + i] = data[i][2][v].d(TEST);
    }
    Db* dbin = Db::createFromSamples(n, ELoadBy::COLUMN, tab, names, locs, false);
    VectorDouble tt((size_t) nt * 3);
    for (int i = 0; i < nt; i++) { tt[i] = tgs[i][0].b() ? 1. : 0.; tt[nt + i] = tgs[i][1][0].d(); tt[2 * nt + i] = tgs[i][1][1].d(); }
    Db* dbout = Db::createFromSamples(nt, ELoadBy::COLUMN, tt, { "sel", "x", "y" }, { "sel", "x1", "x2" }, false);
    dbout->addColumnsByConstant(nitem, 0., "Simu", ELoc::SIMU);
    for (int i = 0; i < nt; i++) { VectorDouble r = tgs[i][2].vd(TEST); for (int k = 0; k < nitem; k++) dbout->setFromLocator(ELoc::SIMU, i, k, r[k]); }
    Model* model = make_model(sx_parse("(0 (10 0) (1 0))"), nvar);
    CalcSimuTurningBands situba(nbsimu, 10, false, 1234);
    situba.setModel(model);
    situba._setNvar(nvar, true);
    situba._updateData2ToTarget(dbin, dbout, icase, false, false);
    o << "(0 (";
    for (int i = 0; i < nt; i++) { VectorDouble r; for (int k = 0; k < nitem; k++) r.push_back(dbout->getFromLocator(ELoc::SIMU, i, k)); o << (i ? " " : "") << sx_vd(r); }
    o << "))";
    delete dbin; delete dbout; delete model;
  } else if (kind == 30) {
    // (30 nbsimu nvar icase model data target) data: list of (x y z1 [z2] (row)) ; target: (x y (row))
    int nbsimu = (int) c[1].i(), nvar = (int) c[2].i(), icase = (int) c[3].i();
    Model* model = make_model(c[4], nvar);
    const Sx& data = c[5]; const Sx& tg = c[6];
    int n = (int) data.size(); int nitem = (int) tg[2].size();
    VectorDouble tab((size_t) n * (2 + nvar)); VectorString names = { "x", "y" }, locs = { "x1", "x2" };
    for (int v = 0; v < nvar; v++) { names.push_back("z" + std::to_string(v)); locs.push_back("z" + std::to_string(v + 1)); }
    for (int i = 0; i < n; i++) for (int cc = 0; cc < 2 + nvar; cc++) tab[(size_t) cc * n + i] = data[i][cc].d(TEST);
    Db* dbin = Db::createFromSamples(n, ELoadBy::COLUMN, tab, names, locs, false);
    dbin->addColumnsByConstant(nitem, 0., "Simu", ELoc::SIMU);
    for (int i = 0; i < n; i++) { VectorDouble r = data[i][2 + nvar].vd(TEST); for (int k = 0; k < nitem; k++) dbin->setFromLocator(ELoc::SIMU, i, k, r[k]); }
    VectorDouble tt = { tg[0].d(), tg[1].d() };
    Db* dbout = Db::createFromSamples(1, ELoadBy::COLUMN, tt, { "x", "y" }, { "x1", "x2" }, false);
    dbout->addColumnsByConstant(nitem, 0., "Simu", ELoc::SIMU);
    VectorDouble trow = tg[2].vd(TEST);
    for (int k = 0; k < nitem; k++) dbout->setFromLocator(ELoc::SIMU, 0, k, trow[k]);
    NeighUnique* neigh = NeighUnique::create();
    int iptr = dbout->getColIdxByLocator(ELoc::SIMU, 0);
    KrigingSystem ksys(dbin, dbout, model, neigh);
    int err = 0;
    if (ksys.setKrigOptFlagSimu(true, nbsimu, icase)) err = 1;
    if (!err && ksys.updKrigOptEstim(iptr, -1, -1)) err = 2;
    if (!err && !ksys.isReady()) err = 3;
    if (!err && ksys.estimate(0)) err = 4;
    if (err) { o << "(" << err << ")"; }
    else {
      int nred = ksys.getNRed();
      MatrixRectangular w = ksys.getWeights();
      o << "(0 " << sx_vi(ksys.getSampleIndices()) << " (";
      for (int i = 0; i < nred; i++) { VectorDouble r; for (int v = 0; v < nvar; v++) r.push_back(w.getValue(i, v, false)); o << (i ? " " : "") << sx_vd(r); }
      o << ") ";
      VectorDouble out; for (int k = 0; k < nitem; k++) out.push_back(dbout->getFromLocator(ELoc::SIMU, 0, k));
      o << sx_vd(out) << ")";
    }
    ksys.conclusion();
    delete dbin; delete dbout; delete model; delete neigh;
  } else if (kind == 40 || kind == 41) {
    // (40 names props) -> (ext tree) ; (41 names props facies queries) -> (bounds facies)
    Rule* rule = Rule::createFromNames(names_of(c[1]));
    if (rule == nullptr) return "(1)";
    VectorDouble props = c[2].vd();
    if (rule->setProportions(props)) { delete rule; return "(2)"; }
    if (kind == 40) {
      o << "(0 " << sx_d(get_rule_extreme(+1)) << " " << sx_d(get_rule_extreme(-1)) << " " << node_sx(rule->getMainNode()) << " " << rule->getFaciesNumber() << ")";
    } else {
      o << "(0 (";
      for (size_t k = 0; k < c[3].size(); k++) { VectorDouble b = rule->getThresh((int) c[3][k].i()); o << (k ? " " : "") << (b.empty() ? std::string("()") : sx_vd(b)); }
      o << ") (";
      for (size_t k = 0; k < c[4].size(); k++) o << (k ? " " : "") << rule->getFaciesFromGaussian(c[4][k][0].d(), c[4][k][1].d());
      o << "))";
    }
    delete rule;
  } else if (kind == 50) {
    // (50 sim seed nbsimu nbtuba grid model prelude data targets extra oldstyle)
    int sim = (int) c[1].i(); int seed = (int) c[2].i(); int nbsimu = (int) c[3].i(); int nbtuba = (int) c[4].i();
    const Sx& g = c[5]; const Sx& data = c[8]; const Sx& targets = c[9]; const Sx& extra = c[10];
    bool oldstyle = c[11].b();
    static const Sx nosel; const Sx& dsel = (c.size() > 12) ? c[12][0] : nosel; const Sx& tsel = (c.size() > 12) ? c[12][1] : nosel;
    law_set_old_style(oldstyle);
    law_set_random_seed(987123);   // known starting point, then the case-specific history
    prelude(c[7]);
    Model* model = make_model(c[6]);
    NeighUnique* neigh = NeighUnique::create();
    DbGrid* grid = nullptr; Db* dbin = nullptr; Db* dbout = nullptr;
    int err = 0; int from = 0; Db* res = nullptr;
    Rule* rule = nullptr; Rule* rule2 = nullptr; RuleProp* rp = nullptr; Model* model2 = nullptr; Model* model3 = nullptr; Model* model4 = nullptr;
    std::string extra_out = "()";
    if (sim == 0) {           // simtub, non conditional, grid
      grid = make_grid(g); from = grid->getColumnNumber(); res = grid;
      verif_rng_trace_start(); err = simtub(nullptr, grid, model, nullptr, nbsimu, seed, nbtuba); verif_rng_trace_stop();
    } else if (sim == 1) {    // simtub, conditional, grid
      grid = make_grid(g); dbin = make_points(data, { "z" }, { "z1" }); add_sel(dbin, dsel); add_sel(grid, tsel); from = grid->getColumnNumber(); res = grid;
      verif_rng_trace_start(); err = simtub(dbin, grid, model, neigh, nbsimu, seed, nbtuba); verif_rng_trace_stop();
    } else if (sim == 2) {    // simtub, conditional, point targets
      dbin = make_points(data, { "z" }, { "z1" }); dbout = make_points(targets, {}, {}); add_sel(dbin, dsel); add_sel(dbout, tsel); from = dbout->getColumnNumber(); res = dbout;
      verif_rng_trace_start(); err = simtub(dbin, dbout, model, neigh, nbsimu, seed, nbtuba); verif_rng_trace_stop();
    } else if (sim == 3) {    // simfft
      grid = make_grid(g); from = grid->getColumnNumber(); res = grid;
      SimuFFTParam param;
      verif_rng_trace_start(); err = simfft(grid, model, param, nbsimu, seed); verif_rng_trace_stop();
    } else if (sim == 4 || sim == 5) {   // simulateSPDE: no seed argument, the caller seeds the generator
      grid = make_grid(g); from = grid->getColumnNumber(); res = grid;
      if (sim == 5) { dbin = make_points(data, { "z" }, { "z1" }); add_sel(dbin, dsel); }
      verif_rng_trace_start();
      law_set_random_seed(seed);
      err = simulateSPDE(dbin, grid, model, nullptr, nbsimu, nullptr, (int) extra[0].i());
      err = (err >= 0) ? 0 : 1;   // simulateSPDE returns the UID of the first new column
      verif_rng_trace_stop();
    } else if (sim == 6) {    // gibbs_sampler: data = (x y lower upper)
      dbin = make_points(data, { "lo", "up" }, { "lower1", "upper1" }); add_sel(dbin, dsel); from = dbin->getColumnNumber(); res = dbin;
      int nburn = (int) extra[0].i(), niter = (int) extra[1].i(); bool multi_mono = extra[2].b(); bool moving = extra[3].b();
      verif_rng_trace_start();
      err = gibbs_sampler(dbin, model, nbsimu, seed, nburn, niter, moving, false, multi_mono, false, false, 0, 5., false, false, false);
      verif_rng_trace_stop();
    } else if (sim == 7 || sim == 8) {   // simpgs (non conditional / conditional): extra = (names props model2 flag_gaus nburn niter)
      grid = make_grid(g); from = grid->getColumnNumber(); res = grid;
      rule = Rule::createFromNames(names_of(extra[0])); VectorDouble props = extra[1].vd();
      rp = RuleProp::createFromRule(rule, props);
      model2 = make_model(extra[2]);
      int flag_gaus = (int) extra[3].i(); int nburn = (int) extra[4].i(), niter = (int) extra[5].i();
      if (sim == 8) { dbin = make_points(data, { "fac" }, { "z1" }); add_sel(dbin, dsel); add_sel(grid, tsel); from = grid->getColumnNumber(); }
      verif_rng_trace_start();
      err = simpgs(dbin, grid, rp, model, model2, neigh, nbsimu, seed, flag_gaus, false, false, false, nbtuba, nburn, niter, 5.);
      verif_rng_trace_stop();
      if (!err) {  // bounds of each facies, as used for the data
        std::ostringstream e; e << "(";
        Rule* r2 = Rule::createFromNames(names_of(extra[0])); r2->setProportions(props);
        for (int f = 1; f <= r2->getFaciesNumber(); f++) e << (f > 1 ? " " : "") << sx_vd(r2->getThresh(f));
        e << ")"; extra_out = e.str(); delete r2;
      }
    } else if (sim == 9) {    // simbipgs, non conditional: extra = (names1 names2 props model2 model3 model4)
      grid = make_grid(g); from = grid->getColumnNumber(); res = grid;
      rule = Rule::createFromNames(names_of(extra[0])); rule2 = Rule::createFromNames(names_of(extra[1]));
      rp = RuleProp::createFromRules(rule, rule2, extra[2].vd());
      model2 = make_model(extra[3]); model3 = make_model(extra[4]); model4 = make_model(extra[5]);
      verif_rng_trace_start();
      err = simbipgs(nullptr, grid, rp, model, model2, model3, model4, neigh, nbsimu, seed, false, false, false, false, nbtuba);
      verif_rng_trace_stop();
    } else if (sim == 10) {   // Db::addColumnsRandom
      grid = make_grid(g); from = grid->getColumnNumber(); res = grid;
      verif_rng_trace_start(); (void) grid->addColumnsRandom(nbsimu, "R", ELoc::Z, 0, seed); verif_rng_trace_stop();
    } else if (sim == 11) {   // Db::createFromBox
      verif_rng_trace_start(); dbout = Db::createFromBox(nbtuba, { 0., 0. }, { 10., 5. }, seed); verif_rng_trace_stop();
      res = dbout; from = 0; if (dbout == nullptr) err = 1;
    } else if (sim == 12) {   // Db::createFillRandom
      verif_rng_trace_start(); dbout = Db::createFillRandom(nbtuba, 2, nbsimu, 0, 0, 0., 0., VectorDouble(), VectorDouble(), VectorDouble(), seed); verif_rng_trace_stop();
      res = dbout; from = 0; if (dbout == nullptr) err = 1;
    } else if (sim == 13) {   // VectorHelper::simulateGaussian / law_random_path after an explicit seed (stream only)
      verif_rng_trace_start(); law_set_random_seed(seed); VectorDouble v = VH::simulateGaussian(nbtuba); verif_rng_trace_stop();
      o << "(0 " << trace_sx() << " (" << sx_vd(v) << ") ())"; delete model; delete neigh; law_set_old_style(true); return o.str();
    } else err = -1;
    o << "(" << err << " " << trace_sx() << " " << ((err == 0 && res) ? cols_sx(res, from) : std::string("()")) << " " << extra_out << ")";
    delete model; delete neigh; delete grid; delete dbin; delete dbout; delete rp; delete rule; delete rule2; delete model2; delete model3; delete model4;
    law_set_old_style(true);
  } else o << "(-997 1)";
  return o.str();
}
int main(int argc, char** argv) { return sx_main(argc, argv, run); }

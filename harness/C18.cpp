// C18 harness: data transforms and their inverses, on the same cases as the Coq model.
//   kind 0  PCA / MAF        pca_compute | maf_compute_interval, harvest (eigen-pairs, mean, sigma, Z2F, F2Z, c0), dbZ2F then dbF2Z
//   kind 1  hermitePolynomials(y, r, n)
//   kind 2  AnamHermite      fit (or reset from given coefficients), harvest psi / bounds, transformToRawValue / rawToTransformValue, vectors
//   kind 3  VH::normalScore
//   kind 4  AnamEmpirical    normal-score fit, forward / backward
//   kind 5  Rotation         setAngles / setMatrixDirect, rotateDirect then rotateInverse
#include "sx.hpp"
#include <sstream>
#define private public
#define protected public
#include "Stats/PCA.hpp"
#include "Anamorphosis/AnamHermite.hpp"
#include "Anamorphosis/AnamEmpirical.hpp"
#include "Geometry/Rotation.hpp"
#undef private
#undef protected
#include "Polynomials/Hermite.hpp"
#include "Basic/VectorHelper.hpp"
#include "Basic/Law.hpp"
#include "Db/Db.hpp"
#include "Space/ASpaceObject.hpp"
#include "Matrix/MatrixSquareGeneral.hpp"
#include "geoslib_define.h"

static std::string matStr(const AMatrix& M) {
  std::ostringstream o; o << "(";
  for (int i = 0; i < M.getNRows(); i++) { o << (i ? " " : "") << "("; for (int j = 0; j < M.getNCols(); j++) o << (j ? " " : "") << sx_d(M.getValue(i, j)); o << ")"; }
  o << ")"; return o.str();
}
static std::string vecStr(const VectorDouble& v) { std::vector<double> w(v.begin(), v.end()); return sx_vd(w); }
static std::string zrows(Db* db, int nvar) {
  // values of the current Z-locator variables, by sample
  std::ostringstream o; o << "(";
  for (int i = 0; i < db->getSampleNumber(); i++) {
    o << (i ? " " : "") << "(";
    for (int v = 0; v < nvar; v++) o << (v ? " " : "") << sx_d(db->getZVariable(i, v));
    o << ")";
  }
  o << ")"; return o.str();
}

// (0 mode nvar (xs ys) (zcol...) sel|() hmin hmax factors|())
static std::string runPCA(const Sx& c) {
  int mode = (int) c[1].i(), nvar = (int) c[2].i();
  defineDefaultSpace(ESpaceType::RN, 2);
  int n = (int) c[3][0].size();
  VectorDouble tab; VectorString names, locs;
  for (int d = 0; d < 2; d++) { auto v = c[3][d].vd(TEST); tab.insert(tab.end(), v.begin(), v.end()); names.push_back("x" + std::to_string(d + 1)); locs.push_back("x" + std::to_string(d + 1)); }
  for (int i = 0; i < nvar; i++) { auto v = c[4][i].vd(TEST); tab.insert(tab.end(), v.begin(), v.end()); names.push_back("v" + std::to_string(i + 1)); locs.push_back("z" + std::to_string(i + 1)); }
  if (c[5].size() > 0) { for (auto& x : c[5].l) tab.push_back(x.b() ? 1. : 0.); names.push_back("sel"); locs.push_back("sel"); }
  Db* db = Db::createFromSamples(n, ELoadBy::COLUMN, tab, names, locs, false);
  PCA pca;
  int rc;
  if (mode == 0) rc = pca.pca_compute(db, false, true);
  else rc = pca.maf_compute_interval(db, c[6].d(), c[7].d(), false);
  std::ostringstream o;
  o << "(" << rc;
  if (rc != 0) { o << ")"; delete db; return o.str(); }
  VectorDouble sq(nvar);
  for (int i = 0; i < nvar; i++) sq[i] = sqrt(pca._eigval[i]);
  o << " " << vecStr(pca._eigval) << " " << matStr(pca._eigvec) << " " << vecStr(pca._mean) << " " << vecStr(pca._sigma)
    << " " << matStr(pca._Z2F) << " " << matStr(pca._F2Z) << " " << matStr(pca._c0) << " " << matStr(pca._gh) << " " << vecStr(sq);
  int ncol0 = db->getColumnNumber();
  int r1 = pca.dbZ2F(db);
  o << " " << r1 << " " << zrows(db, nvar);          // factors are now the Z-locator variables
  int r2 = pca.dbF2Z(db);
  o << " " << r2 << " " << zrows(db, nvar);          // back-transformed variables
  o << " " << (db->getColumnNumber() - ncol0);
  // optional: dbF2Z applied to given factor values (independent of dbZ2F)
  if (c.size() > 8 && c[8].size() > 0) {
    VectorDouble t2; VectorString n2, l2;
    for (int i = 0; i < nvar; i++) { auto v = c[8][i].vd(TEST); t2.insert(t2.end(), v.begin(), v.end()); n2.push_back("f" + std::to_string(i + 1)); l2.push_back("z" + std::to_string(i + 1)); }
    Db* db2 = Db::createFromSamples((int) c[8][0].size(), ELoadBy::COLUMN, t2, n2, l2, false);
    int r3 = pca.dbF2Z(db2);
    o << " " << r3 << " " << zrows(db2, nvar);
    delete db2;
  } else o << " 0 ()";
  o << ")";
  delete db;
  return o.str();
}

static std::string run(const Sx& c) {
  long long kind = c[0].i();
  if (kind == 0) return runPCA(c);
  return "(-997 1)";
}
int main(int argc, char** argv) { return sx_main(argc, argv, run); }

// C18 harness: data transforms and their inverses, on the same cases as the Coq model.
//   kind 0  PCA / MAF        pca_compute | maf_compute_interval, harvest (eigen-pairs, mean, sigma, Z2F, F2Z, c0), dbZ2F then dbF2Z
//   kind 1  hermitePolynomials(y, r, n)
//   kind 2  AnamHermite      fit (or reset from given coefficients), harvest psi / bounds, transformToRawValue / rawToTransformValue, vectors
//   kind 3  VH::normalScore
//   kind 4  AnamEmpirical    normal-score fit, forward / backward
//   kind 5  Rotation         setAngles / setMatrixDirect, rotateDirect then rotateInverse
//   kind 6  hermiteCondExpElement(y, s, psi)   (run under AddressSanitizer by the check)
//   kind 10 Hermite factors by ranks: hermitePolynomials(y, r, ifacs), AnamHermite::z2factor, AAnam::rawToFactorByRanks, rawToFactor
//   kind 9  AnamDiscreteDD fit of a fresh object (no crash), AnamDiscreteIR fit and factors (run with the ASan batch)
//   kind 8  AnamHermite::fitFromArray: coefficients, the oracle arrays (classes, quantiles, cdf, pdf), re-fit of a used object
//   kind 7  AnamEmpirical / AnamHermite fit of degenerate data (constant, single, all undefined), under AddressSanitizer
#include "sx.hpp"
#include <sstream>
#define private public
#define protected public
#include "Stats/PCA.hpp"
#include "Anamorphosis/AnamHermite.hpp"
#include "Anamorphosis/AnamEmpirical.hpp"
#include "Anamorphosis/AnamDiscreteDD.hpp"
#include "Anamorphosis/AnamDiscreteIR.hpp"
#include "Geometry/Rotation.hpp"
#include "Geometry/GeometryHelper.hpp"
#undef private
#undef protected
#include "Polynomials/Hermite.hpp"
#include "Basic/VectorHelper.hpp"
#include "Basic/Law.hpp"
#include "Db/Db.hpp"
#include "Space/ASpaceObject.hpp"
#include "Matrix/MatrixSquareGeneral.hpp"
#include "geoslib_define.h"

static std::string matStr(const AMatrix& M) {
  std::ostringstream o; o << "(";
  for (int i = 0; i < M.getNRows(); i++) { o << (i ? " " : "") << "("; for (int j = 0; j < M.getNCols(); j++) o << (j ? " " : "") << sx_d(M.getValue(i, j)); o << ")"; }
  o << ")"; return o.str();
}
static std::string vecStr(const VectorDouble& v) { std::vector<double> w(v.begin(), v.end()); return sx_vd(w); }
static std::string zrows(Db* db, int nvar) {
  // values of the current Z-locator variables, by sample
  std::ostringstream o; o << "(";
  for (int i = 0; i < db->getSampleNumber(); i++) {
    o << (i ? " " : "") << "(";
    for (int v = 0; v < nvar; v++) o << (v ? " " : "") << sx_d(db->getZVariable(i, v));
    o << ")";
  }
  o << ")"; return o.str();
}

// (0 mode nvar (xs ys) (zcol...) sel|() hmin hmax factors|())
static std::string runPCA(const Sx& c) {
  int mode = (int) c[1].i(), nvar = (int) c[2].i();
  defineDefaultSpace(ESpaceType::RN, 2);
  int n = (int) c[3][0].size();
  VectorDouble tab; VectorString names, locs;
  for (int d = 0; d < 2; d++) { auto v = c[3][d].vd(TEST); tab.insert(tab.end(), v.begin(), v.end()); names.push_back("x" + std::to_string(d + 1)); locs.push_back("x" + std::to_string(d + 1)); }
  for (int i = 0; i < nvar; i++) { auto v = c[4][i].vd(TEST); tab.insert(tab.end(), v.begin(), v.end()); names.push_back("v" + std::to_string(i + 1)); locs.push_back("z" + std::to_string(i + 1)); }
  if (c[5].size() > 0) { for (auto& x : c[5].l) tab.push_back(x.b() ? 1. : 0.); names.push_back("sel"); locs.push_back("sel"); }
  Db* db = Db::createFromSamples(n, ELoadBy::COLUMN, tab, names, locs, false);
  PCA pca;
  int rc;
  if (mode == 0) rc = pca.pca_compute(db, false, true);
  else rc = pca.maf_compute_interval(db, c[6].d(), c[7].d(), false);
  std::ostringstream o;
  o << "(" << rc;
  if (rc != 0) { o << ")"; delete db; return o.str(); }
  VectorDouble sq(nvar);
  for (int i = 0; i < nvar; i++) sq[i] = sqrt(pca._eigval[i]);
  o << " " << vecStr(pca._eigval) << " " << matStr(pca._eigvec) << " " << vecStr(pca._mean) << " " << vecStr(pca._sigma)
    << " " << matStr(pca._Z2F) << " " << matStr(pca._F2Z) << " " << matStr(pca._c0) << " " << matStr(pca._gh) << " " << vecStr(sq);
  int ncol0 = db->getColumnNumber();
  int r1 = pca.dbZ2F(db);
  o << " " << r1 << " " << zrows(db, nvar);          // factors are now the Z-locator variables
  int r2 = pca.dbF2Z(db);
  o << " " << r2 << " " << zrows(db, nvar);          // back-transformed variables
  o << " " << (db->getColumnNumber() - ncol0);
  // optional: dbF2Z applied to given factor values (independent of dbZ2F)
  if (c.size() > 8 && c[8].size() > 0) {
    VectorDouble t2; VectorString n2, l2;
    for (int i = 0; i < nvar; i++) { auto v = c[8][i].vd(TEST); t2.insert(t2.end(), v.begin(), v.end()); n2.push_back("f" + std::to_string(i + 1)); l2.push_back("z" + std::to_string(i + 1)); }
    Db* db2 = Db::createFromSamples((int) c[8][0].size(), ELoadBy::COLUMN, t2, n2, l2, false);
    int r3 = pca.dbF2Z(db2);
    o << " " << r3 << " " << zrows(db2, nvar);
    delete db2;
  } else o << " 0 ()";
  o << ")";
  delete db;
  return o.str();
}

static std::string ivStr(const Interval& iv) {
  std::ostringstream o;
  o << "(" << sx_d(iv.getVmin()) << " " << sx_d(iv.getVmax()) << " " << (iv.getMinIncluded() ? 1 : 0) << " " << (iv.getMaxIncluded() ? 1 : 0) << ")";
  return o.str();
}
static std::string colStr(Db* db, int icol) {
  VectorDouble v = db->getColumnByColIdx(icol, false, false);
  return vecStr(v);
}

// (1 y r n)
static std::string runHermite(const Sx& c) {
  VectorDouble p = hermitePolynomials(c[1].d(), c[2].d(), (int) c[3].i());
  return "(" + vecStr(p) + ")";
}

// (2 mode nbpoly flagBound data sel yq zq psi bounds)
//   mode 0: fit on the Db variable (selection honoured by AAnam::fit), mode 1: reset(bounds..., r = 1, psi)
static std::string runAnamHermite(const Sx& c) {
  int mode = (int) c[1].i(), nbpoly = (int) c[2].i(); bool flagBound = c[3].b();
  VectorDouble data = c[4].vd(TEST);
  int n = (int) data.size();
  VectorDouble tab = data; VectorString names = {"z"}, locs = {"z1"};
  if (c[5].size() > 0) { for (auto& x : c[5].l) tab.push_back(x.b() ? 1. : 0.); names.push_back("sel"); locs.push_back("sel"); }
  Db* db = Db::createFromSamples(n, ELoadBy::COLUMN, tab, names, locs, false);
  AnamHermite anam(nbpoly, flagBound);
  int rc = 0;
  if (mode == 0) { try { rc = anam.fit(db, "z"); } catch (const std::exception& e) { rc = -2; } }
  else {
    VectorDouble b = c[9].vd(TEST);
    anam.reset(b[0], b[1], b[2], b[3], b[4], b[5], b[6], b[7], 1., c[8].vd());
  }
  std::ostringstream o;
  o << "(" << rc;
  if (rc != 0) { o << ")"; delete db; return o.str(); }
  VectorDouble sq(nbpoly); for (int i = 0; i < nbpoly; i++) sq[i] = sqrt((double) i);
  o << " " << vecStr(anam.getPsiHns()) << " " << ivStr(anam._az) << " " << ivStr(anam._ay) << " " << ivStr(anam._pz) << " " << ivStr(anam._py) << " " << vecStr(sq);
  VectorDouble yq = c[6].vd(TEST), zq = c[7].vd(TEST);
  o << " " << vecStr(anam.gaussianToRawVector(yq)) << " " << vecStr(anam.rawToGaussianVector(zq));
  // Db level: raw -> Gaussian -> raw by name, then by locator
  int ncol0 = db->getColumnNumber();
  int r1 = anam.rawToGaussian(db, "z");
  o << " " << r1 << " " << (r1 == 0 ? colStr(db, db->getColumnNumber() - 1) : std::string("()"));
  int r2 = 1;
  if (r1 == 0) {
    String yname = db->getNameByColIdx(db->getColumnNumber() - 1);
    r2 = anam.gaussianToRaw(db, yname);
    o << " " << r2 << " " << (r2 == 0 ? colStr(db, db->getColumnNumber() - 1) : std::string("()"));
  } else o << " 1 ()";
  // by locator: Z locator is now on the back-transformed variable; go forward and back again
  int nb = db->getColumnNumber();
  int r3 = anam.rawToGaussianByLocator(db);
  int nb3 = db->getColumnNumber();
  int r4 = anam.gaussianToRawByLocator(db);
  int nb4 = db->getColumnNumber();
  o << " " << r3 << " " << (nb3 - nb) << " " << r4 << " " << (nb4 - nb3) << " " << ((r4 == 0 && nb4 > nb3) ? colStr(db, nb4 - 1) : std::string("()"));
  // the four arguments fitFromArray hands to _defineBounds (classes of the sorted active data)
  if (mode == 0) {
    VectorDouble tabv = db->getColumn("z", true);
    int nech = (int) tabv.size();
    VectorDouble zs(nech + 2), ys(nech + 2);
    AnamHermite tmp(nbpoly);
    int ncl = tmp._data_sort(nech, tabv, VectorDouble(), zs, ys);
    if (ncl >= 2) o << " (" << sx_d(ys[0]) << " " << sx_d(zs[0]) << " " << sx_d(ys[ncl - 2] + EPSILON5) << " " << sx_d(zs[ncl - 1]) << ")";
    else o << " ()";
  } else o << " ()";
  o << ")";
  delete db;
  return o.str();
}

// (3 data wt sel)
static std::string runNormalScore(const Sx& c) {
  VectorDouble data = c[1].vd(TEST), wt = c[2].vd(TEST);
  VectorDouble s = VH::normalScore(data, wt);
  std::ostringstream o;
  o << "(" << vecStr(s) << " " << (int) s.size();
  if (c.size() > 3 && c[3].size() > 0) {
    // Db level (AAnam::normalScore) with a selection, and the vector-level answer on the active samples only
    int n = (int) data.size();
    VectorDouble tab = data; VectorString names = {"z"}, locs = {"z1"};
    if (!wt.empty()) { tab.insert(tab.end(), wt.begin(), wt.end()); names.push_back("w"); locs.push_back("w1"); }
    VectorDouble masked = data;
    int k = 0;
    for (auto& x : c[3].l) { tab.push_back(x.b() ? 1. : 0.); if (!x.b()) masked[k] = TEST; k++; }
    names.push_back("sel"); locs.push_back("sel");
    Db* db = Db::createFromSamples(n, ELoadBy::COLUMN, tab, names, locs, false);
    AnamHermite anam(3);
    int nc0 = db->getColumnNumber();
    int rc = anam.normalScore(db, "z");
    o << " " << rc << " " << ((rc == 0 && db->getColumnNumber() > nc0) ? colStr(db, db->getColumnNumber() - 1) : std::string("()"));
    VectorDouble ref = VH::normalScore(masked, wt);
    o << " " << vecStr(ref);
    delete db;
  }
  o << ")";
  return o.str();
}

// (4 data yq zq)
static std::string runAnamEmpirical(const Sx& c) {
  VectorDouble data = c[1].vd(TEST);
  AnamEmpirical anam;
  int rc;
  try { rc = anam.fitFromArray(data); } catch (const std::exception& e) { rc = -2; }   // constant data: Interval::init throws
  std::ostringstream o; o << "(" << rc;
  if (rc != 0 || anam.getNDisc() <= 0) { o << ")"; return o.str(); }
  o << " " << vecStr(anam.getZDisc()) << " " << vecStr(anam.getYDisc());
  VectorDouble yq = c[2].vd(TEST), zq = c[3].vd(TEST);
  o << " " << vecStr(anam.gaussianToRawVector(yq)) << " " << vecStr(anam.rawToGaussianVector(zq));
  VectorDouble y = anam.rawToGaussianVector(data);
  o << " " << vecStr(y) << " " << vecStr(anam.gaussianToRawVector(y));
  o << " " << ivStr(anam._az) << " " << ivStr(anam._ay);
  o << " " << vecStr(anam.gaussianToRawVector(anam.rawToGaussianVector(zq))) << ")";
  return o.str();
}

// (5 ndim mode angles|matrix vecs)
static std::string runRotation(const Sx& c) {
  int ndim = (int) c[1].i(), mode = (int) c[2].i();
  Rotation rot(ndim);
  int rc = 0;
  if (mode == 0) rc = rot.setAngles(c[3].vd());
  else rc = rot.setMatrixDirectVec(c[3].vd());
  std::ostringstream o; o << "(" << rc << " " << (rot.isRotated() ? 1 : 0) << " " << matStr(rot.getMatrixDirect()) << " " << matStr(rot.getMatrixInverse()) << " (";
  bool first = true;
  for (auto& v : c[4].l) {
    VectorDouble in = v.vd(), d(ndim), b(ndim);
    rot.rotateDirect(in, d); rot.rotateInverse(d, b);
    o << (first ? "" : " ") << "(" << vecStr(d) << " " << vecStr(b) << ")"; first = false;
  }
  o << ")";
  // (cos, sin) of the angles as the library computes them, the angles held by the object, and the matrix rebuilt from those angles
  o << " (";
  if (mode == 0) {
    VectorDouble ang = c[3].vd(); ang.resize(ndim == 2 ? 1 : ndim, 0.);
    for (size_t k = 0; k < ang.size(); k++) { double ca, sa; GH::rotationGetSinCos(ang[k], &ca, &sa); o << (k ? " " : "") << "(" << sx_d(ca) << " " << sx_d(sa) << ")"; }
  }
  o << ") " << vecStr(rot.getAngles());
  // matrix -> angles (rotationGetAnglesInPlace through setMatrixDirect) -> matrix
  Rotation r2(ndim), r3(ndim);
  int rc2 = r2.setMatrixDirect(rot.getMatrixDirect());
  if (rc2 == 0) rc2 = r3.setAngles(r2.getAngles());
  o << " " << rc2 << " " << matStr(r3.getMatrixDirect()) << ")";
  return o.str();
}

static std::string run(const Sx& c) {
  long long kind = c[0].i();
  if (kind == 0) return runPCA(c);
  if (kind == 1) return runHermite(c);
  if (kind == 2) return runAnamHermite(c);
  if (kind == 3) return runNormalScore(c);
  if (kind == 4) return runAnamEmpirical(c);
  if (kind == 5) return runRotation(c);
  if (kind == 10) {   // (10 nbpoly y r ifacs data sel): the by-ranks entry points of the Hermite factors
    int nb = (int) c[1].i(); double y = c[2].d(), r = c[3].d(); VectorInt ifacs = c[4].vi();
    std::ostringstream o;
    o << "(" << vecStr(hermitePolynomials(y, r, ifacs));
    AnamHermite anam(nb);
    o << " " << vecStr(anam.z2factor(y, ifacs));
    // Db level: rawToFactorByRanks (ranks as given) and rawToFactor (ranks 1..n)
    VectorDouble data = c[5].vd(TEST); int n = (int) data.size();
    for (int pass = 0; pass < 2; pass++) {
      VectorDouble tab = data; VectorString names = {"z"}, locs = {"z1"};
      if (c[6].size() > 0) { for (auto& x : c[6].l) tab.push_back(x.b() ? 1. : 0.); names.push_back("sel"); locs.push_back("sel"); }
      Db* db = Db::createFromSamples(n, ELoadBy::COLUMN, tab, names, locs, false);
      int nc0 = db->getColumnNumber();
      int nfac = (int) ifacs.size();
      int rc = (pass == 0) ? anam.rawToFactorByRanks(db, ifacs) : anam.rawToFactor(db, nfac);
      int nnew = db->getColumnNumber() - nc0;
      o << " " << rc << " " << nnew << " (";
      for (int k = 0; k < nnew; k++) o << (k ? " " : "") << colStr(db, nc0 + k);
      o << ")";
      delete db;
    }
    o << ")";
    return o.str();
  }
  if (kind == 9) {   // (9 which data zcuts): which 0 = AnamDiscreteDD fit of a fresh object, 1 = AnamDiscreteIR fit + factors of every value
    int which = (int) c[1].i(); VectorDouble data = c[2].vd(TEST), zc = c[3].vd();
    std::ostringstream o; int rc = -9, threw = 0;
    if (which == 0) {
      AnamDiscreteDD dd(1., 0.); dd.setZCut(zc);
      try { rc = dd.fitFromArray(data); } catch (const std::exception& e) { threw = 1; }
      o << "(" << rc << " " << threw << ")";
    } else {
      AnamDiscreteIR ir(0.); ir.setZCut(zc);
      try { rc = ir.fitFromArray(data); } catch (const std::exception& e) { threw = 1; }
      o << "(" << rc << " " << threw << " (";
      VectorInt ifacs; for (int k = 1; k <= (int) zc.size(); k++) ifacs.push_back(k);
      if (rc == 0 && !threw) for (size_t i = 0; i < data.size(); i++) { if (FFFF(data[i])) { o << (i ? " " : "") << "()"; continue; } o << (i ? " " : "") << vecStr(ir.z2factor(data[i], ifacs)); }
      o << "))";
    }
    return o.str();
  }
  if (kind == 8) {   // (8 nbpoly data): AnamHermite::fitFromArray, the oracle arrays it uses, and a re-fit of an object already fitted on other data
    int nb = (int) c[1].i(); VectorDouble data = c[2].vd(TEST);
    AnamHermite a(nb); int rc = -9;
    try { rc = a.fitFromArray(data); } catch (const std::exception& e) { rc = -2; }
    std::ostringstream o; o << "(" << rc;
    if (rc != 0) { o << ")"; return o.str(); }
    int nech = (int) data.size();
    VectorDouble zs(nech + 2), ys(nech + 2);
    int ncl = AnamHermite::_data_sort(nech, data, VectorDouble(), zs, ys);
    VectorDouble zc(ncl), yc(ncl), Gc(ncl), g(ncl), sq(nb);
    for (int i = 0; i < ncl; i++) { zc[i] = zs[i]; yc[i] = ys[i]; Gc[i] = law_cdf_gaussian(ys[i]); g[i] = law_df_gaussian(ys[i]); }
    for (int i = 0; i < nb; i++) sq[i] = sqrt((double) i);
    o << " " << vecStr(a.getPsiHns()) << " " << vecStr(zc) << " " << vecStr(yc) << " " << vecStr(Gc) << " " << vecStr(g) << " " << vecStr(sq);
    VectorDouble bnd = {a.getAzmin(), a.getAzmax(), a.getAymin(), a.getAymax(), a.getPzmin(), a.getPzmax(), a.getPymin(), a.getPymax()};
    o << " " << vecStr(bnd);
    AnamHermite b(nb);
    VectorDouble other; for (int i = 0; i < nech; i++) if (!FFFF(data[i])) other.push_back(3. * data[nech - 1 - i] * (FFFF(data[nech - 1 - i]) ? 0. : 1.) + i);
    int r1 = -9, r2 = -9;
    try { r1 = b.fitFromArray(other); r2 = b.fitFromArray(data); } catch (const std::exception& e) { r2 = -2; }
    VectorDouble bnd2 = {b.getAzmin(), b.getAzmax(), b.getAymin(), b.getAymax(), b.getPzmin(), b.getPzmax(), b.getPymin(), b.getPymax()};
    o << " " << r2 << " " << vecStr(b.getPsiHns()) << " " << vecStr(bnd2) << ")";
    return o.str();
  }
  if (kind == 7) {   // (7 which nbpoly data): fit of degenerate data; which 0 = AnamEmpirical, 1 = AnamHermite. Returns (rc threw)
    int which = (int) c[1].i(), nb = (int) c[2].i(); VectorDouble data = c[3].vd(TEST); int rc = -9, threw = 0;
    try {
      if (which == 0) { AnamEmpirical a; rc = a.fitFromArray(data); }
      else { AnamHermite a(nb); rc = a.fitFromArray(data); }
    } catch (const std::exception& e) { threw = 1; }
    std::ostringstream o; o << "(" << rc << " " << threw << ")"; return o.str();
  }
  if (kind == 6) { std::ostringstream o; o << "(" << sx_d(hermiteCondExpElement(c[1].d(), c[2].d(), c[3].vd())) << ")"; return o.str(); }   // (6 y s psi)
  return "(-997 1)";
}
int main(int argc, char** argv) { return sx_main(argc, argv, run); }

// C08 harness: neutral-file save / reload of gstlearn objects, on the same cases as the Coq model.
//  (1 class recipe)  build the object through the public API, dumpToNF -> a.nf, createFromNF -> B, B.dumpToNF -> b.nf
//        -> (okdump fileA okload G0 X0 G1 X1 fileB traceW traceR hook)
//             G = the getters the model covers (same layout as the model's object), X = the other getters
//  (2 class chars)   write the characters to c.nf and load them -> (ok G X)
//  (3 container prefix name)   save and reload a NeighUnique through container / prefix settings -> (okdump okload)
//  (4 fmt recipe)    grid exchange formats that are written and read (GridZycor, GridIfpEn, ...): geometry and values
// Files live in the directory given by the environment variable VERIF_C08_DIR.
#include "sx.hpp"
#include <dlfcn.h>
#include <unistd.h>
#include <fstream>
#include <functional>
#define private public
#define protected public
#include "geoslib_define.h"
#include "Basic/ASerializable.hpp"
#include "Basic/VectorHelper.hpp"
#include "Basic/PolyLine2D.hpp"
#include "Space/ASpaceObject.hpp"
#include "Space/SpaceRN.hpp"
#include "Neigh/NeighUnique.hpp"
#include "Neigh/NeighBench.hpp"
#include "Neigh/NeighCell.hpp"
#include "Neigh/NeighMoving.hpp"
#include "Neigh/NeighImage.hpp"
#include "Geometry/BiTargetCheckBench.hpp"
#include "Geometry/BiTargetCheckDistance.hpp"
#include "Matrix/Table.hpp"
#include "Polygon/PolyElem.hpp"
#include "Polygon/Polygons.hpp"
#include "Anamorphosis/AnamHermite.hpp"
#include "Db/Db.hpp"
#include "Db/DbGrid.hpp"
#include "Variogram/Vario.hpp"
#include "Variogram/VarioParam.hpp"
#include "Variogram/DirParam.hpp"
#include "Model/Model.hpp"
#include "Covariances/CovAniso.hpp"
#include "Covariances/CovContext.hpp"
#include "Drifts/ADrift.hpp"
#include "Enum/ELoc.hpp"
#include "Enum/ECov.hpp"
#include "Enum/ECalcVario.hpp"
#include "Enum/ELoadBy.hpp"
#include "Db/DbLine.hpp"
#include "Db/DbGraphO.hpp"
#include "Matrix/NF_Triplet.hpp"
#include "Matrix/MatrixRectangular.hpp"
#include "Matrix/MatrixInt.hpp"
#include "Matrix/MatrixSquareGeneral.hpp"
#include "Anamorphosis/AnamEmpirical.hpp"
#include "Anamorphosis/AnamDiscreteDD.hpp"
#include "Anamorphosis/AnamDiscreteIR.hpp"
#include "Mesh/MeshETurbo.hpp"
#include "Mesh/MeshEStandard.hpp"
#include "LithoRule/Rule.hpp"
#include "LithoRule/RuleShift.hpp"
#include "LithoRule/RuleShadow.hpp"
#include "Faults/Faults.hpp"
#include "Fractures/FracEnviron.hpp"
#include "Fractures/FracFamily.hpp"
#include "Fractures/FracFault.hpp"
#include "OutputFormat/GridZycor.hpp"
#include "OutputFormat/GridIfpEn.hpp"
#undef private
#undef protected

static std::string DIR;
static std::string path(const char* n) { return DIR + "/" + n; }

// ------------------------------------------------------------------ trace hook (optional: resolved at run time)
typedef void (*fn_void)();
typedef long long (*fn_size)();
typedef int (*fn_get)(long long, char*, char*, long long*, const char**);
static fn_void h_start = nullptr, h_stop = nullptr; static fn_size h_size = nullptr; static fn_get h_get = nullptr;
static bool hook_present() {
  static int st = -1;
  if (st < 0) {
    h_start = (fn_void) dlsym(RTLD_DEFAULT, "verif_nf_trace_start");
    h_stop = (fn_void) dlsym(RTLD_DEFAULT, "verif_nf_trace_stop");
    h_size = (fn_size) dlsym(RTLD_DEFAULT, "verif_nf_trace_size");
    h_get = (fn_get) dlsym(RTLD_DEFAULT, "verif_nf_trace_get");
    st = (h_start && h_stop && h_size && h_get) ? 1 : 0;
  }
  return st == 1;
}
static std::string sx_s(const std::string& s) {
  std::ostringstream o; o << "(";
  for (size_t i = 0; i < s.size(); i++) { if (i) o << " "; o << (int) (unsigned char) s[i]; }
  o << ")"; return o.str();
}
static void trace_start() { if (hook_present()) h_start(); }
static std::string trace_take() {
  if (!hook_present()) return "()";
  h_stop();
  std::ostringstream o; o << "(";
  long long n = h_size();
  for (long long i = 0; i < n; i++) {
    char rw, ty; long long cnt; const char* title;
    if (h_get(i, &rw, &ty, &cnt, &title)) break;
    if (i) o << " ";
    o << "(" << (int) rw << " " << (int) ty << " " << cnt << " " << sx_s(title) << ")";
  }
  o << ")"; return o.str();
}
// progress marker: where a crash happened (read by the check after the process died)
static void mark(const char* phase) { std::ofstream f(path("progress.txt")); f << phase; }
static std::string slurp(const std::string& p) {
  std::ifstream f(p, std::ios::binary); std::ostringstream o; o << f.rdbuf(); return o.str();
}
static std::string sx_b(bool b) { return b ? "1" : "0"; }
static std::string sx_i(long long i) { return std::to_string(i); }
static std::string sx_vs(const VectorString& v) { std::string s = "("; for (size_t i = 0; i < v.size(); i++) { if (i) s += " "; s += sx_s(v[i]); } return s + ")"; }
static VectorDouble VD(const Sx& s) { VectorDouble v; for (auto& x : s.l) v.push_back(x.d(TEST)); return v; }
static VectorInt VI(const Sx& s) { VectorInt v; for (auto& x : s.l) v.push_back((int) x.i()); return v; }
static VectorString VS(const Sx& s) { VectorString v; for (auto& x : s.l) v.push_back(x.str()); return v; }
static std::string sx_vdd(const VectorDouble& v) { std::vector<double> w(v.begin(), v.end()); return sx_vd(w); }

// one serialisable class: build from a recipe, load from a file, print the getters
struct Cls {
  std::function<ASerializable*(const Sx&)> build;
  std::function<ASerializable*(const std::string&)> load;
  std::function<std::string(const ASerializable*)> G;   // modelled getters
  std::function<std::string(const ASerializable*)> X;   // other getters
};

// ------------------------------------------------------------------ neighbourhoods
static std::string g_aneigh(const ANeigh* n) {
  return "(" + sx_i(n->getNDim()) + " " + sx_b(n->getFlagXvalid()) + " " + sx_b(n->getFlagKFold()) + " " +
         sx_b(n->_useBallSearch) + " " + sx_i(n->_ballLeafSize) + ")";
}
static void space(int ndim) { defineDefaultSpace(ESpaceType::RN, ndim); }
static void aneigh_opts(ANeigh* n, const Sx& r) {   // r = (ndim xvalid kfold ball leaf)
  n->setFlagKFold(r[2].b()); if (r[3].b()) n->setBallSearch(true, (int) r[4].i());
}

static Cls cls_unique() {
  Cls c;
  c.build = [](const Sx& r) -> ASerializable* { space((int) r[0][0].i()); NeighUnique* n = NeighUnique::create(r[0][1].b()); aneigh_opts(n, r[0]); return n; };
  c.load = [](const std::string& f) -> ASerializable* { return NeighUnique::createFromNF(f, false); };
  c.G = [](const ASerializable* o) { return g_aneigh(dynamic_cast<const NeighUnique*>(o)); };
  c.X = [](const ASerializable*) { return std::string("()"); };
  return c;
}
static Cls cls_bench() {
  Cls c;
  c.build = [](const Sx& r) -> ASerializable* { space((int) r[0][0].i()); NeighBench* n = NeighBench::create(r[0][1].b(), r[1].d(TEST)); aneigh_opts(n, r[0]); return n; };
  c.load = [](const std::string& f) -> ASerializable* { return NeighBench::createFromNF(f, false); };
  c.G = [](const ASerializable* o) { auto n = dynamic_cast<const NeighBench*>(o);
    return "(" + g_aneigh(n) + " " + sx_d(n->getWidth()) + " " + sx_d(n->_biPtBench->getWidth()) + ")"; };
  c.X = [](const ASerializable*) { return std::string("()"); };
  return c;
}
static Cls cls_cell() {
  Cls c;
  c.build = [](const Sx& r) -> ASerializable* { space((int) r[0][0].i()); NeighCell* n = NeighCell::create(r[0][1].b(), (int) r[1].i()); aneigh_opts(n, r[0]); return n; };
  c.load = [](const std::string& f) -> ASerializable* { return NeighCell::createFromNF(f, false); };
  c.G = [](const ASerializable* o) { auto n = dynamic_cast<const NeighCell*>(o); return "(" + g_aneigh(n) + " " + sx_i(n->getNMini()) + ")"; };
  c.X = [](const ASerializable*) { return std::string("()"); };
  return c;
}
static Cls cls_moving() {
  Cls c;
  // recipe: (aneigh nmaxi radius nmini nsect nsmax coeffs angles distcont)
  c.build = [](const Sx& r) -> ASerializable* {
    space((int) r[0][0].i());
    NeighMoving* n = NeighMoving::create(r[0][1].b(), (int) r[1].i(), r[2].d(TEST), (int) r[3].i(), (int) r[4].i(), (int) r[5].i(), VD(r[6]), VD(r[7]));
    aneigh_opts(n, r[0]);
    if (!r[8].l.empty()) n->setDistCont(r[8].d());
    return n; };
  c.load = [](const std::string& f) -> ASerializable* { return NeighMoving::createFromNF(f, false); };
  c.G = [](const ASerializable* o) { auto n = dynamic_cast<const NeighMoving*>(o); auto b = n->getBiPtDist();
    return "(" + g_aneigh(n) + " " + sx_i(n->getNMini()) + " " + sx_i(n->getNMaxi()) + " " + sx_i(n->getNSect()) + " " + sx_i(n->getNSMax()) + " " +
           sx_d(n->getDistCont()) + " " + sx_d(b->getRadius()) + " " + sx_b(b->getFlagAniso()) + " " + sx_b(b->getFlagRotation()) + " " +
           sx_vdd(b->getAnisoCoeffs()) + " " + sx_vdd(b->getAnisoRotMats()) + ")"; };
  // behaviour: normalised distance of a few increments (only meaningful when the checker dimension fits)
  c.X = [](const ASerializable* o) { auto n = dynamic_cast<const NeighMoving*>(o); auto b = n->getBiPtDist();
    int nd = b->getNDim(); VectorDouble d1(nd, 0.), d2(nd, 0.);
    for (int i = 0; i < nd; i++) { d1[i] = 3. + i; d2[i] = (i % 2) ? -2. : 5.; }
    return "(" + sx_i(nd) + " " + sx_d(b->getNormalizedDistance(d1)) + " " + sx_d(b->getNormalizedDistance(d2)) + " " + sx_b(n->getFlagSector()) + ")"; };
  return c;
}

// ------------------------------------------------------------------ Table
static Cls cls_table() {
  Cls c;
  // recipe: (nrows ncols values-row-major rownames colnames title)
  c.build = [](const Sx& r) -> ASerializable* {
    int nr = (int) r[0].i(), nc = (int) r[1].i();
    Table* t = Table::create(nr, nc);
    int k = 0;
    for (int i = 0; i < nr; i++) for (int j = 0; j < nc; j++) t->setValue(i, j, r[2][k++].d(TEST));
    if (!r[3].l.empty()) t->setRowNames(VS(r[3]));
    if (!r[4].l.empty()) t->setColumnNames(VS(r[4]));
    if (!r[5].l.empty()) t->setTitle(r[5].str());
    return t; };
  c.load = [](const std::string& f) -> ASerializable* { return Table::createFromNF(f, false); };
  c.G = [](const ASerializable* o) { auto t = dynamic_cast<const Table*>(o);
    std::string s = "(" + sx_i(t->getNCols()) + " " + sx_i(t->getNRows()) + " (";
    for (int i = 0; i < t->getNRows(); i++) { if (i) s += " "; s += "(";
      for (int j = 0; j < t->getNCols(); j++) { if (j) s += " "; s += sx_d(t->getValue(i, j)); } s += ")"; }
    return s + "))"; };
  c.X = [](const ASerializable* o) { auto t = dynamic_cast<const Table*>(o);
    return "(" + sx_vs(t->getRowNames()) + " " + sx_vs(t->getColumnNames()) + " " + sx_s(t->getTitle()) + ")"; };
  return c;
}

// ------------------------------------------------------------------ PolyLine2D, PolyElem, Polygons
static std::string g_pts(const PolyLine2D* p) {
  std::string s = "(";
  for (int i = 0; i < p->getNPoints(); i++) { if (i) s += " "; s += "(" + sx_d(p->getX(i)) + " " + sx_d(p->getY(i)) + ")"; }
  return s + ")";
}
static std::string g_pe(const PolyElem* p) { return "(" + sx_d(p->getZmin()) + " " + sx_d(p->getZmax()) + " " + g_pts(p) + ")"; }
static Cls cls_polyline() {
  Cls c;
  c.build = [](const Sx& r) -> ASerializable* { return PolyLine2D::create(VD(r[0]), VD(r[1])); };
  c.load = [](const std::string& f) -> ASerializable* { return PolyLine2D::createFromNF(f, false); };
  c.G = [](const ASerializable* o) { return g_pts(dynamic_cast<const PolyLine2D*>(o)); };
  c.X = [](const ASerializable*) { return std::string("()"); };
  return c;
}
static Cls cls_polyelem() {
  Cls c;
  c.build = [](const Sx& r) -> ASerializable* { return new PolyElem(VD(r[0]), VD(r[1]), r[2].d(TEST), r[3].d(TEST)); };
  c.load = [](const std::string& f) -> ASerializable* { return PolyElem::createFromNF(f, false); };
  c.G = [](const ASerializable* o) { return g_pe(dynamic_cast<const PolyElem*>(o)); };
  c.X = [](const ASerializable*) { return std::string("()"); };
  return c;
}
static Cls cls_polygons() {
  Cls c;
  c.build = [](const Sx& r) -> ASerializable* { Polygons* P = Polygons::create();
    for (auto& e : r.l) { PolyElem pe(VD(e[0]), VD(e[1]), e[2].d(TEST), e[3].d(TEST)); P->addPolyElem(pe); }
    return P; };
  c.load = [](const std::string& f) -> ASerializable* { return Polygons::createFromNF(f, false); };
  c.G = [](const ASerializable* o) { auto P = dynamic_cast<const Polygons*>(o); std::string s = "(";
    for (int i = 0; i < P->getPolyElemNumber(); i++) { if (i) s += " "; s += g_pe(&P->getPolyElem(i)); }
    return s + ")"; };
  // behaviour: inside test of a few points
  c.X = [](const ASerializable* o) { auto P = dynamic_cast<const Polygons*>(o); std::string s = "((";
    for (int k = 0; k < 6; k++) { VectorDouble q = { 0.37 + 1.3 * k, -0.21 + 0.9 * k }; if (k) s += " "; s += sx_b(P->inside(q, false)); }
    return s + "))"; };
  return c;
}

// ------------------------------------------------------------------ AnamHermite
static Cls cls_hermite() {
  Cls c;
  // recipe: (mode flagBound rcoef psi-or-data (azmin azmax aymin aymax pzmin pzmax pymin pymax) mean variance nbpoly)
  //   mode 0: coefficients given (setPsiHns), mode 1: fitted on data (fitFromArray); then bounds; mean/variance forced if given
  c.build = [](const Sx& r) -> ASerializable* {
    int mode = (int) r[0].i();
    AnamHermite* a;
    if (mode == 0) { a = AnamHermite::create((int) r[3].size(), r[1].b(), r[2].d(TEST)); a->setPsiHns(VD(r[3])); a->calculateMeanAndVariance(); }
    else { a = AnamHermite::create((int) r[7].i(), r[1].b(), 1.); a->fitFromArray(VD(r[3])); if (!r[2].l.empty()) a->setRCoef(r[2].d()); }
    if (!r[4].l.empty()) { VectorDouble b = VD(r[4]);
      a->setAzmin(b[0]); a->setAzmax(b[1]); a->setAymin(b[2]); a->setAymax(b[3]);
      a->setPzmin(b[4]); a->setPzmax(b[5]); a->setPymin(b[6]); a->setPymax(b[7]); }
    if (!r[5].l.empty()) a->setMean(r[5].d());
    if (!r[6].l.empty()) a->setVariance(r[6].d());
    return a; };
  c.load = [](const std::string& f) -> ASerializable* { return AnamHermite::createFromNF(f, false); };
  c.G = [](const ASerializable* o) { auto a = dynamic_cast<const AnamHermite*>(o);
    return "(" + sx_d(a->getAzmin()) + " " + sx_d(a->getAzmax()) + " " + sx_d(a->getAymin()) + " " + sx_d(a->getAymax()) + " " +
           sx_d(a->getPzmin()) + " " + sx_d(a->getPzmax()) + " " + sx_d(a->getPymin()) + " " + sx_d(a->getPymax()) + " " +
           sx_d(a->getMean()) + " " + sx_d(a->getVariance()) + " " + sx_d(a->getRCoef()) + " " + sx_vdd(a->_psiHn) + " " + sx_b(a->getFlagBound()) + ")"; };
  c.X = [](const ASerializable* o) { auto a = dynamic_cast<const AnamHermite*>(o);
    std::string s = "(" + sx_vdd(a->getPsiHns()) + " (";
    // probes of the transform: it is discontinuous at the four gaussian bounds (which the fit puts on round values and the
    // file rounds to 15 digits): a probe that sits on a bound is moved a little inside
    if (a->getNbPoly() > 0) for (double y : { -1.4837, 0.0173, 0.7219, 2.4631 }) {
      for (double b : { a->getAymin(), a->getAymax(), a->getPymin(), a->getPymax() }) if (!FFFF(b) && std::abs(y - b) < 1e-6) y += 3.7e-4;
      s += " " + sx_d(a->transformToRawValue(y)); }
    return s + "))"; };
  return c;
}


// ------------------------------------------------------------------ Db, DbGrid
// columns of a recipe: ((name loctype locindex values) ...), loctype -1 = none; locators are set afterwards, in the
// order of the columns (so that e.g. z2 may come before z1)
static std::string g_loc(const Db* db, int icol) {
  ELoc t; int idx; db->getLocatorByColIdx(icol, &t, &idx);
  if (t == ELoc::UNKNOWN) return "()";
  return "(" + sx_i(t.getValue()) + " " + sx_i(idx) + ")";
}
static std::string g_db(const Db* db) {
  int ncol = db->getColumnNumber(), nech = db->getSampleNumber();
  std::string s = "(" + sx_i(nech) + " (";
  for (int j = 0; j < ncol; j++) { if (j) s += " "; s += sx_s(db->getNameByColIdx(j)); }
  s += ") (";
  for (int j = 0; j < ncol; j++) { if (j) s += " "; s += g_loc(db, j); }
  s += ") (";
  for (int i = 0; i < nech; i++) { if (i) s += " "; s += "(";
    for (int j = 0; j < ncol; j++) { if (j) s += " "; s += sx_d(db->getValueByColIdx(i, j)); } s += ")"; }
  return s + "))";
}
static std::string x_db(const Db* db) {
  return "(" + sx_i(db->getNDim()) + " " + sx_i(db->getSampleNumber(true)) + " " + sx_i(db->getLocNumber(ELoc::Z)) + " " + sx_i(db->getLocNumber(ELoc::X)) + ")";
}
static void add_cols(Db* db, const Sx& cols) {
  std::vector<int> uids;
  for (auto& c : cols.l) {
    VectorDouble v = VD(c[3]);
    int iuid = db->addColumns(v, c[0].str(), ELoc::UNKNOWN, 0);
    uids.push_back(iuid);
  }
  for (size_t k = 0; k < cols.size(); k++) {
    int t = (int) cols[k][1].i();
    if (t >= 0 && uids[k] >= 0) db->setLocatorByUID(uids[k], ELoc::fromValue(t), (int) cols[k][2].i());
  }
}
// all the columns given at the creation (adding them one by one checks every name against all the others each time)
static void bulk_cols(const Sx& cols, VectorDouble& tab, VectorString& names) {
  for (auto& c : cols.l) { VectorDouble v = VD(c[3]); tab.insert(tab.end(), v.begin(), v.end()); names.push_back(c[0].str()); }
}
static void bulk_locators(Db* db, const Sx& cols, int shift) {
  for (size_t k = 0; k < cols.size(); k++) {
    int t = (int) cols[k][1].i();
    if (t >= 0) db->setLocatorByUID((int) k + shift, ELoc::fromValue(t), (int) cols[k][2].i());
  }
}
// history of a Db: k provisional columns added before the real ones and deleted afterwards (the UIDs of the columns are
// then different from their ranks), or two columns added at the end and the first of them deleted
static void hist_before(Db* db, int k) { for (int i = 0; i < k; i++) db->addColumnsByConstant(1, 9.25 + i, "tmp_hist_" + std::to_string(i)); }
static void hist_after(Db* db, int k) { for (int i = 0; i < k; i++) db->deleteColumn("tmp_hist_" + std::to_string(i)); }
static void hist_tail(Db* db) { db->addColumnsByConstant(1, 3.5, "hist_a"); db->addColumnsByConstant(1, 4.5, "hist_b"); db->deleteColumn("hist_a"); }
static Cls cls_db() {
  Cls c;
  // recipe: (nech addRank cols [bulk] [history])
  c.build = [](const Sx& r) -> ASerializable* {
    int nech = (int) r[0].i();
    if (r.size() > 3 && r[3].b()) {
      VectorDouble tab; VectorString names; bulk_cols(r[2], tab, names);
      Db* db = Db::createFromSamples(nech, ELoadBy::COLUMN, tab, names, VectorString(), r[1].b());
      if (db != nullptr) bulk_locators(db, r[2], r[1].b() ? 1 : 0);
      return db;
    }
    Db* db = Db::createFromSamples(nech, ELoadBy::COLUMN, VectorDouble(), VectorString(), VectorString(), r[1].b());
    int k = r.size() > 4 ? (int) r[4].i() : 0;      // optional 5th element: provisional columns in the history
    hist_before(db, k); add_cols(db, r[2]); hist_after(db, k);
    return db; };
  c.load = [](const std::string& f) -> ASerializable* { return Db::createFromNF(f, false); };
  c.G = [](const ASerializable* o) { return g_db(dynamic_cast<const Db*>(o)); };
  c.X = [](const ASerializable* o) { return x_db(dynamic_cast<const Db*>(o)); };
  return c;
}
static Cls cls_dbgrid() {
  Cls c;
  // recipe: (nx dx x0 angles addRank addCoor cols [bulk])
  c.build = [](const Sx& r) -> ASerializable* {
    if (r.size() > 7 && r[7].b()) {
      VectorDouble tab; VectorString names; bulk_cols(r[6], tab, names);
      DbGrid* g = DbGrid::create(VI(r[0]), VD(r[1]), VD(r[2]), VD(r[3]), ELoadBy::COLUMN, tab, names, VectorString(), r[4].b(), r[5].b());
      if (g != nullptr) bulk_locators(g, r[6], (r[4].b() ? 1 : 0) + (r[5].b() ? (int) r[0].size() : 0));
      return g;
    }
    DbGrid* g = DbGrid::create(VI(r[0]), VD(r[1]), VD(r[2]), VD(r[3]), ELoadBy::COLUMN, VectorDouble(), VectorString(), VectorString(), r[4].b(), r[5].b());
    int k = r.size() > 8 ? (int) r[8].i() : 0;      // optional 9th element: provisional columns in the history
    if (g != nullptr) { hist_before(g, k); add_cols(g, r[6]); hist_after(g, k); }
    return g; };
  c.load = [](const std::string& f) -> ASerializable* { return DbGrid::createFromNF(f, false); };
  c.G = [](const ASerializable* o) { auto g = dynamic_cast<const DbGrid*>(o);
    std::string s = "((";
    for (int d = 0; d < g->getNDim(); d++) { if (d) s += " ";
      s += "(" + sx_i(g->getNX(d)) + " " + sx_d(g->getX0(d)) + " " + sx_d(g->getDX(d)) + " " + sx_d(g->getAngle(d)) + ")"; }
    return s + ") " + g_db(g) + ")"; };
  // behaviour: coordinates of the last node, rank of a point
  c.X = [](const ASerializable* o) { auto g = dynamic_cast<const DbGrid*>(o);
    std::string s = "(" + x_db(g) + " (";
    int n = g->getSampleNumber();
    if (n > 0 && g->getNDim() > 0 && g->getGrid().getNTotal() == n) { VectorDouble x(g->getNDim()); g->getGrid().rankToCoordinatesInPlace(n - 1, x); for (size_t k = 0; k < x.size(); k++) { if (k) s += " "; s += sx_d(x[k]); } }
    return s + "))"; };
  return c;
}

// ------------------------------------------------------------------ Vario
static std::string g_vario(const Vario* v) {
  int nvar = v->getVariableNumber(), ndir = v->getDirectionNumber();
  std::string s = "(" + sx_i(v->_varioparam.getDimensionNumber()) + " " + sx_i(nvar) + " " + sx_d(v->getScale()) + " " + sx_i(v->getCalcul().getValue()) + " " +
                  sx_vdd(v->getDates()) + " " + sx_vs(v->getVariableNames()) + " (";
  for (int i = 0; i < nvar; i++) { if (i) s += " "; s += "(";
    for (int j = 0; j < nvar; j++) { if (j) s += " "; s += sx_d(v->getVar(i, j)); } s += ")"; }
  s += ") (";
  for (int d = 0; d < ndir; d++) {
    const DirParam& dp = v->getDirParam(d);
    if (d) s += " ";
    s += "(" + sx_i(dp.getLagNumber()) + " " + sx_i(dp.getOptionCode()) + " " + sx_d(dp.getTolCode()) + " " + sx_d(dp.getDPas()) + " " + sx_d(dp.getTolDist()) + " ";
    s += sx_vi(dp.getGrincrs()) + " " + sx_d(dp.getTolAngle()) + " " + sx_vdd(dp.getCodirs()) + " ";
    s += sx_d(dp.getBench()) + " " + sx_d(dp.getCylRad()) + " " + sx_i(dp.getIdate()) + " " + sx_vdd(dp.getBreaks()) + " (";
    for (int i = 0; i < v->getDirSize(d); i++) { if (i) s += " "; s += "(" + sx_d(v->getSwByIndex(d, i)) + " " + sx_d(v->getHhByIndex(d, i)) + " " + sx_d(v->getGgByIndex(d, i)) + ")"; }
    s += "))";
  }
  return s + "))";
}
static Cls cls_vario() {
  Cls c;
  // recipe: (ndim nvar calcul scale dates nech coords(by dim) values(by var) dirs nas [names])
  //   dir = (kind npas dpas toldis tolang optcode idate bench cylrad tolcode breaks codir grincr)   kind 0: free, 1: on a grid
  //   nas = ((idir i which) ...) results set to TEST afterwards;  grid recipes give nx instead of coords
  c.build = [](const Sx& r) -> ASerializable* {
    int ndim = (int) r[0].i(), nvar = (int) r[1].i();
    space(ndim);
    Db* db = nullptr; DbGrid* grid = nullptr;
    bool ongrid = false; for (auto& d : r[8].l) if (d[0].i() == 1) ongrid = true;
    VectorDouble dates = VD(r[4]);
    VarioParam vp(r[3].d(TEST), dates);
    if (ongrid) {
      VectorInt nx = VI(r[6]);
      grid = DbGrid::create(nx);
      for (int k = 0; k < nvar; k++) grid->addColumns(VD(r[7][k]), "v" + std::to_string(k + 1), ELoc::Z, k);
      db = grid;
    } else {
      int nech = (int) r[5].i();
      db = Db::createFromSamples(nech, ELoadBy::COLUMN, VectorDouble(), VectorString(), VectorString(), false);
      for (int k = 0; k < ndim; k++) db->addColumns(VD(r[6][k]), "x" + std::to_string(k + 1), ELoc::X, k);
      // optional 11th element of the recipe: the names of the variables
      for (int k = 0; k < nvar; k++) {
        std::string nm = r[7][k].size() ? ("var" + std::to_string(k + 1)) : "e";
        if (r.size() > 10 && (int) r[10].size() > k) nm = r[10][k].str();
        db->addColumns(VD(r[7][k]), nm, ELoc::Z, k); }
    }
    for (auto& d : r[8].l) {
      if (d[0].i() == 1) { DirParam dp(grid, (int) d[1].i(), VI(d[12]), nullptr); vp.addDir(dp); }
      else { DirParam dp((int) d[1].i(), d[2].d(TEST), d[3].d(TEST), d[4].d(TEST), (int) d[5].i(), (int) d[6].i(), d[7].d(TEST), d[8].d(TEST), d[9].d(TEST), VD(d[10]), VD(d[11]), TEST, nullptr); vp.addDir(dp); }
    }
    Vario* v = Vario::computeFromDb(vp, db, ECalcVario::fromValue((int) r[2].i()));
    if (v != nullptr) for (auto& t : r[9].l) {
      int idir = (int) t[0].i(), i = (int) t[1].i(), w = (int) t[2].i();
      if (idir < v->getDirectionNumber() && i < v->getDirSize(idir)) {
        if (w == 0) v->setSwByIndex(idir, i, TEST); else if (w == 1) v->setHhByIndex(idir, i, TEST); else v->setGgByIndex(idir, i, TEST); }
    }
    delete db;
    return v; };
  c.load = [](const std::string& f) -> ASerializable* { return Vario::createFromNF(f, false); };
  c.G = [](const ASerializable* o) { return g_vario(dynamic_cast<const Vario*>(o)); };
  c.X = [](const ASerializable* o) { auto v = dynamic_cast<const Vario*>(o); return "(" + sx_b(v->getFlagAsym()) + ")"; };
  return c;
}

// ------------------------------------------------------------------ Model
static std::string g_model(const Model* m) {
  int ndim = m->getDimensionNumber(), nvar = m->getVariableNumber();
  std::string s = "(" + sx_i(ndim) + " " + sx_i(nvar) + " " + sx_d(m->getField()) + " (";
  for (int ic = 0; ic < m->getCovaNumber(); ic++) {
    const CovAniso* cv = m->getCova(ic);
    if (ic) s += " ";
    s += "(" + sx_i(cv->getType().getValue()) + " " + sx_d(cv->getParam()) + " ";
    s += (cv->hasRange() ? sx_vdd(cv->getRanges()) : std::string("()")) + " (";
    for (int i = 0; i < ndim; i++) for (int j = 0; j < ndim; j++) { if (i + j) s += " "; s += sx_d(cv->getAnisoRotMat(j, i)); }
    s += ") (";
    for (int i = 0; i < nvar; i++) { if (i) s += " "; s += "(";
      for (int j = 0; j < nvar; j++) { if (j) s += " "; s += sx_d(cv->getSill(i, j)); } s += ")"; }
    s += "))";
  }
  s += ") (";
  for (int k = 0; k < m->getDriftNumber(); k++) { if (k) s += " "; s += sx_s(m->getDrift(k)->getDriftName()); }
  s += ") " + sx_vdd(m->getMeans()) + " (";
  for (int i = 0; i < nvar; i++) { if (i) s += " "; s += "(";
    for (int j = 0; j < nvar; j++) { if (j) s += " "; s += sx_d(m->getCovar0(i, j)); } s += ")"; }
  return s + "))";
}
static Cls cls_model() {
  Cls c;
  // recipe: (ndim nvar field covs drifts means covar0 [anam])    cov = (type range param ranges sills angles)   drifts = (order nfex)
  c.build = [](const Sx& r) -> ASerializable* {
    int ndim = (int) r[0].i(), nvar = (int) r[1].i();
    space(ndim);
    CovContext ctxt(nvar, ndim);
    Model* m = Model::create(ctxt);
    for (auto& cv : r[3].l)
      m->addCovFromParam(ECov::fromValue((int) cv[0].i()), cv[1].d(TEST), 1., cv[2].d(TEST), VD(cv[3]), VD(cv[4]), VD(cv[5]), true);
    if (!r[4].l.empty()) m->setDriftIRF((int) r[4][0].i(), (int) r[4][1].i());
    if (!r[2].l.empty()) m->setField(r[2].d());
    if (!r[5].l.empty()) m->setMeans(VD(r[5]));
    if (!r[6].l.empty()) m->setCovar0s(VD(r[6]));
    // optional 8th element: Hermite coefficients of an anamorphosis attached to the model
    if (r.size() > 7 && !r[7].l.empty()) { AnamHermite* an = AnamHermite::create((int) r[7].size(), true, 1.); if (an != nullptr) { an->setPsiHns(VD(r[7])); m->setAnam(an); /* the model keeps the pointer: the anamorphosis must outlive it */ } }
    return m; };
  c.load = [](const std::string& f) -> ASerializable* { return Model::createFromNF(f, false); };
  c.G = [](const ASerializable* o) { return g_model(dynamic_cast<const Model*>(o)); };
  // behaviour: value of the model at a few lags, angles of each structure
  c.X = [](const ASerializable* o) { auto m = dynamic_cast<const Model*>(o);
    int ndim = m->getDimensionNumber(), nvar = m->getVariableNumber();
    std::string s = "((";
    bool first = true;
    if (m->getCovaNumber() > 0)
      for (int k = 0; k < 3; k++) { VectorDouble dir(ndim, 0.); dir[k % ndim] = 1.; if (ndim > 1) dir[(k + 1) % ndim] = 0.5 * k;
        for (double h : { 0.3, 2.1 }) for (int i = 0; i < nvar; i++) { if (!first) s += " "; first = false; s += sx_d(m->evalIvarIpas(h, dir, i, (i + k) % nvar)); } }
    s += ") (";
    for (int ic = 0; ic < m->getCovaNumber(); ic++) { if (ic) s += " "; s += sx_vdd(m->getCova(ic)->getAnisoAngles()); }
    return s + ") " + sx_b(m->hasAnam()) + ")"; };
  return c;
}


// ------------------------------------------------------------------ classes without a model: printed text as getter
template <class T> static std::string x_text(const ASerializable* o) {
  auto t = dynamic_cast<const T*>(o); if (t == nullptr) return "(())";
  return "(" + sx_s(t->toString()) + ")";
}
// reload through the public stream interface (classes without createFromNF)
template <class T> static ASerializable* load_stream(const std::string& f, const char* tag) {
  std::ifstream is(f); if (!is.is_open()) return nullptr;
  std::string t; is >> t; if (t != tag) return nullptr;
  T* o = new T(); if (!o->deserialize(is, false)) { delete o; return nullptr; }
  return o;
}
template <class T> static Cls generic(std::function<ASerializable*(const Sx&)> build, std::function<ASerializable*(const std::string&)> load) {
  Cls c; c.build = build; c.load = load;
  c.G = [](const ASerializable*) { return std::string("()"); };
  c.X = [](const ASerializable* o) { return x_text<T>(o); };
  return c;
}
static void more_classes(std::map<int, Cls>& m) {
  // 20 DbLine: (ndim nbline nperline seed [history])
  m[20] = generic<DbLine>([](const Sx& r) -> ASerializable* { DbLine* d = DbLine::createFillRandom((int) r[0].i(), (int) r[1].i(), (int) r[2].i(), 5., VectorDouble(), 0.3, (int) r[3].i());
      if (d != nullptr && r.size() > 4 && r[4].b()) hist_tail(d); return d; },
                          [](const std::string& f) -> ASerializable* { return DbLine::createFromNF(f, false); });
  // 21 DbGraphO: (nech x1 x2 z arcs((i j v)...) [history])
  m[21] = generic<DbGraphO>([](const Sx& r) -> ASerializable* {
      VectorDouble tab = VD(r[1]); for (double v : VD(r[2])) tab.push_back(v); for (double v : VD(r[3])) tab.push_back(v);
      NF_Triplet arcs; for (auto& a : r[4].l) arcs.add((int) a[0].i(), (int) a[1].i(), a[2].d());
      DbGraphO* g = DbGraphO::createFromSamples((int) r[0].i(), ELoadBy::COLUMN, tab, arcs, {"x1", "x2", "z1"}, {"x1", "x2", "z1"});
      if (g != nullptr && r.size() > 5 && r[5].b()) hist_tail(g); return g; },
                            [](const std::string& f) -> ASerializable* { return DbGraphO::createFromNF(f, false); });
  // 22 AnamEmpirical: (ndisc sigma2e dilution gaussian data)   -- modelled: G = state, X = printed text
  m[22] = generic<AnamEmpirical>([](const Sx& r) -> ASerializable* {
      AnamEmpirical* a = new AnamEmpirical((int) r[0].i(), r[1].d(TEST), r[2].b(), r[3].b()); a->fitFromArray(VD(r[4])); return a; },
                                 [](const std::string& f) -> ASerializable* { return AnamEmpirical::createFromNF(f, false); });
  m[22].G = [](const ASerializable* o) { auto a = dynamic_cast<const AnamEmpirical*>(o);
    return "(" + sx_d(a->getAzmin()) + " " + sx_d(a->getAzmax()) + " " + sx_d(a->getAymin()) + " " + sx_d(a->getAymax()) + " " +
           sx_d(a->getPzmin()) + " " + sx_d(a->getPzmax()) + " " + sx_d(a->getPymin()) + " " + sx_d(a->getPymax()) + " " +
           sx_d(a->getMean()) + " " + sx_d(a->getVariance()) + " " + sx_d(a->getSigma2e()) + " " + sx_vdd(a->getZDisc()) + " " + sx_vdd(a->getYDisc()) + " " +
           sx_b(a->isFlagDilution()) + " " + sx_b(a->isFlagGaussian()) + ")"; };
  // 23 AnamDiscreteDD: (mu scoef zcuts stats z2f f2z)   -- filled through the setters (the fit is another matter)
  m[23] = generic<AnamDiscreteDD>([](const Sx& r) -> ASerializable* {
      AnamDiscreteDD* a = AnamDiscreteDD::create(r[0].d(), r[1].d()); VectorDouble zc = VD(r[2]); a->setZCut(zc);
      int n = (int) zc.size(); a->setStats(VD(r[3]));
      MatrixSquareGeneral A(n), B(n); VectorDouble va = VD(r[4]), vb = VD(r[5]);
      for (int i = 0; i < n; i++) for (int j = 0; j < n; j++) { A.setValue(i, j, va[i * n + j]); B.setValue(i, j, vb[i * n + j]); }
      a->setPcaZ2F(A); a->setPcaF2Z(B); a->calculateMeanAndVariance(); return a; },
                                  [](const std::string& f) -> ASerializable* { return AnamDiscreteDD::createFromNF(f, false); });
  // 24 AnamDiscreteIR: (rcoef zcuts data)
  m[24] = generic<AnamDiscreteIR>([](const Sx& r) -> ASerializable* {
      AnamDiscreteIR* a = AnamDiscreteIR::create(r[0].d()); a->setZCut(VD(r[1])); a->fitFromArray(VD(r[2])); return a; },
                                  [](const std::string& f) -> ASerializable* { return AnamDiscreteIR::createFromNF(f, false); });
  // 25 MeshETurbo: (nx dx x0 angles polarized sel)   -- modelled: G = state; sel (optional) masks some grid nodes
  m[25] = generic<MeshETurbo>([](const Sx& r) -> ASerializable* { space((int) r[0].size());
      if (r[5].l.empty()) return MeshETurbo::create(VI(r[0]), VD(r[1]), VD(r[2]), VD(r[3]), r[4].b(), false);
      DbGrid* g = DbGrid::create(VI(r[0]), VD(r[1]), VD(r[2]), VD(r[3]));
      g->addColumns(VD(r[5]), "sel", ELoc::SEL, 0);
      MeshETurbo* t = MeshETurbo::createFromGrid(g, r[4].b(), false, (int) r[6].i());
      delete g; return t; },
                              [](const std::string& f) -> ASerializable* { return MeshETurbo::createFromNF(f, false); });
  m[25].G = [](const ASerializable* o) { auto t = dynamic_cast<const MeshETurbo*>(o); const Grid& g = t->getGrid();
    return "(" + sx_vi(g.getNXs()) + " " + sx_vdd(g.getDXs()) + " " + sx_vdd(g.getX0s()) + " " + sx_vdd(g.getRotMat()) + " " + sx_b(t->_isPolarized) + " " +
           sx_i(t->getMeshIndirect().getMode()) + " " + sx_vi(t->getMeshIndirect().getRelRanks()) + " " + sx_vi(t->getGridIndirect().getRelRanks()) + ")"; };
  // 26 MeshEStandard: (ndim apices(row-major) meshes(row-major, ndim+1 per mesh))
  m[26] = generic<MeshEStandard>([](const Sx& r) -> ASerializable* {
      int ndim = (int) r[0].i(); VectorDouble ap = VD(r[1]); VectorInt me = VI(r[2]);
      int nap = (int) ap.size() / ndim, nme = (int) me.size() / (ndim + 1);
      MatrixRectangular A(nap, ndim); for (int i = 0; i < nap; i++) for (int j = 0; j < ndim; j++) A.setValue(i, j, ap[i * ndim + j]);
      MatrixInt M(nme, ndim + 1); for (int i = 0; i < nme; i++) for (int j = 0; j <= ndim; j++) M.setValue(i, j, me[i * (ndim + 1) + j]);
      space(ndim);
      return MeshEStandard::createFromExternal(A, M, false); },
                                 [](const std::string& f) -> ASerializable* { return MeshEStandard::createFromNF(f, false); });
  // 27 Rule: (names rho)
  m[27] = generic<Rule>([](const Sx& r) -> ASerializable* { return Rule::createFromNames(VS(r[0]), r[1].d()); },
                        [](const std::string& f) -> ASerializable* { return Rule::createFromNF(f, false); });
  // 28 RuleShift: (names shift)   -- no createFromNF: reloaded through deserialize(std::istream&)
  m[28] = generic<RuleShift>([](const Sx& r) -> ASerializable* { return RuleShift::createFromNames(VS(r[0]), VD(r[1])); },
                             [](const std::string& f) -> ASerializable* { return load_stream<RuleShift>(f, "RuleShift"); });
  // 29 RuleShadow: (slope dsup down shift)
  m[29] = generic<RuleShadow>([](const Sx& r) -> ASerializable* { return new RuleShadow(r[0].d(), r[1].d(), r[2].d(), VD(r[3])); },
                              [](const std::string& f) -> ASerializable* { return load_stream<RuleShadow>(f, "RuleShadow"); });
  // 30 Faults: ((xs ys) ...)
  m[30] = generic<Faults>([](const Sx& r) -> ASerializable* { Faults* F = new Faults(); for (auto& l : r.l) { PolyLine2D pl(VD(l[0]), VD(l[1])); F->addFault(pl); } return F; },
                          [](const std::string& f) -> ASerializable* { return Faults::createFromNF(f, false); });
  // 31 FracEnviron: (xmax ymax deltax deltay mean stdev families((10 doubles)...) faults((coord orient ((thl thr rl rr)...))...))
  m[31] = generic<FracEnviron>([](const Sx& r) -> ASerializable* {
      FracEnviron* e = FracEnviron::create(r[0].d(), r[1].d(), r[2].d(), r[3].d(), r[4].d(), r[5].d());
      for (auto& f : r[6].l) { VectorDouble v = VD(f); e->addFamily(FracFamily(v[0], v[1], v[2], v[3], v[4], v[5], v[6], v[7], v[8], v[9])); }
      for (auto& f : r[7].l) { FracFault ft(f[0].d(), f[1].d()); for (auto& q : f[2].l) ft.addFaultPerFamily(q[0].d(), q[1].d(), q[2].d(), q[3].d()); e->addFault(ft); }
      return e; },
                               [](const std::string& f) -> ASerializable* { return FracEnviron::createFromNF(f, false); });
  // 32 NeighImage: (ndim radius skip [options])
  m[32] = generic<NeighImage>([](const Sx& r) -> ASerializable* { space((int) r[0].i()); NeighImage* n = NeighImage::create(VI(r[1]), (int) r[2].i());
      if (n != nullptr && r.size() > 3) { n->setFlagXvalid(r[3][1].b()); aneigh_opts(n, r[3]); } return n; },
                              [](const std::string& f) -> ASerializable* { return NeighImage::createFromNF(f, false); });

  // ---- getters of the classes modelled in the second wave (same layout as the objects of coq/C08/Model_rest.v, Model_rule.v)
  m[20].G = [](const ASerializable* o) { auto d = dynamic_cast<const DbLine*>(o);
    std::string s = "((";
    for (size_t i = 0; i < d->_lineAdds.size(); i++) { if (i) s += " "; s += sx_vi(d->_lineAdds[i]); }
    return s + ") " + g_db(d) + ")"; };
  m[20].X = [](const ASerializable* o) { auto d = dynamic_cast<const DbLine*>(o);
    return "(" + sx_s(d->toString()) + " " + x_db(d) + " " + sx_i(d->getLineNumber()) + ")"; };
  m[21].G = [](const ASerializable* o) { auto d = dynamic_cast<const DbGraphO*>(o);
    NF_Triplet t = d->_downArcs.getMatrixToTriplet();
    std::string s = "((";
    for (int i = 0; i < d->getArcNumber(); i++) { if (i) s += " "; s += "(" + sx_i(t.getRow(i)) + " " + sx_i(t.getCol(i)) + " " + sx_d(t.getValue(i)) + ")"; }
    return s + ") " + g_db(d) + ")"; };
  m[21].X = [](const ASerializable* o) { auto d = dynamic_cast<const DbGraphO*>(o);
    return "(" + sx_s(d->toString()) + " " + x_db(d) + " " + sx_i(d->_downArcs.getNRows()) + " " + sx_i(d->_downArcs.getNCols()) + ")"; };
  auto g_adisc = [](const AnamDiscrete* a) {
    return sx_vdd(a->getZCut()) + " " + sx_i(a->getNElem()) + " " + sx_vdd(a->getStats().getValues()); };
  m[23].G = [g_adisc](const ASerializable* o) { auto a = dynamic_cast<const AnamDiscreteDD*>(o);
    return "(" + g_adisc(a) + " " + sx_d(a->getSCoef()) + " " + sx_d(a->getMu()) + " " + sx_vdd(a->getPcaZ2Fs().getValues()) + " " + sx_vdd(a->getPcaF2Zs().getValues()) + ")"; };
  m[23].X = [](const ASerializable* o) { auto a = dynamic_cast<const AnamDiscreteDD*>(o);
    int n = a->getNCut(); std::string s = "(" + sx_s(a->toString()) + " " + sx_d(a->getMean()) + " " + sx_d(a->getVariance()) + " (";
    MatrixSquareGeneral A = a->getPcaZ2Fs();
    if (A.getNRows() == n && A.getNCols() == n) for (int i = 0; i < n; i++) for (int j = 0; j < n; j++) { if (i + j) s += " "; s += sx_d(A.getValue(i, j)); }
    s += ") (";
    for (int ic = 0; ic < a->getNClass(); ic++) for (int ie = 0; ie < a->getNElem(); ie++) { if (ic + ie) s += " "; s += sx_d(a->getStats().getValue(ic, ie)); }
    return s + "))"; };
  m[24].G = [g_adisc](const ASerializable* o) { auto a = dynamic_cast<const AnamDiscreteIR*>(o);
    return "(" + g_adisc(a) + " " + sx_d(a->getRCoef()) + ")"; };
  m[24].X = [](const ASerializable* o) { auto a = dynamic_cast<const AnamDiscreteIR*>(o);
    std::string s = "(" + sx_s(a->toString()) + " " + sx_d(a->getMean()) + " " + sx_d(a->getVariance()) + " (";
    for (int ic = 0; ic < a->getNClass(); ic++) for (int ie = 0; ie < a->getNElem(); ie++) { if (ic + ie) s += " "; s += sx_d(a->getStats().getValue(ic, ie)); }
    return s + "))"; };
  m[26].G = [](const ASerializable* o) { auto t = dynamic_cast<const MeshEStandard*>(o);
    return "(" + sx_i(t->getNDim()) + " " + sx_i(t->getNApices()) + " " + sx_i(t->getNApexPerMesh()) + " " + sx_i(t->getNMeshes()) + " " +
           sx_vdd(t->_apices.getValues()) + " " + sx_vi(t->_meshes.getValues()) + ")"; };
  m[26].X = [](const ASerializable* o) { auto t = dynamic_cast<const MeshEStandard*>(o);
    std::string s = "(" + sx_s(t->toString()) + " (";
    for (int i = 0; i < t->getNApices(); i++) for (int j = 0; j < t->getNDim(); j++) { if (i + j) s += " "; s += sx_d(t->getApexCoor(i, j)); }
    s += ") (";
    for (int i = 0; i < t->getNMeshes(); i++) for (int j = 0; j < t->getNApexPerMesh(); j++) { if (i + j) s += " "; s += sx_i(t->getApex(i, j)); }
    return s + "))"; };
  // a rule: (mode rho nodes) with the nodes (type facies) in prefix order (facies 0 for a threshold)
  static std::function<void(const Node*, std::string&)> walk = [](const Node* n, std::string& s) {
    if (n == nullptr) return;
    if (s.size() > 1) s += " ";
    bool thr = n->getOrient() != 0;
    s += "(" + sx_i(n->getOrient()) + " " + sx_i(thr ? 0 : n->getFacies()) + ")";
    walk(n->getR1(), s); walk(n->getR2(), s); };
  auto g_rule = [](const Rule* r) { std::string t = "("; walk(r->getMainNode(), t); t += ")";
    return "(" + sx_i(r->getModeRule().getValue()) + " " + sx_d(r->getRho()) + " " + t + ")"; };
  m[27].G = [g_rule](const ASerializable* o) { return g_rule(dynamic_cast<const Rule*>(o)); };
  m[28].G = [g_rule](const ASerializable* o) { auto r = dynamic_cast<const RuleShift*>(o);
    return "(" + g_rule(r) + " " + sx_d(r->getSlope()) + " " + sx_d(r->getShDown()) + " " + sx_d(r->getShDsup()) + " " + sx_vdd(r->getShift()) + ")"; };
  m[29].G = [g_rule](const ASerializable* o) { auto r = dynamic_cast<const RuleShadow*>(o);
    return "(" + g_rule(r) + " " + sx_d(r->getSlope()) + " " + sx_d(r->getShDown()) + " " + sx_d(r->getShDsup()) + " " + sx_vdd(r->getShift()) + ")"; };
  m[30].G = [](const ASerializable* o) { auto F = dynamic_cast<const Faults*>(o);
    std::string s = "(";
    for (int i = 0; i < F->getNFaults(); i++) { if (i) s += " "; s += g_pts(&F->getFault(i)); }
    return s + ")"; };
  m[31].G = [](const ASerializable* o) { auto e = dynamic_cast<const FracEnviron*>(o);
    std::string s = "(" + sx_d(e->getXmax()) + " " + sx_d(e->getYmax()) + " " + sx_d(e->getDeltax()) + " " + sx_d(e->getDeltay()) + " " + sx_d(e->getMean()) + " " + sx_d(e->getStdev()) + " (";
    for (int i = 0; i < e->getNFamilies(); i++) { const FracFamily& f = e->getFamily(i); if (i) s += " ";
      s += "(" + sx_d(f.getOrient()) + " " + sx_d(f.getDorient()) + " " + sx_d(f.getTheta0()) + " " + sx_d(f.getAlpha()) + " " + sx_d(f.getRatcst()) + " " +
           sx_d(f.getProp1()) + " " + sx_d(f.getProp2()) + " " + sx_d(f.getAterm()) + " " + sx_d(f.getBterm()) + " " + sx_d(f.getRange()) + ")"; }
    s += ") (";
    for (int i = 0; i < e->getNFaults(); i++) { const FracFault& f = e->getFault(i); if (i) s += " ";
      s += "(" + sx_d(f.getCoord()) + " " + sx_d(f.getOrient()) + " " + sx_vdd(f._thetal) + " " + sx_vdd(f._thetar) + " " + sx_vdd(f._rangel) + " " + sx_vdd(f._ranger) + ")"; }
    return s + "))"; };
  m[32].G = [](const ASerializable* o) { auto n = dynamic_cast<const NeighImage*>(o);
    return "(" + g_aneigh(n) + " " + sx_i(n->getSkip()) + " " + sx_vi(n->getImageRadius()) + ")"; };
}

static std::map<int, Cls>& classes() {
  static std::map<int, Cls> m;
  if (m.empty()) {
    m[1] = cls_unique(); m[2] = cls_bench(); m[3] = cls_cell(); m[4] = cls_moving(); m[5] = cls_table();
    m[6] = cls_polyline(); m[7] = cls_polyelem(); m[8] = cls_polygons(); m[9] = cls_hermite();
    m[10] = cls_db(); m[11] = cls_dbgrid(); m[12] = cls_vario(); m[13] = cls_model();
    more_classes(m);
  }
  return m;
}

static std::string run(const Sx& c) {
  long long kind = c[0].i();
  std::ostringstream o;
  ASerializable::unsetContainerName(); ASerializable::unsetPrefixName();
  if (kind == 1) {
    auto it = classes().find((int) c[1].i()); if (it == classes().end()) return "(-996 0)";
    Cls& K = it->second;
    std::string fa = path("a.nf"), fb = path("b.nf");
    std::remove(fa.c_str()); std::remove(fb.c_str());
    mark("build");
    ASerializable* A = K.build(c[2]);
    if (A == nullptr) return "(-995 0)";
    mark("getters");
    std::string G0 = K.G(A), X0 = K.X(A);
    mark("dump");
    trace_start(); bool okd = A->dumpToNF(fa, false); std::string tw = trace_take();
    std::string fileA = slurp(fa);
    mark("reload");
    trace_start(); ASerializable* B = K.load(fa); std::string tr = trace_take();
    std::string G1 = "()", X1 = "()", fileB;
    mark("getters-after-reload");
    if (B != nullptr) { G1 = K.G(B); X1 = K.X(B); mark("dump-again"); B->dumpToNF(fb, false); fileB = slurp(fb); }
    mark("done");
    o << "(" << sx_b(okd) << " " << sx_s(fileA) << " " << sx_b(B != nullptr) << " " << G0 << " " << X0 << " " << G1 << " " << X1 << " "
      << sx_s(fileB) << " " << tw << " " << tr << " " << sx_b(hook_present()) << ")";
    delete A; delete B;
  } else if (kind == 2) {
    auto it = classes().find((int) c[1].i()); if (it == classes().end()) return "(-996 0)";
    Cls& K = it->second;
    std::string fc = path("c.nf");
    { std::ofstream f(fc, std::ios::binary); f << c[2].str(); }
    ASerializable* B = K.load(fc);
    if (B == nullptr) o << "(0 () ())"; else { o << "(1 " << K.G(B) << " " << K.X(B) << ")"; delete B; }
  } else if (kind == 3) {
    // container / prefix settings: (3 container prefix name)
    std::string cont = c[1].str(), pref = c[2].str(), name = c[3].str();
    if (!cont.empty()) ASerializable::setContainerName(false, DIR + "/" + cont);
    if (!pref.empty()) ASerializable::setPrefixName(pref);
    space(2);
    NeighUnique* n = NeighUnique::create(false);
    bool okd = n->dumpToNF(name, false);
    NeighUnique* m = NeighUnique::createFromNF(name, false);
    std::string expected = ASerializable::buildFileName(2, name, false);
    std::ifstream probe(expected); bool exists = probe.good();
    o << "(" << sx_b(okd) << " " << sx_b(m != nullptr) << " " << sx_b(exists) << ")";
    delete n; delete m;
    ASerializable::unsetContainerName(); ASerializable::unsetPrefixName();
  } else if (kind == 4) {
    // grid exchange formats written and read back: (4 fmt nx dx x0 angles columns)   fmt 0 = Zycor, 1 = IfpEn
    int fmt = (int) c[1].i();
    VectorInt nx = VI(c[2]);
    space((int) nx.size());
    DbGrid* g = DbGrid::create(nx, VD(c[3]), VD(c[4]), VD(c[5]), ELoadBy::COLUMN, VectorDouble(), VectorString(), VectorString(), false, false);
    if (g == nullptr) return "(-995 0)";
    VectorInt cols;
    int k = 0;
    for (auto& col : c[6].l) { int iuid = g->addColumns(VD(col), "v" + std::to_string(++k), ELoc::Z, k - 1); cols.push_back(iuid); }
    std::string f = path(fmt == 0 ? "grid.zycor" : "grid.ifpen");
    std::remove(f.c_str());
    bool okw = false; DbGrid* h = nullptr;
    mark("grid-write");
    if (fmt == 0) { GridZycor w(f.c_str(), g); w.setCols(cols); if (w.isAuthorized()) okw = (w.writeInFile() == 0); }
    else { GridIfpEn w(f.c_str(), g); w.setCols(cols); if (w.isAuthorized()) okw = (w.writeInFile() == 0); }
    mark("grid-read");
    if (okw) { if (fmt == 0) { GridZycor r(f.c_str()); h = r.readGridFromFile(); } else { GridIfpEn r(f.c_str()); h = r.readGridFromFile(); } }
    mark("done");
    o << "(" << sx_b(okw) << " " << sx_b(h != nullptr);
    if (h != nullptr) {
      o << " " << sx_vi(h->getNXs()) << " " << sx_vdd(h->getDXs()) << " " << sx_vdd(h->getX0s()) << " " << sx_vdd(h->getAngles()) << " (";
      // the columns that are not coordinates, in order
      bool first = true;
      for (int j = 0; j < h->getColumnNumber(); j++) {
        ELoc t; int idx; h->getLocatorByColIdx(j, &t, &idx);
        if (t == ELoc::X) continue;
        std::string nm = h->getNameByColIdx(j); if (nm == "rank") continue;
        if (!first) o << " "; first = false;
        o << "(";
        for (int i = 0; i < h->getSampleNumber(); i++) { if (i) o << " "; o << sx_d(h->getValueByColIdx(i, j)); }
        o << ")";
      }
      o << ")";
    }
    o << ")";
    delete g; delete h;
  } else if (kind == 6) {
    // a sequence in ONE process: (6 (class recipe) (class recipe) ...): every object is built, then every object is written
    // (a<k>.nf, in the order of the list), then every file is reloaded -> ((okdump file okload G0 X0 G1 X1) ...)
    std::vector<ASerializable*> objs; std::vector<Cls*> ks;
    mark("build");
    for (size_t i = 1; i < c.size(); i++) {
      auto it = classes().find((int) c[i][0].i()); if (it == classes().end()) return "(-996 0)";
      ks.push_back(&it->second); objs.push_back(it->second.build(c[i][1]));
      if (objs.back() == nullptr) return "(-995 0)";
    }
    std::vector<std::string> G0, X0; std::vector<bool> okd;
    mark("getters");
    for (size_t i = 0; i < objs.size(); i++) { G0.push_back(ks[i]->G(objs[i])); X0.push_back(ks[i]->X(objs[i])); }
    mark("dump");
    for (size_t i = 0; i < objs.size(); i++) { std::string f = path(("a" + std::to_string(i) + ".nf").c_str()); std::remove(f.c_str()); okd.push_back(objs[i]->dumpToNF(f, false)); }
    mark("reload");
    o << "(";
    for (size_t i = 0; i < objs.size(); i++) {
      std::string f = path(("a" + std::to_string(i) + ".nf").c_str());
      ASerializable* B = ks[i]->load(f);
      o << (i ? " " : "") << "(" << sx_b(okd[i]) << " " << sx_s(slurp(f)) << " " << sx_b(B != nullptr) << " " << G0[i] << " " << X0[i] << " "
        << (B ? ks[i]->G(B) : std::string("()")) << " " << (B ? ks[i]->X(B) : std::string("()")) << ")";
      delete B;
    }
    o << ")";
    mark("done");
    for (auto p : objs) delete p;
  } else if (kind == 5) {
    // which covariance types have a range / a third parameter: ((type hasRange hasParam) ...)
    // (a type that cannot be created in a Euclidean context of dimension 1, 2 or 3 is left out)
    o << "(";
    auto it = ECov::getIterator(); bool first = true;
    while (it.hasNext()) {
      ECov t = *it; it.toNext();
      if (t == ECov::UNKNOWN || t == ECov::FUNCTION) continue;
      for (int nd = 2; nd != 4; nd = (nd == 2 ? 1 : (nd == 1 ? 3 : 4))) {
        try {
          space(nd);
          CovContext ctxt(1, nd);
          CovAniso cv(t, ctxt);
          if (!first) o << " "; first = false;
          o << "(" << t.getValue() << " " << (cv.hasRange() ? 1 : 0) << " " << (cv.hasParam() ? 1 : 0) << ")";
          break;
        } catch (...) { }
      }
    }
    o << ")";
  } else return "(-996 1)";
  return o.str();
}

int main(int argc, char** argv) {
  const char* d = getenv("VERIF_C08_DIR");
  DIR = d ? d : "/tmp/vb_C08/nf";
  // relative file names (container / prefix cases) must land in the scratch directory, never in the caller's one
  if (chdir(DIR.c_str()) != 0) { perror("chdir"); return 2; }
  return sx_main(argc, argv, run);
}

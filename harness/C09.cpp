// C09 harness: the loaders of gstlearn run on arbitrary file content, one case per line, under AddressSanitizer.
//   (0)                      -> corpus of valid files written by the library itself: ((cls (bytes...)) ...)
//   (1 cls (bytes...))       -> load the bytes as a file of class `cls`:
//        (status kind dump (resave reload idem usable) maxreq totreq)
//        status 0 = loader reported failure (null / error code), 1 = object returned, 2 = C++ exception escaped
//        kind   (status 2) 1 bad_alloc, 2 length_error, 3 other std::exception, 4 unknown
//        dump   class specific (Db, DbGrid, Table, Polygons: every field; others: ())
//        flags  after a successful load the object is printed (usable), saved again (resave), the saved file is
//               loaded (reload) and saved once more; idem = the two saved files are byte-identical.  -1 = exception.
//        maxreq / totreq = largest / cumulated size requested from operator new while loading
// A time-out (5 s CPU per case) prints (-3 0) and ends the process; a crash or a sanitizer report ends the process
// without a result line: the driver (checks/C09.py) resumes after the offending case.
#include <string>
#include <vector>
#include <new>
#include <cstdlib>
#include <cstring>
#include <fstream>
#include <sstream>
#include <csignal>
#include <unistd.h>
#include <fcntl.h>
#include <sys/time.h>
#include <sys/resource.h>
#include <iostream>
#include <stdexcept>
#include <map>
#include <set>
#include <memory>
#include <functional>
#include <algorithm>
#include "sx.hpp"

// ------------------------------------------------------------------ allocation monitor
static size_t g_maxreq = 0, g_tot = 0;
static bool g_track = false;
static const size_t CAP_ONE = (size_t) 256 << 20;   // one request above 256 MB: refused (std::bad_alloc)
static const size_t CAP_TOT = (size_t) 2048 << 20;  // cumulated requests during one load above 2 GB: refused
static void* verif_alloc(size_t n) {
  if (g_track) {
    if (n > g_maxreq) g_maxreq = n;
    g_tot += n;
    if (n > CAP_ONE || g_tot > CAP_TOT) throw std::bad_alloc();
  }
  void* p = malloc(n ? n : 1);
  if (!p) throw std::bad_alloc();
  return p;
}
void* operator new(size_t n) { return verif_alloc(n); }
void* operator new[](size_t n) { return verif_alloc(n); }
void operator delete(void* p) noexcept { free(p); }
void operator delete[](void* p) noexcept { free(p); }
void operator delete(void* p, size_t) noexcept { free(p); }
void operator delete[](void* p, size_t) noexcept { free(p); }
void* operator new(size_t n, const std::nothrow_t&) noexcept { try { return verif_alloc(n); } catch (...) { return nullptr; } }
void* operator new[](size_t n, const std::nothrow_t&) noexcept { try { return verif_alloc(n); } catch (...) { return nullptr; } }
void operator delete(void* p, const std::nothrow_t&) noexcept { free(p); }
void operator delete[](void* p, const std::nothrow_t&) noexcept { free(p); }

#define private public
#define protected public
#include "Db/Db.hpp"
#include "Db/DbGrid.hpp"
#include "Db/DbLine.hpp"
#include "Db/DbStringFormat.hpp"
#include "Matrix/Table.hpp"
#include "Polygon/Polygons.hpp"
#include "Polygon/PolyElem.hpp"
#include "Basic/PolyLine2D.hpp"
#include "Variogram/Vario.hpp"
#include "Variogram/VarioParam.hpp"
#include "Variogram/DirParam.hpp"
#include "Model/Model.hpp"
#include "Neigh/NeighMoving.hpp"
#include "Neigh/NeighUnique.hpp"
#include "Neigh/NeighBench.hpp"
#include "Neigh/NeighImage.hpp"
#include "Neigh/NeighCell.hpp"
#include "Anamorphosis/AnamHermite.hpp"
#include "Anamorphosis/AnamEmpirical.hpp"
#include "Anamorphosis/AnamDiscreteDD.hpp"
#include "Anamorphosis/AnamDiscreteIR.hpp"
#include "Mesh/MeshETurbo.hpp"
#include "Mesh/MeshEStandard.hpp"
#include "LithoRule/Rule.hpp"
#include "LithoRule/RuleShift.hpp"
#include "Faults/Faults.hpp"
#include "Basic/CSVformat.hpp"
#include "Basic/Law.hpp"
#include "Basic/OptDbg.hpp"
#include "OutputFormat/AOF.hpp"
#include "Enum/ELoc.hpp"
#include "Enum/ECov.hpp"
#include "geoslib_define.h"
#undef private
#undef protected

static std::string g_dir = "/tmp";
static int g_out = 1;
static std::string tmp(const char* tag) { return g_dir + "/c" + std::to_string((long) getpid()) + "_" + tag; }

static void on_timeout(int) {
  static const char msg[] = "(-3 0)\n";
  ssize_t r = write(g_out, msg, sizeof(msg) - 1); (void) r;
  _exit(97);
}
static void arm(int seconds) {
  struct itimerval it; memset(&it, 0, sizeof(it));
  it.it_value.tv_sec = seconds;
  setitimer(ITIMER_PROF, &it, nullptr);
}

static std::string slurp(const std::string& p) {
  std::ifstream f(p, std::ios::binary); std::stringstream s; s << f.rdbuf(); return s.str();
}
static void spit(const std::string& p, const std::string& b) {
  std::ofstream f(p, std::ios::binary | std::ios::trunc); f.write(b.data(), (std::streamsize) b.size());
}
static std::string sx_bytes(const std::string& b) {
  std::string s = "("; char buf[8];
  for (size_t i = 0; i < b.size(); i++) { snprintf(buf, sizeof buf, i ? " %d" : "%d", (int) (unsigned char) b[i]); s += buf; }
  return s + ")";
}

// ------------------------------------------------------------------ dumps
static std::string dumpDbCore(const Db* db) {
  std::ostringstream o;
  int ncol = db->_ncol, nech = db->_nech;
  o << "(" << ncol << " " << nech << " (";
  for (size_t i = 0; i < db->_colNames.size(); i++) o << (i ? " " : "") << sx_bytes(db->_colNames[i]);
  o << ") " << sx_vi(db->_uidcol) << " (";
  for (size_t t = 0; t < db->_p.size(); t++) o << (t ? " " : "") << sx_vi(db->_p[t]._r);
  o << ") (";
  // the array, column after column, as stored
  for (size_t i = 0; i < db->_array.size(); i++) o << (i ? " " : "") << sx_d(db->_array[i]);
  o << "))";
  return o.str();
}
static std::string dumpDb(const Db* db) { return dumpDbCore(db); }
static std::string dumpDbGrid(const DbGrid* g) {
  std::ostringstream o;
  const Grid& gr = g->_grid;
  o << "((" << gr._nDim << " " << sx_vi(gr._nx) << " " << sx_vd(gr._x0) << " " << sx_vd(gr._dx) << " "
    << sx_vd(gr._rotation.getAngles()) << ") " << dumpDbCore(g) << ")";
  return o.str();
}
static std::string dumpTable(const Table* t) {
  std::ostringstream o;
  int nr = t->getNRows(), nc = t->getNCols();
  o << "(" << nr << " " << nc << " (";
  bool first = true;
  for (int i = 0; i < nr; i++) for (int j = 0; j < nc; j++) { o << (first ? "" : " ") << sx_d(t->getValue(i, j)); first = false; }
  o << "))";
  return o.str();
}
static std::string dumpPolygons(const Polygons* p) {
  std::ostringstream o;
  o << "(";
  for (int i = 0; i < p->getPolyElemNumber(); i++) {
    const PolyElem& e = p->getPolyElem(i);
    o << (i ? " " : "") << "(" << sx_d(e.getZmin()) << " " << sx_d(e.getZmax()) << " " << sx_vd(e.getX()) << " " << sx_vd(e.getY()) << ")";
  }
  o << ")";
  return o.str();
}

static std::string dumpPolyLine(const PolyLine2D* p) { return "(" + sx_vd(p->getX()) + " " + sx_vd(p->getY()) + ")"; }
static std::string dumpPolyElem(const PolyElem* e) {
  return "(" + sx_d(e->getZmin()) + " " + sx_d(e->getZmax()) + " " + sx_vd(e->getX()) + " " + sx_vd(e->getY()) + ")";
}
static std::string dumpFaults(const Faults* f) {
  std::string s = "(";
  for (int i = 0; i < f->getNFaults(); i++) { if (i) s += " "; s += dumpPolyLine(&f->getFault(i)); }
  return s + ")";
}

static std::string dumpRule(const Rule* r) {
  std::ostringstream o; o << "(" << r->getModeRule().getValue() << " " << sx_d(r->getRho()) << ")"; return o.str();
}
static std::string dumpAnamH(const AnamHermite* a) {
  VectorDouble psi = a->getPsiHns();
  std::ostringstream o; o << "(" << psi.size() << " " << sx_vd(psi) << " " << sx_d(a->getRCoef()) << ")"; return o.str();
}
static std::string dumpNeighU(const NeighUnique* n) { return "(" + std::to_string((int) n->getNDim()) + ")"; }
static std::string dumpNeighB(const NeighBench* n) { return "(" + std::to_string((int) n->getNDim()) + " " + sx_d(n->getWidth()) + ")"; }
static std::string dumpNeighC(const NeighCell* n) { return "(" + std::to_string((int) n->getNDim()) + " " + std::to_string(n->getNMini()) + ")"; }
static std::string dumpNeighI(const NeighImage* n) {
  return "(" + std::to_string((int) n->getNDim()) + " " + std::to_string(n->getSkip()) + " " + std::to_string((int) n->_imageRadius.size()) + ")";
}
static std::string dumpNeighM(const NeighMoving* n) {
  return "(" + std::to_string((int) n->getNDim()) + " " + std::to_string(n->getNMini()) + " " + std::to_string(n->getNMaxi()) + ")";
}
static std::string dumpVario(const Vario* v) {
  std::ostringstream o;
  int nd = v->getDirectionNumber();
  o << "(" << v->getVariableNumber() << " " << nd << " " << v->getCalcul().getValue() << " (";
  for (int i = 0; i < nd; i++) o << (i ? " " : "") << v->getLagNumber(i);
  o << ") (";
  for (int i = 0; i < nd; i++) o << (i ? " " : "") << (i < (int) v->_sw.size() ? (long long) v->_sw[i].size() : -1LL);
  o << "))";
  return o.str();
}
static std::string dumpAnamD(const AnamDiscrete* a) {
  std::ostringstream o;
  o << a->getNCut() << " " << a->getNElem() << " " << sx_vd(a->getZCut()) << " " << sx_vd(a->getStats().getValues());
  return o.str();
}
static std::string dumpAnamDD(const AnamDiscreteDD* a) { return "(" + dumpAnamD(a) + " " + sx_d(a->getSCoef()) + " " + sx_d(a->getMu()) + ")"; }
static std::string dumpAnamIR(const AnamDiscreteIR* a) { return "(" + dumpAnamD(a) + " " + sx_d(a->getRCoef()) + ")"; }
static std::string dumpAnamE(const AnamEmpirical* a) {
  std::ostringstream o;
  o << "(" << a->getNDisc() << " " << sx_d(a->getSigma2e()) << " " << sx_vd(a->getZDisc()) << " " << sx_vd(a->getYDisc()) << ")";
  return o.str();
}
static std::string dumpDbLine(const DbLine* d) {
  std::ostringstream o;
  o << "((";
  for (size_t i = 0; i < d->_lineAdds.size(); i++) {
    o << (i ? " " : "") << "(";
    for (size_t j = 0; j < d->_lineAdds[i].size(); j++) o << (j ? " " : "") << d->_lineAdds[i][j];
    o << ")";
  }
  o << ") " << dumpDb(d) << ")";
  return o.str();
}
static std::string dumpTurbo(const MeshETurbo* t) {
  std::ostringstream o;
  o << "(" << t->getNDim() << " (";
  for (int i = 0; i < (int) t->getNDim(); i++) o << (i ? " " : "") << t->_grid.getNX(i);
  o << ") " << (t->_meshIndirect.isDefined() ? t->_meshIndirect.getRelSize() : -1)
    << " " << (t->_gridIndirect.isDefined() ? t->_gridIndirect.getRelSize() : -1) << ")";
  return o.str();
}
static std::string dumpModel(const Model* m) {
  std::ostringstream o;
  o << "(" << m->getDimensionNumber() << " " << m->getVariableNumber() << " " << m->getCovaNumber() << " " << m->getDriftNumber() << ")";
  return o.str();
}

// ------------------------------------------------------------------ one load
struct Outcome { int status = 0, kind = 0; std::string dump = "()"; int resave = 0, reload = 0, idem = 0, usable = 0; };

template <class T>
static void exercise(T* obj, Outcome& oc, std::function<T*(const std::string&)> loader, std::function<bool(const T*, const std::string&)> saver) {
  // the returned object must be usable: printed, saved, the saved file loads and saves to the same bytes
  try { std::string s = obj->toString(); oc.usable = 1; } catch (...) { oc.usable = -1; }
  std::string p2 = tmp("resave"), p3 = tmp("resave2");
  try {
    unlink(p2.c_str()); unlink(p3.c_str());
    oc.resave = saver(obj, p2) ? 1 : 0;
    if (oc.resave) {
      T* again = loader(p2);
      oc.reload = again != nullptr;
      if (again) {
        bool ok = saver(again, p3);
        oc.idem = ok && slurp(p2) == slurp(p3);
        delete again;
      }
    }
  } catch (...) { oc.resave = oc.resave ? oc.resave : -1; oc.reload = -1; }
}

template <class T>
static Outcome loadNF(const std::string& path, std::function<std::string(const T*)> dumper) {
  Outcome oc;
  std::function<T*(const std::string&)> loader = [](const std::string& p) { return T::createFromNF(p, false); };
  std::function<bool(const T*, const std::string&)> saver = [](const T* o, const std::string& p) { return o->dumpToNF(p, false) && !slurp(p).empty(); };
  T* obj = nullptr;
  g_maxreq = 0; g_tot = 0; g_track = true;
  try { obj = loader(path); }
  catch (const std::bad_alloc&) { g_track = false; oc.status = 2; oc.kind = 1; return oc; }
  catch (const std::length_error&) { g_track = false; oc.status = 2; oc.kind = 2; return oc; }
  catch (const std::exception& e) { g_track = false; oc.status = 2; oc.kind = 3; fprintf(stderr, "exception: %s\n", e.what()); return oc; }
  catch (...) { g_track = false; oc.status = 2; oc.kind = 4; return oc; }
  g_track = false;
  if (obj == nullptr) { oc.status = 0; return oc; }
  oc.status = 1;
  if (dumper) oc.dump = dumper(obj);
  exercise<T>(obj, oc, loader, saver);
  delete obj;
  return oc;
}

// CSV and grid exchange formats: same protocol, different entry points
static Outcome loadCSV(const std::string& path, int variant) {
  Outcome oc;
  CSVformat fmt(variant != 1, variant == 2 ? 1 : 0, variant == 3 ? ';' : ',', variant == 3 ? ',' : '.', "NA");
  int ncol_max = variant == 4 ? 2 : -1, nrow_max = variant == 4 ? 3 : -1;
  Db* db = nullptr;
  g_maxreq = 0; g_tot = 0; g_track = true;
  try { db = Db::createFromCSV(path, fmt, false, ncol_max, nrow_max, variant == 2); }
  catch (const std::bad_alloc&) { g_track = false; oc.status = 2; oc.kind = 1; return oc; }
  catch (const std::length_error&) { g_track = false; oc.status = 2; oc.kind = 2; return oc; }
  catch (const std::exception& e) { g_track = false; oc.status = 2; oc.kind = 3; return oc; }
  catch (...) { g_track = false; oc.status = 2; oc.kind = 4; return oc; }
  g_track = false;
  if (!db) return oc;
  oc.status = 1; oc.dump = dumpDb(db);
  std::function<Db*(const std::string&)> loader = [](const std::string& p) { return Db::createFromNF(p, false); };
  std::function<bool(const Db*, const std::string&)> saver = [](const Db* o, const std::string& p) { return o->dumpToNF(p, false); };
  exercise<Db>(db, oc, loader, saver);
  delete db;
  return oc;
}
static Outcome loadGridFmt(const std::string& path, int fmt) {
  Outcome oc;
  DbGrid* g = nullptr;
  g_maxreq = 0; g_tot = 0; g_track = true;
  try {
    switch (fmt) {
      case 0: g = db_grid_read_zycor(path.c_str(), 0); break;
      case 1: g = db_grid_read_ifpen(path.c_str(), 0); break;
      case 2: g = db_grid_read_f2g(path.c_str(), 0); break;
      case 3: g = db_grid_read_bmp(path.c_str(), 0); break;
    }
  }
  catch (const std::bad_alloc&) { g_track = false; oc.status = 2; oc.kind = 1; return oc; }
  catch (const std::length_error&) { g_track = false; oc.status = 2; oc.kind = 2; return oc; }
  catch (const std::exception& e) { g_track = false; oc.status = 2; oc.kind = 3; return oc; }
  catch (...) { g_track = false; oc.status = 2; oc.kind = 4; return oc; }
  g_track = false;
  if (!g) return oc;
  oc.status = 1; oc.dump = dumpDbGrid(g);
  std::function<DbGrid*(const std::string&)> loader = [](const std::string& p) { return DbGrid::createFromNF(p, false); };
  std::function<bool(const DbGrid*, const std::string&)> saver = [](const DbGrid* o, const std::string& p) { return o->dumpToNF(p, false); };
  exercise<DbGrid>(g, oc, loader, saver);
  delete g;
  return oc;
}

// class numbering shared with checks/C09.py and coq/C09/Run.v
enum { C_DB = 1, C_DBGRID = 2, C_TABLE = 3, C_POLYGONS = 4, C_VARIO = 5, C_MODEL = 6, C_NEIGHMOVING = 7, C_NEIGHUNIQUE = 8,
       C_NEIGHBENCH = 9, C_ANAMHERMITE = 10, C_POLYLINE = 11, C_MESHETURBO = 12, C_RULE = 13, C_FAULTS = 14, C_NEIGHIMAGE = 15,
       C_NEIGHCELL = 16, C_ANAMEMPIRICAL = 17, C_ANAMDD = 18, C_ANAMIR = 19, C_DBLINE = 20, C_POLYELEM = 21,
       C_CSV = 30 /* 30..34 = variants */, C_ZYCOR = 40, C_IFPEN = 41, C_F2G = 42, C_BMP = 43 };

static Outcome loadAny(int cls, const std::string& path) {
  switch (cls) {
    case C_DB: return loadNF<Db>(path, dumpDb);
    case C_DBGRID: return loadNF<DbGrid>(path, dumpDbGrid);
    case C_TABLE: return loadNF<Table>(path, dumpTable);
    case C_POLYGONS: return loadNF<Polygons>(path, dumpPolygons);
    case C_VARIO: return loadNF<Vario>(path, dumpVario);
    case C_MODEL: return loadNF<Model>(path, dumpModel);
    case C_NEIGHMOVING: return loadNF<NeighMoving>(path, dumpNeighM);
    case C_NEIGHUNIQUE: return loadNF<NeighUnique>(path, dumpNeighU);
    case C_NEIGHBENCH: return loadNF<NeighBench>(path, dumpNeighB);
    case C_ANAMHERMITE: return loadNF<AnamHermite>(path, dumpAnamH);
    case C_POLYLINE: return loadNF<PolyLine2D>(path, dumpPolyLine);
    case C_MESHETURBO: return loadNF<MeshETurbo>(path, dumpTurbo);
    case C_RULE: return loadNF<Rule>(path, dumpRule);
    case C_FAULTS: return loadNF<Faults>(path, dumpFaults);
    case C_NEIGHIMAGE: return loadNF<NeighImage>(path, dumpNeighI);
    case C_NEIGHCELL: return loadNF<NeighCell>(path, dumpNeighC);
    case C_ANAMEMPIRICAL: return loadNF<AnamEmpirical>(path, dumpAnamE);
    case C_ANAMDD: return loadNF<AnamDiscreteDD>(path, dumpAnamDD);
    case C_ANAMIR: return loadNF<AnamDiscreteIR>(path, dumpAnamIR);
    case C_DBLINE: return loadNF<DbLine>(path, dumpDbLine);
    case C_POLYELEM: return loadNF<PolyElem>(path, dumpPolyElem);
    case C_ZYCOR: case C_IFPEN: case C_F2G: case C_BMP: return loadGridFmt(path, cls - C_ZYCOR);
    default:
      if (cls >= C_CSV && cls < C_CSV + 5) return loadCSV(path, cls - C_CSV);
  }
  Outcome oc; oc.status = -1; return oc;
}

// ------------------------------------------------------------------ corpus written by the library itself
static std::string g_corpus;
static void keep(int cls, const std::string& path) {
  std::string b = slurp(path);
  if (b.empty()) { fprintf(stderr, "corpus: class %d not written\n", cls); return; }
  if (!g_corpus.empty()) g_corpus += " ";
  g_corpus += "(" + std::to_string(cls) + " " + sx_bytes(b) + ")";
}
template <class T> static void keepObj(int cls, T* o) {
  if (!o) { fprintf(stderr, "corpus: class %d not built\n", cls); return; }
  std::string p = tmp("corpus"); unlink(p.c_str());
  o->dumpToNF(p, false); keep(cls, p); delete o;
}
static Db* smallDb(int n, bool withNA) {
  VectorDouble tab;
  for (int i = 0; i < n; i++) tab.push_back(10. + 1.5 * i);
  for (int i = 0; i < n; i++) tab.push_back(20.25 - 3. * (i % 4));
  for (int i = 0; i < n; i++) tab.push_back(withNA && i % 3 == 1 ? TEST : 0.125 * i * i - 2.);
  for (int i = 0; i < n; i++) tab.push_back(i % 5 != 0);
  return Db::createFromSamples(n, ELoadBy::COLUMN, tab, {"east", "north", "grade", "keep"}, {"x1", "x2", "z1", "sel"}, false);
}
static std::string corpus() {
  g_corpus.clear();
  // Db
  keepObj(C_DB, smallDb(7, true));
  keepObj(C_DB, smallDb(1, false));
  { VectorDouble tab = {1, 2, 3, 4, 5, 6};
    keepObj(C_DB, Db::createFromSamples(3, ELoadBy::SAMPLE, tab, {"a", "b"}, {"z2", "NA"}, true)); }
  keepObj(C_DB, new Db());
  // DbGrid
  { DbGrid* g = DbGrid::create({4, 3}, {1., 2.}, {10., -5.}, {30., 0.});
    g->addColumnsByConstant(1, 1.5, "v", ELoc::Z); keepObj(C_DBGRID, g); }
  { DbGrid* g = DbGrid::create({2, 2, 2}, {1., 1., 0.5}); g->addColumnsByConstant(2, TEST, "w", ELoc::F); keepObj(C_DBGRID, g); }
  // Table
  { Table* t = Table::create(3, 2); for (int i = 0; i < 3; i++) for (int j = 0; j < 2; j++) t->setValue(i, j, i == 1 && j == 1 ? TEST : i + 0.5 * j); keepObj(C_TABLE, t); }
  keepObj(C_TABLE, Table::create(0, 0));
  // Polygons
  { Polygons* p = Polygons::create();
    PolyElem a({0, 4, 4, 0}, {0, 0, 3, 3}, TEST, TEST), b({10, 12, 11}, {1, 1, 2.5}, -1., 6.);
    p->addPolyElem(a); p->addPolyElem(b); keepObj(C_POLYGONS, p); }
  keepObj(C_POLYGONS, Polygons::create());
  keepObj(C_POLYELEM, new PolyElem({0, 4, 4, 0}, {0, 0, 3, 3}, 1., TEST));
  keepObj(C_POLYLINE, PolyLine2D::create({0, 1, 2.5, 4}, {0, 1, 0.5, 2}));
  // Vario, Model
  { Db* db = smallDb(12, false);
    VarioParam* vp = VarioParam::createOmniDirection(3, 4.);
    Vario* v = Vario::computeFromDb(*vp, db);
    keepObj(C_VARIO, v);
    std::vector<DirParam> dirs = DirParam::createMultiple(2, 3, 5.);
    VarioParam vp2; vp2.addMultiDirs(dirs);
    Vario* v2 = Vario::computeFromDb(vp2, db);
    keepObj(C_VARIO, v2);
    delete vp; delete db; }
  { Model* m = Model::createFromParam(ECov::SPHERICAL, 10., 2.);
    m->addCovFromParam(ECov::NUGGET, 0., 0.5);
    m->addCovFromParam(ECov::EXPONENTIAL, 0., 1.5, 1., {3., 8.}, VectorDouble(), {25., 0.});
    m->setDriftIRF(1);
    keepObj(C_MODEL, m); }
  keepObj(C_MODEL, Model::createFromParam(ECov::MATERN, 4., 1., 1.5));
  // Neighbourhoods
  keepObj(C_NEIGHMOVING, NeighMoving::create(false, 12, 25., 2, 4, 3));
  keepObj(C_NEIGHMOVING, NeighMoving::create(true, 8, 10., 1, 1, ITEST, {1., 2.}, {30., 0.}));
  keepObj(C_NEIGHUNIQUE, NeighUnique::create(false));
  keepObj(C_NEIGHBENCH, NeighBench::create(false, 2.5));
  keepObj(C_NEIGHIMAGE, NeighImage::create({2, 1}, 1));
  keepObj(C_NEIGHCELL, NeighCell::create(false, 2));
  // Anamorphoses
  { AnamHermite* a = AnamHermite::create(6); VectorDouble y; law_set_random_seed(4123);
    for (int i = 0; i < 60; i++) y.push_back(std::exp(law_gaussian()));
    a->fitFromArray(y); keepObj(C_ANAMHERMITE, a); }
  { AnamEmpirical* a = AnamEmpirical::create(20); VectorDouble y; law_set_random_seed(4123);
    for (int i = 0; i < 60; i++) y.push_back(std::exp(law_gaussian()));
    a->fitFromArray(y); keepObj(C_ANAMEMPIRICAL, a); }
  keepObj(C_ANAMDD, AnamDiscreteDD::create(1., 0.2));
  keepObj(C_ANAMIR, AnamDiscreteIR::create(0.3));
  // Meshes, rules, faults
  keepObj(C_MESHETURBO, MeshETurbo::create({3, 4}, {1., 1.}, {0., 0.}));
  keepObj(C_RULE, Rule::createFromNames({"S", "T", "F1", "F2", "F3"}));
  keepObj(C_RULE, Rule::createFromFaciesCount(4, 0.3));
  { Faults* f = new Faults(); f->addFault(PolyLine2D({0, 1, 2}, {0, 1, 0})); f->addFault(PolyLine2D({5, 6}, {1, 3})); keepObj(C_FAULTS, f); }
  keepObj(C_DBLINE, DbLine::createFillRandom(2, 3, 4));
  // grid exchange formats (one numeric column)
  { DbGrid* g = DbGrid::create({4, 3}, {1., 2.}, {10., -5.});
    VectorDouble v; for (int i = 0; i < 12; i++) v.push_back(i % 5 == 2 ? TEST : 1.25 * i);
    g->addColumns(v, "val", ELoc::Z);
    int icol = g->getColumnNumber() - 1;
    std::string p = tmp("corpus");
    unlink(p.c_str()); if (db_grid_write_zycor(p.c_str(), g, icol) == 0) keep(C_ZYCOR, p);
    unlink(p.c_str()); int ic[1] = { icol }; if (db_grid_write_ifpen(p.c_str(), g, 1, ic) == 0) keep(C_IFPEN, p);
    unlink(p.c_str()); if (db_grid_write_bmp(p.c_str(), g, icol) == 0) keep(C_BMP, p);
    delete g; }
  return "(" + g_corpus + ")";
}

static std::string run(const Sx& c) {
  long long kind = c[0].i();
  if (kind == 0) return corpus();
  if (kind == 1) {
    int cls = (int) c[1].i();
    std::string bytes = c[2].str();
    std::string path = tmp("in");
    spit(path, bytes);
    arm(5);
    Outcome oc = loadAny(cls, path);
    arm(0);
    std::ostringstream o;
    o << "(" << oc.status << " " << oc.kind << " " << oc.dump << " (" << oc.resave << " " << oc.reload << " " << oc.idem << " " << oc.usable << ") "
      << (unsigned long long) g_maxreq << " " << (unsigned long long) g_tot << ")";
    return o.str();
  }
  return "(-997 1)";
}

int main(int argc, char** argv) {
  if (argc < 3) { fprintf(stderr, "usage: %s cases.sx results [tmpdir]\n", argv[0]); return 2; }
  if (argc >= 4) g_dir = argv[3];
  FILE* in = fopen(argv[1], "r"); if (!in) { perror("open"); return 2; }
  g_out = open(argv[2], O_WRONLY | O_CREAT | O_APPEND, 0644); if (g_out < 0) { perror("open out"); return 2; }
  signal(SIGPROF, on_timeout);
  struct rlimit rl; rl.rlim_cur = rl.rlim_max = 0; setrlimit(RLIMIT_CORE, &rl);
  std::string line; int ch;
  for (;;) {
    line.clear();
    while ((ch = fgetc(in)) != EOF && ch != '\n') line.push_back((char) ch);
    if (line.empty() && ch == EOF) break;
    if (line.empty() || line[0] == '#') { if (ch == EOF) break; continue; }
    std::string r;
    try { r = run(sx_parse(line)); }
    catch (const std::exception& e) { r = "(-997 0)"; fprintf(stderr, "harness exception: %s\n", e.what()); }
    r += "\n";
    ssize_t w = write(g_out, r.data(), r.size()); (void) w;
    if (ch == EOF) break;
  }
  for (const char* t : {"in", "resave", "resave2", "corpus"}) unlink(tmp(t).c_str());
  return 0;
}

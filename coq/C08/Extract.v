From Coq Require Import Extraction ExtrOcamlBasic ExtrOcamlZBigInt ExtrOcamlString ZArith.
From Gst Require Import lib.Sx C08.Run.
(* ExtrOcamlString: ascii -> char, string -> char list (also keeps the extracted module from defining a type
   named [string], which the shared ocaml/driver.ml could not coexist with) *)
Extract Constant Z.gcd => "Big_int_Z.gcd_big_int".
Extract Constant Z.ggcd => "(fun a b -> let g = Big_int_Z.gcd_big_int a b in if Big_int_Z.sign_big_int g = 0 then (g, (a, b)) else (g, (Big_int_Z.div_big_int a g, Big_int_Z.div_big_int b g)))".
Extraction "model.ml" run.
